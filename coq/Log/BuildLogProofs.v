(* C08 — proofs about the byte-level build-log model of BuildLogDefs.v.
   No axioms are used (stdlib List/NArith/ZArith/Lia only). *)
From NinjaV Require Import Base.Bytes Log.BuildLogDefs.
Require Import ZifyBool ZifyNat ZifyN.

Local Open Scope N_scope.

(* ========================================================================================== *)
(** * A. Numbers: printers and C prefix parsers *)

Lemma digits_le_S base f n :
  digits_le base (S f) n =
  (n mod base) :: (if (n / base) =? 0 then [] else digits_le base f (n / base)).
Proof. reflexivity. Qed.

Lemma digits_le_value base f n :
  2 <= base -> n < 2 ^ N.of_nat f ->
  fold_right (fun d v => d + base * v) 0 (digits_le base (S f) n) = n.
Proof.
  intros Hb. revert n. induction f as [|f IH]; intros n Hn.
  - cbn [N.of_nat] in Hn. assert (n = 0) by (cbn in Hn; lia). subst n.
    cbn [digits_le]. rewrite N.div_0_l, N.mod_0_l by lia. cbn [N.eqb fold_right]. lia.
  - rewrite digits_le_S.
    destruct (N.eqb_spec (n / base) 0) as [Hz|Hnz].
    + cbn [fold_right]. pose proof (N.div_mod n base ltac:(lia)) as Hdm. rewrite Hz in Hdm. lia.
    + cbn [fold_right]. rewrite IH.
      * pose proof (N.div_mod n base ltac:(lia)) as Hdm. lia.
      * rewrite Nat2N.inj_succ, N.pow_succ_r' in Hn.
        apply N.div_lt_upper_bound; [lia|]. nia.
Qed.

Lemma digits_le_bound base f n :
  2 <= base -> Forall (fun d => d < base) (digits_le base f n).
Proof.
  intros Hb. revert n. induction f as [|f IH]; intros n; cbn [digits_le]; [constructor|].
  constructor; [apply N.mod_lt; lia|].
  destruct (n / base =? 0); [constructor|apply IH].
Qed.

Lemma digits_le_nonempty base f n : digits_le base (S f) n <> [].
Proof. cbn [digits_le]. discriminate. Qed.

Lemma size_nat_bound n : n < 2 ^ N.of_nat (N.size_nat n).
Proof.
  destruct n as [|p]; [cbn; lia|].
  cbn [N.size_nat]. induction p as [p IH|p IH|]; cbn [Pos.size_nat].
  - rewrite Nat2N.inj_succ, N.pow_succ_r'. lia.
  - rewrite Nat2N.inj_succ, N.pow_succ_r'. lia.
  - cbn. lia.
Qed.

(* digit characters *)
Definition is_base (base : N) : Prop := base = 10 \/ base = 16.

Lemma digit_val_char base d : is_base base -> d < base -> digit_val base (digit_char d) = Some d.
Proof.
  intros Hb Hd.
  assert (Hall : forallb (fun b => forallb (fun d => negb (d <? b) ||
             match digit_val b (digit_char d) with Some d' => d' =? d | None => false end)
             (map N.of_nat (seq 0 16))) [10; 16] = true) by (vm_compute; reflexivity).
  assert (Hin : In d (map N.of_nat (seq 0 16))).
  { apply in_map_iff. exists (N.to_nat d). split; [lia|]. apply in_seq. destruct Hb; lia. }
  cbn [forallb] in Hall. rewrite !andb_true_iff in Hall. destruct Hall as (H10 & H16 & _).
  destruct Hb as [-> | ->].
  - rewrite forallb_forall in H10. specialize (H10 d Hin).
    destruct (digit_val 10 (digit_char d)) as [d'|]; [|lia].
    f_equal. lia.
  - rewrite forallb_forall in H16. specialize (H16 d Hin).
    destruct (digit_val 16 (digit_char d)) as [d'|]; [|lia].
    f_equal. lia.
Qed.

(* big-endian value *)
Lemma parse_digits_app base (bs : list N) acc rest :
  is_base base -> Forall (fun d => d < base) bs ->
  parse_digits base acc (map digit_char bs ++ rest) =
  parse_digits base (fold_left (fun a d => a * base + d) bs acc) rest.
Proof.
  intros Hb. revert acc. induction bs as [|d bs IH]; intros acc Hall; [reflexivity|].
  inversion Hall as [|? ? Hd Hbs]; subst.
  cbn [map app parse_digits fold_left]. rewrite digit_val_char by assumption. apply IH; assumption.
Qed.

Definition stops (base : N) (rest : bytes) : Prop :=
  match rest with [] => True | c :: _ => digit_val base c = None end.

Lemma parse_digits_stop base acc rest : stops base rest -> parse_digits base acc rest = acc.
Proof. destruct rest as [|c r]; cbn; [reflexivity|]. intros ->. reflexivity. Qed.

Lemma parse_print base n rest :
  is_base base -> stops base rest ->
  parse_digits base 0 (print_N_base base n ++ rest) = n.
Proof.
  intros Hb Hs. unfold print_N_base. rewrite <- map_rev.
  assert (H2 : 2 <= base) by (destruct Hb; lia).
  rewrite parse_digits_app; [|assumption|apply Forall_rev, digits_le_bound; assumption].
  rewrite parse_digits_stop by assumption.
  rewrite <- fold_left_rev_right, rev_involutive.
  transitivity (fold_right (fun d v => d + base * v) 0 (digits_le base (S (N.size_nat n)) n)).
  - generalize (digits_le base (S (N.size_nat n)) n). intros ds.
    induction ds as [|d ds IHds]; [reflexivity|].
    cbn [fold_right]. rewrite IHds. lia.
  - apply digits_le_value; [assumption|apply size_nat_bound].
Qed.

(* the characters a printer produces *)
Definition is_digit_char (base : N) (c : byte) : Prop := exists d, digit_val base c = Some d.

Lemma print_N_base_chars base n : is_base base -> Forall (is_digit_char base) (print_N_base base n).
Proof.
  intros Hb. unfold print_N_base. apply Forall_rev. apply Forall_map.
  assert (H2 : 2 <= base) by (destruct Hb; lia).
  eapply Forall_impl; [|apply digits_le_bound; exact H2].
  intros d Hd. exists d. apply digit_val_char; assumption.
Qed.

Lemma print_N_base_nonempty base n : print_N_base base n <> [].
Proof.
  unfold print_N_base. intros H. apply (f_equal (@rev _)) in H. rewrite rev_involutive in H.
  cbn [rev] in H. apply map_eq_nil in H. revert H. apply digits_le_nonempty.
Qed.

(* a digit character is an ASCII alphanumeric: in particular not NUL, tab, newline, space, sign *)
Lemma digit_char_range base c : is_digit_char base c -> 48 <= c /\ c <= 122.
Proof.
  intros [d Hd]. unfold digit_val in Hd.
  destruct ((48 <=? c) && (c <=? 57)) eqn:H1; [lia|].
  destruct ((97 <=? c) && (c <=? 122)) eqn:H2; [lia|].
  destruct ((65 <=? c) && (c <=? 90)) eqn:H3; [lia|discriminate].
Qed.

Lemma digit10_range c : is_digit_char 10 c -> 48 <= c /\ c <= 57.
Proof.
  intros [d Hd]. unfold digit_val in Hd.
  destruct ((48 <=? c) && (c <=? 57)) eqn:H1; [lia|].
  destruct ((97 <=? c) && (c <=? 122)) eqn:H2.
  - destruct (c - 87 <? 10) eqn:H4; [lia|discriminate].
  - destruct ((65 <=? c) && (c <=? 90)) eqn:H3; [|discriminate].
    destruct (c - 55 <? 10) eqn:H4; [lia|discriminate].
Qed.

Lemma no_byte_Forall b s : no_byte b s = true <-> Forall (fun c => c <> b) s.
Proof.
  unfold no_byte. rewrite forallb_forall, Forall_forall.
  split; intros H c Hc; specialize (H c Hc); lia.
Qed.

Lemma no_byte_app b s t : no_byte b (s ++ t) = no_byte b s && no_byte b t.
Proof. unfold no_byte. apply forallb_app. Qed.

Lemma no_byte_cons b c s : no_byte b (c :: s) = negb (c =? b) && no_byte b s.
Proof. reflexivity. Qed.

Lemma print_N_no_byte base n b :
  is_base base -> (b < 48 \/ 122 < b) -> no_byte b (print_N_base base n) = true.
Proof.
  intros Hb Hr. apply no_byte_Forall.
  eapply Forall_impl; [|apply print_N_base_chars; exact Hb].
  intros c Hc. apply digit_char_range in Hc. lia.
Qed.

Lemma print_dec_Z_no_byte z b : (b < 45 \/ 122 < b) -> no_byte b (print_dec_Z z) = true.
Proof.
  intros Hr. unfold print_dec_Z. destruct (z <? 0)%Z.
  - rewrite no_byte_cons. unfold print_dec_N. rewrite print_N_no_byte; [|left; reflexivity|lia].
    lia.
  - apply print_N_no_byte; [left; reflexivity|lia].
Qed.

Lemma print_hex_no_byte h b : (b < 48 \/ 122 < b) -> no_byte b (print_hex_N h) = true.
Proof. apply print_N_no_byte. right; reflexivity. Qed.

(* first character of a decimal print: a digit *)
Lemma print_dec_N_head n : exists c r, print_dec_N n = c :: r /\ 48 <= c <= 57.
Proof.
  pose proof (print_N_base_chars 10 n (or_introl eq_refl)) as Hall.
  pose proof (print_N_base_nonempty 10 n) as Hne.
  unfold print_dec_N. destruct (print_N_base 10 n) as [|c r]; [congruence|].
  exists c, r. split; [reflexivity|]. inversion Hall as [|? ? Hc ?]; subst.
  apply digit10_range in Hc. lia.
Qed.

Lemma is_space_false c : 45 <= c -> is_space c = false.
Proof. intros H. unfold is_space. lia. Qed.

Lemma clamp64_id z : in_int64 z = true -> clamp64 z = z.
Proof.
  unfold clamp64, in_int64. intros H.
  destruct (Z.ltb_spec z (-9223372036854775808)) as [?|_]; [lia|].
  destruct (Z.ltb_spec 9223372036854775807 z) as [?|_]; [lia|reflexivity].
Qed.

Lemma strtoll_print z rest :
  in_int64 z = true -> stops 10 rest -> c_strtoll (print_dec_Z z ++ rest) = z.
Proof.
  intros Hr Hs. unfold c_strtoll, print_dec_Z.
  destruct (Z.ltb_spec z 0) as [Hneg|Hpos].
  - cbn [app skip_ws]. rewrite is_space_false by lia.
    unfold split_sign. cbn [N.eqb Pos.eqb].
    unfold print_dec_N. rewrite parse_print; [|left; reflexivity|assumption].
    rewrite N2Z.inj_abs_N. rewrite Z.abs_neq by lia. rewrite Z.opp_involutive.
    apply clamp64_id; assumption.
  - destruct (print_dec_N_head (Z.to_N z)) as (c & r & Hcr & Hc).
    rewrite Hcr. cbn [app skip_ws]. rewrite is_space_false by lia.
    unfold split_sign.
    destruct (N.eqb_spec c 45) as [?|_]; [lia|]. destruct (N.eqb_spec c 43) as [?|_]; [lia|].
    change (c :: r ++ rest) with ((c :: r) ++ rest). rewrite <- Hcr.
    unfold print_dec_N. rewrite parse_print; [|left; reflexivity|assumption].
    rewrite Z2N.id by lia. apply clamp64_id; assumption.
Qed.

Lemma wrap32_id z : in_int32 z = true -> wrap32 z = z.
Proof.
  unfold in_int32, wrap32. intros H.
  destruct (Z.leb_spec 2147483648 (z mod 4294967296)) as [Hm|Hm].
  - assert (z < 0)%Z.
    { destruct (Z.ltb_spec z 0) as [?|Hp]; [assumption|].
      rewrite Z.mod_small in Hm by lia. lia. }
    replace z with ((z + 4294967296) + (-1) * 4294967296)%Z at 1 by lia.
    rewrite Z.mod_add by lia. rewrite Z.mod_small by lia. lia.
  - destruct (Z.ltb_spec z 0) as [Hn|Hp].
    + exfalso. replace z with ((z + 4294967296) + (-1) * 4294967296)%Z in Hm by lia.
      rewrite Z.mod_add in Hm by lia. rewrite Z.mod_small in Hm by lia. lia.
    + apply Z.mod_small. lia.
Qed.

Lemma in_int32_64 z : in_int32 z = true -> in_int64 z = true.
Proof. unfold in_int32, in_int64. lia. Qed.

Lemma atoi_print z rest :
  in_int32 z = true -> stops 10 rest -> c_atoi (print_dec_Z z ++ rest) = z.
Proof.
  intros Hr Hs. unfold c_atoi. rewrite strtoll_print; [|apply in_int32_64; assumption|assumption].
  apply wrap32_id; assumption.
Qed.

Lemma skip_0x_hex s : Forall (is_digit_char 16) s -> skip_0x s = s.
Proof.
  intros H. destruct s as [|c0 [|c1 s]]; [reflexivity|reflexivity|].
  inversion H as [|? ? _ H1]; subst. inversion H1 as [|? ? [d Hd] _]; subst.
  cbn [skip_0x].
  destruct (N.eqb_spec c1 120) as [->|_]; [vm_compute in Hd; discriminate|].
  destruct (N.eqb_spec c1 88) as [->|_]; [vm_compute in Hd; discriminate|].
  rewrite andb_false_r. reflexivity.
Qed.

Lemma strtoull16_print h : h < 18446744073709551616 -> c_strtoull16 (print_hex_N h) = h.
Proof.
  intros Hh. unfold c_strtoull16.
  pose proof (print_N_base_chars 16 h (or_intror eq_refl)) as Hall.
  pose proof (print_N_base_nonempty 16 h) as Hne. fold (print_hex_N h) in Hall, Hne.
  assert (Hsk : skip_ws (print_hex_N h) = print_hex_N h /\
                split_sign (print_hex_N h) = (false, print_hex_N h)).
  { destruct (print_hex_N h) as [|c r]; [congruence|].
    inversion Hall as [|? ? Hc _]; subst. apply digit_char_range in Hc.
    cbn [skip_ws]. rewrite is_space_false by lia. split; [reflexivity|].
    unfold split_sign.
    destruct (N.eqb_spec c 45) as [?|_]; [lia|]. destruct (N.eqb_spec c 43) as [?|_]; [lia|].
    reflexivity. }
  destruct Hsk as [-> ->]. rewrite skip_0x_hex by assumption.
  pose proof (parse_print 16 h [] (or_intror eq_refl) I) as Hp. rewrite app_nil_r in Hp.
  fold (print_hex_N h) in Hp. rewrite Hp.
  destruct (N.leb_spec 18446744073709551616 h); [lia|reflexivity].
Qed.

Lemma stops_tab : stops 10 (9 :: []) /\ forall r, stops 10 (9 :: r).
Proof. split; [reflexivity|intros r; reflexivity]. Qed.

(* ========================================================================================== *)
(** * B. Field splitting and the record round trip *)

Lemma split_tab_no s : no_byte 9 s = true -> split_tab s = None.
Proof.
  induction s as [|c s IH]; [reflexivity|].
  rewrite no_byte_cons. intros H. cbn [split_tab].
  destruct (N.eqb_spec c 9) as [?|_]; [lia|]. rewrite IH by lia. reflexivity.
Qed.

Lemma split_tab_app a b : no_byte 9 a = true -> split_tab (a ++ 9 :: b) = Some (a, b).
Proof.
  induction a as [|c a IH]; [reflexivity|].
  rewrite no_byte_cons. intros H. cbn [app split_tab].
  destruct (N.eqb_spec c 9) as [?|_]; [lia|]. rewrite IH by lia. reflexivity.
Qed.

Lemma split_tab_app_no a b :
  no_byte 9 a = true ->
  split_tab (a ++ b) = match split_tab b with Some (x, y) => Some (a ++ x, y) | None => None end.
Proof.
  induction a as [|c a IH]; [intros _; cbn [app]; destruct (split_tab b) as [[x y]|]; reflexivity|].
  rewrite no_byte_cons. intros H. cbn [app split_tab].
  destruct (N.eqb_spec c 9) as [?|_]; [lia|]. rewrite IH by lia.
  destruct (split_tab b) as [[x y]|]; reflexivity.
Qed.

Lemma c_str_id s : no_byte 0 s = true -> c_str s = s.
Proof.
  induction s as [|c s IH]; [reflexivity|].
  rewrite no_byte_cons. intros H. cbn [c_str].
  destruct (N.eqb_spec c 0) as [?|_]; [lia|]. rewrite IH by lia. reflexivity.
Qed.

Lemma c_str_no_byte b s : no_byte b s = true -> no_byte b (c_str s) = true.
Proof.
  induction s as [|c s IH]; [reflexivity|].
  rewrite no_byte_cons. intros H. cbn [c_str].
  destruct (c =? 0); [reflexivity|]. rewrite no_byte_cons, IH by lia. lia.
Qed.

Lemma wf_entry_inv e :
  wf_entry e ->
  e_out e <> [] /\ no_byte 0 (e_out e) = true /\ no_byte 9 (e_out e) = true /\
  no_byte 10 (e_out e) = true /\ in_int32 (e_start e) = true /\ in_int32 (e_end e) = true /\
  in_int64 (e_mtime e) = true /\ e_hash e < 18446744073709551616.
Proof.
  unfold wf_entry, wf_entryb. rewrite !andb_true_iff. intros H.
  destruct H as (((((((H1 & H2) & H3) & H4) & H5) & H6) & H7) & H8).
  repeat split; try assumption; [|lia].
  intros Heq. rewrite Heq in H1. discriminate.
Qed.

Lemma atoi_print0 z : in_int32 z = true -> c_atoi (print_dec_Z z) = z.
Proof. intros H. rewrite <- (app_nil_r (print_dec_Z z)). apply atoi_print; [assumption|exact I]. Qed.

Lemma strtoll_print0 z : in_int64 z = true -> c_strtoll (print_dec_Z z) = z.
Proof. intros H. rewrite <- (app_nil_r (print_dec_Z z)). apply strtoll_print; [assumption|exact I]. Qed.

Lemma parse_render e : wf_entry e -> parse_line (render_body e) = Some e.
Proof.
  intros Hwf. destruct (wf_entry_inv e Hwf) as (_ & H0 & H9 & _ & Hs & He & Hm & Hh).
  unfold parse_line, render_body.
  rewrite split_tab_app by (apply print_dec_Z_no_byte; lia).
  rewrite split_tab_app by (apply print_dec_Z_no_byte; lia).
  rewrite split_tab_app by (apply print_dec_Z_no_byte; lia).
  rewrite c_str_id by assumption.
  rewrite split_tab_app by assumption.
  rewrite !atoi_print0, strtoll_print0, strtoull16_print by assumption.
  destruct e; reflexivity.
Qed.

Lemma render_body_no_nl e : no_byte 10 (e_out e) = true -> no_byte 10 (render_body e) = true.
Proof.
  intros H. unfold render_body.
  repeat (rewrite no_byte_app || rewrite no_byte_cons).
  rewrite !print_dec_Z_no_byte by lia. rewrite print_hex_no_byte by lia.
  rewrite c_str_no_byte by assumption. reflexivity.
Qed.

(* ========================================================================================== *)
(** * C. LineReader on files whose lines fit the buffer *)

Lemma find_byte_none b (s : bytes) : no_byte b s = true -> find_byte b s = None.
Proof.
  induction s as [|c s IH]; [reflexivity|].
  rewrite no_byte_cons. intros H. cbn [find_byte].
  destruct (N.eqb_spec c b) as [?|_]; [lia|]. rewrite IH by lia. reflexivity.
Qed.

Lemma find_byte_app b (l r : bytes) : no_byte b l = true -> find_byte b (l ++ b :: r) = Some (length l).
Proof.
  induction l as [|c l IH]; [intros _; cbn [app find_byte]; rewrite N.eqb_refl; reflexivity|].
  rewrite no_byte_cons. intros H. cbn [app find_byte length].
  destruct (N.eqb_spec c b) as [?|_]; [lia|]. rewrite IH by lia. reflexivity.
Qed.

Lemma find_byte_prefix (P : bytes) : forall (Q l R' : bytes) j,
  find_byte 10 P = Some j -> P ++ Q = l ++ 10 :: R' -> no_byte 10 l = true ->
  j = length l /\ firstn j P = l /\ skipn (S j) P ++ Q = R' /\ (j < length P)%nat.
Proof.
  induction P as [|c P IH]; intros Q l R' j Hf Heq Hl; [discriminate|].
  cbn [find_byte] in Hf. destruct (N.eqb_spec c 10) as [->|Hc].
  - injection Hf as <-. destruct l as [|c' l].
    + cbn [app] in Heq. injection Heq as Heq. cbn [length firstn skipn]. repeat split; [assumption|lia].
    + cbn [app] in Heq. injection Heq as <- _. rewrite no_byte_cons in Hl. lia.
  - destruct (find_byte 10 P) as [j'|] eqn:Hf'; [|discriminate]. injection Hf as <-.
    destruct l as [|c' l].
    + cbn [app] in Heq. injection Heq as Hcc _. congruence.
    + cbn [app] in Heq. injection Heq as <- Heq. rewrite no_byte_cons in Hl.
      destruct (IH Q l R' j' eq_refl Heq ltac:(lia)) as (H1 & H2 & H3 & H4).
      cbn [length]. repeat split; [lia| |exact H3|lia].
      cbn [firstn]. rewrite H2. reflexivity.
Qed.

Lemma firstn_line B (l R' : bytes) :
  (length l < B)%nat -> firstn B (l ++ 10 :: R') = l ++ 10 :: firstn (B - S (length l)) R'.
Proof.
  intros H. rewrite firstn_app, firstn_all2 by lia.
  replace (B - length l)%nat with (S (B - S (length l))) by lia. reflexivity.
Qed.

(* the logical remainder of the stream, for the two kinds of reader states *)
Definition st_init (st : lr_state) (R : bytes) : Prop :=
  (lr_cur st = [] \/ lr_le st = None) /\ lr_rest st = R.

Definition st_some (B : nat) (st : lr_state) (R : bytes) : Prop :=
  exists i, lr_le st = Some i /\ (i < length (lr_cur st))%nat /\
            R = skipn (S i) (lr_cur st) ++ lr_rest st /\ (length (lr_cur st) <= B)%nat.

Lemma read_line_init_nil B st : st_init st [] -> read_line B st = None.
Proof.
  intros [Hc Hr]. unfold read_line. rewrite Hr.
  destruct Hc as [Hc|Hc]; rewrite Hc.
  - rewrite firstn_nil. reflexivity.
  - rewrite firstn_nil. destruct (lr_cur st); reflexivity.
Qed.

Lemma read_line_init B st (R : bytes) :
  (0 < B)%nat -> st_init st R -> R <> [] ->
  read_line B st =
  Some {| lr_cur := firstn B R; lr_le := find_byte 10 (firstn B R); lr_rest := skipn B R |}.
Proof.
  intros HB [Hc Hr] Hne. unfold read_line. rewrite Hr.
  assert (Hfirst : match lr_cur st, lr_le st with
                   | _ :: _, Some i => Some (skipn (S i) (lr_cur st), R)
                   | _, _ => match firstn B R with
                             | [] => None
                             | chunk => Some (chunk, skipn B R)
                             end
                   end = Some (firstn B R, skipn B R)).
  { assert (Hch : firstn B R <> []).
    { destruct R as [|c R]; [congruence|]. destruct B as [|B]; [lia|]. discriminate. }
    destruct Hc as [Hc|Hc]; rewrite Hc.
    - destruct (firstn B R); [congruence|reflexivity].
    - destruct (lr_cur st); destruct (firstn B R); try congruence; reflexivity. }
  rewrite Hfirst.
  destruct (find_byte 10 (firstn B R)) as [i|] eqn:Hf; [reflexivity|].
  assert (Hfill : firstn (B - length (firstn B R)) (skipn B R) = [] /\
                  skipn (B - length (firstn B R)) (skipn B R) = skipn B R).
  { rewrite firstn_length. destruct (Nat.le_ge_cases B (length R)) as [Hle|Hge].
    - replace (B - Nat.min B (length R))%nat with 0%nat by lia. split; reflexivity.
    - rewrite (skipn_all2 R) by lia. rewrite firstn_nil, skipn_nil. split; reflexivity. }
  destruct Hfill as [-> ->]. rewrite app_nil_r, Hf. reflexivity.
Qed.

Lemma read_line_some B st (R : bytes) :
  st_some B st R ->
  exists P Q, read_line B st = Some {| lr_cur := P; lr_le := find_byte 10 P; lr_rest := Q |} /\
              P ++ Q = R /\ (length P <= B)%nat /\
              (find_byte 10 P = None -> P = firstn B R /\ Q = skipn B R).
Proof.
  intros (i & Hle & Hi & HR & Hlen). unfold read_line. rewrite Hle.
  destruct (lr_cur st) as [|c0 cur0] eqn:Hcur; [cbn in Hi; lia|]. rewrite <- Hcur in *.
  set (cur1 := skipn (S i) (lr_cur st)) in *.
  assert (Hl1 : (length cur1 <= B)%nat) by (unfold cur1; rewrite skipn_length; lia).
  destruct (find_byte 10 cur1) as [j|] eqn:Hf.
  - exists cur1, (lr_rest st). rewrite Hf.
    split; [reflexivity|]. split; [symmetry; assumption|]. split; [assumption|discriminate].
  - exists (cur1 ++ firstn (B - length cur1) (lr_rest st)), (skipn (B - length cur1) (lr_rest st)).
    assert (HP : cur1 ++ firstn (B - length cur1) (lr_rest st) = firstn B R).
    { rewrite HR, firstn_app, (firstn_all2 cur1) by lia. reflexivity. }
    assert (HQ : skipn (B - length cur1) (lr_rest st) = skipn B R).
    { rewrite HR, skipn_app, (skipn_all2 cur1) by lia. reflexivity. }
    split; [reflexivity|]. split; [|split; [|intros _; split; assumption]].
    + rewrite <- app_assoc, firstn_skipn. symmetry; assumption.
    + rewrite HP, firstn_length. lia.
Qed.

Definition st_ok (B : nat) (st : lr_state) (R : bytes) : Prop :=
  (st_init st R /\ R <> []) \/ st_some B st R.

(* one ReadLine on a stream that starts with a complete short line *)
Lemma read_line_line B st (l R' : bytes) :
  (0 < B)%nat -> st_ok B st (l ++ 10 :: R') -> no_byte 10 l = true -> (length l < B)%nat ->
  exists st', read_line B st = Some st' /\ lr_le st' = Some (length l) /\
              firstn (length l) (lr_cur st') = l /\ st_some B st' R' /\
              (st_init st (l ++ 10 :: R') -> lr_cur st' = firstn B (l ++ 10 :: R')).
Proof.
  intros HB Hok Hl Hlen.
  assert (Hfind : find_byte 10 (firstn B (l ++ 10 :: R')) = Some (length l)).
  { rewrite firstn_line by assumption. apply find_byte_app; assumption. }
  assert (Hgen : forall P Q : bytes, P ++ Q = l ++ 10 :: R' -> (length P <= B)%nat ->
                 find_byte 10 P = Some (length l) ->
                 firstn (length l) P = l /\
                 st_some B {| lr_cur := P; lr_le := find_byte 10 P; lr_rest := Q |} R').
  { intros P Q HPQ HPB Hf.
    destruct (find_byte_prefix P Q l R' (length l) Hf HPQ Hl) as (_ & H2 & H3 & H4).
    split; [assumption|]. exists (length l). cbn [lr_cur lr_le lr_rest].
    repeat split; [assumption|assumption|symmetry; assumption|assumption]. }
  destruct Hok as [[Hinit Hne]|Hsome].
  - rewrite (read_line_init B st _ HB Hinit Hne). eexists. split; [reflexivity|].
    cbn [lr_cur lr_le lr_rest].
    destruct (Hgen (firstn B (l ++ 10 :: R')) (skipn B (l ++ 10 :: R'))) as [G1 G2].
    { apply firstn_skipn. } { rewrite firstn_length; lia. } { assumption. }
    repeat split; [assumption|assumption|assumption].
  - destruct (read_line_some B st _ Hsome) as (P & Q & Hrd & HPQ & HPB & Hnone).
    assert (Hf : find_byte 10 P = Some (length l)).
    { destruct (find_byte 10 P) as [j|] eqn:Hf.
      - destruct (find_byte_prefix P Q l R' j Hf HPQ Hl) as (-> & _). reflexivity.
      - destruct (Hnone eq_refl) as [HP _]. unfold bytes, byte in *. congruence. }
    rewrite Hrd. eexists. split; [reflexivity|]. cbn [lr_cur lr_le lr_rest].
    destruct (Hgen P Q HPQ HPB Hf) as [G1 G2].
    repeat split; [assumption|assumption|assumption|].
    intros [Hc _]. destruct Hsome as (i & Hle & Hi & _).
    destruct Hc as [Hc|Hc]; [rewrite Hc in Hi; cbn in Hi; lia|congruence].
Qed.

(* one ReadLine on a final fragment without newline: returned with line_end = NULL, then EOF *)
Lemma read_line_frag B st (frag : bytes) :
  (0 < B)%nat -> st_ok B st frag -> no_byte 10 frag = true -> (length frag <= B)%nat ->
  exists st', read_line B st = Some st' /\ lr_le st' = None /\ lr_cur st' = frag /\
              read_line B st' = None.
Proof.
  intros HB Hok Hnl Hlen.
  assert (Hfn : firstn B frag = frag) by (apply firstn_all2; lia).
  assert (Hsk : skipn B frag = []) by (apply skipn_all2; lia).
  assert (Hend : read_line B {| lr_cur := frag; lr_le := None; lr_rest := [] |} = None).
  { apply read_line_init_nil. split; [right|]; reflexivity. }
  destruct Hok as [[Hinit Hne]|Hsome].
  - rewrite (read_line_init B st _ HB Hinit Hne). rewrite Hfn, Hsk, (find_byte_none 10 frag Hnl).
    eexists. split; [reflexivity|]. cbn [lr_cur lr_le]. repeat split. assumption.
  - destruct (read_line_some B st _ Hsome) as (P & Q & Hrd & HPQ & HPB & Hnone).
    assert (Hf : find_byte 10 P = None).
    { apply find_byte_none. rewrite <- HPQ, no_byte_app in Hnl. lia. }
    destruct (Hnone Hf) as [HP HQ]. rewrite Hfn in HP. rewrite Hsk in HQ. subst P Q.
    rewrite Hrd, Hf. eexists. split; [reflexivity|]. cbn [lr_cur lr_le]. repeat split. assumption.
Qed.

(* ---- the load loop on short lines ---- *)

Definition join_lines (lines : list bytes) : bytes := concat (map (fun l => l ++ [10]) lines).

Definition short_line (B : nat) (l : bytes) : Prop := no_byte 10 l = true /\ (length l < B)%nat.

Lemma join_lines_cons l ls rest :
  join_lines (l :: ls) ++ rest = l ++ 10 :: (join_lines ls ++ rest).
Proof. unfold join_lines. cbn [map concat]. rewrite <- !app_assoc. reflexivity. Qed.

Lemma join_lines_app a b : join_lines (a ++ b) = join_lines a ++ join_lines b.
Proof. unfold join_lines. rewrite map_app, concat_app. reflexivity. Qed.

Lemma length_join_lines lines : (length lines <= length (join_lines lines))%nat.
Proof.
  induction lines as [|l ls IH]; [cbn; lia|].
  unfold join_lines in *. cbn [map concat length]. rewrite !app_length. cbn [length]. unfold bytes, byte in *. lia.
Qed.

Lemma load_loop_S B fuel seen ver st acc :
  load_loop B (S fuel) seen ver st acc =
  match read_line B st with
  | None => load_finish seen ver acc
  | Some st' =>
    let ver' := if (ver =? 0)%Z then scan_signature (lr_cur st') else ver in
    if (ver =? 0)%Z && (ver' <? oldest_supported_version)%Z then LDiscard true true
    else if (ver =? 0)%Z && (current_version <? ver')%Z then LDiscard false true
    else
      match lr_le st' with
      | None => load_loop B fuel true ver' st' acc
      | Some i => load_loop B fuel true ver' st' (load_step acc (firstn i (lr_cur st')))
      end
  end.
Proof. reflexivity. Qed.

Lemma loop_lines B : (0 < B)%nat -> forall lines fuel st acc ver frag,
  ver <> 0%Z -> st_some B st (join_lines lines ++ frag) ->
  Forall (short_line B) lines -> no_byte 10 frag = true -> (length frag <= B)%nat ->
  (length lines + 2 <= fuel)%nat ->
  load_loop B fuel true ver st acc = load_finish true ver (fold_left load_step lines acc).
Proof.
  intros HB lines. induction lines as [|l ls IH]; intros fuel st acc ver frag Hv Hst Hsh Hnl Hlen Hfuel.
  - destruct fuel as [|[|fuel]]; [cbn in Hfuel; lia|cbn in Hfuel; lia|].
    cbn [join_lines map concat app] in Hst.
    destruct (read_line_frag B st frag HB (or_intror Hst) Hnl Hlen) as (st' & Hrd & Hle & _ & Hend).
    rewrite load_loop_S, Hrd. cbn zeta.
    destruct (Z.eqb_spec ver 0) as [?|_]; [contradiction|]. cbn [andb].
    rewrite Hle, load_loop_S, Hend. reflexivity.
  - destruct fuel as [|fuel]; [cbn in Hfuel; lia|].
    rewrite join_lines_cons in Hst. inversion Hsh as [|? ? [Hl1 Hl2] Hsh']; subst.
    destruct (read_line_line B st l _ HB (or_intror Hst) Hl1 Hl2)
      as (st' & Hrd & Hle & Hcur & Hst' & _).
    rewrite load_loop_S, Hrd. cbn zeta.
    destruct (Z.eqb_spec ver 0) as [?|_]; [contradiction|]. cbn [andb].
    rewrite Hle, Hcur. cbn [fold_left].
    apply (IH fuel st' (load_step acc l) ver frag); try assumption. cbn [length] in Hfuel. lia.
Qed.

Definition load_spec_res (ver : Z) (acc : load_acc) : load_res :=
  if (ver <? oldest_supported_version)%Z then LDiscard true true
  else if (current_version <? ver)%Z then LDiscard false true
  else load_finish true ver acc.

Lemma match_nonempty {A} (x : bytes) (a b : A) :
  x <> [] -> match x with [] => a | _ :: _ => b end = b.
Proof. destruct x; [congruence|reflexivity]. Qed.

(* The loader on a file all of whose lines fit the buffer: version from sscanf on the first
   buffer-full, then a fold over the complete lines; the final unterminated chunk is ignored. *)
Theorem load_short_lines B lines frag :
  (0 < B)%nat -> Forall (short_line B) lines -> no_byte 10 frag = true -> (length frag <= B)%nat ->
  load_log_buf B (join_lines lines ++ frag) =
  match join_lines lines ++ frag with
  | [] => LOk [] false
  | _ :: _ => load_spec_res (scan_signature (firstn B (join_lines lines ++ frag)))
                            (fold_left load_step lines la_empty)
  end.
Proof.
  intros HB Hsh Hnl Hlen. unfold load_log_buf.
  destruct lines as [|l ls].
  - cbn [join_lines map concat app]. destruct frag as [|c f].
    + rewrite load_loop_S. rewrite read_line_init_nil; [reflexivity|].
      split; [left|]; reflexivity.
    + assert (Hok : st_ok B (lr_init (c :: f)) (c :: f)).
      { left. split; [split; [left|]; reflexivity|discriminate]. }
      destruct (read_line_frag B _ _ HB Hok Hnl Hlen) as (st' & Hrd & Hle & Hcur & Hend).
      rewrite load_loop_S, Hrd. cbn zeta. change (0 =? 0)%Z with true. cbn [andb].
      rewrite Hcur, (firstn_all2 (c :: f)) by lia.
      unfold load_spec_res.
      destruct (scan_signature (c :: f) <? oldest_supported_version)%Z; [reflexivity|].
      destruct (current_version <? scan_signature (c :: f))%Z; [reflexivity|].
      rewrite Hle, load_loop_S, Hend. reflexivity.
  - rewrite join_lines_cons. inversion Hsh as [|? ? [Hl1 Hl2] Hsh']; subst.
    set (R' := join_lines ls ++ frag).
    assert (Hinit : st_init (lr_init (l ++ 10 :: R')) (l ++ 10 :: R')).
    { split; [left|]; reflexivity. }
    assert (Hok : st_ok B (lr_init (l ++ 10 :: R')) (l ++ 10 :: R')).
    { left. split; [assumption|]. destruct l; discriminate. }
    destruct (read_line_line B _ l R' HB Hok Hl1 Hl2) as (st' & Hrd & Hle & Hcur & Hst' & Hfirst).
    rewrite match_nonempty by (destruct l; discriminate).
    rewrite load_loop_S, Hrd. cbn zeta. change (0 =? 0)%Z with true. cbn [andb].
    rewrite Hle. cbn beta iota. rewrite Hcur, (Hfirst Hinit). unfold load_spec_res.
    generalize (scan_signature (firstn B (l ++ 10 :: R'))). intros ver.
    destruct (Z.ltb_spec ver oldest_supported_version) as [?|Hv1]; [reflexivity|].
    destruct (current_version <? ver)%Z; [reflexivity|].
    apply (loop_lines B HB ls _ st' (load_step la_empty l) ver frag); try assumption.
    + unfold oldest_supported_version in Hv1. lia.
    + rewrite app_length. cbn [length]. unfold R'. rewrite app_length.
      pose proof (length_join_lines ls). lia.
Qed.

(* ========================================================================================== *)
(** * D. The entry table: upsert, last_wins, lookup *)

Definition upsert_all (es l : list entry) : list entry := fold_left (fun acc e => upsert e acc) es l.

Lemma has_out_lookup n l :
  has_out n l = match lookup_out n l with Some _ => true | None => false end.
Proof.
  induction l as [|x l IH]; [reflexivity|]. cbn [has_out lookup_out].
  destruct (bytes_eqb (e_out x) n); [reflexivity|]. exact IH.
Qed.

Lemma length_replace_out e l : length (replace_out e l) = length l.
Proof.
  induction l as [|x l IH]; [reflexivity|]. cbn [replace_out].
  destruct (bytes_eqb (e_out x) (e_out e)); cbn [length]; [reflexivity|]. rewrite IH. reflexivity.
Qed.

Lemma length_upsert e l :
  length (upsert e l) = if has_out (e_out e) l then length l else S (length l).
Proof.
  unfold upsert. destruct (has_out (e_out e) l).
  - apply length_replace_out.
  - rewrite app_length. cbn [length]. lia.
Qed.

Lemma bytes_eqb_sym a b : bytes_eqb a b = bytes_eqb b a.
Proof.
  destruct (bytes_eqb_spec a b) as [->|Hne].
  - symmetry. apply bytes_eqb_refl.
  - destruct (bytes_eqb_spec b a) as [->|_]; [congruence|reflexivity].
Qed.

Lemma bytes_eqb_trans_l a b c : bytes_eqb a b = true -> bytes_eqb a c = bytes_eqb b c.
Proof. intros H. apply bytes_eqb_eq in H. subst. reflexivity. Qed.

Lemma lookup_out_app n l1 l2 :
  lookup_out n (l1 ++ l2) =
  match lookup_out n l1 with Some x => Some x | None => lookup_out n l2 end.
Proof.
  induction l1 as [|x l1 IH]; [reflexivity|]. cbn [app lookup_out].
  destruct (bytes_eqb (e_out x) n); [reflexivity|exact IH].
Qed.

Lemma lookup_replace_out n e l :
  has_out (e_out e) l = true ->
  lookup_out n (replace_out e l) = if bytes_eqb (e_out e) n then Some e else lookup_out n l.
Proof.
  induction l as [|x l IH]; [discriminate|]. cbn [has_out replace_out lookup_out].
  destruct (bytes_eqb (e_out x) (e_out e)) eqn:Hx.
  - intros _. cbn [lookup_out]. rewrite (bytes_eqb_trans_l _ _ n Hx).
    destruct (bytes_eqb (e_out e) n); reflexivity.
  - cbn [orb]. intros Hh. cbn [lookup_out]. rewrite IH by assumption.
    destruct (bytes_eqb (e_out x) n) eqn:Hxn; [|reflexivity].
    destruct (bytes_eqb (e_out e) n) eqn:Hen; [|reflexivity].
    apply bytes_eqb_eq in Hxn. apply bytes_eqb_eq in Hen.
    rewrite Hxn, <- Hen, bytes_eqb_refl in Hx. discriminate.
Qed.

Lemma lookup_upsert n e l :
  lookup_out n (upsert e l) = if bytes_eqb (e_out e) n then Some e else lookup_out n l.
Proof.
  unfold upsert. destruct (has_out (e_out e) l) eqn:Hh.
  - apply lookup_replace_out; assumption.
  - rewrite lookup_out_app. cbn [lookup_out].
    destruct (bytes_eqb (e_out e) n) eqn:Hen.
    + apply bytes_eqb_eq in Hen. subst n. rewrite has_out_lookup in Hh.
      destruct (lookup_out (e_out e) l); [discriminate|reflexivity].
    + destruct (lookup_out n l); reflexivity.
Qed.

Lemma lookup_upsert_all n es : forall l,
  lookup_out n (upsert_all es l) =
  match lookup_out n (rev es) with Some x => Some x | None => lookup_out n l end.
Proof.
  induction es as [|e es IH]; intros l; [reflexivity|].
  cbn [upsert_all fold_left rev]. fold (upsert_all es (upsert e l)).
  rewrite IH, lookup_out_app, lookup_upsert. cbn [lookup_out].
  destruct (lookup_out n (rev es)); [reflexivity|].
  destruct (bytes_eqb (e_out e) n); reflexivity.
Qed.

Lemma lookup_last_wins n es : lookup_out n (last_wins es) = latest n es.
Proof.
  unfold last_wins, latest. fold (upsert_all es []). rewrite lookup_upsert_all. cbn [lookup_out].
  destruct (lookup_out n (rev es)); reflexivity.
Qed.

(* output names are unique in the table *)
Definition nodup_out (l : list entry) : Prop := NoDup (map e_out l).

Lemma has_out_In n l : has_out n l = true <-> In n (map e_out l).
Proof.
  induction l as [|x l IH]; cbn [has_out map In]; [split; [discriminate|tauto]|].
  rewrite orb_true_iff, IH, bytes_eqb_eq. tauto.
Qed.

Lemma map_out_replace e l : map e_out (replace_out e l) = map e_out l.
Proof.
  induction l as [|x l IH]; [reflexivity|]. cbn [replace_out].
  destruct (bytes_eqb (e_out x) (e_out e)) eqn:Hx; cbn [map].
  - apply bytes_eqb_eq in Hx. rewrite Hx. reflexivity.
  - rewrite IH. reflexivity.
Qed.

Lemma NoDup_snoc {A} (l : list A) a : NoDup l -> ~ In a l -> NoDup (l ++ [a]).
Proof.
  intros H1 H2. apply (NoDup_Add (Add_app a l [])). rewrite app_nil_r. split; assumption.
Qed.

Lemma nodup_upsert e l : nodup_out l -> nodup_out (upsert e l).
Proof.
  unfold nodup_out, upsert. intros H. destruct (has_out (e_out e) l) eqn:Hh.
  - rewrite map_out_replace. assumption.
  - rewrite map_app. cbn [map]. apply NoDup_snoc; [assumption|].
    intros Hin. apply has_out_In in Hin. congruence.
Qed.

Lemma nodup_upsert_all es : forall l, nodup_out l -> nodup_out (upsert_all es l).
Proof.
  induction es as [|e es IH]; intros l H; [assumption|].
  cbn [upsert_all fold_left]. apply IH, nodup_upsert, H.
Qed.

Lemma nodup_last_wins es : nodup_out (last_wins es).
Proof. apply nodup_upsert_all. constructor. Qed.

Lemma lookup_In_nodup y l : nodup_out l -> In y l -> lookup_out (e_out y) l = Some y.
Proof.
  unfold nodup_out. induction l as [|x l IH]; intros Hnd Hin; [destruct Hin|].
  cbn [map] in Hnd. inversion Hnd as [|? ? Hnotin Hnd']; subst.
  cbn [lookup_out]. destruct Hin as [->|Hin].
  - rewrite bytes_eqb_refl. reflexivity.
  - destruct (bytes_eqb_spec (e_out x) (e_out y)) as [Heq|_]; [|apply IH; assumption].
    exfalso. apply Hnotin. rewrite Heq. apply in_map. assumption.
Qed.

Lemma lookup_out_In n l x : lookup_out n l = Some x -> In x l /\ e_out x = n.
Proof.
  induction l as [|y l IH]; [discriminate|]. cbn [lookup_out].
  destruct (bytes_eqb_spec (e_out y) n) as [Heq|_].
  - intros [= <-]. split; [left; reflexivity|assumption].
  - intros H. destruct (IH H) as [H1 H2]. split; [right; assumption|assumption].
Qed.

(* every entry of the table is the latest record of its output *)
Lemma In_last_wins_latest y es : In y (last_wins es) -> latest (e_out y) es = Some y.
Proof.
  intros H. rewrite <- lookup_last_wins. apply lookup_In_nodup; [apply nodup_last_wins|assumption].
Qed.

Lemma latest_In n es x : latest n es = Some x -> In x es /\ e_out x = n.
Proof.
  unfold latest. intros H. apply lookup_out_In in H. destruct H as [H1 H2].
  split; [apply in_rev; assumption|assumption].
Qed.

(* with pairwise distinct outputs nothing is overwritten *)
Lemma upsert_all_nodup es : forall l, nodup_out (l ++ es) -> upsert_all es l = l ++ es.
Proof.
  induction es as [|e es IH]; intros l H; [symmetry; apply app_nil_r|].
  cbn [upsert_all fold_left]. fold (upsert_all es (upsert e l)).
  assert (Hh : has_out (e_out e) l = false).
  { destruct (has_out (e_out e) l) eqn:Hh; [|reflexivity]. exfalso.
    apply has_out_In in Hh. unfold nodup_out in H. rewrite map_app in H. cbn [map] in H.
    apply NoDup_remove_2 in H. apply H. apply in_or_app. left. assumption. }
  unfold upsert at 1. rewrite Hh. rewrite IH.
  - rewrite <- app_assoc. reflexivity.
  - rewrite <- app_assoc. exact H.
Qed.

Lemma last_wins_nodup l : nodup_out l -> last_wins l = l.
Proof. intros H. apply (upsert_all_nodup l []). exact H. Qed.

Lemma nodup_filter f l : nodup_out l -> nodup_out (filter f l).
Proof.
  unfold nodup_out. induction l as [|x l IH]; intros H; [constructor|].
  cbn [map] in H. inversion H as [|? ? Hnotin Hnd]; subst. cbn [filter].
  destruct (f x); [|apply IH; assumption].
  cbn [map]. constructor; [|apply IH; assumption].
  intros Hin. apply Hnotin. apply in_map_iff in Hin. destruct Hin as (y & Hy & Hin).
  apply filter_In in Hin. rewrite <- Hy. apply in_map. tauto.
Qed.

(* ---- the fold of load_step over lines that parse ---- *)

Definition acc_of (l : list entry) (t : N) : load_acc :=
  {| la_entries := l; la_unique := N.of_nat (length l); la_total := t |}.

Lemma load_step_some l t line e :
  parse_line line = Some e -> load_step (acc_of l t) line = acc_of (upsert e l) (t + 1).
Proof.
  intros Hp. unfold load_step, acc_of. rewrite Hp. cbn [la_entries la_unique la_total].
  rewrite length_upsert. destruct (has_out (e_out e) l); f_equal; lia.
Qed.

Lemma load_step_none acc line : parse_line line = None -> load_step acc line = acc.
Proof. intros Hp. unfold load_step. rewrite Hp. reflexivity. Qed.

Lemma fold_load_step lines : forall ents l t,
  Forall2 (fun line e => parse_line line = Some e) lines ents ->
  fold_left load_step lines (acc_of l t) = acc_of (upsert_all ents l) (t + N.of_nat (length ents)).
Proof.
  induction lines as [|line lines IH]; intros ents l t H; inversion H as [|? e ? ents' Hp H']; subst.
  - cbn [fold_left upsert_all length]. f_equal. lia.
  - cbn [fold_left]. rewrite (load_step_some l t line e Hp). rewrite (IH ents' _ _ H').
    cbn [upsert_all fold_left length]. f_equal. lia.
Qed.

Lemma Forall2_render es :
  Forall wf_entry es -> Forall2 (fun line e => parse_line line = Some e) (map render_body es) es.
Proof.
  induction es as [|e es IH]; intros H; [constructor|].
  inversion H as [|? ? He Hes]; subst. cbn [map]. constructor; [apply parse_render; assumption|].
  apply IH; assumption.
Qed.

(* ========================================================================================== *)
(** * E. Files written by ninja: header + records *)

Definition header_line : bytes := [35; 32; 110; 105; 110; 106; 97; 32; 108; 111; 103; 32; 118; 55].

Lemma log_header_eq : log_header = header_line ++ [10].
Proof. vm_compute. reflexivity. Qed.

Lemma length_log_header : length log_header = 15%nat.
Proof. vm_compute. reflexivity. Qed.

Lemma parse_header_line : parse_line header_line = None.
Proof. vm_compute. reflexivity. Qed.

Lemma scan_header rest : scan_signature (log_header ++ rest) = 7%Z.
Proof. rewrite log_header_eq. vm_compute. reflexivity. Qed.

Lemma load_buf_size_ge : (15 <= load_buf_size)%nat.
Proof. unfold load_buf_size. lia. Qed.

Definition fits (B : nat) (e : entry) : Prop := (length (render_entry e) <= B)%nat.

Definition needs_of (ents : list entry) : bool :=
  needs_recompaction_of (N.of_nat (length (last_wins ents))) (N.of_nat (length ents)).

(* what a well-formed log holding the records [ents] (in file order) loads as *)
Definition loaded (ents : list entry) : load_res := LOk (last_wins ents) (needs_of ents).

Lemma concat_render es : concat (map render_entry es) = join_lines (map render_body es).
Proof. unfold join_lines. rewrite map_map. reflexivity. Qed.

Lemma short_header B : (15 <= B)%nat -> short_line B header_line.
Proof. intros H. split; [reflexivity|]. cbn [header_line length]. lia. Qed.

Lemma short_body B e : wf_entry e -> fits B e -> short_line B (render_body e).
Proof.
  intros Hwf Hf. destruct (wf_entry_inv e Hwf) as (_ & _ & _ & Hnl & _).
  split; [apply render_body_no_nl; assumption|].
  unfold fits, render_entry in Hf. rewrite app_length in Hf. cbn [length] in Hf. lia.
Qed.

Lemma short_bodies B es :
  Forall wf_entry es -> Forall (fits B) es -> Forall (short_line B) (map render_body es).
Proof.
  induction es as [|e es IH]; intros Hw Hf; [constructor|].
  inversion Hw; inversion Hf; subst. cbn [map]. constructor; [apply short_body; assumption|].
  apply IH; assumption.
Qed.

(* the work horse: header, then lines that parse, then an unterminated tail *)
Lemma load_header_lines B lines ents (frag : bytes) :
  (15 <= B)%nat -> Forall (short_line B) lines ->
  Forall2 (fun line e => parse_line line = Some e) lines ents ->
  no_byte 10 frag = true -> (length frag <= B)%nat ->
  load_log_buf B (log_header ++ join_lines lines ++ frag) = loaded ents.
Proof.
  intros HB Hsh Hp Hnl Hlen.
  replace (log_header ++ join_lines lines ++ frag)
    with (join_lines (header_line :: lines) ++ frag)
    by (rewrite join_lines_cons, log_header_eq, <- app_assoc; reflexivity).
  rewrite load_short_lines; [|lia|constructor; [apply short_header; assumption|assumption]
                              |assumption|assumption].
  rewrite match_nonempty by (rewrite join_lines_cons; discriminate).
  replace (join_lines (header_line :: lines) ++ frag)
    with (log_header ++ join_lines lines ++ frag)
    by (rewrite join_lines_cons, log_header_eq, <- app_assoc; reflexivity).
  rewrite firstn_app, (firstn_all2 log_header) by (rewrite length_log_header; lia).
  rewrite scan_header. unfold load_spec_res.
  change (7 <? oldest_supported_version)%Z with false.
  change (current_version <? 7)%Z with false. cbn iota.
  cbn [fold_left]. rewrite (load_step_none _ _ parse_header_line).
  change la_empty with (acc_of [] 0). rewrite (fold_load_step lines ents [] 0 Hp).
  unfold load_finish, acc_of, loaded, needs_of, last_wins. cbn [la_entries la_unique la_total].
  change (7 <? current_version)%Z with false. cbn [orb]. reflexivity.
Qed.

(* ---- torn files: which records are complete, what the tail is ---- *)

Lemma no_byte_firstn b n (s : bytes) : no_byte b s = true -> no_byte b (firstn n s) = true.
Proof.
  revert n. induction s as [|c s IH]; intros n H; [rewrite firstn_nil; reflexivity|].
  destruct n as [|n]; [reflexivity|]. cbn [firstn]. rewrite no_byte_cons in *.
  rewrite IH by lia. lia.
Qed.

Lemma firstn_records a : forall es,
  firstn a (concat (map render_entry es)) =
  concat (map render_entry (complete_prefix_from a es)) ++ torn_fragment_from a es.
Proof.
  intros es. revert a. induction es as [|e es IH]; intros a.
  - cbn. rewrite firstn_nil. reflexivity.
  - cbn [map concat complete_prefix_from torn_fragment_from].
    destruct (Nat.leb_spec (length (render_entry e)) a) as [Hle|Hgt].
    + rewrite firstn_app, firstn_all2 by lia. cbn [map concat]. rewrite IH, <- app_assoc. reflexivity.
    + rewrite firstn_app. replace (a - length (render_entry e))%nat with 0%nat by lia.
      cbn [firstn map concat app]. apply app_nil_r.
Qed.

Lemma torn_fragment_ok B a : forall es,
  Forall wf_entry es -> Forall (fits B) es ->
  no_byte 10 (torn_fragment_from a es) = true /\ (length (torn_fragment_from a es) <= B)%nat.
Proof.
  intros es. revert a. induction es as [|e es IH]; intros a Hw Hf.
  - split; [reflexivity|cbn; lia].
  - inversion Hw as [|? ? Hwe Hw']; inversion Hf as [|? ? Hfe Hf']; subst.
    cbn [torn_fragment_from].
    destruct (Nat.leb_spec (length (render_entry e)) a) as [Hle|Hgt]; [apply IH; assumption|].
    unfold render_entry in *. rewrite app_length in Hgt. cbn [length] in Hgt.
    rewrite firstn_app. replace (a - length (render_body e))%nat with 0%nat by lia.
    cbn [firstn]. rewrite app_nil_r. split.
    + apply no_byte_firstn, render_body_no_nl.
      destruct (wf_entry_inv e Hwe) as (_ & _ & _ & Hnl & _). assumption.
    + rewrite firstn_length. unfold fits, render_entry in Hfe. rewrite app_length in Hfe.
      cbn [length] in Hfe. lia.
Qed.

Lemma complete_prefix_Forall (P : entry -> Prop) a : forall es,
  Forall P es -> Forall P (complete_prefix_from a es).
Proof.
  intros es. revert a. induction es as [|e es IH]; intros a H; [constructor|].
  inversion H; subst. cbn [complete_prefix_from].
  destruct (length (render_entry e) <=? a)%nat; [constructor; [assumption|apply IH; assumption]|constructor].
Qed.

(* a file cut at k >= 15 bytes *)
Lemma firstn_file k es :
  (15 <= k)%nat ->
  firstn k (log_header ++ concat (map render_entry es)) =
  log_header ++ join_lines (map render_body (complete_prefix k es)) ++ torn_fragment k es.
Proof.
  intros Hk. rewrite firstn_app, (firstn_all2 log_header) by (rewrite length_log_header; lia).
  rewrite firstn_records, concat_render. unfold complete_prefix, torn_fragment. reflexivity.
Qed.

(* ---------------------------------------------------------------------------------------- *)
(** ** C08_roundtrip *)

Theorem C08_roundtrip_buf B es :
  (15 <= B)%nat -> Forall wf_entry es -> Forall (fits B) es ->
  load_log_buf B (log_header ++ concat (map render_entry es)) = loaded es.
Proof.
  intros HB Hw Hf. rewrite concat_render.
  rewrite <- (app_nil_r (join_lines (map render_body es))).
  apply load_header_lines; [assumption|apply short_bodies; assumption|apply Forall2_render; assumption
                           |reflexivity|cbn; lia].
Qed.

Theorem C08_roundtrip es :
  Forall wf_entry es -> Forall (fits load_buf_size) es ->
  load_log (log_header ++ concat (map render_entry es)) =
  LOk (last_wins es)
      (needs_recompaction_of (N.of_nat (length (last_wins es))) (N.of_nat (length es))).
Proof. apply C08_roundtrip_buf, load_buf_size_ge. Qed.

(* ---------------------------------------------------------------------------------------- *)
(** ** C08_torn *)

(* an unterminated small file *)
Lemma load_small B (frag : bytes) :
  (0 < B)%nat -> no_byte 10 frag = true -> (length frag <= B)%nat ->
  load_log_buf B frag =
  match frag with [] => LOk [] false | _ :: _ => load_spec_res (scan_signature frag) la_empty end.
Proof.
  intros HB Hnl Hlen.
  pose proof (load_short_lines B [] frag HB (Forall_nil _) Hnl Hlen) as H.
  cbn [join_lines map concat app fold_left] in H. rewrite H.
  rewrite firstn_all2 by lia. reflexivity.
Qed.

(* what Load does with a log cut inside the signature line (k < 15):
   k = 0: empty file, LOAD_SUCCESS with no entries;
   0 < k < 14: sscanf finds no version, log_version stays 0 < 7: "too old", file unlinked;
   k = 14: "# ninja log v7" without newline: version 7 accepted, no entries. *)
Definition torn_header_result (k : nat) : load_res :=
  if (k =? 0)%nat then LOk [] false
  else if (k <? 14)%nat then LDiscard true true
  else LOk [] false.

Lemma torn_header_buf B k (rest : bytes) :
  (15 <= B)%nat -> (k < 15)%nat ->
  load_log_buf B (firstn k (log_header ++ rest)) = torn_header_result k.
Proof.
  intros HB Hk. rewrite log_header_eq. unfold header_line.
  do 15 (destruct k as [|k];
         [cbn [app firstn]; rewrite load_small;
          [vm_compute; reflexivity|lia|reflexivity|cbn [length]; lia]|]).
  lia.
Qed.

Theorem C08_torn_buf B es k :
  (15 <= B)%nat -> Forall wf_entry es -> Forall (fits B) es ->
  load_log_buf B (firstn k (log_header ++ concat (map render_entry es))) =
  if (k <? length log_header)%nat then torn_header_result k
  else loaded (complete_prefix k es).
Proof.
  intros HB Hw Hf. rewrite length_log_header.
  destruct (Nat.ltb_spec k 15) as [Hk|Hk]; [apply torn_header_buf; assumption|].
  rewrite firstn_file by assumption.
  destruct (torn_fragment_ok B (k - length log_header) es Hw Hf) as [Hnl Hlen].
  apply load_header_lines; try assumption.
  - apply short_bodies; apply complete_prefix_Forall; assumption.
  - apply Forall2_render. apply complete_prefix_Forall; assumption.
Qed.

Theorem C08_torn es k :
  Forall wf_entry es -> Forall (fits load_buf_size) es ->
  load_log (firstn k (log_header ++ concat (map render_entry es))) =
  if (k <? length log_header)%nat then torn_header_result k
  else LOk (last_wins (complete_prefix k es))
           (needs_recompaction_of (N.of_nat (length (last_wins (complete_prefix k es))))
                                  (N.of_nat (length (complete_prefix k es)))).
Proof. apply C08_torn_buf, load_buf_size_ge. Qed.

(* ---------------------------------------------------------------------------------------- *)
(** ** OLD behaviour (record_append_old, before the fix): appending after a torn tail merges lines *)

Lemma parse_line_fields (f1 f2 f3 f4 r : bytes) :
  no_byte 9 f1 = true -> no_byte 9 f2 = true -> no_byte 9 f3 = true -> no_byte 9 f4 = true ->
  parse_line (f1 ++ 9 :: f2 ++ 9 :: f3 ++ 9 :: f4 ++ 9 :: r) =
  Some {| e_out := f4; e_start := c_atoi f1; e_end := c_atoi f2; e_mtime := c_strtoll f3;
          e_hash := c_strtoull16 r |}.
Proof.
  intros H1 H2 H3 H4. unfold parse_line. rewrite !split_tab_app by assumption. reflexivity.
Qed.

Lemma split_tabs_spec (s : bytes) :
  exists g gs, split_tabs s = g :: gs /\ s = g ++ concat (map (fun x => 9 :: x) gs) /\
               no_byte 9 g = true /\ Forall (fun x => no_byte 9 x = true) gs.
Proof.
  induction s as [|c s IH].
  - exists [], []. repeat split. constructor.
  - destruct IH as (g & gs & Hs & Heq & Hg & Hgs). cbn [split_tabs].
    destruct (N.eqb_spec c 9) as [->|Hc].
    + exists [], (g :: gs). rewrite Hs. repeat split.
      * cbn [map concat app]. f_equal. exact Heq.
      * constructor; assumption.
    + rewrite Hs. exists (c :: g), gs. repeat split.
      * cbn [app]. f_equal. exact Heq.
      * rewrite no_byte_cons, Hg. destruct (N.eqb_spec c 9); [contradiction|reflexivity].
      * assumption.
Qed.

Ltac norm_app :=
  repeat (rewrite <- app_assoc || rewrite <- app_comm_cons || rewrite app_nil_r || rewrite app_nil_l).

(* the glued line always has at least four tabs, hence always yields exactly one entry: the one
   described by [merged_line_entry] *)
Lemma merged_parse (frag : bytes) e' :
  no_byte 9 (e_out e') = true ->
  exists x, merged_line_entry frag e' = [x] /\ parse_line (frag ++ render_body e') = Some x.
Proof.
  intros Hout.
  destruct (split_tabs_spec frag) as (g0 & gs & Hs & Hfrag & Hg0 & Hgs).
  unfold merged_line_entry, render_body. rewrite Hs. rewrite Hfrag. clear Hs Hfrag.
  assert (Hs' : no_byte 9 (print_dec_Z (e_start e')) = true) by (apply print_dec_Z_no_byte; lia).
  assert (Hn' : no_byte 9 (print_dec_Z (e_end e')) = true) by (apply print_dec_Z_no_byte; lia).
  assert (Hm' : no_byte 9 (print_dec_Z (e_mtime e')) = true) by (apply print_dec_Z_no_byte; lia).
  assert (Ho' : no_byte 9 (c_str (e_out e')) = true) by (apply c_str_no_byte; assumption).
  set (s' := print_dec_Z (e_start e')) in *. set (n' := print_dec_Z (e_end e')) in *.
  set (m' := print_dec_Z (e_mtime e')) in *. set (o' := c_str (e_out e')) in *.
  set (h' := print_hex_N (e_hash e')).
  destruct gs as [|g1 [|g2 [|g3 [|g4 gs']]]].
  - eexists. split; [reflexivity|]. cbn [map concat]. norm_app.
    rewrite (app_assoc g0 s'). apply parse_line_fields; try assumption.
    rewrite no_byte_app, Hg0, Hs'. reflexivity.
  - inversion Hgs as [|? ? Hg1 _]; subst.
    eexists. split; [reflexivity|]. cbn [map concat]. norm_app.
    rewrite (app_assoc g1 s'). apply parse_line_fields; try assumption.
    rewrite no_byte_app, Hg1, Hs'. reflexivity.
  - inversion Hgs as [|? ? Hg1 Hgs1]; subst. inversion Hgs1 as [|? ? Hg2 _]; subst.
    eexists. split; [reflexivity|]. cbn [map concat]. norm_app.
    rewrite (app_assoc g2 s'). apply parse_line_fields; try assumption.
    rewrite no_byte_app, Hg2, Hs'. reflexivity.
  - inversion Hgs as [|? ? Hg1 Hgs1]; subst. inversion Hgs1 as [|? ? Hg2 Hgs2]; subst.
    inversion Hgs2 as [|? ? Hg3 _]; subst.
    eexists. split; [reflexivity|]. cbn [map concat]. norm_app.
    rewrite (app_assoc g3 s'). apply parse_line_fields; try assumption.
    rewrite no_byte_app, Hg3, Hs'. reflexivity.
  - inversion Hgs as [|? ? Hg1 Hgs1]; subst. inversion Hgs1 as [|? ? Hg2 Hgs2]; subst.
    inversion Hgs2 as [|? ? Hg3 Hgs3]; subst.
    eexists. split; [reflexivity|]. cbn [map concat]. norm_app.
    apply parse_line_fields; assumption.
Qed.

(* a cut exactly at a record boundary: nothing is merged, the next record is read as written *)
Lemma merged_boundary e' : wf_entry e' -> merged_line_entry [] e' = [e'].
Proof.
  intros Hwf. destruct (wf_entry_inv e' Hwf) as (_ & H0 & _ & _ & Hs & He & Hm & Hh).
  unfold merged_line_entry. cbn [split_tabs app].
  rewrite !atoi_print0, strtoll_print0, strtoull16_print, c_str_id by assumption.
  destruct e'; reflexivity.
Qed.

Lemma record_append_old_nonempty (f : bytes) es :
  f <> [] -> record_append_old f es = f ++ concat (map render_entry es).
Proof. intros H. unfold record_append_old. destruct f; [congruence|reflexivity]. Qed.

Lemma Forall2_app_parse l1 e1 l2 e2 :
  Forall2 (fun line e => parse_line line = Some e) l1 e1 ->
  Forall2 (fun line e => parse_line line = Some e) l2 e2 ->
  Forall2 (fun line e => parse_line line = Some e) (l1 ++ l2) (e1 ++ e2).
Proof. apply Forall2_app. Qed.

Theorem C08_append_after_tear_old_buf B es k e' tl :
  (15 <= B)%nat -> Forall wf_entry es -> Forall (fits B) es ->
  Forall wf_entry (e' :: tl) -> Forall (fits B) tl ->
  (length (torn_fragment k es) + length (render_entry e') <= B)%nat ->
  (length log_header <= k)%nat ->
  load_log_buf B (record_append_old (firstn k (log_header ++ concat (map render_entry es))) (e' :: tl)) =
  loaded (complete_prefix k es ++ merged_line_entry (torn_fragment k es) e' ++ tl).
Proof.
  intros HB Hw Hf Hw' Hftl Hmerged Hk. rewrite length_log_header in Hk.
  inversion Hw' as [|? ? Hwe' Hwtl]; subst.
  rewrite firstn_file by assumption.
  rewrite record_append_old_nonempty by (rewrite log_header_eq; discriminate).
  destruct (wf_entry_inv e' Hwe') as (_ & _ & H9 & Hnl' & _).
  destruct (merged_parse (torn_fragment k es) e' H9) as (x & Hx & Hpx).
  rewrite Hx.
  destruct (torn_fragment_ok B (k - length log_header) es Hw Hf) as [Hnl _].
  fold (torn_fragment k es) in Hnl.
  set (frag := torn_fragment k es) in *. set (cp := complete_prefix k es).
  replace ((log_header ++ join_lines (map render_body cp) ++ frag) ++
           concat (map render_entry (e' :: tl)))
    with (log_header ++
          join_lines (map render_body cp ++ [frag ++ render_body e'] ++ map render_body tl) ++ []).
  2:{ rewrite !join_lines_app. cbn [map concat]. rewrite concat_render. unfold render_entry.
      unfold join_lines at 2. cbn [map concat]. norm_app. reflexivity. }
  apply load_header_lines; [assumption| | |reflexivity|cbn; lia].
  - apply Forall_app. split; [apply short_bodies; apply complete_prefix_Forall; assumption|].
    apply Forall_app. split; [|apply short_bodies; assumption].
    constructor; [|constructor]. split.
    + rewrite no_byte_app, Hnl, render_body_no_nl by assumption. reflexivity.
    + unfold render_entry in Hmerged. rewrite !app_length in *. cbn [length] in Hmerged. lia.
  - apply Forall2_app_parse; [apply Forall2_render, complete_prefix_Forall; assumption|].
    apply Forall2_app_parse; [|apply Forall2_render; assumption].
    constructor; [assumption|constructor].
Qed.

Theorem C08_append_after_tear_old es k e' tl :
  Forall wf_entry es -> Forall (fits load_buf_size) es ->
  Forall wf_entry (e' :: tl) -> Forall (fits load_buf_size) tl ->
  (length (torn_fragment k es) + length (render_entry e') <= load_buf_size)%nat ->
  (length log_header <= k)%nat ->
  let ents := complete_prefix k es ++ merged_line_entry (torn_fragment k es) e' ++ tl in
  load_log (record_append_old (firstn k (log_header ++ concat (map render_entry es))) (e' :: tl)) =
  LOk (last_wins ents)
      (needs_recompaction_of (N.of_nat (length (last_wins ents))) (N.of_nat (length ents))).
Proof. intros. apply C08_append_after_tear_old_buf; try assumption. apply load_buf_size_ge. Qed.

(* ---------------------------------------------------------------------------------------- *)
(** ** The safe direction, OLD behaviour (needs a side condition) *)

(* [live out hash]: the manifest has an output [out] whose current command hashes to [hash]
   (for generator rules, which ignore the hash: [live out _] for that output).
   The side condition: the entry read from the merged line, unless it is the next record itself
   (cut at a record boundary), is not a live (output, command hash) pair. *)
Definition no_collision (live : bytes -> N -> bool) (frag : bytes) (e' : entry) : Prop :=
  forall g, In g (merged_line_entry frag e') -> g = e' \/ live (e_out g) (e_hash g) = false.

Lemma latest_middle n a x b y :
  latest n (a ++ [x] ++ b) = Some y -> y = x \/ latest n (a ++ b) = Some y.
Proof.
  unfold latest. rewrite !rev_app_distr. cbn [rev app]. rewrite !lookup_out_app. cbn [lookup_out].
  destruct (lookup_out n (rev b)) as [z|]; [right; assumption|].
  destruct (bytes_eqb (e_out x) n); [intros [= <-]; left; reflexivity|right; assumption].
Qed.

Theorem C08_safe_direction_old_partial_buf B live es k e' tl :
  (15 <= B)%nat -> Forall wf_entry es -> Forall (fits B) es ->
  Forall wf_entry (e' :: tl) -> Forall (fits B) tl ->
  (length (torn_fragment k es) + length (render_entry e') <= B)%nat ->
  (length log_header <= k)%nat ->
  no_collision live (torn_fragment k es) e' ->
  exists ents needs,
    load_log_buf B (record_append_old (firstn k (log_header ++ concat (map render_entry es))) (e' :: tl))
      = LOk ents needs /\
    forall y, In y ents -> live (e_out y) (e_hash y) = true ->
      (y = e' /\ merged_line_entry (torn_fragment k es) e' = [e']) \/
      latest (e_out y) (complete_prefix k es ++ tl) = Some y.
Proof.
  intros HB Hw Hf Hw' Hftl Hm Hk Hnc.
  rewrite (C08_append_after_tear_old_buf B es k e' tl HB Hw Hf Hw' Hftl Hm Hk).
  eexists. eexists. split; [reflexivity|].
  intros y Hy Hlive. apply In_last_wins_latest in Hy.
  inversion Hw' as [|? ? Hwe' _]; subst. destruct (wf_entry_inv e' Hwe') as (_ & _ & H9 & _).
  destruct (merged_parse (torn_fragment k es) e' H9) as (x & Hx & _).
  rewrite Hx in Hy. apply latest_middle in Hy. destruct Hy as [->|Hy]; [|right; assumption].
  destruct (Hnc x) as [->|Hdead]; [rewrite Hx; left; reflexivity| |congruence].
  left. split; [reflexivity|assumption].
Qed.

Theorem C08_safe_direction_old_partial live es k e' tl :
  Forall wf_entry es -> Forall (fits load_buf_size) es ->
  Forall wf_entry (e' :: tl) -> Forall (fits load_buf_size) tl ->
  (length (torn_fragment k es) + length (render_entry e') <= load_buf_size)%nat ->
  (length log_header <= k)%nat ->
  no_collision live (torn_fragment k es) e' ->
  exists ents needs,
    load_log (record_append_old (firstn k (log_header ++ concat (map render_entry es))) (e' :: tl))
      = LOk ents needs /\
    forall y, In y ents -> live (e_out y) (e_hash y) = true ->
      (y = e' /\ merged_line_entry (torn_fragment k es) e' = [e']) \/
      latest (e_out y) (complete_prefix k es ++ tl) = Some y.
Proof. intros. apply C08_safe_direction_old_partial_buf; try assumption. apply load_buf_size_ge. Qed.

(* The witness that [no_collision] cannot be dropped.  Outputs "gen0" (command hash 0x25) and
   "gen"; the record of "gen" is torn right after the name (4 tabs short of ... 3 tabs in the
   fragment); the next session appends a record with start time 0 and end time 25:
       "7\t9\t200\tgen" ++ "0\t25\t300\tfoo\t1234abcd\n"
   is read as output "gen0", mtime 200, hash 0x25 — the real hash of gen0's command, with an mtime
   (200) newer than the one ever recorded for gen0 (100). *)
Definition wit_gen0 : entry :=
  {| e_out := [103; 101; 110; 48]; e_start := 0; e_end := 5; e_mtime := 100; e_hash := 37 |}.
Definition wit_gen : entry :=
  {| e_out := [103; 101; 110]; e_start := 7; e_end := 9; e_mtime := 200; e_hash := 703506 |}.
Definition wit_foo : entry :=
  {| e_out := [102; 111; 111]; e_start := 0; e_end := 25; e_mtime := 300; e_hash := 305441741 |}.
Definition wit_live (out : bytes) (h : N) : bool :=
  (bytes_eqb out [103; 101; 110; 48] && (h =? 37)) ||
  (bytes_eqb out [103; 101; 110] && (h =? 703506)) ||
  (bytes_eqb out [102; 111; 111] && (h =? 305441741)).
Definition wit_k : nat := 42.     (* 15 (header) + 16 (gen0 record) + 11 ("7\t9\t200\tgen") *)
Definition wit_bad : entry :=
  {| e_out := [103; 101; 110; 48]; e_start := 7; e_end := 9; e_mtime := 200; e_hash := 37 |}.

Theorem C08_safe_direction_old_refuted :
  exists live es k e' tl,
    Forall wf_entry es /\ Forall wf_entry (e' :: tl) /\ (length log_header <= k)%nat /\
    exists ents needs y,
      load_log (record_append_old (firstn k (log_header ++ concat (map render_entry es))) (e' :: tl))
        = LOk ents needs /\
      In y ents /\ live (e_out y) (e_hash y) = true /\
      ~ In y (es ++ e' :: tl) /\
      latest (e_out y) (complete_prefix k es ++ tl) <> Some y /\
      (exists g, latest (e_out y) (es ++ e' :: tl) = Some g /\ e_hash g = e_hash y /\
                 (e_mtime g < e_mtime y)%Z).
Proof.
  exists wit_live, [wit_gen0; wit_gen], wit_k, wit_foo, [].
  split; [repeat constructor|]. split; [repeat constructor|]. split; [vm_compute; lia|].
  exists [wit_bad], false, wit_bad.
  split; [vm_compute; reflexivity|]. split; [left; reflexivity|]. split; [reflexivity|].
  split; [|split].
  - cbn [app In]. intros [H|[H|[H|[]]]]; discriminate H.
  - vm_compute. discriminate.
  - exists wit_gen0. split; [vm_compute; reflexivity|]. split; [reflexivity|]. vm_compute. reflexivity.
Qed.

(* ---------------------------------------------------------------------------------------- *)
(** ** FIXED behaviour (record_append): the torn tail is terminated before the first append *)

Lemma last_cons_nonempty {A} (x : A) l d : l <> [] -> last (x :: l) d = last l d.
Proof. destruct l; [congruence|reflexivity]. Qed.

Lemma last_app_nonempty {A} (a b : list A) d : b <> [] -> last (a ++ b) d = last b d.
Proof.
  intros Hb. induction a as [|x a IH]; [reflexivity|].
  cbn [app]. rewrite last_cons_nonempty; [exact IH|].
  destruct a; [exact Hb|discriminate].
Qed.

Lemma last_In {A} (l : list A) d : l <> [] -> In (last l d) l.
Proof.
  induction l as [|x l IH]; intros H; [congruence|].
  destruct l as [|y l]; [left; reflexivity|]. right. apply IH. discriminate.
Qed.

Lemma last_join_lines l ls : last (join_lines (l :: ls)) 0 = 10.
Proof.
  revert l. induction ls as [|l' ls IH]; intros l.
  - unfold join_lines. cbn [map concat]. rewrite app_nil_r. apply last_last.
  - change (join_lines (l :: l' :: ls)) with ((l ++ [10]) ++ join_lines (l' :: ls)).
    rewrite last_app_nonempty; [apply IH|]. unfold join_lines. cbn [map concat].
    destruct l'; discriminate.
Qed.

(* a complete log written by ninja ends with a newline *)
Lemma wellformed_file_lines R :
  log_header ++ concat (map render_entry R) = join_lines (header_line :: map render_body R).
Proof.
  rewrite concat_render, log_header_eq. unfold join_lines. cbn [map concat]. reflexivity.
Qed.

Lemma wellformed_last_lf R : last (log_header ++ concat (map render_entry R)) 0 = 10.
Proof. rewrite wellformed_file_lines. apply last_join_lines. Qed.

Lemma record_append_wellformed R es :
  record_append (log_header ++ concat (map render_entry R)) es =
  log_header ++ concat (map render_entry (R ++ es)).
Proof.
  unfold record_append. rewrite wellformed_last_lf, N.eqb_refl.
  destruct (log_header ++ concat (map render_entry R)) as [|c f] eqn:Hf.
  - rewrite log_header_eq in Hf. discriminate.
  - rewrite <- Hf. cbn [app]. rewrite map_app, concat_app, app_assoc. reflexivity.
Qed.

(* a file that ends in the middle of a line gets ONE newline first *)
Lemma record_append_torn (f frag : bytes) es :
  frag <> [] -> no_byte 10 frag = true ->
  record_append (f ++ frag) es = f ++ frag ++ [10] ++ concat (map render_entry es).
Proof.
  intros Hne Hnl. unfold record_append. rewrite last_app_nonempty by assumption.
  assert (Hlast : last frag 0 <> 10).
  { pose proof (last_In frag 0 Hne) as Hin. apply no_byte_Forall in Hnl.
    rewrite Forall_forall in Hnl. apply Hnl. assumption. }
  destruct (N.eqb_spec (last frag 0) 10) as [?|_]; [contradiction|].
  destruct (f ++ frag) as [|c r] eqn:Hf.
  - destruct f; [cbn in Hf; congruence|discriminate].
  - rewrite <- Hf. rewrite <- !app_assoc. reflexivity.
Qed.

(* lines that may or may not parse *)
Definition opt_list {A} (o : option A) : list A := match o with Some x => [x] | None => [] end.

Lemma fold_load_step_opt lines : forall os l t,
  Forall2 (fun line o => parse_line line = o) lines os ->
  fold_left load_step lines (acc_of l t) =
  acc_of (upsert_all (concat (map opt_list os)) l)
         (t + N.of_nat (length (concat (map opt_list os)))).
Proof.
  induction lines as [|line lines IH]; intros os l t H; inversion H as [|? o ? os' Hp H']; subst.
  - cbn [fold_left map concat upsert_all length]. f_equal. lia.
  - cbn [fold_left map concat]. destruct (parse_line line) as [e|] eqn:Hpe.
    + rewrite (load_step_some l t line e Hpe). rewrite (IH os' _ _ H').
      cbn [opt_list app upsert_all fold_left length]. f_equal. lia.
    + rewrite (load_step_none _ _ Hpe). rewrite (IH os' _ _ H'). reflexivity.
Qed.

Lemma load_header_lines_opt B lines os (frag : bytes) :
  (15 <= B)%nat -> Forall (short_line B) lines ->
  Forall2 (fun line o => parse_line line = o) lines os ->
  no_byte 10 frag = true -> (length frag <= B)%nat ->
  load_log_buf B (log_header ++ join_lines lines ++ frag) = loaded (concat (map opt_list os)).
Proof.
  intros HB Hsh Hp Hnl Hlen.
  replace (log_header ++ join_lines lines ++ frag)
    with (join_lines (header_line :: lines) ++ frag)
    by (rewrite join_lines_cons, log_header_eq, <- app_assoc; reflexivity).
  rewrite load_short_lines; [|lia|constructor; [apply short_header; assumption|assumption]
                              |assumption|assumption].
  rewrite match_nonempty by (rewrite join_lines_cons; discriminate).
  replace (join_lines (header_line :: lines) ++ frag)
    with (log_header ++ join_lines lines ++ frag)
    by (rewrite join_lines_cons, log_header_eq, <- app_assoc; reflexivity).
  rewrite firstn_app, (firstn_all2 log_header) by (rewrite length_log_header; lia).
  rewrite scan_header. unfold load_spec_res.
  change (7 <? oldest_supported_version)%Z with false.
  change (current_version <? 7)%Z with false. cbn iota.
  cbn [fold_left]. rewrite (load_step_none _ _ parse_header_line).
  change la_empty with (acc_of [] 0). rewrite (fold_load_step_opt lines os [] 0 Hp).
  unfold load_finish, acc_of, loaded, needs_of, last_wins. cbn [la_entries la_unique la_total].
  change (7 <? current_version)%Z with false. cbn [orb]. reflexivity.
Qed.

Lemma Forall2_render_opt es :
  Forall wf_entry es ->
  Forall2 (fun line o => parse_line line = o) (map render_body es) (map Some es).
Proof.
  induction es as [|e es IH]; intros H; [constructor|].
  inversion H as [|? ? He Hes]; subst. cbn [map]. constructor; [apply parse_render; assumption|].
  apply IH; assumption.
Qed.

Lemma concat_opt_Some (es : list entry) : concat (map opt_list (map Some es)) = es.
Proof. induction es as [|e es IH]; [reflexivity|]. cbn [map concat opt_list app]. rewrite IH. reflexivity. Qed.

Lemma torn_fragment_lt B a : forall es,
  (0 < B)%nat -> Forall (fits B) es -> (length (torn_fragment_from a es) < B)%nat.
Proof.
  intros es HB. revert a. induction es as [|e es IH]; intros a Hf; [cbn; lia|].
  inversion Hf as [|? ? Hfe Hf']; subst. cbn [torn_fragment_from].
  destruct (Nat.leb_spec (length (render_entry e)) a) as [Hle|Hgt]; [apply IH; assumption|].
  rewrite firstn_length. unfold fits in Hfe. lia.
Qed.

(* THE theorem about appending after a tear, fixed code: the fragment is a line of its own *)
Theorem C08_append_after_tear_buf B es k es' :
  (15 <= B)%nat -> Forall wf_entry es -> Forall (fits B) es ->
  Forall wf_entry es' -> Forall (fits B) es' ->
  (length log_header <= k)%nat ->
  load_log_buf B (record_append (firstn k (log_header ++ concat (map render_entry es))) es') =
  loaded (complete_prefix k es ++ fragment_entry (torn_fragment k es) ++ es').
Proof.
  intros HB Hw Hf Hw' Hf' Hk. rewrite length_log_header in Hk.
  rewrite firstn_file by assumption.
  destruct (torn_fragment_ok B (k - length log_header) es Hw Hf) as [Hnl _].
  pose proof (torn_fragment_lt B (k - length log_header) es ltac:(lia) Hf) as Hlt.
  fold (torn_fragment k es) in Hnl, Hlt.
  set (frag := torn_fragment k es) in *. set (cp := complete_prefix k es).
  assert (Hcpw : Forall wf_entry cp) by (apply complete_prefix_Forall; assumption).
  assert (Hcpf : Forall (fits B) cp) by (apply complete_prefix_Forall; assumption).
  clearbody frag cp. destruct frag as [|c0 fr].
  - (* cut at a record boundary: nothing to terminate *)
    rewrite app_nil_r, <- concat_render, record_append_wellformed.
    unfold fragment_entry. cbn [parse_line split_tab app].
    apply C08_roundtrip_buf; [assumption|apply Forall_app; split; assumption
                             |apply Forall_app; split; assumption].
  - set (frag := c0 :: fr) in *.
    rewrite app_assoc, record_append_torn by (try assumption; discriminate).
    replace ((log_header ++ join_lines (map render_body cp)) ++
             frag ++ [10] ++ concat (map render_entry es'))
      with (log_header ++
            join_lines (map render_body cp ++ [frag] ++ map render_body es') ++ []).
    2:{ rewrite !join_lines_app. rewrite concat_render.
        unfold join_lines at 2. cbn [map concat]. norm_app. reflexivity. }
    rewrite (load_header_lines_opt B _ (map Some cp ++ [parse_line frag] ++ map Some es'));
      [|assumption| | |reflexivity|cbn; lia].
    + rewrite !map_app, !concat_app, !concat_opt_Some. cbn [map concat]. rewrite app_nil_r.
      reflexivity.
    + apply Forall_app. split; [apply short_bodies; assumption|].
      apply Forall_app. split; [|apply short_bodies; assumption].
      constructor; [split; assumption|constructor].
    + apply Forall2_app; [apply Forall2_render_opt; assumption|].
      apply Forall2_app; [|apply Forall2_render_opt; assumption].
      constructor; [reflexivity|constructor].
Qed.

Theorem C08_append_after_tear es k es' :
  Forall wf_entry es -> Forall (fits load_buf_size) es ->
  Forall wf_entry es' -> Forall (fits load_buf_size) es' ->
  (length log_header <= k)%nat ->
  let ents := complete_prefix k es ++ fragment_entry (torn_fragment k es) ++ es' in
  load_log (record_append (firstn k (log_header ++ concat (map render_entry es))) es') =
  LOk (last_wins ents)
      (needs_recompaction_of (N.of_nat (length (last_wins ents))) (N.of_nat (length ents))).
Proof. intros. apply C08_append_after_tear_buf; try assumption. apply load_buf_size_ge. Qed.

(* ---- what the terminated fragment is read as ---- *)

Lemma count_tabs_no (s : bytes) : no_byte 9 s = true -> count_tabs s = 0%nat.
Proof.
  induction s as [|c s IH]; [reflexivity|]. rewrite no_byte_cons. intros H. cbn [count_tabs].
  destruct (N.eqb_spec c 9) as [?|_]; [lia|]. apply IH. lia.
Qed.

Lemma count_tabs_app (a b : bytes) : count_tabs (a ++ b) = (count_tabs a + count_tabs b)%nat.
Proof.
  induction a as [|c a IH]; [reflexivity|]. cbn [app count_tabs]. destruct (c =? 9); lia.
Qed.

Lemma count_tabs_firstn n (s : bytes) : (count_tabs (firstn n s) <= count_tabs s)%nat.
Proof.
  revert n. induction s as [|c s IH]; intros n; [rewrite firstn_nil; cbn; lia|].
  destruct n as [|n]; [cbn; lia|]. cbn [firstn count_tabs]. specialize (IH n).
  destruct (c =? 9); lia.
Qed.

Lemma split_tab_count (s : bytes) : forall a b,
  split_tab s = Some (a, b) -> count_tabs s = S (count_tabs b).
Proof.
  induction s as [|c s IH]; intros a b H; [discriminate|]. cbn [split_tab] in H. cbn [count_tabs].
  destruct (c =? 9).
  - injection H as _ <-. reflexivity.
  - destruct (split_tab s) as [[a' b']|]; [|discriminate]. injection H as _ <-.
    apply (IH a' b' eq_refl).
Qed.

Lemma parse_line_count (s : bytes) x : parse_line s = Some x -> (4 <= count_tabs s)%nat.
Proof.
  unfold parse_line.
  destruct (split_tab s) as [[f1 r1]|] eqn:H1; [|discriminate].
  destruct (split_tab r1) as [[f2 r2]|] eqn:H2; [|discriminate].
  destruct (split_tab r2) as [[f3 r3]|] eqn:H3; [|discriminate].
  destruct (split_tab r3) as [[f4 r4]|] eqn:H4; [|discriminate].
  intros _. apply split_tab_count in H1, H2, H3, H4. lia.
Qed.

(* fewer than four tabs: the line is skipped *)
Lemma fragment_entry_few_tabs (frag : bytes) :
  (count_tabs frag < 4)%nat -> fragment_entry frag = [].
Proof.
  intros H. unfold fragment_entry. destruct (parse_line frag) as [x|] eqn:Hp; [|reflexivity].
  apply parse_line_count in Hp. lia.
Qed.

(* four fields and a rest: the entry, field by field *)
Lemma fragment_entry_fields (f1 f2 f3 f4 r : bytes) :
  no_byte 9 f1 = true -> no_byte 9 f2 = true -> no_byte 9 f3 = true -> no_byte 9 f4 = true ->
  fragment_entry (f1 ++ 9 :: f2 ++ 9 :: f3 ++ 9 :: f4 ++ 9 :: r) =
  [ {| e_out := f4; e_start := c_atoi f1; e_end := c_atoi f2; e_mtime := c_strtoll f3;
       e_hash := c_strtoull16 r |} ].
Proof.
  intros H1 H2 H3 H4. unfold fragment_entry. rewrite parse_line_fields by assumption. reflexivity.
Qed.

(* A proper prefix of a well-formed record line: skipped unless the cut is inside the hash field
   (or right after the 4th tab), and then it is the record itself with only the first hex digits
   of its hash. *)
Lemma fragment_entry_of_record et j :
  wf_entry et ->
  fragment_entry (firstn j (render_body et)) = [] \/
  exists j', fragment_entry (firstn j (render_body et)) = [truncated_hash et j'].
Proof.
  intros Hwf. destruct (wf_entry_inv et Hwf) as (_ & H0 & H9 & _ & Hs & He & Hm & Hh).
  set (P := print_dec_Z (e_start et) ++ 9 :: print_dec_Z (e_end et) ++ 9 ::
            print_dec_Z (e_mtime et) ++ 9 :: c_str (e_out et)).
  assert (Hbody : render_body et = P ++ 9 :: print_hex_N (e_hash et)).
  { unfold render_body, P. norm_app. reflexivity. }
  assert (HP : count_tabs P = 3%nat).
  { unfold P. repeat (rewrite count_tabs_app || cbn [count_tabs N.eqb Pos.eqb]).
    rewrite !count_tabs_no; [reflexivity|apply c_str_no_byte; assumption
      |apply print_dec_Z_no_byte; lia|apply print_dec_Z_no_byte; lia|apply print_dec_Z_no_byte; lia]. }
  rewrite Hbody, firstn_app.
  destruct (Nat.le_gt_cases j (length P)) as [Hle|Hgt].
  - left. replace (j - length P)%nat with 0%nat by lia. cbn [firstn]. rewrite app_nil_r.
    apply fragment_entry_few_tabs. pose proof (count_tabs_firstn j P). lia.
  - right. rewrite firstn_all2 by lia.
    destruct (j - length P)%nat as [|j'] eqn:Hj; [lia|]. exists j'. cbn [firstn].
    unfold P. norm_app.
    rewrite fragment_entry_fields;
      [|apply print_dec_Z_no_byte; lia|apply print_dec_Z_no_byte; lia|apply print_dec_Z_no_byte; lia
       |apply c_str_no_byte; assumption].
    rewrite !atoi_print0, strtoll_print0, c_str_id by assumption. reflexivity.
Qed.

(* the interrupted record and the fragment *)
Lemma torn_record_fragment a : forall es,
  match torn_record_from a es with
  | None => torn_fragment_from a es = []
  | Some et => exists j rest, torn_fragment_from a es = firstn j (render_body et) /\
                              es = complete_prefix_from a es ++ et :: rest
  end.
Proof.
  intros es. revert a. induction es as [|e es IH]; intros a; [reflexivity|].
  cbn [torn_record_from torn_fragment_from complete_prefix_from].
  destruct (Nat.leb_spec (length (render_entry e)) a) as [Hle|Hgt].
  - specialize (IH (a - length (render_entry e))%nat).
    destruct (torn_record_from (a - length (render_entry e)) es) as [et|]; [|assumption].
    destruct IH as (j & rest & H1 & H2). exists j, rest. split; [assumption|].
    cbn [app]. f_equal. assumption.
  - destruct a as [|a]; [reflexivity|].
    exists (S a), es. split; [|reflexivity].
    unfold render_entry in *. rewrite app_length in Hgt. cbn [length] in Hgt.
    rewrite firstn_app. replace (S a - length (render_body e))%nat with 0%nat by lia.
    cbn [firstn]. apply app_nil_r.
Qed.

(* ---------------------------------------------------------------------------------------- *)
(** ** The safe direction, FIXED code: no side condition *)

(* After a crash at ANY byte k >= 15 and any later recording session, EVERY entry of the loaded
   table is
     - the latest completely written record of its output (among the records whose newline reached
       the disk before the crash and the records of the later session), or
     - the record [et] that was being written at the crash, with its genuine output name, start,
       end and mtime, and as hash the value of a PREFIX of the hex digits of its genuine hash
       ([truncated_hash et j]; only when the cut fell inside the hash field).
   The second kind is a record of a command that HAD completed (records are written after the
   command finished): for a generator output (hash ignored) it is as good as the genuine record;
   for any other output the hash can only be wrong, i.e. the output looks out of date. *)
Theorem C08_safe_direction_buf B es k es' :
  (15 <= B)%nat -> Forall wf_entry es -> Forall (fits B) es ->
  Forall wf_entry es' -> Forall (fits B) es' ->
  (length log_header <= k)%nat ->
  exists ents needs,
    load_log_buf B (record_append (firstn k (log_header ++ concat (map render_entry es))) es')
      = LOk ents needs /\
    forall y, In y ents ->
      latest (e_out y) (complete_prefix k es ++ es') = Some y \/
      (exists et j rest, torn_record k es = Some et /\
                         es = complete_prefix k es ++ et :: rest /\ y = truncated_hash et j).
Proof.
  intros HB Hw Hf Hw' Hf' Hk.
  rewrite (C08_append_after_tear_buf B es k es' HB Hw Hf Hw' Hf' Hk).
  eexists. eexists. split; [reflexivity|].
  intros y Hy. apply In_last_wins_latest in Hy.
  pose proof (torn_record_fragment (k - length log_header) es) as Htr.
  fold (torn_record k es) (torn_fragment k es) (complete_prefix k es) in Htr.
  destruct (torn_record k es) as [et|] eqn:Het.
  - destruct Htr as (j & rest & Hfrag & Hes).
    assert (Hwet : wf_entry et).
    { rewrite Forall_forall in Hw. apply Hw. rewrite Hes. apply in_or_app. right. left. reflexivity. }
    rewrite Hfrag in Hy.
    destruct (fragment_entry_of_record et j Hwet) as [Hnil|[j' Hone]].
    + rewrite Hnil in Hy. left. exact Hy.
    + rewrite Hone in Hy. apply latest_middle in Hy. destruct Hy as [->|Hy]; [|left; assumption].
      right. exists et, j', rest. repeat split; assumption.
  - rewrite Htr in Hy. left. exact Hy.
Qed.

Theorem C08_safe_direction es k es' :
  Forall wf_entry es -> Forall (fits load_buf_size) es ->
  Forall wf_entry es' -> Forall (fits load_buf_size) es' ->
  (length log_header <= k)%nat ->
  exists ents needs,
    load_log (record_append (firstn k (log_header ++ concat (map render_entry es))) es')
      = LOk ents needs /\
    forall y, In y ents ->
      latest (e_out y) (complete_prefix k es ++ es') = Some y \/
      (exists et j rest, torn_record k es = Some et /\
                         es = complete_prefix k es ++ et :: rest /\ y = truncated_hash et j).
Proof. intros. apply C08_safe_direction_buf; try assumption. apply load_buf_size_ge. Qed.

(* the old witness is harmless with the fixed code: gen0 keeps its genuine record *)
Example C08_old_witness_fixed :
  load_log (record_append
              (firstn wit_k (log_header ++ concat (map render_entry [wit_gen0; wit_gen]))) [wit_foo])
  = LOk [wit_gen0; wit_foo] false.
Proof. vm_compute. reflexivity. Qed.

(* ---------------------------------------------------------------------------------------- *)
(** ** Sessions, recompaction, restat, versions *)

Lemma fold_record_append_wellformed ss : forall R,
  fold_left record_append ss (log_header ++ concat (map render_entry R)) =
  log_header ++ concat (map render_entry (R ++ concat ss)).
Proof.
  induction ss as [|s ss IH]; intros R; [cbn [fold_left concat]; rewrite app_nil_r; reflexivity|].
  cbn [fold_left concat]. rewrite record_append_wellformed, IH, app_assoc. reflexivity.
Qed.

Lemma loaded_nil : loaded [] = LOk [] false.
Proof. reflexivity. Qed.

(* any number of ninja invocations appending to the same log (first one creates it) *)
Theorem C08_sessions_buf B (sessions : list (list entry)) :
  (15 <= B)%nat -> Forall wf_entry (concat sessions) -> Forall (fits B) (concat sessions) ->
  load_log_buf B (fold_left record_append sessions []) = loaded (concat sessions).
Proof.
  intros HB Hw Hf. destruct sessions as [|s ss].
  - cbn [fold_left concat]. rewrite load_small; [reflexivity|lia|reflexivity|cbn; lia].
  - cbn [fold_left].
    replace (record_append [] s) with (log_header ++ concat (map render_entry s))
      by (unfold record_append; reflexivity).
    rewrite fold_record_append_wellformed.
    apply C08_roundtrip_buf; assumption.
Qed.

Theorem C08_sessions (sessions : list (list entry)) :
  Forall wf_entry (concat sessions) -> Forall (fits load_buf_size) (concat sessions) ->
  load_log (fold_left record_append sessions []) =
  LOk (last_wins (concat sessions))
      (needs_recompaction_of (N.of_nat (length (last_wins (concat sessions))))
                             (N.of_nat (length (concat sessions)))).
Proof. apply C08_sessions_buf, load_buf_size_ge. Qed.

Lemma needs_same n : needs_recompaction_of n n = false.
Proof. unfold needs_recompaction_of. lia. Qed.

Lemma loaded_nodup l : nodup_out l -> loaded l = LOk l false.
Proof.
  intros H. unfold loaded, needs_of. rewrite last_wins_nodup by assumption.
  rewrite needs_same. reflexivity.
Qed.

Lemma Forall_filter {A} (P : A -> Prop) f l : Forall P l -> Forall P (filter f l).
Proof.
  rewrite !Forall_forall. intros H x Hx. apply filter_In in Hx. apply H. tauto.
Qed.

(* a recompacted log loads as exactly the live entries and does not ask for recompaction again *)
Theorem C08_recompact_buf B live entries :
  (15 <= B)%nat -> Forall wf_entry entries -> Forall (fits B) entries -> nodup_out entries ->
  load_log_buf B (recompact live entries) = LOk (filter (fun e => live (e_out e)) entries) false.
Proof.
  intros HB Hw Hf Hnd. unfold recompact.
  rewrite C08_roundtrip_buf; [|assumption|apply Forall_filter; assumption|apply Forall_filter; assumption].
  apply loaded_nodup, nodup_filter, Hnd.
Qed.

Theorem C08_recompact live entries :
  Forall wf_entry entries -> Forall (fits load_buf_size) entries -> nodup_out entries ->
  load_log (recompact live entries) = LOk (filter (fun e => live (e_out e)) entries) false.
Proof. apply C08_recompact_buf, load_buf_size_ge. Qed.

(* restat changes nothing but mtimes *)
Theorem C08_restat_only_mtime pick entries :
  map e_out (restat_log pick entries) = map e_out entries /\
  map e_start (restat_log pick entries) = map e_start entries /\
  map e_end (restat_log pick entries) = map e_end entries /\
  map e_hash (restat_log pick entries) = map e_hash entries /\
  map e_mtime (restat_log pick entries) =
  map (fun e => match pick (e_out e) with Some m => m | None => e_mtime e end) entries.
Proof.
  unfold restat_log. rewrite !map_map.
  repeat split; apply map_ext; intros e; unfold restat_entry; destruct (pick (e_out e)); reflexivity.
Qed.

Lemma restat_entry_wf pick e :
  wf_entry e -> (forall m, pick (e_out e) = Some m -> in_int64 m = true) ->
  wf_entry (restat_entry pick e).
Proof.
  intros Hwf Hp. unfold restat_entry. destruct (pick (e_out e)) as [m|] eqn:Hm; [|assumption].
  specialize (Hp m eq_refl). unfold wf_entry, wf_entryb in *. cbn [e_out e_start e_end e_mtime e_hash].
  rewrite !andb_true_iff in *. tauto.
Qed.

(* the rewritten log loads as the restat'ed table (Stat results are >= 0 and fit int64_t) *)
Theorem C08_restat_file_buf B pick entries :
  (15 <= B)%nat -> Forall wf_entry entries -> nodup_out entries ->
  (forall e m, In e entries -> pick (e_out e) = Some m -> in_int64 m = true) ->
  Forall (fits B) (restat_log pick entries) ->
  load_log_buf B (restat_file pick entries) = LOk (restat_log pick entries) false.
Proof.
  intros HB Hw Hnd Hp Hf. unfold restat_file.
  rewrite C08_roundtrip_buf; [|assumption| |assumption].
  - apply loaded_nodup. unfold nodup_out.
    destruct (C08_restat_only_mtime pick entries) as [-> _]. exact Hnd.
  - unfold restat_log. apply Forall_map. rewrite Forall_forall in *. intros e He.
    apply restat_entry_wf; [apply Hw; assumption|]. intros m Hm. apply (Hp e m He Hm).
Qed.

Theorem C08_restat_file pick entries :
  Forall wf_entry entries -> nodup_out entries ->
  (forall e m, In e entries -> pick (e_out e) = Some m -> in_int64 m = true) ->
  Forall (fits load_buf_size) (restat_log pick entries) ->
  load_log (restat_file pick entries) = LOk (restat_log pick entries) false.
Proof. apply C08_restat_file_buf, load_buf_size_ge. Qed.

(* ---- other versions ---- *)

Definition version_line (v : Z) : bytes :=
  [35; 32; 110; 105; 110; 106; 97; 32; 108; 111; 103; 32; 118] ++ print_dec_Z v ++ [10].

Lemma version_line_current : version_line current_version = log_header.
Proof. reflexivity. Qed.

Lemma starts_with_digit_print n rest : starts_with_digit (print_dec_N n ++ rest) = true.
Proof.
  destruct (print_dec_N_head n) as (c & r & -> & Hc). cbn [app starts_with_digit].
  unfold digit_val. replace ((48 <=? c) && (c <=? 57)) with true by lia.
  replace (c - 48 <? 10) with true by lia. reflexivity.
Qed.

Lemma scan_int_print z rest :
  in_int32 z = true -> stops 10 rest -> scan_int (print_dec_Z z ++ rest) = Some z.
Proof.
  intros Hr Hs. pose proof (in_int32_64 z Hr) as Hr64. unfold scan_int, print_dec_Z.
  destruct (Z.ltb_spec z 0) as [Hneg|Hpos].
  - cbn [app skip_ws]. rewrite is_space_false by lia.
    unfold split_sign. cbn [N.eqb Pos.eqb]. rewrite starts_with_digit_print.
    unfold print_dec_N. rewrite parse_print; [|left; reflexivity|assumption].
    rewrite N2Z.inj_abs_N. rewrite Z.abs_neq by lia. rewrite Z.opp_involutive.
    rewrite clamp64_id, wrap32_id by assumption. reflexivity.
  - destruct (print_dec_N_head (Z.to_N z)) as (c & r & Hcr & Hc).
    rewrite Hcr. cbn [app skip_ws]. rewrite is_space_false by lia.
    unfold split_sign.
    destruct (N.eqb_spec c 45) as [?|_]; [lia|]. destruct (N.eqb_spec c 43) as [?|_]; [lia|].
    change (c :: r ++ rest) with ((c :: r) ++ rest). rewrite <- Hcr.
    rewrite starts_with_digit_print.
    unfold print_dec_N. rewrite parse_print; [|left; reflexivity|assumption].
    rewrite Z2N.id by lia. rewrite clamp64_id, wrap32_id by assumption. reflexivity.
Qed.

Lemma scan_version_line v rest :
  in_int32 v = true -> scan_signature (version_line v ++ rest) = v.
Proof.
  intros Hv. unfold version_line. rewrite <- !app_assoc. cbn [app].
  unfold scan_signature. cbn [lit lits skip_ws is_space N.eqb Pos.eqb N.leb N.compare Pos.compare
                             Pos.compare_cont andb orb].
  rewrite scan_int_print; [reflexivity|assumption|reflexivity].
Qed.

(* A log whose signature line carries any other version: Load closes it, unlinks it and returns
   LOAD_NOT_FOUND with a message (a warning for the caller) — whatever follows the first line,
   however long the lines are.  With kOldestSupportedVersion = kCurrentVersion = 7 there is no
   "old but still supported" version that would be read and recompacted. *)
Theorem C08_version_discard_buf B v (rest : bytes) :
  in_int32 v = true -> v <> current_version -> (length (version_line v) <= B)%nat ->
  load_log_buf B (version_line v ++ rest) = LDiscard (v <? oldest_supported_version)%Z true.
Proof.
  intros Hv Hne HB. unfold load_log_buf. rewrite load_loop_S.
  assert (Hpos : (0 < B)%nat).
  { unfold version_line in HB. rewrite app_length in HB. cbn [length] in HB. lia. }
  rewrite (read_line_init B _ (version_line v ++ rest) Hpos).
  2:{ split; [left|]; reflexivity. }
  2:{ unfold version_line. cbn [app]. discriminate. }
  cbn zeta. cbn [lr_cur lr_le]. change (0 =? 0)%Z with true. cbn [andb].
  rewrite firstn_app, (firstn_all2 (version_line v)) by assumption.
  rewrite scan_version_line by assumption.
  unfold oldest_supported_version, current_version in *.
  destruct (Z.ltb_spec v 7) as [?|?]; [reflexivity|].
  destruct (Z.ltb_spec 7 v) as [?|?]; [reflexivity|lia].
Qed.

(* ---- bounds on the length of a rendered record ---- *)

Lemma digits_le_length base d : 2 <= base -> forall f n,
  n < base ^ N.of_nat d -> (1 <= d)%nat -> (length (digits_le base f n) <= d)%nat.
Proof.
  intros Hb. induction d as [|d IH]; intros f n Hn Hd; [lia|].
  destruct f as [|f]; [cbn; lia|]. rewrite digits_le_S. cbn [length].
  destruct (N.eqb_spec (n / base) 0) as [Hz|Hnz]; [cbn [length]; lia|].
  rewrite Nat2N.inj_succ, N.pow_succ_r' in Hn.
  assert (Hq : n / base < base ^ N.of_nat d) by (apply N.div_lt_upper_bound; lia).
  destruct d as [|d].
  - cbn [N.of_nat] in Hq. rewrite N.pow_0_r in Hq. clear - Hq Hnz. set (q := n / base) in *. clearbody q. lia.
  - specialize (IH f (n / base) Hq ltac:(lia)). lia.
Qed.

Lemma print_N_base_length base d n :
  2 <= base -> n < base ^ N.of_nat d -> (1 <= d)%nat -> (length (print_N_base base n) <= d)%nat.
Proof.
  intros Hb Hn Hd. unfold print_N_base. rewrite rev_length, map_length.
  apply digits_le_length; assumption.
Qed.

Lemma print_dec_Z_length32 z : in_int32 z = true -> (length (print_dec_Z z) <= 11)%nat.
Proof.
  intros H. unfold in_int32 in H. unfold print_dec_Z.
  destruct (Z.ltb_spec z 0) as [Hn|Hp]; cbn [length]; unfold print_dec_N.
  - pose proof (print_N_base_length 10 10 (Z.abs_N z) ltac:(lia)) as Hl.
    change (10 ^ N.of_nat 10) with 10000000000 in Hl. specialize (Hl ltac:(lia) ltac:(lia)). lia.
  - pose proof (print_N_base_length 10 10 (Z.to_N z) ltac:(lia)) as Hl.
    change (10 ^ N.of_nat 10) with 10000000000 in Hl. specialize (Hl ltac:(lia) ltac:(lia)). lia.
Qed.

Lemma print_dec_Z_length64 z : in_int64 z = true -> (length (print_dec_Z z) <= 20)%nat.
Proof.
  intros H. unfold in_int64 in H. unfold print_dec_Z.
  destruct (Z.ltb_spec z 0) as [Hn|Hp]; cbn [length]; unfold print_dec_N.
  - pose proof (print_N_base_length 10 19 (Z.abs_N z) ltac:(lia)) as Hl.
    change (10 ^ N.of_nat 19) with 10000000000000000000 in Hl.
    specialize (Hl ltac:(lia) ltac:(lia)). lia.
  - pose proof (print_N_base_length 10 19 (Z.to_N z) ltac:(lia)) as Hl.
    change (10 ^ N.of_nat 19) with 10000000000000000000 in Hl.
    specialize (Hl ltac:(lia) ltac:(lia)). lia.
Qed.

Lemma print_hex_length h : h < 18446744073709551616 -> (length (print_hex_N h) <= 16)%nat.
Proof.
  intros H. unfold print_hex_N. apply print_N_base_length; [lia| |lia].
  change (16 ^ N.of_nat 16) with 18446744073709551616. assumption.
Qed.

Lemma c_str_length s : (length (c_str s) <= length s)%nat.
Proof.
  induction s as [|c s IH]; [cbn; lia|]. cbn [c_str]. destruct (c =? 0); cbn [length]; lia.
Qed.

(* a record line is at most 63 bytes longer than its output name:
   11 + 1 + 11 + 1 + 20 + 1 + name + 1 + 16 + 1 *)
Theorem render_entry_length e :
  wf_entry e -> (length (render_entry e) <= length (e_out e) + 63)%nat.
Proof.
  intros Hwf. destruct (wf_entry_inv e Hwf) as (_ & _ & _ & _ & Hs & He & Hm & Hh).
  unfold render_entry, render_body. repeat (rewrite app_length || cbn [length]).
  pose proof (print_dec_Z_length32 _ Hs). pose proof (print_dec_Z_length32 _ He).
  pose proof (print_dec_Z_length64 _ Hm). pose proof (print_hex_length _ Hh).
  pose proof (c_str_length (e_out e)). lia.
Qed.

Lemma fits_name_length B e : wf_entry e -> (length (e_out e) + 63 <= B)%nat -> fits B e.
Proof. intros Hwf H. unfold fits. pose proof (render_entry_length e Hwf). lia. Qed.

Lemma fits_names B es :
  Forall wf_entry es -> Forall (fun e => (length (e_out e) + 63 <= B)%nat) es -> Forall (fits B) es.
Proof.
  intros Hw Hn. rewrite Forall_forall in *. intros e He. apply fits_name_length; auto.
Qed.

(* ---- Load terminates on every file (the fuel of the model is never exhausted) and the table
        never holds two entries for one output ---- *)

Definition lr_inv (st : lr_state) : Prop :=
  lr_le st = None \/ lr_le st = find_byte 10 (lr_cur st).

Definition lr_remaining (st : lr_state) : nat :=
  match lr_le st with
  | Some i => length (lr_cur st) - S i + length (lr_rest st)
  | None => length (lr_rest st)
  end.

Definition lr_phi (st : lr_state) : nat :=
  match lr_le st, lr_remaining st with
  | None, O => 1
  | _, r => r + 2
  end.

Lemma find_byte_lt b (s : bytes) i : find_byte b s = Some i -> (i < length s)%nat.
Proof.
  revert i. induction s as [|c s IH]; intros i H; [discriminate|]. cbn [find_byte] in H.
  destruct (c =? b); [injection H as <-; cbn; lia|].
  destruct (find_byte b s) as [j|]; [|discriminate]. injection H as <-.
  specialize (IH j eq_refl). cbn [length]. lia.
Qed.

Lemma lr_phi_pos st : (1 <= lr_phi st)%nat.
Proof. unfold lr_phi. destruct (lr_le st); [lia|]. destruct (lr_remaining st); lia. Qed.

Lemma lr_phi_le st : (lr_phi st <= lr_remaining st + 2)%nat.
Proof. unfold lr_phi. destruct (lr_le st); [lia|]. destruct (lr_remaining st); lia. Qed.

Lemma lr_phi_some st i :
  lr_le st = Some i ->
  lr_phi st = (length (lr_cur st) - S i + length (lr_rest st) + 2)%nat.
Proof. intros H. unfold lr_phi, lr_remaining. rewrite H. reflexivity. Qed.

Lemma lr_phi_none st :
  lr_le st = None -> (0 < length (lr_rest st))%nat -> lr_phi st = (length (lr_rest st) + 2)%nat.
Proof.
  intros H Hpos. unfold lr_phi, lr_remaining. rewrite H.
  destruct (length (lr_rest st)); [lia|reflexivity].
Qed.

Lemma read_line_phi B st st' :
  (0 < B)%nat -> lr_inv st -> read_line B st = Some st' ->
  lr_inv st' /\ (lr_phi st' < lr_phi st)%nat.
Proof.
  intros HB Hinv Hrd. unfold read_line in Hrd.
  (* the shape shared by both branches once [cur] and [rest] after the first step are known *)
  assert (Hcommon : forall (cur rest : bytes) (bound : nat),
    (length cur + length rest <= bound)%nat ->
    ((length cur + length rest < bound)%nat \/ cur = [] \/ (0 < length cur)%nat) ->
    match find_byte 10 cur with
    | Some i => Some {| lr_cur := cur; lr_le := Some i; lr_rest := rest |}
    | None => Some {| lr_cur := cur ++ firstn (B - length cur) rest;
                      lr_le := find_byte 10 (cur ++ firstn (B - length cur) rest);
                      lr_rest := skipn (B - length cur) rest |}
    end = Some st' ->
    lr_inv st' /\
    ((lr_remaining st' < bound)%nat \/
     (lr_le st' = None /\ lr_remaining st' = 0%nat /\ cur = [] /\ rest = []))).
  { intros cur rest bound Hb _ H.
    destruct (find_byte 10 cur) as [i|] eqn:Hf.
    - injection H as <-. split; [right; cbn; symmetry; assumption|].
      left. unfold lr_remaining. cbn [lr_cur lr_le lr_rest]. apply find_byte_lt in Hf. lia.
    - injection H as <-. split; [right; reflexivity|].
      unfold lr_remaining. cbn [lr_cur lr_le lr_rest].
      destruct (find_byte 10 (cur ++ firstn (B - length cur) rest)) as [j|] eqn:Hf'.
      + left. apply find_byte_lt in Hf'. rewrite app_length, firstn_length in *.
        rewrite skipn_length. lia.
      + rewrite skipn_length.
        destruct cur as [|c cur]; [|left; cbn [length] in *; lia].
        destruct rest as [|c rest]; [right; repeat split; reflexivity|].
        left. cbn [length] in *. lia. }
  destruct (lr_cur st) as [|c0 cur0] eqn:Hcur.
  - (* refill; the invariant forces line_end_ = NULL *)
    assert (Hle : lr_le st = None).
    { destruct Hinv as [H|H]; [assumption|]. rewrite Hcur in H. exact H. }
    destruct (firstn B (lr_rest st)) as [|c chunk] eqn:Hch; [discriminate|].
    assert (Hlen : (length (c :: chunk) + length (skipn B (lr_rest st)) = length (lr_rest st))%nat).
    { rewrite <- Hch, <- app_length, firstn_skipn. reflexivity. }
    destruct (Hcommon (c :: chunk) (skipn B (lr_rest st)) (length (lr_rest st)) ltac:(lia)
                      ltac:(right; right; cbn; lia) Hrd) as [Hi [Hlt|(_ & _ & Hc & _)]];
      [|discriminate].
    split; [assumption|].
    pose proof (lr_phi_le st'). rewrite (lr_phi_none st Hle) by (cbn [length] in Hlen; lia). lia.
  - destruct (lr_le st) as [i|] eqn:Hle.
    + (* advance *)
      assert (Hi : (i < length (lr_cur st))%nat).
      { destruct Hinv as [H|H]; [congruence|]. rewrite Hle in H. symmetry in H.
        apply find_byte_lt in H. exact H. }
      rewrite <- Hcur in Hrd.
      assert (Hlen : (length (skipn (S i) (lr_cur st)) = length (lr_cur st) - S i)%nat)
        by apply skipn_length.
      destruct (Hcommon (skipn (S i) (lr_cur st)) (lr_rest st)
                        (length (lr_cur st) - S i + length (lr_rest st))%nat ltac:(lia)
                        ltac:(destruct (skipn (S i) (lr_cur st)); [right; left; reflexivity|
                              right; right; cbn; lia]) Hrd)
        as [Hi' [Hlt|(Hn & Hz & Hc & Hr)]].
      * split; [assumption|]. pose proof (lr_phi_le st').
        rewrite (lr_phi_some st i Hle). lia.
      * split; [assumption|]. rewrite (lr_phi_some st i Hle).
        unfold lr_phi. rewrite Hn, Hz. lia.
    + (* refill *)
      destruct (firstn B (lr_rest st)) as [|c chunk] eqn:Hch; [discriminate|].
      assert (Hlen : (length (c :: chunk) + length (skipn B (lr_rest st)) = length (lr_rest st))%nat).
      { rewrite <- Hch, <- app_length, firstn_skipn. reflexivity. }
      destruct (Hcommon (c :: chunk) (skipn B (lr_rest st)) (length (lr_rest st)) ltac:(lia)
                        ltac:(right; right; cbn; lia) Hrd) as [Hi [Hlt|(_ & _ & Hc & _)]];
        [|discriminate].
      split; [assumption|].
      pose proof (lr_phi_le st'). rewrite (lr_phi_none st Hle) by (cbn [length] in Hlen; lia). lia.
Qed.

Lemma load_loop_total B : (0 < B)%nat -> forall fuel seen ver st acc,
  lr_inv st -> (lr_phi st <= fuel)%nat -> nodup_out (la_entries acc) ->
  match load_loop B fuel seen ver st acc with
  | LFuel => False
  | LOk ents _ => nodup_out ents
  | LDiscard _ _ => True
  end.
Proof.
  intros HB fuel. induction fuel as [|fuel IH]; intros seen ver st acc Hinv Hphi Hnd.
  - pose proof (lr_phi_pos st). lia.
  - rewrite load_loop_S. destruct (read_line B st) as [st'|] eqn:Hrd.
    + destruct (read_line_phi B st st' HB Hinv Hrd) as [Hinv' Hlt]. cbn zeta.
      destruct ((ver =? 0)%Z && _); [exact I|].
      destruct ((ver =? 0)%Z && _); [exact I|].
      destruct (lr_le st') as [i|].
      * apply IH; [assumption|lia|].
        unfold load_step. destruct (parse_line _) as [e|]; [|assumption].
        cbn [la_entries]. apply nodup_upsert. assumption.
      * apply IH; [assumption|lia|assumption].
    + unfold load_finish. destruct seen; assumption.
Qed.

(* Load on ANY bytes, with any buffer size: the model's fuel suffices (so the result is what the
   C++ loop computes), the result is LOAD_SUCCESS or the discard, and the table has one entry per
   output. *)
Theorem load_log_buf_total B (file : bytes) :
  (0 < B)%nat ->
  match load_log_buf B file with
  | LFuel => False
  | LOk ents _ => nodup_out ents
  | LDiscard _ _ => True
  end.
Proof.
  intros HB. unfold load_log_buf. apply load_loop_total; [assumption|left; reflexivity| |constructor].
  unfold lr_phi, lr_remaining, lr_init. cbn [lr_le lr_rest]. destruct (length file); lia.
Qed.

Theorem C08_load_never_fails (file : bytes) :
  load_log file <> LFuel /\ (forall ents b, load_log file = LOk ents b -> nodup_out ents).
Proof.
  pose proof (load_log_buf_total load_buf_size file ltac:(pose proof load_buf_size_ge; lia)) as H.
  unfold load_log. destruct (load_log_buf load_buf_size file) as [o w|ents b|].
  - split; [discriminate|intros ? ? [=]].
  - split; [discriminate|]. intros ents' b' [= <- <-]. assumption.
  - destruct H.
Qed.

(* ---------------------------------------------------------------------------------------- *)
(** ** Whole invocations: Load, recompaction when Load asks for it, then appends *)

Definition session_records (live : bytes -> bool) (R es : list entry) : list entry :=
  if needs_of R then filter (fun e => live (e_out e)) (last_wins R) ++ es else R ++ es.

(* [file] is a log written by ninja holding the records [R] (or does not exist yet) *)
Definition holds (file : bytes) (R : list entry) : Prop :=
  Forall wf_entry R /\ Forall (fits load_buf_size) R /\
  ((file = [] /\ R = []) \/ file = log_header ++ concat (map render_entry R)).

Lemma In_last_wins y es : In y (last_wins es) -> In y es.
Proof. intros H. apply In_last_wins_latest in H. apply latest_In in H. tauto. Qed.

Lemma holds_load file R : holds file R -> load_log file = loaded R.
Proof.
  intros (Hw & Hf & [[-> ->] | ->]).
  - unfold load_log. rewrite load_small; [reflexivity| |reflexivity|cbn; lia].
    pose proof load_buf_size_ge. lia.
  - apply (C08_roundtrip_buf load_buf_size R load_buf_size_ge Hw Hf).
Qed.

Lemma session_step live file R es :
  holds file R -> Forall wf_entry es -> Forall (fits load_buf_size) es ->
  holds (session live file es) (session_records live R es).
Proof.
  intros Hh Hwe Hfe. pose proof (holds_load file R Hh) as Hl.
  destruct Hh as (Hw & Hf & Hfile).
  unfold session, session_records. rewrite Hl. unfold loaded.
  destruct (needs_of R).
  - assert (HwF : Forall wf_entry (filter (fun e => live (e_out e)) (last_wins R))).
    { apply Forall_filter. rewrite Forall_forall in *. intros y Hy. apply Hw, In_last_wins, Hy. }
    assert (HfF : Forall (fits load_buf_size) (filter (fun e => live (e_out e)) (last_wins R))).
    { apply Forall_filter. rewrite Forall_forall in *. intros y Hy. apply Hf, In_last_wins, Hy. }
    split; [apply Forall_app; split; assumption|]. split; [apply Forall_app; split; assumption|].
    right. unfold recompact. apply record_append_wellformed.
  - split; [apply Forall_app; split; assumption|]. split; [apply Forall_app; split; assumption|].
    right. destruct Hfile as [[-> ->] | ->].
    + reflexivity.
    + apply record_append_wellformed.
Qed.

(* A run of several invocations, as a relation: [runs ss f f'] iff starting with the file [f] the
   invocations [ss] (each with its own liveness oracle and records) leave [f'] = the fold of
   [session].  (A relation rather than a Fixpoint on purpose: [session] contains [load_log], whose
   buffer size is a 262144-deep unary [nat] once unfolded; any conversion problem that makes the
   kernel compare two unfolded [load_log] terms structurally overflows the stack.) *)
Inductive runs : list ((bytes -> bool) * list entry) -> bytes -> bytes -> Prop :=
| runs_nil f : runs [] f f
| runs_cons live es ss f f' :
    runs ss (session live f es) f' -> runs ((live, es) :: ss) f f'.

Fixpoint run_records (ss : list ((bytes -> bool) * list entry)) (R : list entry) : list entry :=
  match ss with
  | [] => R
  | s :: ss' => run_records ss' (session_records (fst s) R (snd s))
  end.

Lemma run_records_cons live es ss R :
  run_records ((live, es) :: ss) R = run_records ss (session_records live R es).
Proof. reflexivity. Qed.

Lemma runs_holds ss file file' :
  runs ss file file' -> forall R,
  holds file R ->
  Forall wf_entry (concat (map snd ss)) -> Forall (fits load_buf_size) (concat (map snd ss)) ->
  holds file' (run_records ss R).
Proof.
  intros Hruns. induction Hruns as [f|live es ss f f' Hruns IH]; intros R Hh Hw Hf; [assumption|].
  cbn [map concat snd] in Hw, Hf.
  apply Forall_app in Hw. destruct Hw as [Hw1 Hw2]. apply Forall_app in Hf. destruct Hf as [Hf1 Hf2].
  rewrite run_records_cons.
  apply IH; [apply session_step; assumption|assumption|assumption].
Qed.

Lemma latest_app n a b :
  latest n (a ++ b) = match latest n b with Some x => Some x | None => latest n a end.
Proof. unfold latest. rewrite rev_app_distr. apply lookup_out_app. Qed.

Lemma lookup_rev_nodup n l : nodup_out l -> lookup_out n (rev l) = lookup_out n l.
Proof.
  unfold nodup_out. induction l as [|x l IH]; intros Hnd; [reflexivity|].
  cbn [map] in Hnd. inversion Hnd as [|? ? Hnotin Hnd']; subst.
  cbn [rev]. rewrite lookup_out_app, IH by assumption. cbn [lookup_out].
  destruct (bytes_eqb_spec (e_out x) n) as [Heq|_].
  - assert (Hno : has_out n l = false).
    { destruct (has_out n l) eqn:Hh; [|reflexivity]. apply has_out_In in Hh. congruence. }
    rewrite has_out_lookup in Hno. destruct (lookup_out n l); [discriminate|reflexivity].
  - destruct (lookup_out n l); reflexivity.
Qed.

Lemma lookup_filter_live (live : bytes -> bool) n l :
  lookup_out n (filter (fun e => live (e_out e)) l) = if live n then lookup_out n l else None.
Proof.
  destruct (live n) eqn:Hl.
  - induction l as [|x l IH]; [reflexivity|]. cbn [filter lookup_out].
    destruct (bytes_eqb_spec (e_out x) n) as [Heq|Hne].
    + rewrite Heq, Hl. cbn [lookup_out]. rewrite Heq, bytes_eqb_refl. reflexivity.
    + destruct (live (e_out x)); [|exact IH]. cbn [lookup_out].
      destruct (bytes_eqb_spec (e_out x) n); [contradiction|exact IH].
  - induction l as [|x l IH]; [reflexivity|]. cbn [filter].
    destruct (live (e_out x)) eqn:Hx; [|exact IH]. cbn [lookup_out].
    destruct (bytes_eqb_spec (e_out x) n) as [Heq|Hne]; [congruence|exact IH].
Qed.

(* the latest record of an output in the compacted table *)
Lemma latest_compacted live n R :
  latest n (filter (fun e => live (e_out e)) (last_wins R)) = if live n then latest n R else None.
Proof.
  unfold latest at 1. rewrite lookup_rev_nodup by (apply nodup_filter, nodup_last_wins).
  rewrite lookup_filter_live, lookup_last_wins. reflexivity.
Qed.

Lemma run_records_inv ss : forall R All,
  (forall n, latest n R = latest n All \/ latest n R = None) ->
  (forall n, latest n (run_records ss R) = latest n (All ++ concat (map snd ss)) \/
             latest n (run_records ss R) = None).
Proof.
  induction ss as [|[live es] ss IH]; intros R All Hinv n.
  - cbn [run_records map concat]. rewrite app_nil_r. apply Hinv.
  - rewrite run_records_cons. cbn [map concat snd]. rewrite app_assoc.
    apply IH. clear n. intros n. unfold session_records.
    destruct (needs_of R); rewrite !latest_app.
    + destruct (latest n es); [left; reflexivity|]. rewrite latest_compacted.
      destruct (live n); [apply Hinv|right; reflexivity].
    + destruct (latest n es); [left; reflexivity|]. apply Hinv.
Qed.

Lemma run_records_live ss : forall R All n,
  (forall s, In s ss -> fst s n = true) ->
  latest n R = latest n All ->
  latest n (run_records ss R) = latest n (All ++ concat (map snd ss)).
Proof.
  induction ss as [|[live es] ss IH]; intros R All n Hlive Hinv.
  - cbn [run_records map concat]. rewrite app_nil_r. apply Hinv.
  - rewrite run_records_cons. cbn [map concat snd]. rewrite app_assoc.
    apply IH; [intros s Hs; apply Hlive; right; assumption|].
    unfold session_records. destruct (needs_of R); rewrite !latest_app.
    + destruct (latest n es); [reflexivity|]. rewrite latest_compacted.
      pose proof (Hlive (live, es) (or_introl eq_refl)) as Hl. cbn [fst] in Hl. rewrite Hl.
      apply Hinv.
    + destruct (latest n es); [reflexivity|]. apply Hinv.
Qed.

(* Any number of invocations, each with its own manifest/disk state [live] and its records,
   recompacting whenever Load asks for it: the final log loads; every entry of the table is the
   latest record ever written for its output; and an output that was live at every invocation has
   exactly its latest record in the table. *)
Theorem C08_sessions_recompact (ss : list ((bytes -> bool) * list entry)) (file : bytes) :
  let all := concat (map snd ss) in
  runs ss [] file ->
  Forall wf_entry all -> Forall (fits load_buf_size) all ->
  exists ents b,
    load_log file = LOk ents b /\
    (forall y, In y ents -> latest (e_out y) all = Some y) /\
    (forall n, (forall s, In s ss -> fst s n = true) -> lookup_out n ents = latest n all).
Proof.
  intros all Hruns Hw Hf. subst all.
  assert (Hh0 : holds [] []).
  { split; [constructor|]. split; [constructor|]. left. split; reflexivity. }
  pose proof (runs_holds ss [] file Hruns [] Hh0 Hw Hf) as Hh.
  rewrite (holds_load _ _ Hh). unfold loaded. eexists. eexists. split; [reflexivity|].
  split.
  - intros y Hy. apply In_last_wins_latest in Hy.
    destruct (run_records_inv ss [] [] (fun n => or_introl eq_refl) (e_out y)) as [H|H].
    + cbn [app] in H. rewrite <- H. assumption.
    + congruence.
  - intros n Hlive. rewrite lookup_last_wins.
    apply (run_records_live ss [] [] n Hlive eq_refl).
Qed.

(* ---------------------------------------------------------------------------------------- *)
(** ** The merged line, case by case, for a fragment torn out of a well-formed record *)

Lemma split_tabs_notab (a : bytes) : no_byte 9 a = true -> split_tabs a = [a].
Proof.
  induction a as [|c a IH]; [reflexivity|]. rewrite no_byte_cons. intros H. cbn [split_tabs].
  destruct (N.eqb_spec c 9) as [?|_]; [lia|]. rewrite IH by lia. reflexivity.
Qed.

Lemma split_tabs_app (a b : bytes) :
  no_byte 9 a = true -> split_tabs (a ++ 9 :: b) = a :: split_tabs b.
Proof.
  induction a as [|c a IH]; [reflexivity|]. rewrite no_byte_cons. intros H. cbn [app split_tabs].
  destruct (N.eqb_spec c 9) as [?|_]; [lia|]. rewrite IH by lia. reflexivity.
Qed.

(* the fragment is empty or a proper prefix of the body of one of the records *)
Lemma torn_fragment_prefix a : forall es,
  torn_fragment_from a es = [] \/
  exists et j, In et es /\ (j <= length (render_body et))%nat /\
               torn_fragment_from a es = firstn j (render_body et).
Proof.
  intros es. revert a. induction es as [|e es IH]; intros a; [left; reflexivity|].
  cbn [torn_fragment_from].
  destruct (Nat.leb_spec (length (render_entry e)) a) as [Hle|Hgt].
  - destruct (IH (a - length (render_entry e))%nat) as [H|(et & j & Hin & Hj & H)]; [left; assumption|].
    right. exists et, j. split; [right; assumption|]. split; assumption.
  - right. exists e, a. unfold render_entry in *. rewrite app_length in Hgt. cbn [length] in Hgt.
    split; [left; reflexivity|]. split; [lia|].
    rewrite firstn_app. replace (a - length (render_body e))%nat with 0%nat by lia.
    cbn [firstn]. apply app_nil_r.
Qed.

(* no tab yet (the tear is inside the start time): the next record survives with its own name,
   end time, mtime and hash; only its start time is read from the glued digits *)
Lemma merged_0tabs (frag : bytes) e' :
  wf_entry e' -> no_byte 9 frag = true ->
  merged_line_entry frag e' =
  [ {| e_out := e_out e'; e_start := c_atoi (frag ++ print_dec_Z (e_start e'));
       e_end := e_end e'; e_mtime := e_mtime e'; e_hash := e_hash e' |} ].
Proof.
  intros Hwf Hf. destruct (wf_entry_inv e' Hwf) as (_ & H0 & _ & _ & Hs & He & Hm & Hh).
  unfold merged_line_entry. rewrite split_tabs_notab by assumption.
  rewrite atoi_print0, strtoll_print0, strtoull16_print, c_str_id by assumption. reflexivity.
Qed.

(* three tabs (the tear is inside the output name, or right after it): ONE entry whose name is
   the torn part of the name glued to the next record's start time, with the torn record's
   genuine times and mtime, and a hash read (as hex) from the next record's decimal end time *)
Lemma merged_3tabs et (o1 : bytes) e' :
  no_byte 9 o1 = true ->
  in_int32 (e_start et) = true -> in_int32 (e_end et) = true -> in_int64 (e_mtime et) = true ->
  merged_line_entry
    (print_dec_Z (e_start et) ++ 9 :: print_dec_Z (e_end et) ++ 9 :: print_dec_Z (e_mtime et) ++
     9 :: o1) e' =
  [ {| e_out := o1 ++ print_dec_Z (e_start e'); e_start := e_start et; e_end := e_end et;
       e_mtime := e_mtime et;
       e_hash := c_strtoull16 (print_dec_Z (e_end e') ++ 9 :: print_dec_Z (e_mtime e') ++ 9 ::
                               c_str (e_out e') ++ 9 :: print_hex_N (e_hash e')) |} ].
Proof.
  intros Ho Hs He Hm. unfold merged_line_entry.
  rewrite !split_tabs_app by (apply print_dec_Z_no_byte; lia).
  rewrite split_tabs_notab by assumption.
  rewrite !atoi_print0, strtoll_print0 by assumption. reflexivity.
Qed.

(* four tabs (the tear is inside the hash): ONE entry for the torn record's REAL output, with its
   genuine times and mtime; only the hash is wrong: torn hex digits glued to the next start time *)
Lemma merged_4tabs et (h1 : bytes) e' :
  no_byte 9 (e_out et) = true -> no_byte 0 (e_out et) = true -> no_byte 9 h1 = true ->
  in_int32 (e_start et) = true -> in_int32 (e_end et) = true -> in_int64 (e_mtime et) = true ->
  merged_line_entry
    (print_dec_Z (e_start et) ++ 9 :: print_dec_Z (e_end et) ++ 9 :: print_dec_Z (e_mtime et) ++
     9 :: c_str (e_out et) ++ 9 :: h1) e' =
  [ {| e_out := e_out et; e_start := e_start et; e_end := e_end et; e_mtime := e_mtime et;
       e_hash := c_strtoull16 (h1 ++ print_dec_Z (e_start e') ++ 9 :: print_dec_Z (e_end e') ++ 9 ::
                               print_dec_Z (e_mtime e') ++ 9 :: c_str (e_out e') ++ 9 ::
                               print_hex_N (e_hash e')) |} ].
Proof.
  intros Ho H0 Hh Hs He Hm. unfold merged_line_entry.
  rewrite !split_tabs_app by (apply print_dec_Z_no_byte; lia).
  rewrite c_str_id by assumption.
  rewrite split_tabs_app by assumption.
  rewrite split_tabs_notab by assumption.
  rewrite !atoi_print0, strtoll_print0 by assumption. cbn [map concat app]. reflexivity.
Qed.
