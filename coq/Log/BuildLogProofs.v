(* C08 — proofs about the byte-level build-log model of BuildLogDefs.v.
   No axioms are used (stdlib List/NArith/ZArith/Lia only). *)
From NinjaV Require Import Base.Bytes Log.BuildLogDefs.
Require Import ZifyBool ZifyNat ZifyN.

Local Open Scope N_scope.

(* ========================================================================================== *)
(** * A. Numbers: printers and C prefix parsers *)

Lemma digits_le_S base f n :
  digits_le base (S f) n =
  (n mod base) :: (if (n / base) =? 0 then [] else digits_le base f (n / base)).
Proof. reflexivity. Qed.

Lemma digits_le_value base f n :
  2 <= base -> n < 2 ^ N.of_nat f ->
  fold_right (fun d v => d + base * v) 0 (digits_le base (S f) n) = n.
Proof.
  intros Hb. revert n. induction f as [|f IH]; intros n Hn.
  - cbn [N.of_nat] in Hn. assert (n = 0) by (cbn in Hn; lia). subst n.
    cbn [digits_le]. rewrite N.div_0_l, N.mod_0_l by lia. cbn [N.eqb fold_right]. lia.
  - rewrite digits_le_S.
    destruct (N.eqb_spec (n / base) 0) as [Hz|Hnz].
    + cbn [fold_right]. pose proof (N.div_mod n base ltac:(lia)) as Hdm. rewrite Hz in Hdm. lia.
    + cbn [fold_right]. rewrite IH.
      * pose proof (N.div_mod n base ltac:(lia)) as Hdm. lia.
      * rewrite Nat2N.inj_succ, N.pow_succ_r' in Hn.
        apply N.div_lt_upper_bound; [lia|]. nia.
Qed.

Lemma digits_le_bound base f n :
  2 <= base -> Forall (fun d => d < base) (digits_le base f n).
Proof.
  intros Hb. revert n. induction f as [|f IH]; intros n; cbn [digits_le]; [constructor|].
  constructor; [apply N.mod_lt; lia|].
  destruct (n / base =? 0); [constructor|apply IH].
Qed.

Lemma digits_le_nonempty base f n : digits_le base (S f) n <> [].
Proof. cbn [digits_le]. discriminate. Qed.

Lemma size_nat_bound n : n < 2 ^ N.of_nat (N.size_nat n).
Proof.
  destruct n as [|p]; [cbn; lia|].
  cbn [N.size_nat]. induction p as [p IH|p IH|]; cbn [Pos.size_nat].
  - rewrite Nat2N.inj_succ, N.pow_succ_r'. lia.
  - rewrite Nat2N.inj_succ, N.pow_succ_r'. lia.
  - cbn. lia.
Qed.

(* digit characters *)
Definition is_base (base : N) : Prop := base = 10 \/ base = 16.

Lemma digit_val_char base d : is_base base -> d < base -> digit_val base (digit_char d) = Some d.
Proof.
  intros Hb Hd.
  assert (Hall : forallb (fun b => forallb (fun d => negb (d <? b) ||
             match digit_val b (digit_char d) with Some d' => d' =? d | None => false end)
             (map N.of_nat (seq 0 16))) [10; 16] = true) by (vm_compute; reflexivity).
  assert (Hin : In d (map N.of_nat (seq 0 16))).
  { apply in_map_iff. exists (N.to_nat d). split; [lia|]. apply in_seq. destruct Hb; lia. }
  cbn [forallb] in Hall. rewrite !andb_true_iff in Hall. destruct Hall as (H10 & H16 & _).
  destruct Hb as [-> | ->].
  - rewrite forallb_forall in H10. specialize (H10 d Hin).
    destruct (digit_val 10 (digit_char d)) as [d'|]; [|lia].
    f_equal. lia.
  - rewrite forallb_forall in H16. specialize (H16 d Hin).
    destruct (digit_val 16 (digit_char d)) as [d'|]; [|lia].
    f_equal. lia.
Qed.

(* big-endian value *)
Lemma parse_digits_app base (bs : list N) acc rest :
  is_base base -> Forall (fun d => d < base) bs ->
  parse_digits base acc (map digit_char bs ++ rest) =
  parse_digits base (fold_left (fun a d => a * base + d) bs acc) rest.
Proof.
  intros Hb. revert acc. induction bs as [|d bs IH]; intros acc Hall; [reflexivity|].
  inversion Hall as [|? ? Hd Hbs]; subst.
  cbn [map app parse_digits fold_left]. rewrite digit_val_char by assumption. apply IH; assumption.
Qed.

Definition stops (base : N) (rest : bytes) : Prop :=
  match rest with [] => True | c :: _ => digit_val base c = None end.

Lemma parse_digits_stop base acc rest : stops base rest -> parse_digits base acc rest = acc.
Proof. destruct rest as [|c r]; cbn; [reflexivity|]. intros ->. reflexivity. Qed.

Lemma parse_print base n rest :
  is_base base -> stops base rest ->
  parse_digits base 0 (print_N_base base n ++ rest) = n.
Proof.
  intros Hb Hs. unfold print_N_base. rewrite <- map_rev.
  assert (H2 : 2 <= base) by (destruct Hb; lia).
  rewrite parse_digits_app; [|assumption|apply Forall_rev, digits_le_bound; assumption].
  rewrite parse_digits_stop by assumption.
  rewrite <- fold_left_rev_right, rev_involutive.
  transitivity (fold_right (fun d v => d + base * v) 0 (digits_le base (S (N.size_nat n)) n)).
  - generalize (digits_le base (S (N.size_nat n)) n). intros ds.
    induction ds as [|d ds IHds]; [reflexivity|].
    cbn [fold_right]. rewrite IHds. lia.
  - apply digits_le_value; [assumption|apply size_nat_bound].
Qed.

(* the characters a printer produces *)
Definition is_digit_char (base : N) (c : byte) : Prop := exists d, digit_val base c = Some d.

Lemma print_N_base_chars base n : is_base base -> Forall (is_digit_char base) (print_N_base base n).
Proof.
  intros Hb. unfold print_N_base. apply Forall_rev. apply Forall_map.
  assert (H2 : 2 <= base) by (destruct Hb; lia).
  eapply Forall_impl; [|apply digits_le_bound; exact H2].
  intros d Hd. exists d. apply digit_val_char; assumption.
Qed.

Lemma print_N_base_nonempty base n : print_N_base base n <> [].
Proof.
  unfold print_N_base. intros H. apply (f_equal (@rev _)) in H. rewrite rev_involutive in H.
  cbn [rev] in H. apply map_eq_nil in H. revert H. apply digits_le_nonempty.
Qed.

(* a digit character is an ASCII alphanumeric: in particular not NUL, tab, newline, space, sign *)
Lemma digit_char_range base c : is_digit_char base c -> 48 <= c /\ c <= 122.
Proof.
  intros [d Hd]. unfold digit_val in Hd.
  destruct ((48 <=? c) && (c <=? 57)) eqn:H1; [lia|].
  destruct ((97 <=? c) && (c <=? 122)) eqn:H2; [lia|].
  destruct ((65 <=? c) && (c <=? 90)) eqn:H3; [lia|discriminate].
Qed.

Lemma digit10_range c : is_digit_char 10 c -> 48 <= c /\ c <= 57.
Proof.
  intros [d Hd]. unfold digit_val in Hd.
  destruct ((48 <=? c) && (c <=? 57)) eqn:H1; [lia|].
  destruct ((97 <=? c) && (c <=? 122)) eqn:H2.
  - destruct (c - 87 <? 10) eqn:H4; [lia|discriminate].
  - destruct ((65 <=? c) && (c <=? 90)) eqn:H3; [|discriminate].
    destruct (c - 55 <? 10) eqn:H4; [lia|discriminate].
Qed.

Lemma no_byte_Forall b s : no_byte b s = true <-> Forall (fun c => c <> b) s.
Proof.
  unfold no_byte. rewrite forallb_forall, Forall_forall.
  split; intros H c Hc; specialize (H c Hc); lia.
Qed.

Lemma no_byte_app b s t : no_byte b (s ++ t) = no_byte b s && no_byte b t.
Proof. unfold no_byte. apply forallb_app. Qed.

Lemma no_byte_cons b c s : no_byte b (c :: s) = negb (c =? b) && no_byte b s.
Proof. reflexivity. Qed.

Lemma print_N_no_byte base n b :
  is_base base -> (b < 48 \/ 122 < b) -> no_byte b (print_N_base base n) = true.
Proof.
  intros Hb Hr. apply no_byte_Forall.
  eapply Forall_impl; [|apply print_N_base_chars; exact Hb].
  intros c Hc. apply digit_char_range in Hc. lia.
Qed.

Lemma print_dec_Z_no_byte z b : (b < 45 \/ 122 < b) -> no_byte b (print_dec_Z z) = true.
Proof.
  intros Hr. unfold print_dec_Z. destruct (z <? 0)%Z.
  - rewrite no_byte_cons. unfold print_dec_N. rewrite print_N_no_byte; [|left; reflexivity|lia].
    lia.
  - apply print_N_no_byte; [left; reflexivity|lia].
Qed.

Lemma print_hex_no_byte h b : (b < 48 \/ 122 < b) -> no_byte b (print_hex_N h) = true.
Proof. apply print_N_no_byte. right; reflexivity. Qed.

(* first character of a decimal print: a digit *)
Lemma print_dec_N_head n : exists c r, print_dec_N n = c :: r /\ 48 <= c <= 57.
Proof.
  pose proof (print_N_base_chars 10 n (or_introl eq_refl)) as Hall.
  pose proof (print_N_base_nonempty 10 n) as Hne.
  unfold print_dec_N. destruct (print_N_base 10 n) as [|c r]; [congruence|].
  exists c, r. split; [reflexivity|]. inversion Hall as [|? ? Hc ?]; subst.
  apply digit10_range in Hc. lia.
Qed.

Lemma is_space_false c : 45 <= c -> is_space c = false.
Proof. intros H. unfold is_space. lia. Qed.

Lemma clamp64_id z : in_int64 z = true -> clamp64 z = z.
Proof.
  unfold clamp64, in_int64. intros H.
  destruct (Z.ltb_spec z (-9223372036854775808)) as [?|_]; [lia|].
  destruct (Z.ltb_spec 9223372036854775807 z) as [?|_]; [lia|reflexivity].
Qed.

Lemma strtoll_print z rest :
  in_int64 z = true -> stops 10 rest -> c_strtoll (print_dec_Z z ++ rest) = z.
Proof.
  intros Hr Hs. unfold c_strtoll, print_dec_Z.
  destruct (Z.ltb_spec z 0) as [Hneg|Hpos].
  - cbn [app skip_ws]. rewrite is_space_false by lia.
    unfold split_sign. cbn [N.eqb Pos.eqb].
    unfold print_dec_N. rewrite parse_print; [|left; reflexivity|assumption].
    rewrite N2Z.inj_abs_N. rewrite Z.abs_neq by lia. rewrite Z.opp_involutive.
    apply clamp64_id; assumption.
  - destruct (print_dec_N_head (Z.to_N z)) as (c & r & Hcr & Hc).
    rewrite Hcr. cbn [app skip_ws]. rewrite is_space_false by lia.
    unfold split_sign.
    destruct (N.eqb_spec c 45) as [?|_]; [lia|]. destruct (N.eqb_spec c 43) as [?|_]; [lia|].
    change (c :: r ++ rest) with ((c :: r) ++ rest). rewrite <- Hcr.
    unfold print_dec_N. rewrite parse_print; [|left; reflexivity|assumption].
    rewrite Z2N.id by lia. apply clamp64_id; assumption.
Qed.

Lemma wrap32_id z : in_int32 z = true -> wrap32 z = z.
Proof.
  unfold in_int32, wrap32. intros H.
  destruct (Z.leb_spec 2147483648 (z mod 4294967296)) as [Hm|Hm].
  - assert (z < 0)%Z.
    { destruct (Z.ltb_spec z 0) as [?|Hp]; [assumption|].
      rewrite Z.mod_small in Hm by lia. lia. }
    replace z with ((z + 4294967296) + (-1) * 4294967296)%Z at 1 by lia.
    rewrite Z.mod_add by lia. rewrite Z.mod_small by lia. lia.
  - destruct (Z.ltb_spec z 0) as [Hn|Hp].
    + exfalso. replace z with ((z + 4294967296) + (-1) * 4294967296)%Z in Hm by lia.
      rewrite Z.mod_add in Hm by lia. rewrite Z.mod_small in Hm by lia. lia.
    + apply Z.mod_small. lia.
Qed.

Lemma in_int32_64 z : in_int32 z = true -> in_int64 z = true.
Proof. unfold in_int32, in_int64. lia. Qed.

Lemma atoi_print z rest :
  in_int32 z = true -> stops 10 rest -> c_atoi (print_dec_Z z ++ rest) = z.
Proof.
  intros Hr Hs. unfold c_atoi. rewrite strtoll_print; [|apply in_int32_64; assumption|assumption].
  apply wrap32_id; assumption.
Qed.

Lemma skip_0x_hex s : Forall (is_digit_char 16) s -> skip_0x s = s.
Proof.
  intros H. destruct s as [|c0 [|c1 s]]; [reflexivity|reflexivity|].
  inversion H as [|? ? _ H1]; subst. inversion H1 as [|? ? [d Hd] _]; subst.
  cbn [skip_0x].
  destruct (N.eqb_spec c1 120) as [->|_]; [vm_compute in Hd; discriminate|].
  destruct (N.eqb_spec c1 88) as [->|_]; [vm_compute in Hd; discriminate|].
  rewrite andb_false_r. reflexivity.
Qed.

Lemma strtoull16_print h : h < 18446744073709551616 -> c_strtoull16 (print_hex_N h) = h.
Proof.
  intros Hh. unfold c_strtoull16.
  pose proof (print_N_base_chars 16 h (or_intror eq_refl)) as Hall.
  pose proof (print_N_base_nonempty 16 h) as Hne. fold (print_hex_N h) in Hall, Hne.
  assert (Hsk : skip_ws (print_hex_N h) = print_hex_N h /\
                split_sign (print_hex_N h) = (false, print_hex_N h)).
  { destruct (print_hex_N h) as [|c r]; [congruence|].
    inversion Hall as [|? ? Hc _]; subst. apply digit_char_range in Hc.
    cbn [skip_ws]. rewrite is_space_false by lia. split; [reflexivity|].
    unfold split_sign.
    destruct (N.eqb_spec c 45) as [?|_]; [lia|]. destruct (N.eqb_spec c 43) as [?|_]; [lia|].
    reflexivity. }
  destruct Hsk as [-> ->]. rewrite skip_0x_hex by assumption.
  pose proof (parse_print 16 h [] (or_intror eq_refl) I) as Hp. rewrite app_nil_r in Hp.
  fold (print_hex_N h) in Hp. rewrite Hp.
  destruct (N.leb_spec 18446744073709551616 h); [lia|reflexivity].
Qed.

Lemma stops_tab : stops 10 (9 :: []) /\ forall r, stops 10 (9 :: r).
Proof. split; [reflexivity|intros r; reflexivity]. Qed.
