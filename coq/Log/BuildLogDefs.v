(* C08 — byte-level model of ninja's build log (.ninja_log): src/build_log.cc, src/build_log.h.
   ONLY definitions (conventions): the loader [load_log] is a transliteration of BuildLog::Load
   including its LineReader (fixed buffer, over-long lines), the sscanf-based version detection,
   the four-tab field split and the atoi/strtoll/strtoull prefix semantics.  The "Spec" part at the
   end holds the tidy notions the theorems of BuildLogProofs.v relate the model to. *)
From NinjaV Require Import Base.Bytes.

(* ------------------------------------------------------------------------------------------ *)
(** * Records *)

Record entry := { e_out : bytes; e_start : Z; e_end : Z; e_mtime : Z; e_hash : N }.

(* ------------------------------------------------------------------------------------------ *)
(** * Reusable number printers (printf %d / %lld / %llx) and C prefix parsers *)

Local Open Scope N_scope.

(* little-endian digits of [n] in [base]; fuel = number of digits wanted at most *)
Fixpoint digits_le (base : N) (fuel : nat) (n : N) : list N :=
  match fuel with
  | O => []
  | S f => (n mod base) :: (if (n / base) =? 0 then [] else digits_le base f (n / base))
  end.

(* '0'..'9' then 'a'..'z' (lowercase, as %x prints) *)
Definition digit_char (d : N) : byte := if d <? 10 then 48 + d else 87 + d.

(* N.size_nat n = number of binary digits >= number of digits in any base >= 2 *)
Definition print_N_base (base : N) (n : N) : bytes :=
  rev (map digit_char (digits_le base (S (N.size_nat n)) n)).

Definition print_dec_N : N -> bytes := print_N_base 10.
Definition print_hex_N : N -> bytes := print_N_base 16.     (* %llx *)

Definition print_dec_Z (z : Z) : bytes :=                  (* %d, %lld *)
  if (z <? 0)%Z then 45 :: print_dec_N (Z.abs_N z) else print_dec_N (Z.to_N z).

(* value of a character as a digit of [base] (strtol accepts both cases of letters) *)
Definition digit_val (base : N) (c : byte) : option N :=
  let v := if (48 <=? c) && (c <=? 57) then Some (c - 48)
           else if (97 <=? c) && (c <=? 122) then Some (c - 87)
           else if (65 <=? c) && (c <=? 90) then Some (c - 55)
           else None in
  match v with
  | Some d => if d <? base then Some d else None
  | None => None
  end.

(* consume the maximal run of digits; unbounded value (callers clamp, as strto* do on overflow) *)
Fixpoint parse_digits (base : N) (acc : N) (s : bytes) : N :=
  match s with
  | [] => acc
  | c :: s' => match digit_val base c with
               | Some d => parse_digits base (acc * base + d) s'
               | None => acc
               end
  end.

(* isspace in the C locale: \t \n \v \f \r and space *)
Definition is_space (c : byte) : bool := ((9 <=? c) && (c <=? 13)) || (c =? 32).

Fixpoint skip_ws (s : bytes) : bytes :=
  match s with
  | [] => []
  | c :: s' => if is_space c then skip_ws s' else s
  end.

(* optional sign: (negative?, rest) *)
Definition split_sign (s : bytes) : bool * bytes :=
  match s with
  | [] => (false, [])
  | c :: s' => if c =? 45 then (true, s') else if c =? 43 then (false, s') else (false, s)
  end.

Definition clamp64 (z : Z) : Z :=
  if (z <? - 9223372036854775808)%Z then (- 9223372036854775808)%Z
  else if (9223372036854775807 <? z)%Z then 9223372036854775807%Z else z.

(* conversion long -> int: keep the low 32 bits, two's complement *)
Definition wrap32 (z : Z) : Z :=
  let m := (z mod 4294967296)%Z in
  if (2147483648 <=? m)%Z then (m - 4294967296)%Z else m.

(* strtol(s, NULL, 10) == strtoll on LP64: whitespace, sign, digits, garbage ignored; no digits => 0;
   overflow => LONG_MIN / LONG_MAX *)
Definition c_strtoll (s : bytes) : Z :=
  let '(neg, s2) := split_sign (skip_ws s) in
  let v := Z.of_N (parse_digits 10 0 s2) in
  clamp64 (if neg then (- v)%Z else v).

(* glibc atoi = (int) strtol(s, NULL, 10): on overflow of int the low 32 bits of the (clamped) long *)
Definition c_atoi (s : bytes) : Z := wrap32 (c_strtoll s).

(* strtoull(s, NULL, 16): whitespace, sign, optional 0x/0X, hex digits of either case;
   overflow => ULLONG_MAX (also with a minus sign); "-v" => 2^64 - v *)
Definition skip_0x (s : bytes) : bytes :=
  match s with
  | c0 :: c1 :: s' => if (c0 =? 48) && ((c1 =? 120) || (c1 =? 88)) then s' else s
  | _ => s
  end.

Definition c_strtoull16 (s : bytes) : N :=
  let '(neg, s2) := split_sign (skip_ws s) in
  let v := parse_digits 16 0 (skip_0x s2) in
  if 18446744073709551616 <=? v then 18446744073709551615
  else if neg then (18446744073709551616 - v) mod 18446744073709551616 else v.

(* sscanf(line, "# ninja log v%d\n", &v) with v initially 0: the value left in v.
   Literal characters must match; a blank in the format matches ANY amount of white space
   (including none, including newlines); %d skips white space, takes an optional sign and at
   least one digit.  Matching failure anywhere leaves v = 0.  A NUL ends the input (it is
   neither a literal of the format, nor a blank, nor a digit, so no special case is needed). *)
Definition lit (c : byte) (s : bytes) : option bytes :=
  match s with
  | c' :: s' => if c' =? c then Some s' else None
  | [] => None
  end.

Fixpoint lits (cs : bytes) (s : bytes) : option bytes :=
  match cs with
  | [] => Some s
  | c :: cs' => match lit c s with Some s' => lits cs' s' | None => None end
  end.

Definition starts_with_digit (s : bytes) : bool :=
  match s with
  | c :: _ => match digit_val 10 c with Some _ => true | None => false end
  | [] => false
  end.

(* %d into an int *)
Definition scan_int (s : bytes) : option Z :=
  let '(neg, s2) := split_sign (skip_ws s) in
  if starts_with_digit s2 then
    let v := Z.of_N (parse_digits 10 0 s2) in
    Some (wrap32 (clamp64 (if neg then (- v)%Z else v)))
  else None.

Definition scan_signature (s : bytes) : Z :=
  match lit 35 s with                                              (* '#' *)
  | None => 0%Z
  | Some s1 =>
    match lits [110; 105; 110; 106; 97] (skip_ws s1) with          (* "ninja" *)
    | None => 0%Z
    | Some s2 =>
      match lits [108; 111; 103] (skip_ws s2) with                 (* "log" *)
      | None => 0%Z
      | Some s3 =>
        match lit 118 (skip_ws s3) with                            (* 'v' *)
        | None => 0%Z
        | Some s4 => match scan_int s4 with Some v => v | None => 0%Z end
        end
      end
    end
  end.

(* ------------------------------------------------------------------------------------------ *)
(** * Writing: kFileSignature, WriteEntry *)

Definition oldest_supported_version : Z := 7.
Definition current_version : Z := 7.

(* "# ninja log v7\n" *)
Definition log_header : bytes :=
  [35; 32; 110; 105; 110; 106; 97; 32; 108; 111; 103; 32; 118] ++
  print_dec_Z current_version ++ [10].

(* %s of std::string::c_str(): stops at the first NUL *)
Fixpoint c_str (s : bytes) : bytes :=
  match s with
  | [] => []
  | c :: s' => if c =? 0 then [] else c :: c_str s'
  end.

(* the record without its newline: "%d\t%d\t%lld\t%s\t%llx" *)
Definition render_body (e : entry) : bytes :=
  print_dec_Z (e_start e) ++ 9 :: print_dec_Z (e_end e) ++ 9 :: print_dec_Z (e_mtime e) ++ 9 ::
  c_str (e_out e) ++ 9 :: print_hex_N (e_hash e).

Definition render_entry (e : entry) : bytes := render_body e ++ [10].

(* ------------------------------------------------------------------------------------------ *)
(** * LineReader *)

Fixpoint find_byte (b : byte) (s : bytes) : option nat :=
  match s with
  | [] => None
  | c :: s' => if c =? b then Some O
               else match find_byte b s' with Some i => Some (S i) | None => None end
  end.

(* [lr_cur]  = the bytes from line_start_ to buf_end_;
   [lr_le]   = line_end_ as an offset from line_start_ (None = NULL);
   [lr_rest] = the part of the file not yet fread. *)
Record lr_state := { lr_cur : bytes; lr_le : option nat; lr_rest : bytes }.

Definition lr_init (file : bytes) : lr_state :=
  {| lr_cur := []; lr_le := None; lr_rest := file |}.

(* LineReader::ReadLine with sizeof(buf_) = B.  None = returns false (EOF). *)
Definition read_line (B : nat) (st : lr_state) : option lr_state :=
  let first :=
    match lr_cur st, lr_le st with
    | _ :: _, Some i =>                      (* advance to next line in buffer *)
        Some (skipn (S i) (lr_cur st), lr_rest st)
    | _, _ =>                                (* line_start_ >= buf_end_ || !line_end_: refill *)
        match firstn B (lr_rest st) with
        | [] => None
        | chunk => Some (chunk, skipn B (lr_rest st))
        end
    end in
  match first with
  | None => None
  | Some (cur, rest) =>
    match find_byte 10 cur with
    | Some i => Some {| lr_cur := cur; lr_le := Some i; lr_rest := rest |}
    | None =>                                (* memmove the rest to the front, fill the buffer *)
      let room := (B - length cur)%nat in
      let cur' := cur ++ firstn room rest in
      Some {| lr_cur := cur'; lr_le := find_byte 10 cur'; lr_rest := skipn room rest |}
    end
  end.

(* ------------------------------------------------------------------------------------------ *)
(** * BuildLog::Load *)

Inductive load_res :=
| LDiscard (too_old_unlinked : bool) (warn : bool)
    (* LOAD_NOT_FOUND after fclose + unlink of the log.  First flag: true = "version is too old",
       false = "too new" (the file is unlinked in BOTH cases); second: *err was set (the caller
       prints it as a warning) — always true in this code. *)
| LOk (entries : list entry) (needs_recompaction : bool)     (* LOAD_SUCCESS *)
| LFuel.                                   (* model artefact, proved unreachable; never in C++ *)

(* split at the first tab *)
Fixpoint split_tab (s : bytes) : option (bytes * bytes) :=
  match s with
  | [] => None
  | c :: s' => if c =? 9 then Some ([], s')
               else match split_tab s' with
                    | Some (a, b) => Some (c :: a, b)
                    | None => None
                    end
  end.

(* one line (without its newline) -> the record it yields, if it has at least four tabs *)
Definition parse_line (line : bytes) : option entry :=
  match split_tab line with
  | None => None
  | Some (f1, r1) =>
    match split_tab r1 with
    | None => None
    | Some (f2, r2) =>
      match split_tab r2 with
      | None => None
      | Some (f3, r3) =>
        match split_tab r3 with
        | None => None
        | Some (f4, r4) =>
          Some {| e_out := f4; e_start := c_atoi f1; e_end := c_atoi f2;
                  e_mtime := c_strtoll f3; e_hash := c_strtoull16 r4 |}
        end
      end
    end
  end.

Fixpoint has_out (name : bytes) (l : list entry) : bool :=
  match l with
  | [] => false
  | x :: l' => bytes_eqb (e_out x) name || has_out name l'
  end.

Fixpoint replace_out (e : entry) (l : list entry) : list entry :=
  match l with
  | [] => []
  | x :: l' => if bytes_eqb (e_out x) (e_out e) then e :: l' else x :: replace_out e l'
  end.

(* entries_ keyed by output: update in place, else insert (list = first-insertion order) *)
Definition upsert (e : entry) (l : list entry) : list entry :=
  if has_out (e_out e) l then replace_out e l else l ++ [e].

Definition needs_recompaction_of (unique total : N) : bool :=
  (100 <? total) && (unique * 3 <? total).

Record load_acc := { la_entries : list entry; la_unique : N; la_total : N }.

Definition la_empty : load_acc := {| la_entries := []; la_unique := 0; la_total := 0 |}.

Definition load_step (acc : load_acc) (line : bytes) : load_acc :=
  match parse_line line with
  | None => acc
  | Some e =>
    {| la_entries := upsert e (la_entries acc);
       la_unique := if has_out (e_out e) (la_entries acc) then la_unique acc
                    else la_unique acc + 1;
       la_total := la_total acc + 1 |}
  end.

Definition load_finish (seen_line : bool) (ver : Z) (acc : load_acc) : load_res :=
  if seen_line then
    LOk (la_entries acc)
        ((ver <? current_version)%Z || needs_recompaction_of (la_unique acc) (la_total acc))
  else LOk (la_entries acc) false.        (* "file was empty" *)

(* the while loop; [seen] = line_start != NULL; [ver] = log_version *)
Fixpoint load_loop (B : nat) (fuel : nat) (seen : bool) (ver : Z) (st : lr_state)
                   (acc : load_acc) : load_res :=
  match fuel with
  | O => LFuel
  | S fuel' =>
    match read_line B st with
    | None => load_finish seen ver acc
    | Some st' =>
      (* if (!log_version) sscanf(line_start, ...): reads the C string at line_start, i.e. it is
         not limited to the line (white space in the format crosses newlines) *)
      let ver' := if (ver =? 0)%Z then scan_signature (lr_cur st') else ver in
      if (ver =? 0)%Z && (ver' <? oldest_supported_version)%Z then LDiscard true true
      else if (ver =? 0)%Z && (current_version <? ver')%Z then LDiscard false true
      else
        match lr_le st' with
        | None => load_loop B fuel' true ver' st' acc            (* no newline: continue *)
        | Some i => load_loop B fuel' true ver' st' (load_step acc (firstn i (lr_cur st')))
        end
    end
  end.

Definition load_log_buf (B : nat) (file : bytes) : load_res :=
  load_loop B (S (S (length file))) false 0%Z (lr_init file) la_empty.

Definition load_buf_size : nat := N.to_nat 262144.           (* char buf_[256 << 10] *)

Definition load_log : bytes -> load_res := load_log_buf load_buf_size.

(* ------------------------------------------------------------------------------------------ *)
(** * Writers: a recording session, Recompact, Restat *)

(* OpenForWriteIfNeeded (after the fix of the merged-line defect, commit 6375e7b): fopen "a+b";
   the signature is written iff ftell == 0 after seeking to the end, i.e. the file is empty or new;
   otherwise the last byte is read back and, when it is not '\n' (a previous run died in the middle
   of a write), ONE '\n' is written first so that the torn tail becomes a line of its own.  Then one
   WriteEntry (+fflush) per recorded output.  The newline is written even when nothing is recorded
   (Close() opens the file). *)
Definition record_append (file : bytes) (es : list entry) : bytes :=
  file ++ (match file with
           | [] => log_header
           | _ :: _ => if last file 0 =? 10 then [] else [10]
           end) ++ concat (map render_entry es).

(* The behaviour BEFORE the fix (fopen "ab", no look at the last byte): kept to document the
   defect; the torn tail and the first appended record merged into one line. *)
Definition record_append_old (file : bytes) (es : list entry) : bytes :=
  file ++ (match file with [] => log_header | _ :: _ => [] end) ++ concat (map render_entry es).

(* Recompact: signature + every entry whose output is not dead.  The C++ iterates a hash map, so
   the ORDER of the lines is unspecified there; the loaded map does not depend on it. *)
Definition recompact (live : bytes -> bool) (entries : list entry) : bytes :=
  log_header ++ concat (map render_entry (filter (fun e => live (e_out e)) entries)).

(* Restat: [pick out = Some m] iff the output is selected (no outputs given, or named) and Stat
   returned m (>= 0; a Stat error aborts before the log is replaced). Only mtime changes. *)
Definition restat_entry (pick : bytes -> option Z) (e : entry) : entry :=
  match pick (e_out e) with
  | Some m => {| e_out := e_out e; e_start := e_start e; e_end := e_end e;
                 e_mtime := m; e_hash := e_hash e |}
  | None => e
  end.

Definition restat_log (pick : bytes -> option Z) (entries : list entry) : list entry :=
  map (restat_entry pick) entries.

Definition restat_file (pick : bytes -> option Z) (entries : list entry) : bytes :=
  log_header ++ concat (map render_entry (restat_log pick entries)).

(* A whole ninja invocation on the log: Load; if the log was discarded it is gone (empty);
   OpenForWrite recompacts first when Load asked for it; then the records are appended. *)
Definition session (live : bytes -> bool) (file : bytes) (es : list entry) : bytes :=
  match load_log file with
  | LDiscard _ _ => record_append [] es
  | LOk ents true => record_append (recompact live ents) es
  | LOk _ false => record_append file es
  | LFuel => file
  end.

(* ------------------------------------------------------------------------------------------ *)
(** * Spec-level notions used by the theorems *)

Definition last_wins (es : list entry) : list entry :=
  fold_left (fun acc e => upsert e acc) es [].

Fixpoint lookup_out (name : bytes) (l : list entry) : option entry :=
  match l with
  | [] => None
  | x :: l' => if bytes_eqb (e_out x) name then Some x else lookup_out name l'
  end.

(* the latest record for [name] in a chronological list of records *)
Definition latest (name : bytes) (es : list entry) : option entry := lookup_out name (rev es).

Definition no_byte (b : byte) (s : bytes) : bool := forallb (fun c => negb (c =? b)) s.

Definition in_int32 (z : Z) : bool := ((- 2147483648 <=? z) && (z <=? 2147483647))%Z.
Definition in_int64 (z : Z) : bool :=
  ((- 9223372036854775808 <=? z) && (z <=? 9223372036854775807))%Z.

(* what WriteEntry/Load round-trip: non-empty name without NUL, tab, newline; int / int64_t /
   uint64_t values (negative ones included) *)
Definition wf_entryb (e : entry) : bool :=
  negb (bytes_eqb (e_out e) []) &&
  no_byte 0 (e_out e) && no_byte 9 (e_out e) && no_byte 10 (e_out e) &&
  in_int32 (e_start e) && in_int32 (e_end e) && in_int64 (e_mtime e) &&
  (e_hash e <? 18446744073709551616).

Definition wf_entry (e : entry) : Prop := wf_entryb e = true.

(* records whose terminating newline lies within the first [avail] bytes of the record area *)
Fixpoint complete_prefix_from (avail : nat) (es : list entry) : list entry :=
  match es with
  | [] => []
  | e :: r => let n := length (render_entry e) in
              if (n <=? avail)%nat then e :: complete_prefix_from (avail - n) r else []
  end.

(* the bytes of the first incomplete record that made it to disk *)
Fixpoint torn_fragment_from (avail : nat) (es : list entry) : bytes :=
  match es with
  | [] => []
  | e :: r => let n := length (render_entry e) in
              if (n <=? avail)%nat then torn_fragment_from (avail - n) r
              else firstn avail (render_entry e)
  end.

Definition complete_prefix (k : nat) (es : list entry) : list entry :=
  complete_prefix_from (k - length log_header) es.
Definition torn_fragment (k : nat) (es : list entry) : bytes :=
  torn_fragment_from (k - length log_header) es.

(* the record that was being written when the file was cut (None at a record boundary / past the end) *)
Fixpoint torn_record_from (avail : nat) (es : list entry) : option entry :=
  match es with
  | [] => None
  | e :: r => let n := length (render_entry e) in
              if (n <=? avail)%nat then torn_record_from (avail - n) r
              else match avail with O => None | S _ => Some e end
  end.
Definition torn_record (k : nat) (es : list entry) : option entry :=
  torn_record_from (k - length log_header) es.

Fixpoint count_tabs (s : bytes) : nat :=
  match s with
  | [] => O
  | c :: s' => if c =? 9 then S (count_tabs s') else count_tabs s'
  end.

(* With the fixed record_append the torn fragment is terminated and read as a line of its own:
   skipped when it has fewer than four tabs, otherwise one entry (BuildLogProofs:
   fragment_entry_few_tabs, fragment_entry_of_record). *)
Definition fragment_entry (frag : bytes) : list entry :=
  match parse_line frag with Some x => [x] | None => [] end.

(* the interrupted record with only the first [j] hex digits of its hash *)
Definition truncated_hash (et : entry) (j : nat) : entry :=
  {| e_out := e_out et; e_start := e_start et; e_end := e_end et; e_mtime := e_mtime et;
     e_hash := c_strtoull16 (firstn j (print_hex_N (e_hash et))) |}.

(* split at every tab *)
Fixpoint split_tabs (s : bytes) : list bytes :=
  match s with
  | [] => [[]]
  | c :: s' => if c =? 9 then [] :: split_tabs s'
               else match split_tabs s' with
                    | f :: fs => (c :: f) :: fs
                    | [] => [[c]]     (* unreachable: split_tabs never returns [] *)
                    end
  end.

(* OLD behaviour (record_append_old): the entry produced by the line "frag ++ render_body e'" (a torn
   fragment without newline glued to the next record), by the number of tabs in the fragment. *)
Definition merged_line_entry (frag : bytes) (e' : entry) : list entry :=
  let s' := print_dec_Z (e_start e') in
  let n' := print_dec_Z (e_end e') in
  let m' := print_dec_Z (e_mtime e') in
  let o' := c_str (e_out e') in
  let h' := print_hex_N (e_hash e') in
  match split_tabs frag with
  | [g0] =>                 (* no tab: the next record survives, start time from glued digits *)
      [ {| e_out := o'; e_start := c_atoi (g0 ++ s'); e_end := c_atoi n';
           e_mtime := c_strtoll m'; e_hash := c_strtoull16 h' |} ]
  | [g0; g1] =>             (* fields shifted by one: name = next mtime digits, hash from name *)
      [ {| e_out := m'; e_start := c_atoi g0; e_end := c_atoi (g1 ++ s');
           e_mtime := c_strtoll n'; e_hash := c_strtoull16 (o' ++ 9 :: h') |} ]
  | [g0; g1; g2] =>         (* shifted by two: name = next end-time digits, hash = mtime digits *)
      [ {| e_out := n'; e_start := c_atoi g0; e_end := c_atoi g1;
           e_mtime := c_strtoll (g2 ++ s'); e_hash := c_strtoull16 (m' ++ 9 :: o' ++ 9 :: h') |} ]
  | [g0; g1; g2; g3] =>     (* name = torn name ++ next start digits, hash = next end digits *)
      [ {| e_out := g3 ++ s'; e_start := c_atoi g0; e_end := c_atoi g1;
           e_mtime := c_strtoll g2;
           e_hash := c_strtoull16 (n' ++ 9 :: m' ++ 9 :: o' ++ 9 :: h') |} ]
  | g0 :: g1 :: g2 :: g3 :: g4 :: gs =>
                            (* the torn record's own name; hash = torn hash digits ++ next start *)
      [ {| e_out := g3; e_start := c_atoi g0; e_end := c_atoi g1; e_mtime := c_strtoll g2;
           e_hash := c_strtoull16 (g4 ++ concat (map (fun g => 9 :: g) gs) ++
                                   s' ++ 9 :: n' ++ 9 :: m' ++ 9 :: o' ++ 9 :: h') |} ]
  | [] => []                (* unreachable *)
  end.
