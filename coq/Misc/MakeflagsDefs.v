(* C13/C06: model of Jobserver::ParseMakeFlagsValue / ParseNativeMakeFlagsValue (src/jobserver.cc, POSIX
   branch) including what glibc's sscanf("%d,%d") does in GetFileDescriptorPair.  Definitions only.
   The input is a C string: [cstr] cuts it at the first NUL byte. *)
From NinjaV Require Import Base.Bytes Misc.ClParserDefs.
Local Open Scope N_scope.

Definition k_auth : bytes := [45; 45; 106; 111; 98; 115; 101; 114; 118; 101; 114; 45; 97; 117; 116; 104; 61]. (* "--jobserver-auth=" *)
Definition k_fds : bytes := [45; 45; 106; 111; 98; 115; 101; 114; 118; 101; 114; 45; 102; 100; 115; 61]. (* "--jobserver-fds=" *)
Definition k_fifo : bytes := [102; 105; 102; 111; 58]. (* "fifo:" *)

Inductive mf_mode := ModeNone | ModePipe | ModePosixFifo | ModeWin32Sem.   (* enum values 0,1,2,3 *)
Record mf_config := mk_cfg { cfg_mode : mf_mode; cfg_path : bytes }.
Definition cfg_default : mf_config := mk_cfg ModeNone [].

Inductive mf_error :=
| ENone
| EBadPair (value : bytes)   (* "Invalid file descriptor pair [" + value + "]" *)
| EPipe                      (* "Pipe-based protocol is not supported!" *)
| ESem.                      (* "Semaphore mode is not supported on Posix!" *)
Record mf_result := mk_res { r_ok : bool; r_cfg : mf_config; r_err : mf_error }.

Fixpoint cstr (s : bytes) : bytes :=
  match s with
  | [] => []
  | c :: s' => if N.eqb c 0 then [] else c :: cstr s'
  end.

(* ---------- the strpbrk(p, " \t") loop: the non-empty pieces ---------- *)
Definition is_sep (c : byte) : bool := N.eqb c b_sp || N.eqb c b_tab.
Fixpoint mf_args_aux (cur : bytes) (s : bytes) : list bytes :=
  match s with
  | [] => match cur with [] => [] | _ :: _ => [rev cur] end
  | c :: s' =>
      if is_sep c
      then match cur with [] => mf_args_aux [] s' | _ :: _ => rev cur :: mf_args_aux [] s' end
      else mf_args_aux (c :: cur) s'
  end.
Definition mf_args (s : bytes) : list bytes := mf_args_aux [] s.

(* ---------- glibc sscanf("%d,%d") ---------- *)
Local Open Scope Z_scope.
Definition is_space (c : byte) : bool := N.eqb c 32 || (N.leb 9 c && N.leb c 13).
Fixpoint skip_ws (s : bytes) : bytes :=
  match s with
  | c :: s' => if is_space c then skip_ws s' else s
  | [] => []
  end.
Definition is_digit (c : byte) : bool := N.leb 48 c && N.leb c 57.
Fixpoint take_digits (s : bytes) : bytes * bytes :=
  match s with
  | c :: s' => if is_digit c then let (d, r) := take_digits s' in (c :: d, r) else ([], s)
  | [] => ([], [])
  end.
Definition digits_value (ds : bytes) : Z :=
  fold_left (fun a d => a * 10 + (Z.of_N d - 48)) ds 0.
(* strtol: clamped to [LONG_MIN, LONG_MAX] *)
Definition clamp64 (z : Z) : Z := Z.max (-9223372036854775808) (Z.min 9223372036854775807 z).
(* stored through an int* : low 32 bits, two's complement *)
Definition wrap32 (z : Z) : Z :=
  let m := z mod 4294967296 in if Z.leb 2147483648 m then m - 4294967296 else m.
(* %d : the value and the unread rest; None = matching failure / end of input *)
Definition scan_int (s : bytes) : option (Z * bytes) :=
  let s1 := skip_ws s in
  let '(neg, s2) :=
    match s1 with
    | c :: r => if N.eqb c 45 then (true, r) else if N.eqb c 43 then (false, r) else (false, s1)
    | [] => (false, s1)
    end in
  let (ds, s3) := take_digits s2 in
  match ds with
  | [] => None
  | _ :: _ => let v := digits_value ds in Some (wrap32 (clamp64 (if neg then - v else v)), s3)
  end.
(* sscanf(...) == 2 ? the two ints : failure.  The ',' of the format matches exactly one ','. *)
Definition fd_pair (s : bytes) : option (Z * Z) :=
  match scan_int s with
  | Some (r, s1) =>
      match s1 with
      | c :: s2 => if N.eqb c 44
                   then match scan_int s2 with Some (w, _) => Some (r, w) | None => None end
                   else None
      | [] => None
      end
  | None => None
  end.
(* GetFileDescriptorPair: the mode it stores on success *)
Definition pair_mode (p : Z * Z) : mf_mode :=
  if Z.ltb (fst p) 0 || Z.ltb (snd p) 0 then ModeNone else ModePipe.
Local Close Scope Z_scope.

(* GetPrefixedValue *)
Definition get_prefixed (input prefix : bytes) : option bytes :=
  if starts_with prefix input then Some (skipn (length prefix) input) else None.

(* one iteration of "for (const auto& arg : args)": the new config, or the offending value *)
Definition mf_step (cfg : mf_config) (arg : bytes) : mf_config + bytes :=
  match get_prefixed arg k_auth with
  | Some value =>
      match fd_pair value with
      | Some p => inl (mk_cfg (pair_mode p) (cfg_path cfg))          (* path NOT reset *)
      | None =>
          match get_prefixed value k_fifo with
          | Some fifo => inl (mk_cfg ModePosixFifo fifo)
          | None => inl (mk_cfg ModeWin32Sem value)
          end
      end
  | None =>
      match get_prefixed arg k_fds with
      | Some value =>
          match fd_pair value with
          | Some _ => inl (mk_cfg ModePipe (cfg_path cfg))            (* also for negative fds *)
          | None => inr value
          end
      | None => inl cfg
      end
  end.

Fixpoint mf_loop (args : list bytes) (cfg : mf_config) : mf_result :=
  match args with
  | [] => mk_res true cfg ENone
  | a :: rest =>
      match mf_step cfg a with
      | inl cfg' => mf_loop rest cfg'
      | inr v => mk_res false cfg (EBadPair v)
      end
  end.

(* args[0][0] != '-' && memchr(args[0], 'n', len).  An empty args[0] cannot occur (proved); the model
   answers false there. *)
Definition first_word_n (args : list bytes) : bool :=
  match args with
  | (c :: w) :: _ => negb (N.eqb c 45) && existsb (N.eqb 110) (c :: w)
  | _ => false
  end.

Definition parse_makeflags (env : bytes) : mf_result :=
  let s := cstr env in
  match s with
  | [] => mk_res true cfg_default ENone
  | _ :: _ =>
      let args := mf_args s in
      if first_word_n args then mk_res true cfg_default ENone
      else mf_loop args cfg_default
  end.

Definition parse_native_makeflags (env : bytes) : mf_result :=
  let r := parse_makeflags env in
  if r_ok r then
    match cfg_mode (r_cfg r) with
    | ModePipe => mk_res false (r_cfg r) EPipe
    | ModeWin32Sem => mk_res false (r_cfg r) ESem
    | _ => r
    end
  else r.

(* ---------- vocabulary of the theorems ---------- *)
(* what a single argument does to the mode: None = ignored, Some None = error, Some (Some m) = sets m *)
Definition arg_effect (arg : bytes) : option (option mf_mode) :=
  match get_prefixed arg k_auth with
  | Some value =>
      match fd_pair value with
      | Some p => Some (Some (pair_mode p))
      | None => match get_prefixed value k_fifo with
                | Some _ => Some (Some ModePosixFifo)
                | None => Some (Some ModeWin32Sem)
                end
      end
  | None =>
      match get_prefixed arg k_fds with
      | Some value => match fd_pair value with Some _ => Some (Some ModePipe) | None => Some None end
      | None => None
      end
  end.
Definition bad_fds (arg : bytes) : bool :=
  match arg_effect arg with Some None => true | _ => false end.
