(* Proofs about the CLParser model (ClParserDefs.v).  No axioms. *)
From NinjaV Require Import Base.Bytes Canon.CanonDefs Misc.ClParserDefs.
Local Open Scope N_scope.

(* ---------- line splitting: totality and exactness ---------- *)
Lemma take_line_spec s : forall l r, take_line s = (l, r) ->
  s = l ++ r /\ no_eol l /\ (r = [] \/ exists c r', r = c :: r' /\ is_eol c = true).
Proof.
  induction s as [|c s IH]; intros l r H; cbn [take_line] in H.
  - inversion H; subst. split; [reflexivity|]. split; [constructor|left; reflexivity].
  - destruct (is_eol c) eqn:Hc.
    + inversion H; subst. split; [reflexivity|]. split; [constructor|]. right. eauto.
    + destruct (take_line s) as [l0 r0] eqn:Ht. inversion H; subst.
      destruct (IH l0 r eq_refl) as (H1 & H2 & H3).
      split; [cbn [app]; f_equal; exact H1|]. split; [constructor; assumption|exact H3].
Qed.

Lemma skip_eol_cases c r' : is_eol c = true ->
  (c = b_lf /\ skip_eol (c :: r') = r') \/
  (c = b_cr /\ exists r'', r' = b_lf :: r'' /\ skip_eol (c :: r') = r'') \/
  (c = b_cr /\ hd_error r' <> Some b_lf /\ skip_eol (c :: r') = r').
Proof.
  unfold is_eol. intros H. destruct (N.eqb_spec c b_cr) as [Hc|Hc].
  - subst c. right. unfold skip_eol. rewrite N.eqb_refl.
    destruct r' as [|d r'']. { right. split; [reflexivity|]. split; [discriminate|reflexivity]. }
    destruct (N.eqb_spec d b_lf) as [Hd|Hd].
    + subst d. left. split; [reflexivity|]. exists r''. split; reflexivity.
    + right. split; [reflexivity|]. split; [|reflexivity]. cbn [hd_error]. congruence.
  - cbn [orb] in H. apply N.eqb_eq in H. subst c. left. split; [reflexivity|].
    unfold skip_eol. change (N.eqb b_lf b_cr) with false. cbv iota. rewrite N.eqb_refl. reflexivity.
Qed.

Lemma lines_loop_nil f : lines_loop f [] = Some [].
Proof. destruct f; reflexivity. Qed.
Lemma cl_loop_nil f pre st : cl_loop f pre [] st = Some st.
Proof. destruct f; reflexivity. Qed.

Lemma lines_loop_splits : forall fuel s, (length s <= fuel)%nat ->
  exists ls, lines_loop fuel s = Some ls /\ splits s ls.
Proof.
  induction fuel as [|f IH]; intros s Hlen.
  - destruct s as [|c s]; [|cbn [length] in Hlen; lia]. exists []. split; [reflexivity|constructor].
  - destruct s as [|c s]. { exists []. split; [reflexivity|constructor]. }
    cbn [lines_loop]. destruct (take_line (c :: s)) as [l r] eqn:Ht.
    destruct (take_line_spec _ _ _ Ht) as (Hs & Hno & Hr).
    destruct Hr as [Hr|(c' & r' & Hr & Hc')].
    + subst r. change (skip_eol []) with (@nil byte). rewrite lines_loop_nil.
      exists [l]. split; [reflexivity|]. rewrite app_nil_r in Hs. rewrite Hs.
      apply sp_last; [rewrite <- Hs; discriminate|exact Hno].
    + subst r. assert (Hl : (length l + S (length r') <= S f)%nat).
      { rewrite Hs, app_length in Hlen. cbn [length] in Hlen. lia. }
      destruct (skip_eol_cases c' r' Hc') as [(Hc & Hsk)|[(Hc & r'' & Hr' & Hsk)|(Hc & Hhd & Hsk)]].
      * destruct (IH r') as (ls & He & Hsp); [lia|]. rewrite Hsk, He. exists (l :: ls).
        split; [reflexivity|]. rewrite Hs, Hc. apply sp_lf; assumption.
      * subst r'. cbn [length] in Hl. destruct (IH r'') as (ls & He & Hsp); [lia|]. rewrite Hsk, He.
        exists (l :: ls). split; [reflexivity|]. rewrite Hs, Hc. apply sp_crlf; assumption.
      * destruct (IH r') as (ls & He & Hsp); [lia|]. rewrite Hsk, He. exists (l :: ls).
        split; [reflexivity|]. rewrite Hs, Hc. apply sp_cr; assumption.
Qed.

Lemma cl_loop_lines : forall fuel pre s st ls, lines_loop fuel s = Some ls ->
  cl_loop fuel pre s st = Some (fold_left (cl_step pre) ls st).
Proof.
  induction fuel as [|f IH]; intros pre s st ls H; destruct s as [|c s].
  - cbn in H. inversion H; subst. reflexivity.
  - cbn in H. discriminate.
  - cbn in H. inversion H; subst. reflexivity.
  - cbn [lines_loop] in H. cbn [cl_loop]. destruct (take_line (c :: s)) as [l r].
    destruct (lines_loop f (skip_eol r)) as [ls'|] eqn:He; [|discriminate].
    inversion H; subst. cbn [fold_left]. apply IH. exact He.
Qed.

(* (a) totality: the fuel suffices, the loop is the fold of the body over the lines, and the lines are
   exactly the pieces between \r, \n, \r\n terminators *)
Theorem cl_parse_total output pre :
  cl_parse output pre = Some (fold_left (cl_step pre) (cl_lines output) cl_init) /\
  splits output (cl_lines output).
Proof.
  destruct (lines_loop_splits (length output) output (le_n _)) as (ls & He & Hsp).
  unfold cl_parse, cl_lines. rewrite He. split; [apply cl_loop_lines; exact He|exact Hsp].
Qed.

Theorem cl_parse_never_out_of_fuel output pre : cl_parse output pre <> None.
Proof. rewrite (proj1 (cl_parse_total output pre)). discriminate. Qed.

(* the splitting loses no byte: the lines and the terminators give back the output *)
Lemma splits_no_eol s ls : splits s ls -> Forall no_eol ls.
Proof. induction 1; constructor; try assumption; constructor. Qed.

Lemma splits_length s ls : splits s ls -> (length (concat ls) <= length s)%nat.
Proof.
  induction 1; cbn [concat]; repeat rewrite app_length; cbn [length]; try rewrite app_nil_r; lia.
Qed.

(* ---------- the loop body folded over the lines ---------- *)
Definition inc_line (pre l : bytes) : bool :=
  match filter_show_includes l pre with [] => false | _ :: _ => true end.

Lemma is_inc_classify pre seen l : is_inc (classify pre seen l) = inc_line pre l.
Proof.
  unfold classify, inc_line. destruct (filter_show_includes l pre); [|reflexivity].
  destruct (negb seen && filter_input_filename l); reflexivity.
Qed.

Lemma classify_inc_iff pre seen l inc :
  classify pre seen l = LInclude inc <-> filter_show_includes l pre = inc /\ inc <> [].
Proof.
  unfold classify. destruct (filter_show_includes l pre) as [|c r].
  - split; [destruct (negb seen && filter_input_filename l); discriminate|].
    intros [H1 H2]. congruence.
  - split; [intros H; inversion H; split; [reflexivity|discriminate]|].
    intros [H1 _]. congruence.
Qed.

Lemma classify_drop_iff pre seen l :
  classify pre seen l = LDrop <->
  seen = false /\ filter_show_includes l pre = [] /\ filter_input_filename l = true.
Proof.
  unfold classify. destruct (filter_show_includes l pre) as [|c r].
  - destruct seen, (filter_input_filename l); cbn [negb andb]; split; try discriminate; try tauto;
      intros (H1 & H2 & H3); discriminate.
  - split; [discriminate|]. intros (_ & H & _). discriminate.
Qed.

Lemma kept_of_cons lc cls : kept_of (lc :: cls) = kept_bytes lc ++ kept_of cls.
Proof. reflexivity. Qed.
Lemma incs_of_cons lc cls : incs_of (lc :: cls) = inc_paths lc ++ incs_of cls.
Proof. reflexivity. Qed.
Lemma insert_all_app xs ys acc : insert_all (xs ++ ys) acc = insert_all ys (insert_all xs acc).
Proof. unfold insert_all. apply fold_left_app. Qed.

Lemma fold_step_spec pre : forall ls st,
  fold_left (cl_step pre) ls st =
  mk_cl (cs_seen st || existsb (inc_line pre) ls)
        (cs_out st ++ kept_of (classify_all pre (cs_seen st) ls))
        (insert_all (incs_of (classify_all pre (cs_seen st) ls)) (cs_incs st)).
Proof.
  induction ls as [|a ls IH]; intros [seen out incs]; cbn [cs_seen cs_out cs_incs].
  - cbn. rewrite orb_false_r, app_nil_r. reflexivity.
  - cbn [fold_left classify_all existsb]. rewrite IH. unfold cl_step. cbn [cs_seen cs_out cs_incs].
    rewrite kept_of_cons, incs_of_cons, insert_all_app. unfold kept_bytes, inc_paths. cbn [fst snd].
    rewrite <- (is_inc_classify pre seen a).
    destruct (classify pre seen a) as [inc| |]; cbn [is_inc cs_seen cs_out cs_incs app].
    + rewrite !orb_true_r. cbn [orb].
      destruct (is_system_include (canon inc)); reflexivity.
    + rewrite !orb_false_r. reflexivity.
    + rewrite !orb_false_r. rewrite <- app_assoc. reflexivity.
Qed.

(* (b) conservation: what [Parse] returns, in terms of the classified lines *)
Theorem cl_parse_conservation output pre :
  let cls := classify_all pre false (cl_lines output) in
  cl_parse output pre =
    Some (mk_cl (existsb (inc_line pre) (cl_lines output)) (kept_of cls) (insert_all (incs_of cls) [])).
Proof.
  cbv zeta. rewrite (proj1 (cl_parse_total output pre)), fold_step_spec. reflexivity.
Qed.

Lemma classify_all_lines pre : forall ls seen, map fst (classify_all pre seen ls) = ls.
Proof. induction ls as [|a ls IH]; intros seen; cbn [classify_all map fst]; [|rewrite IH]; reflexivity. Qed.

(* every line gets exactly one class (a function), the kept lines appear unaltered, in order, each
   followed by one "\n" *)
Lemma kept_of_spec cls :
  kept_of cls = concat (map (fun lc => fst lc ++ [b_lf])
                       (filter (fun lc => match snd lc with LKeep => true | _ => false end) cls)).
Proof.
  induction cls as [|[l c] cls IH]; [reflexivity|].
  unfold kept_of in *. cbn [flat_map filter snd fst]. unfold kept_bytes at 1. cbn [fst snd].
  destruct c; cbn [map concat app fst]; rewrite IH; reflexivity.
Qed.

(* ---------- the include set ---------- *)
Lemma set_insert_In x y l : In x (set_insert y l) <-> In x l \/ x = y.
Proof.
  unfold set_insert. destruct (mem_bytes y l) eqn:Hm.
  - apply mem_bytes_In in Hm. split; [tauto|]. intros [H|H]; [exact H|subst; exact Hm].
  - rewrite in_app_iff. cbn [In]. split; intros [H|H]; auto. { destruct H as [H|[]]; auto. }
Qed.

Lemma NoDup_snoc (l : list bytes) y : NoDup l -> ~ In y l -> NoDup (l ++ [y]).
Proof.
  induction l as [|a l IH]; intros Hnd Hni; cbn [app].
  - constructor; [intros []|constructor].
  - inversion Hnd as [|a' l' Ha Hl]; subst. constructor.
    + rewrite in_app_iff. cbn [In]. intros [H|[H|[]]]; [auto|]. subst. apply Hni. left. reflexivity.
    + apply IH; [exact Hl|]. intros H. apply Hni. right. exact H.
Qed.

Lemma set_insert_NoDup y l : NoDup l -> NoDup (set_insert y l).
Proof.
  unfold set_insert. intros H. destruct (mem_bytes y l) eqn:Hm; [exact H|].
  apply NoDup_snoc; [exact H|]. intros Hi. apply mem_bytes_In in Hi. congruence.
Qed.

Lemma insert_all_In xs : forall acc x, In x (insert_all xs acc) <-> In x acc \/ In x xs.
Proof.
  induction xs as [|y xs IH]; intros acc x; cbn [insert_all fold_left In]; [tauto|].
  fold (insert_all xs (set_insert y acc)). rewrite IH, set_insert_In. split; intros H; intuition auto.
Qed.

Lemma insert_all_NoDup xs : forall acc, NoDup acc -> NoDup (insert_all xs acc).
Proof.
  induction xs as [|y xs IH]; intros acc H; cbn [insert_all fold_left]; [exact H|].
  fold (insert_all xs (set_insert y acc)). apply IH, set_insert_NoDup, H.
Qed.

Lemma classify_all_In pre : forall ls seen l c,
  In (l, c) (classify_all pre seen ls) -> In l ls /\ exists s', c = classify pre s' l.
Proof.
  induction ls as [|a ls IH]; intros seen l c H; cbn [classify_all In] in *; [destruct H|].
  destruct H as [H|H].
  - inversion H; subst. split; [left; reflexivity|]. exists seen. reflexivity.
  - destruct (IH _ _ _ H) as [H1 H2]. split; [right; exact H1|exact H2].
Qed.

Lemma classify_all_inc pre : forall ls seen l inc, In l ls -> classify pre false l = LInclude inc ->
  In (l, LInclude inc) (classify_all pre seen ls).
Proof.
  induction ls as [|a ls IH]; intros seen l inc Hin Hc; cbn [classify_all In] in *; [destruct Hin|].
  destruct Hin as [Hin|Hin].
  - subst a. left. f_equal. apply classify_inc_iff. apply classify_inc_iff in Hc. exact Hc.
  - right. apply IH; assumption.
Qed.

(* (c) the discovered dependencies are exactly the reported ones *)
Theorem cl_includes_exact output pre st : cl_parse output pre = Some st ->
  NoDup (cs_incs st) /\
  forall x, In x (cs_incs st) <->
    exists line, In line (cl_lines output) /\ filter_show_includes line pre <> [] /\
                 x = canon (filter_show_includes line pre) /\ is_system_include x = false.
Proof.
  rewrite cl_parse_conservation. intros H. inversion H; subst st; clear H. cbn [cs_incs].
  split; [apply insert_all_NoDup; constructor|].
  intros x. rewrite insert_all_In. unfold incs_of. rewrite in_flat_map. split.
  - intros [[]|([l c] & Hin & Hx)]. destruct (classify_all_In _ _ _ _ _ Hin) as (Hl & s' & Hc).
    unfold inc_paths in Hx. cbn [snd] in Hx. destruct c as [inc| |]; try destruct Hx.
    symmetry in Hc. apply classify_inc_iff in Hc. destruct Hc as [Hf Hne].
    destruct (is_system_include (canon inc)) eqn:Hs; [destruct Hx|]. destruct Hx as [Hx|[]]. subst x.
    exists l. rewrite Hf. auto.
  - intros (line & Hin & Hne & Hx & Hs). right.
    exists (line, LInclude (filter_show_includes line pre)). split.
    + apply classify_all_inc; [exact Hin|]. apply classify_inc_iff. split; [reflexivity|exact Hne].
    + unfold inc_paths. cbn [snd]. rewrite <- Hx, Hs. left. auto.
Qed.

(* what an include line is, in terms of the prefix *)
Lemma starts_with_iff p : forall s, starts_with p s = true <-> exists r, s = p ++ r.
Proof.
  induction p as [|x p IH]; intros s; cbn [starts_with app].
  - split; [intros _; exists s; reflexivity|reflexivity].
  - destruct s as [|y s]; [split; [discriminate|intros [r H]; discriminate]|].
    rewrite andb_true_iff, N.eqb_eq, IH. split.
    + intros [-> [r ->]]. exists r. reflexivity.
    + intros [r H]. inversion H; subst. split; [reflexivity|exists r; reflexivity].
Qed.

Lemma skipn_length_app (p r : bytes) : skipn (length p) (p ++ r) = r.
Proof. induction p as [|x p IH]; cbn [length skipn app]; [reflexivity|exact IH]. Qed.

Theorem filter_show_includes_spec line pre inc : inc <> [] ->
  (filter_show_includes line pre = inc <->
   exists rest, line = eff_prefix pre ++ rest /\ rest <> [] /\ inc = drop_spaces rest).
Proof.
  intros Hne. unfold filter_show_includes. split.
  - destruct (Nat.ltb (length (eff_prefix pre)) (length line)) eqn:Hl; cbn [andb]; [|congruence].
    destruct (starts_with (eff_prefix pre) line) eqn:Hs; [|congruence].
    apply starts_with_iff in Hs. destruct Hs as [r Hr]. intros H. exists r.
    rewrite Hr in H. rewrite skipn_length_app in H. split; [exact Hr|]. split; [|congruence].
    intros ->. rewrite Hr, app_nil_r in Hl. apply Nat.ltb_lt in Hl. lia.
  - intros (rest & -> & Hr & ->). rewrite skipn_length_app.
    assert (H1 : Nat.ltb (length (eff_prefix pre)) (length (eff_prefix pre ++ rest)) = true).
    { apply Nat.ltb_lt. rewrite app_length. destruct rest; [congruence|cbn [length]; lia]. }
    assert (H2 : starts_with (eff_prefix pre) (eff_prefix pre ++ rest) = true).
    { apply starts_with_iff. eauto. }
    rewrite H1, H2. reflexivity.
Qed.

(* a source-file echo is dropped only before the first include line *)
Lemma classify_all_app pre : forall l1 l2 seen,
  classify_all pre seen (l1 ++ l2) =
  classify_all pre seen l1 ++ classify_all pre (seen || existsb (inc_line pre) l1) l2.
Proof.
  induction l1 as [|a l1 IH]; intros l2 seen; cbn [app classify_all existsb].
  - rewrite orb_false_r. reflexivity.
  - rewrite IH, is_inc_classify, orb_assoc. reflexivity.
Qed.

Lemma classify_all_length pre : forall ls seen, length (classify_all pre seen ls) = length ls.
Proof. induction ls as [|a ls IH]; intros seen; cbn [classify_all length]; [|rewrite IH]; reflexivity. Qed.

Theorem cl_drop_only_before_first_include output pre l1 l l2 :
  cl_lines output = l1 ++ l :: l2 ->
  let c := classify pre (existsb (inc_line pre) l1) l in
  nth_error (classify_all pre false (cl_lines output)) (length l1) = Some (l, c) /\
  (c = LDrop <-> (forall l', In l' l1 -> filter_show_includes l' pre = []) /\
                 filter_show_includes l pre = [] /\ filter_input_filename l = true).
Proof.
  intros H. cbv zeta. split.
  - rewrite H, classify_all_app, nth_error_app2; rewrite classify_all_length; [|lia].
    rewrite Nat.sub_diag. reflexivity.
  - rewrite classify_drop_iff. split; intros (H1 & H2 & H3); (split; [|split; assumption]).
    + intros l' Hin. destruct (filter_show_includes l' pre) eqn:Hf; [reflexivity|].
      assert (Ht : existsb (inc_line pre) l1 = true).
      { apply existsb_exists. exists l'. split; [exact Hin|]. unfold inc_line. rewrite Hf. reflexivity. }
      congruence.
    + destruct (existsb (inc_line pre) l1) eqn:He; [|reflexivity].
      apply existsb_exists in He. destruct He as (l' & Hin & Hi). unfold inc_line in Hi.
      rewrite (H1 l' Hin) in Hi. discriminate.
Qed.

(* (d) quirk: a line that is the prefix alone, or the prefix followed only by spaces, is NOT an include *)
Lemma drop_spaces_repeat n : drop_spaces (repeat b_sp n) = [].
Proof. induction n as [|n IH]; cbn [repeat drop_spaces]; [reflexivity|]. rewrite N.eqb_refl. exact IH. Qed.

Theorem prefix_and_spaces_not_include pre n :
  filter_show_includes (eff_prefix pre ++ repeat b_sp n) pre = [].
Proof.
  unfold filter_show_includes. rewrite skipn_length_app, drop_spaces_repeat.
  destruct (_ && _); reflexivity.
Qed.

Theorem prefix_and_spaces_classified pre seen n :
  classify pre seen (eff_prefix pre ++ repeat b_sp n) <> LInclude (filter_show_includes (eff_prefix pre ++ repeat b_sp n) pre)
  /\ forall inc, classify pre seen (eff_prefix pre ++ repeat b_sp n) <> LInclude inc.
Proof.
  assert (H : forall inc, classify pre seen (eff_prefix pre ++ repeat b_sp n) <> LInclude inc).
  { intros inc Hc. apply classify_inc_iff in Hc. rewrite prefix_and_spaces_not_include in Hc. destruct Hc; congruence. }
  split; [apply H|exact H].
Qed.
