(* Proofs about the MAKEFLAGS model (MakeflagsDefs.v).  No axioms. *)
From NinjaV Require Import Base.Bytes Misc.ClParserDefs Misc.ClParserProofs Misc.MakeflagsDefs.
Local Open Scope N_scope.

(* ---------- the word splitter never produces an empty word: args[0][0] is inside the word ---------- *)
Lemma mf_args_aux_nonempty : forall s cur a, In a (mf_args_aux cur s) -> a <> [].
Proof.
  assert (Hrev : forall (c : byte) cur, rev (c :: cur) <> []).
  { intros c cur H. cbn [rev] in H. destruct (rev cur); discriminate. }
  induction s as [|c s IH]; intros cur a H; cbn [mf_args_aux] in H.
  - destruct cur as [|x cur]; [destruct H|]. destruct H as [H|[]]. subst a. apply Hrev.
  - destruct (is_sep c).
    + destruct cur as [|x cur]; [apply (IH _ _ H)|].
      destruct H as [H|H]; [subst a; apply Hrev|apply (IH _ _ H)].
    + apply (IH _ _ H).
Qed.

Theorem mf_args_nonempty s a : In a (mf_args s) -> a <> [].
Proof. apply mf_args_aux_nonempty. Qed.

(* ---------- one argument ---------- *)
Lemma get_prefixed_app input prefix v : get_prefixed input prefix = Some v -> input = prefix ++ v.
Proof.
  unfold get_prefixed. destruct (starts_with prefix input) eqn:Hs; [|discriminate].
  apply starts_with_iff in Hs. destruct Hs as [r ->]. rewrite skipn_length_app. congruence.
Qed.

Lemma step_effect cfg a :
  match arg_effect a with
  | None => mf_step cfg a = inl cfg
  | Some None => exists v, mf_step cfg a = inr v /\ a = k_fds ++ v /\ fd_pair v = None
  | Some (Some m) => exists cfg', mf_step cfg a = inl cfg' /\ cfg_mode cfg' = m /\
                     (m = ModePosixFifo -> a = k_auth ++ k_fifo ++ cfg_path cfg')
  end.
Proof.
  unfold arg_effect, mf_step.
  destruct (get_prefixed a k_auth) as [value|] eqn:Ha.
  - destruct (fd_pair value) as [p|] eqn:Hp.
    + eexists. split; [reflexivity|]. split; [reflexivity|]. cbn [cfg_mode]. unfold pair_mode.
      destruct (_ || _); discriminate.
    + destruct (get_prefixed value k_fifo) as [fifo|] eqn:Hf.
      * eexists. split; [reflexivity|]. split; [reflexivity|]. intros _. cbn [cfg_path].
        apply get_prefixed_app in Ha. apply get_prefixed_app in Hf. congruence.
      * eexists. split; [reflexivity|]. split; [reflexivity|]. discriminate.
  - destruct (get_prefixed a k_fds) as [value|] eqn:Hd; [|reflexivity].
    destruct (fd_pair value) as [p|] eqn:Hp.
    + eexists. split; [reflexivity|]. split; [reflexivity|]. discriminate.
    + exists value. split; [reflexivity|]. split; [apply get_prefixed_app; exact Hd|exact Hp].
Qed.

Definition ignored (a : bytes) : Prop := arg_effect a = None.

(* ---------- the loop ---------- *)
Lemma mf_loop_ok : forall args cfg, r_ok (mf_loop args cfg) = true ->
  r_err (mf_loop args cfg) = ENone /\
  ((Forall ignored args /\ r_cfg (mf_loop args cfg) = cfg) \/
   (exists l1 a l2, args = l1 ++ a :: l2 /\ Forall ignored l2 /\
      arg_effect a = Some (Some (cfg_mode (r_cfg (mf_loop args cfg)))) /\
      (cfg_mode (r_cfg (mf_loop args cfg)) = ModePosixFifo ->
       a = k_auth ++ k_fifo ++ cfg_path (r_cfg (mf_loop args cfg))))).
Proof.
  induction args as [|a rest IH]; intros cfg Hok; cbn [mf_loop] in *.
  - split; [reflexivity|]. left. split; [constructor|reflexivity].
  - pose proof (step_effect cfg a) as Hs. destruct (arg_effect a) as [[m|]|] eqn:He.
    + destruct Hs as (cfg' & Hst & Hm & Hf). rewrite Hst in *. destruct (IH cfg' Hok) as [He0 Hc].
      split; [exact He0|]. right. destruct Hc as [[Hall Hc]|(l1 & b & l2 & Hl & Hall & Hb & Hp)].
      * exists [], a, rest. rewrite Hc. split; [reflexivity|]. split; [exact Hall|].
        split; [rewrite Hm; exact He|]. rewrite Hm. exact Hf.
      * exists (a :: l1), b, l2. split; [rewrite Hl; reflexivity|]. auto.
    + destruct Hs as (v & Hst & _). rewrite Hst in Hok. cbn in Hok. discriminate.
    + rewrite Hs in *. destruct (IH cfg Hok) as [He0 Hc]. split; [exact He0|].
      destruct Hc as [[Hall Hc]|(l1 & b & l2 & Hl & Hall & Hb & Hp)].
      * left. split; [constructor; assumption|exact Hc].
      * right. exists (a :: l1), b, l2. split; [rewrite Hl; reflexivity|]. auto.
Qed.

Lemma mf_loop_ok_iff : forall args cfg, r_ok (mf_loop args cfg) = negb (existsb bad_fds args).
Proof.
  induction args as [|a rest IH]; intros cfg; cbn [mf_loop existsb]; [reflexivity|].
  pose proof (step_effect cfg a) as Hs. unfold bad_fds at 1.
  destruct (arg_effect a) as [[m|]|].
  - destruct Hs as (cfg' & Hst & _). rewrite Hst. cbn [orb]. apply IH.
  - destruct Hs as (v & Hst & _). rewrite Hst. reflexivity.
  - rewrite Hs. cbn [orb]. apply IH.
Qed.

Lemma mf_loop_err : forall args cfg, r_ok (mf_loop args cfg) = false ->
  exists l1 v l2, args = l1 ++ (k_fds ++ v) :: l2 /\ existsb bad_fds l1 = false /\ fd_pair v = None /\
                  r_err (mf_loop args cfg) = EBadPair v.
Proof.
  induction args as [|a rest IH]; intros cfg Hok; cbn [mf_loop] in *; [discriminate|].
  pose proof (step_effect cfg a) as Hs. destruct (arg_effect a) as [[m|]|] eqn:He.
  - destruct Hs as (cfg' & Hst & _). rewrite Hst in *.
    destruct (IH cfg' Hok) as (l1 & v & l2 & Hl & Hb & Hp & Hr).
    exists (a :: l1), v, l2. split; [rewrite Hl; reflexivity|]. cbn [existsb]. unfold bad_fds at 1.
    rewrite He. auto.
  - destruct Hs as (v & Hst & Ha & Hp). rewrite Hst. exists [], v, rest. subst a. auto.
  - rewrite Hs in *. destruct (IH cfg Hok) as (l1 & v & l2 & Hl & Hb & Hp & Hr).
    exists (a :: l1), v, l2. split; [rewrite Hl; reflexivity|]. cbn [existsb]. unfold bad_fds at 1.
    rewrite He. auto.
Qed.

(* ---------- ParseMakeFlagsValue ---------- *)
Definition args_of (env : bytes) : list bytes := mf_args (cstr env).

Lemma parse_unfold env :
  parse_makeflags env =
  if first_word_n (args_of env) then mk_res true cfg_default ENone else mf_loop (args_of env) cfg_default.
Proof.
  unfold parse_makeflags, args_of. destruct (cstr env) as [|c s]; reflexivity.
Qed.

(* (c) first word without leading dash containing 'n' => the default config *)
Theorem parse_first_word_n env : first_word_n (args_of env) = true ->
  parse_makeflags env = mk_res true cfg_default ENone.
Proof. intros H. rewrite parse_unfold, H. reflexivity. Qed.

(* (b) the last recognised argument wins *)
Theorem parse_last_wins env : first_word_n (args_of env) = false -> r_ok (parse_makeflags env) = true ->
  let cfg := r_cfg (parse_makeflags env) in
  (Forall ignored (args_of env) /\ cfg = cfg_default) \/
  (exists l1 a l2, args_of env = l1 ++ a :: l2 /\ Forall ignored l2 /\
     arg_effect a = Some (Some (cfg_mode cfg)) /\
     (cfg_mode cfg = ModePosixFifo -> a = k_auth ++ k_fifo ++ cfg_path cfg)).
Proof.
  rewrite parse_unfold. intros Hn. rewrite Hn. intros Hok. cbv zeta. apply (mf_loop_ok _ _ Hok).
Qed.

(* (e) an error only for a malformed --jobserver-fds pair, and it names the first one *)
Theorem parse_error_iff env :
  r_ok (parse_makeflags env) = false <->
  first_word_n (args_of env) = false /\ existsb bad_fds (args_of env) = true.
Proof.
  rewrite parse_unfold. destruct (first_word_n (args_of env)).
  - cbn [r_ok]. split; [discriminate|intros [H _]; discriminate].
  - rewrite mf_loop_ok_iff. destruct (existsb bad_fds (args_of env)); cbn [negb]; split; auto.
    intros [_ H]; discriminate.
Qed.

Theorem parse_error_shape env : r_ok (parse_makeflags env) = false ->
  exists l1 v l2, args_of env = l1 ++ (k_fds ++ v) :: l2 /\ existsb bad_fds l1 = false /\
                  fd_pair v = None /\ r_err (parse_makeflags env) = EBadPair v.
Proof.
  rewrite parse_unfold. destruct (first_word_n (args_of env)); [discriminate|]. apply mf_loop_err.
Qed.

Theorem parse_ok_no_error env : r_ok (parse_makeflags env) = true -> r_err (parse_makeflags env) = ENone.
Proof.
  rewrite parse_unfold. destruct (first_word_n (args_of env)); [reflexivity|].
  intros H. apply (mf_loop_ok _ _ H).
Qed.

(* (d) the native variant *)
Theorem native_accept_iff env :
  r_ok (parse_native_makeflags env) = true <->
  r_ok (parse_makeflags env) = true /\
  (cfg_mode (r_cfg (parse_makeflags env)) = ModeNone \/ cfg_mode (r_cfg (parse_makeflags env)) = ModePosixFifo).
Proof.
  unfold parse_native_makeflags. destruct (r_ok (parse_makeflags env)) eqn:Hok.
  - destruct (cfg_mode (r_cfg (parse_makeflags env))) eqn:Hm; cbn [r_ok]; rewrite ?Hok;
      split; auto; try discriminate; intros [_ [H|H]]; discriminate.
  - rewrite Hok. split; [discriminate|intros [H _]; discriminate].
Qed.

Theorem native_same_config env : r_cfg (parse_native_makeflags env) = r_cfg (parse_makeflags env).
Proof.
  unfold parse_native_makeflags. destruct (r_ok (parse_makeflags env)); [|reflexivity].
  destruct (cfg_mode (r_cfg (parse_makeflags env))); reflexivity.
Qed.

(* an accepted FIFO configuration has the path of the winning argument *)
Theorem native_fifo_path env :
  r_ok (parse_native_makeflags env) = true ->
  cfg_mode (r_cfg (parse_native_makeflags env)) = ModePosixFifo ->
  exists l1 l2, args_of env = l1 ++ (k_auth ++ k_fifo ++ cfg_path (r_cfg (parse_native_makeflags env))) :: l2 /\
                Forall ignored l2.
Proof.
  rewrite native_same_config. intros Hok Hm. apply native_accept_iff in Hok. destruct Hok as [Hok _].
  destruct (first_word_n (args_of env)) eqn:Hn.
  - rewrite (parse_first_word_n env Hn) in Hm. discriminate.
  - destruct (parse_last_wins env Hn Hok) as [[_ Hc]|(l1 & a & l2 & Hl & Hall & _ & Hp)].
    + rewrite Hc in Hm. discriminate.
    + exists l1, l2. rewrite <- (Hp Hm). auto.
Qed.

(* ---------- quirks, with witnesses ---------- *)
Definition bs_auth_fifo_a_then_neg : bytes :=   (* "--jobserver-auth=fifo:/a --jobserver-auth=-1,-1" *)
  k_auth ++ k_fifo ++ [47; 97] ++ [32] ++ k_auth ++ [45; 49; 44; 45; 49].

(* FALSE of the code: "mode None implies an empty path" -- the path of an overridden fifo: argument stays *)
Definition none_mode_has_empty_path : Prop :=
  forall env, r_ok (parse_makeflags env) = true -> cfg_mode (r_cfg (parse_makeflags env)) = ModeNone ->
              cfg_path (r_cfg (parse_makeflags env)) = [].
Theorem none_mode_has_empty_path_refuted : ~ none_mode_has_empty_path.
Proof.
  intros H. specialize (H bs_auth_fifo_a_then_neg eq_refl eq_refl). vm_compute in H. discriminate.
Qed.

(* --jobserver-fds with negative descriptors ("disabled" for GNU make) is mode Pipe, hence refused natively,
   while the same pair under --jobserver-auth is mode None and accepted *)
Example fds_negative_is_pipe :
  let env := k_fds ++ [45; 49; 44; 45; 49] in
  cfg_mode (r_cfg (parse_makeflags env)) = ModePipe /\ r_ok (parse_native_makeflags env) = false /\
  r_err (parse_native_makeflags env) = EPipe /\
  r_ok (parse_native_makeflags (k_auth ++ [45; 49; 44; 45; 49])) = true.
Proof. vm_compute. auto. Qed.

(* sscanf: 2^31 wraps to a negative int (=> "disabled"), 2^32 wraps to 0 (=> a pipe), 2^63 clamps to -1 *)
Example fd_pair_wraps :
  fd_pair [50;49;52;55;52;56;51;54;52;56; 44; 51] = Some ((-2147483648)%Z, 3%Z) /\
  fd_pair [52;50;57;52;57;54;55;50;57;54; 44; 51] = Some (0%Z, 3%Z) /\
  fd_pair [57;50;50;51;51;55;50;48;51;54;56;53;52;55;55;53;56;48;56; 44; 10; 43; 51; 120] = Some ((-1)%Z, 3%Z) /\
  fd_pair [51; 44] = None /\ fd_pair [51; 32; 44; 52] = None.
Proof. vm_compute. auto 10. Qed.
