(* C13/C10: model of CLParser (src/clparser.cc, non-Windows branch): FilterShowIncludes, IsSystemInclude,
   FilterInputFilename, Parse.  Definitions only.  [canon] is the model of CanonicalizePath (Canon/CanonDefs.v).
   std::string values are byte lists (NUL bytes allowed: every access of the code is by index / length,
   except the loop "while ( *in is a space ) ++in" over c_str(), which stops at the terminating NUL = end of the line, or at any
   embedded byte that is not a space: exactly [drop_spaces]). *)
From NinjaV Require Import Base.Bytes Canon.CanonDefs.
Local Open Scope N_scope.

Definition k_english : bytes := [78; 111; 116; 101; 58; 32; 105; 110; 99; 108; 117; 100; 105; 110; 103; 32; 102; 105; 108; 101; 58; 32]. (* "Note: including file: " *)
Definition k_program_files : bytes := [112; 114; 111; 103; 114; 97; 109; 32; 102; 105; 108; 101; 115]. (* "program files" *)
Definition k_msvs : bytes := [109; 105; 99; 114; 111; 115; 111; 102; 116; 32; 118; 105; 115; 117; 97; 108; 32; 115; 116; 117; 100; 105; 111]. (* "microsoft visual studio" *)
Definition k_ext_c : bytes := [46; 99]. (* ".c" *)
Definition k_ext_cc : bytes := [46; 99; 99]. (* ".cc" *)
Definition k_ext_cxx : bytes := [46; 99; 120; 120]. (* ".cxx" *)
Definition k_ext_cpp : bytes := [46; 99; 112; 112]. (* ".cpp" *)
Definition k_ext_cplus : bytes := [46; 99; 43; 43]. (* ".c++" *)

(* ToLowerASCII (string_piece_util.h); bytes >= 128 are negative chars in C and left alone *)
Definition to_lower (c : byte) : byte := if N.leb 65 c && N.leb c 90 then c + 32 else c.

(* memcmp(in, prefix, prefix.size()) == 0, guarded by the length test of the caller *)
Fixpoint starts_with (p s : bytes) : bool :=
  match p, s with
  | [], _ => true
  | x :: p', y :: s' => N.eqb x y && starts_with p' s'
  | _ :: _, [] => false
  end.

(* string::find(needle) != npos *)
Fixpoint has_infix (needle s : bytes) : bool :=
  match s with
  | [] => starts_with needle []
  | _ :: s' => starts_with needle s || has_infix needle s'
  end.

(* EndsWith of the anonymous namespace *)
Definition ends_with (input needle : bytes) : bool :=
  Nat.leb (length needle) (length input) &&
  bytes_eqb (skipn (length input - length needle) input) needle.

(* the space-skipping loop over c_str() *)
Fixpoint drop_spaces (s : bytes) : bytes :=
  match s with
  | c :: s' => if N.eqb c b_sp then drop_spaces s' else s
  | [] => []
  end.

Definition eff_prefix (deps_prefix : bytes) : bytes :=
  match deps_prefix with [] => k_english | _ => deps_prefix end.

(* CLParser::FilterShowIncludes *)
Definition filter_show_includes (line deps_prefix : bytes) : bytes :=
  let prefix := eff_prefix deps_prefix in
  if Nat.ltb (length prefix) (length line) && starts_with prefix line
  then drop_spaces (skipn (length prefix) line)
  else [].

(* CLParser::IsSystemInclude *)
Definition is_system_include (path : bytes) : bool :=
  let p := map to_lower path in
  has_infix k_program_files p || has_infix k_msvs p.

(* CLParser::FilterInputFilename *)
Definition filter_input_filename (line : bytes) : bool :=
  let l := map to_lower line in
  ends_with l k_ext_c || ends_with l k_ext_cc || ends_with l k_ext_cxx ||
  ends_with l k_ext_cpp || ends_with l k_ext_cplus.

(* ---------- Parse ---------- *)
Definition is_eol (c : byte) : bool := N.eqb c b_cr || N.eqb c b_lf.

(* end = output.find_first_of("\r\n", start) (or size): (the line, the rest from [end] on) *)
Fixpoint take_line (s : bytes) : bytes * bytes :=
  match s with
  | [] => ([], [])
  | c :: s' => if is_eol c then ([], s) else let (l, r) := take_line s' in (c :: l, r)
  end.

(* if (end < size && output[end] == '\r') ++end;  if (end < size && output[end] == '\n') ++end; *)
Definition skip_eol (r : bytes) : bytes :=
  let r1 := match r with c :: r' => if N.eqb c b_cr then r' else r | [] => r end in
  match r1 with c :: r' => if N.eqb c b_lf then r' else r1 | [] => r1 end.

Record cl_state := mk_cl { cs_seen : bool; cs_out : bytes; cs_incs : list bytes }.
Definition cl_init : cl_state := mk_cl false [] [].

Inductive line_class := LInclude (inc : bytes) | LDrop | LKeep.

Definition classify (pre : bytes) (seen : bool) (line : bytes) : line_class :=
  match filter_show_includes line pre with
  | c :: inc => LInclude (c :: inc)
  | [] => if negb seen && filter_input_filename line then LDrop else LKeep
  end.

(* std::set<string>::insert, the set kept in first-insertion order *)
Definition set_insert (x : bytes) (l : list bytes) : list bytes :=
  if mem_bytes x l then l else l ++ [x].

(* the loop body *)
Definition cl_step (pre : bytes) (st : cl_state) (line : bytes) : cl_state :=
  match classify pre (cs_seen st) line with
  | LInclude inc =>
      let n := canon inc in
      mk_cl true (cs_out st) (if is_system_include n then cs_incs st else set_insert n (cs_incs st))
  | LDrop => st
  | LKeep => mk_cl (cs_seen st) (cs_out st ++ line ++ [b_lf]) (cs_incs st)
  end.

(* while (start < output.size()) { ... }   [s] is output[start..]; None = out of fuel (proved unreachable
   for fuel = length output) *)
Fixpoint cl_loop (fuel : nat) (pre : bytes) (s : bytes) (st : cl_state) : option cl_state :=
  match s with
  | [] => Some st
  | _ :: _ =>
    match fuel with
    | O => None
    | S f => let (line, r) := take_line s in cl_loop f pre (skip_eol r) (cl_step pre st line)
    end
  end.

Definition cl_parse (output deps_prefix : bytes) : option cl_state :=
  cl_loop (length output) deps_prefix output cl_init.

(* the lines alone (same loop without the body) *)
Fixpoint lines_loop (fuel : nat) (s : bytes) : option (list bytes) :=
  match s with
  | [] => Some []
  | _ :: _ =>
    match fuel with
    | O => None
    | S f => let (line, r) := take_line s in
             match lines_loop f (skip_eol r) with Some ls => Some (line :: ls) | None => None end
    end
  end.
Definition cl_lines (output : bytes) : list bytes :=
  match lines_loop (length output) output with Some ls => ls | None => [] end.

(* ---------- the tidy description used by the theorems ---------- *)
Definition is_inc (c : line_class) : bool := match c with LInclude _ => true | _ => false end.

Fixpoint classify_all (pre : bytes) (seen : bool) (ls : list bytes) : list (bytes * line_class) :=
  match ls with
  | [] => []
  | l :: ls' => let c := classify pre seen l in (l, c) :: classify_all pre (seen || is_inc c) ls'
  end.

Definition kept_bytes (lc : bytes * line_class) : bytes :=
  match snd lc with LKeep => fst lc ++ [b_lf] | _ => [] end.
Definition inc_paths (lc : bytes * line_class) : list bytes :=
  match snd lc with
  | LInclude inc => if is_system_include (canon inc) then [] else [canon inc]
  | _ => []
  end.
Definition kept_of (cls : list (bytes * line_class)) : bytes := flat_map kept_bytes cls.
Definition incs_of (cls : list (bytes * line_class)) : list bytes := flat_map inc_paths cls.
Definition insert_all (xs acc : list bytes) : list bytes := fold_left (fun a x => set_insert x a) xs acc.

Definition no_eol (l : bytes) : Prop := Forall (fun c => is_eol c = false) l.

(* "split at \r, \n, \r\n exactly as the code does" *)
Inductive splits : bytes -> list bytes -> Prop :=
| sp_nil : splits [] []
| sp_last l : l <> [] -> no_eol l -> splits l [l]
| sp_lf l rest ls : no_eol l -> splits rest ls -> splits (l ++ b_lf :: rest) (l :: ls)
| sp_cr l rest ls : no_eol l -> hd_error rest <> Some b_lf -> splits rest ls ->
                    splits (l ++ b_cr :: rest) (l :: ls)
| sp_crlf l rest ls : no_eol l -> splits rest ls -> splits (l ++ b_cr :: b_lf :: rest) (l :: ls).
