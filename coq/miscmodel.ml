
(** val negb : bool -> bool **)

let negb = function
| true -> false
| false -> true

type nat =
| O
| S of nat

type ('a, 'b) sum =
| Inl of 'a
| Inr of 'b

(** val fst : ('a1 * 'a2) -> 'a1 **)

let fst = function
| (x, _) -> x

(** val snd : ('a1 * 'a2) -> 'a2 **)

let snd = function
| (_, y) -> y

(** val length : 'a1 list -> nat **)

let rec length = function
| [] -> O
| _ :: l' -> S (length l')

(** val app : 'a1 list -> 'a1 list -> 'a1 list **)

let rec app l m =
  match l with
  | [] -> m
  | a :: l1 -> a :: (app l1 m)

type comparison =
| Eq
| Lt
| Gt

(** val compOpp : comparison -> comparison **)

let compOpp = function
| Eq -> Eq
| Lt -> Gt
| Gt -> Lt

(** val sub : nat -> nat -> nat **)

let rec sub n0 m =
  match n0 with
  | O -> n0
  | S k -> (match m with
            | O -> n0
            | S l -> sub k l)

module Nat =
 struct
  (** val add : nat -> nat -> nat **)

  let rec add n0 m =
    match n0 with
    | O -> m
    | S p -> S (add p m)

  (** val leb : nat -> nat -> bool **)

  let rec leb n0 m =
    match n0 with
    | O -> true
    | S n' -> (match m with
               | O -> false
               | S m' -> leb n' m')

  (** val ltb : nat -> nat -> bool **)

  let ltb n0 m =
    leb (S n0) m
 end

(** val tl : 'a1 list -> 'a1 list **)

let tl = function
| [] -> []
| _ :: m -> m

(** val last : 'a1 list -> 'a1 -> 'a1 **)

let rec last l d =
  match l with
  | [] -> d
  | a :: l0 -> (match l0 with
                | [] -> a
                | _ :: _ -> last l0 d)

(** val removelast : 'a1 list -> 'a1 list **)

let rec removelast = function
| [] -> []
| a :: l0 -> (match l0 with
              | [] -> []
              | _ :: _ -> a :: (removelast l0))

(** val rev : 'a1 list -> 'a1 list **)

let rec rev = function
| [] -> []
| x :: l' -> app (rev l') (x :: [])

(** val map : ('a1 -> 'a2) -> 'a1 list -> 'a2 list **)

let rec map f = function
| [] -> []
| a :: t -> (f a) :: (map f t)

(** val fold_left : ('a1 -> 'a2 -> 'a1) -> 'a2 list -> 'a1 -> 'a1 **)

let rec fold_left f l a0 =
  match l with
  | [] -> a0
  | b :: t -> fold_left f t (f a0 b)

(** val existsb : ('a1 -> bool) -> 'a1 list -> bool **)

let rec existsb f = function
| [] -> false
| a :: l0 -> (||) (f a) (existsb f l0)

(** val skipn : nat -> 'a1 list -> 'a1 list **)

let rec skipn n0 l =
  match n0 with
  | O -> l
  | S n1 -> (match l with
             | [] -> []
             | _ :: l0 -> skipn n1 l0)

type positive =
| XI of positive
| XO of positive
| XH

type n =
| N0
| Npos of positive

type z =
| Z0
| Zpos of positive
| Zneg of positive

module Pos =
 struct
  (** val succ : positive -> positive **)

  let rec succ = function
  | XI p -> XO (succ p)
  | XO p -> XI p
  | XH -> XO XH

  (** val add : positive -> positive -> positive **)

  let rec add x y =
    match x with
    | XI p ->
      (match y with
       | XI q -> XO (add_carry p q)
       | XO q -> XI (add p q)
       | XH -> XO (succ p))
    | XO p ->
      (match y with
       | XI q -> XI (add p q)
       | XO q -> XO (add p q)
       | XH -> XI p)
    | XH -> (match y with
             | XI q -> XO (succ q)
             | XO q -> XI q
             | XH -> XO XH)

  (** val add_carry : positive -> positive -> positive **)

  and add_carry x y =
    match x with
    | XI p ->
      (match y with
       | XI q -> XI (add_carry p q)
       | XO q -> XO (add_carry p q)
       | XH -> XI (succ p))
    | XO p ->
      (match y with
       | XI q -> XO (add_carry p q)
       | XO q -> XI (add p q)
       | XH -> XO (succ p))
    | XH ->
      (match y with
       | XI q -> XI (succ q)
       | XO q -> XO (succ q)
       | XH -> XI XH)

  (** val pred_double : positive -> positive **)

  let rec pred_double = function
  | XI p -> XI (XO p)
  | XO p -> XI (pred_double p)
  | XH -> XH

  (** val mul : positive -> positive -> positive **)

  let rec mul x y =
    match x with
    | XI p -> add y (XO (mul p y))
    | XO p -> XO (mul p y)
    | XH -> y

  (** val compare_cont : comparison -> positive -> positive -> comparison **)

  let rec compare_cont r x y =
    match x with
    | XI p ->
      (match y with
       | XI q -> compare_cont r p q
       | XO q -> compare_cont Gt p q
       | XH -> Gt)
    | XO p ->
      (match y with
       | XI q -> compare_cont Lt p q
       | XO q -> compare_cont r p q
       | XH -> Gt)
    | XH -> (match y with
             | XH -> r
             | _ -> Lt)

  (** val compare : positive -> positive -> comparison **)

  let compare =
    compare_cont Eq

  (** val eqb : positive -> positive -> bool **)

  let rec eqb p q =
    match p with
    | XI p0 -> (match q with
                | XI q0 -> eqb p0 q0
                | _ -> false)
    | XO p0 -> (match q with
                | XO q0 -> eqb p0 q0
                | _ -> false)
    | XH -> (match q with
             | XH -> true
             | _ -> false)
 end

module N =
 struct
  (** val add : n -> n -> n **)

  let add n0 m =
    match n0 with
    | N0 -> m
    | Npos p -> (match m with
                 | N0 -> n0
                 | Npos q -> Npos (Pos.add p q))

  (** val compare : n -> n -> comparison **)

  let compare n0 m =
    match n0 with
    | N0 -> (match m with
             | N0 -> Eq
             | Npos _ -> Lt)
    | Npos n' -> (match m with
                  | N0 -> Gt
                  | Npos m' -> Pos.compare n' m')

  (** val eqb : n -> n -> bool **)

  let eqb n0 m =
    match n0 with
    | N0 -> (match m with
             | N0 -> true
             | Npos _ -> false)
    | Npos p -> (match m with
                 | N0 -> false
                 | Npos q -> Pos.eqb p q)

  (** val leb : n -> n -> bool **)

  let leb x y =
    match compare x y with
    | Gt -> false
    | _ -> true
 end

module Z =
 struct
  (** val double : z -> z **)

  let double = function
  | Z0 -> Z0
  | Zpos p -> Zpos (XO p)
  | Zneg p -> Zneg (XO p)

  (** val succ_double : z -> z **)

  let succ_double = function
  | Z0 -> Zpos XH
  | Zpos p -> Zpos (XI p)
  | Zneg p -> Zneg (Pos.pred_double p)

  (** val pred_double : z -> z **)

  let pred_double = function
  | Z0 -> Zneg XH
  | Zpos p -> Zpos (Pos.pred_double p)
  | Zneg p -> Zneg (XI p)

  (** val pos_sub : positive -> positive -> z **)

  let rec pos_sub x y =
    match x with
    | XI p ->
      (match y with
       | XI q -> double (pos_sub p q)
       | XO q -> succ_double (pos_sub p q)
       | XH -> Zpos (XO p))
    | XO p ->
      (match y with
       | XI q -> pred_double (pos_sub p q)
       | XO q -> double (pos_sub p q)
       | XH -> Zpos (Pos.pred_double p))
    | XH ->
      (match y with
       | XI q -> Zneg (XO q)
       | XO q -> Zneg (Pos.pred_double q)
       | XH -> Z0)

  (** val add : z -> z -> z **)

  let add x y =
    match x with
    | Z0 -> y
    | Zpos x' ->
      (match y with
       | Z0 -> x
       | Zpos y' -> Zpos (Pos.add x' y')
       | Zneg y' -> pos_sub x' y')
    | Zneg x' ->
      (match y with
       | Z0 -> x
       | Zpos y' -> pos_sub y' x'
       | Zneg y' -> Zneg (Pos.add x' y'))

  (** val opp : z -> z **)

  let opp = function
  | Z0 -> Z0
  | Zpos x0 -> Zneg x0
  | Zneg x0 -> Zpos x0

  (** val sub : z -> z -> z **)

  let sub m n0 =
    add m (opp n0)

  (** val mul : z -> z -> z **)

  let mul x y =
    match x with
    | Z0 -> Z0
    | Zpos x' ->
      (match y with
       | Z0 -> Z0
       | Zpos y' -> Zpos (Pos.mul x' y')
       | Zneg y' -> Zneg (Pos.mul x' y'))
    | Zneg x' ->
      (match y with
       | Z0 -> Z0
       | Zpos y' -> Zneg (Pos.mul x' y')
       | Zneg y' -> Zpos (Pos.mul x' y'))

  (** val compare : z -> z -> comparison **)

  let compare x y =
    match x with
    | Z0 -> (match y with
             | Z0 -> Eq
             | Zpos _ -> Lt
             | Zneg _ -> Gt)
    | Zpos x' -> (match y with
                  | Zpos y' -> Pos.compare x' y'
                  | _ -> Gt)
    | Zneg x' ->
      (match y with
       | Zneg y' -> compOpp (Pos.compare x' y')
       | _ -> Lt)

  (** val leb : z -> z -> bool **)

  let leb x y =
    match compare x y with
    | Gt -> false
    | _ -> true

  (** val ltb : z -> z -> bool **)

  let ltb x y =
    match compare x y with
    | Lt -> true
    | _ -> false

  (** val max : z -> z -> z **)

  let max n0 m =
    match compare n0 m with
    | Lt -> m
    | _ -> n0

  (** val min : z -> z -> z **)

  let min n0 m =
    match compare n0 m with
    | Gt -> m
    | _ -> n0

  (** val of_N : n -> z **)

  let of_N = function
  | N0 -> Z0
  | Npos p -> Zpos p

  (** val pos_div_eucl : positive -> z -> z * z **)

  let rec pos_div_eucl a b =
    match a with
    | XI a' ->
      let (q, r) = pos_div_eucl a' b in
      let r' = add (mul (Zpos (XO XH)) r) (Zpos XH) in
      if ltb r' b
      then ((mul (Zpos (XO XH)) q), r')
      else ((add (mul (Zpos (XO XH)) q) (Zpos XH)), (sub r' b))
    | XO a' ->
      let (q, r) = pos_div_eucl a' b in
      let r' = mul (Zpos (XO XH)) r in
      if ltb r' b
      then ((mul (Zpos (XO XH)) q), r')
      else ((add (mul (Zpos (XO XH)) q) (Zpos XH)), (sub r' b))
    | XH -> if leb (Zpos (XO XH)) b then (Z0, (Zpos XH)) else ((Zpos XH), Z0)

  (** val div_eucl : z -> z -> z * z **)

  let div_eucl a b =
    match a with
    | Z0 -> (Z0, Z0)
    | Zpos a' ->
      (match b with
       | Z0 -> (Z0, a)
       | Zpos _ -> pos_div_eucl a' b
       | Zneg b' ->
         let (q, r) = pos_div_eucl a' (Zpos b') in
         (match r with
          | Z0 -> ((opp q), Z0)
          | _ -> ((opp (add q (Zpos XH))), (add b r))))
    | Zneg a' ->
      (match b with
       | Z0 -> (Z0, a)
       | Zpos _ ->
         let (q, r) = pos_div_eucl a' b in
         (match r with
          | Z0 -> ((opp q), Z0)
          | _ -> ((opp (add q (Zpos XH))), (sub b r)))
       | Zneg b' -> let (q, r) = pos_div_eucl a' (Zpos b') in (q, (opp r)))

  (** val modulo : z -> z -> z **)

  let modulo a b =
    let (_, r) = div_eucl a b in r
 end

type byte = n

type bytes = byte list

(** val bytes_eqb : bytes -> bytes -> bool **)

let rec bytes_eqb a b =
  match a with
  | [] -> (match b with
           | [] -> true
           | _ :: _ -> false)
  | x :: a' ->
    (match b with
     | [] -> false
     | y :: b' -> (&&) (N.eqb x y) (bytes_eqb a' b'))

(** val mem_bytes : bytes -> bytes list -> bool **)

let rec mem_bytes x = function
| [] -> false
| y :: l' -> (||) (bytes_eqb x y) (mem_bytes x l')

(** val b_tab : byte **)

let b_tab =
  Npos (XI (XO (XO XH)))

(** val b_lf : byte **)

let b_lf =
  Npos (XO (XI (XO XH)))

(** val b_cr : byte **)

let b_cr =
  Npos (XI (XO (XI XH)))

(** val b_sp : byte **)

let b_sp =
  Npos (XO (XO (XO (XO (XO XH)))))

(** val b_slash : byte **)

let b_slash =
  Npos (XI (XI (XI (XI (XO XH)))))

(** val b_dot : byte **)

let b_dot =
  Npos (XO (XI (XI (XI (XO XH)))))

(** val split_slash_aux : bytes -> bytes -> bytes list **)

let rec split_slash_aux cur = function
| [] -> (rev cur) :: []
| c :: s' ->
  if N.eqb c b_slash
  then (rev cur) :: (split_slash_aux [] s')
  else split_slash_aux (c :: cur) s'

(** val split_slash : bytes -> bytes list **)

let split_slash s =
  split_slash_aux [] s

(** val is_dot : bytes -> bool **)

let is_dot c =
  bytes_eqb c (b_dot :: [])

(** val is_dotdot : bytes -> bool **)

let is_dotdot c =
  bytes_eqb c (b_dot :: (b_dot :: []))

(** val is_empty : bytes -> bool **)

let is_empty = function
| [] -> true
| _ :: _ -> false

(** val backup_loop : nat -> bytes -> bytes **)

let rec backup_loop dst0 out = match out with
| [] -> []
| c :: out' ->
  if Nat.ltb dst0 (length out)
  then if N.eqb c b_slash then out else backup_loop dst0 out'
  else out

(** val backup : nat -> bytes -> bytes **)

let backup dst0 out =
  backup_loop dst0 (tl out)

(** val strip_dotdot_run : nat -> bytes -> nat * bytes **)

let rec strip_dotdot_run fuel s =
  match fuel with
  | O -> (O, s)
  | S f ->
    (match s with
     | [] -> (O, s)
     | a :: l ->
       (match l with
        | [] -> (O, s)
        | b :: l0 ->
          (match l0 with
           | [] -> (O, s)
           | c :: s' ->
             if (&&) ((&&) (N.eqb a b_dot) (N.eqb b b_dot)) (N.eqb c b_slash)
             then let (k, r) = strip_dotdot_run f s' in ((S k), r)
             else (O, s))))

(** val dotdot_prefix_rev : nat -> bytes **)

let rec dotdot_prefix_rev = function
| O -> []
| S k' -> b_slash :: (b_dot :: (b_dot :: (dotdot_prefix_rev k')))

(** val mid_step : nat -> (nat * bytes) -> bytes -> nat * bytes **)

let mid_step dst0 st c =
  let (count, out) = st in
  if is_empty c
  then st
  else if is_dot c
       then st
       else if is_dotdot c
            then (match count with
                  | O -> (O, (b_slash :: (b_dot :: (b_dot :: out))))
                  | S n0 -> (n0, (backup dst0 out)))
            else ((S count), (b_slash :: (app (rev c) out)))

(** val last_step : nat -> (nat * bytes) -> bytes -> bytes **)

let last_step dst0 st c =
  let (count, out) = st in
  if is_empty c
  then out
  else if is_dot c
       then out
       else if is_dotdot c
            then (match count with
                  | O -> b_dot :: (b_dot :: out)
                  | S _ -> backup dst0 out)
            else app (rev c) out

(** val canon : bytes -> bytes **)

let canon s = match s with
| [] -> []
| c0 :: s1 ->
  if N.eqb c0 b_slash
  then let p = ((S O), (b_slash :: [])) in
       let (dst_start, out0) = p in
       let dst0 = length out0 in
       let comps = split_slash s1 in
       let st = fold_left (mid_step dst0) (removelast comps) (O, out0) in
       let out1 = last_step dst0 st (last comps []) in
       let out2 =
         match out1 with
         | [] -> out1
         | c :: o' ->
           if (&&) (Nat.ltb dst_start (length out1)) (N.eqb c b_slash)
           then o'
           else out1
       in
       (match out2 with
        | [] -> b_dot :: []
        | _ :: _ -> rev out2)
  else let (k, r) = strip_dotdot_run (length s) s in
       let p = (O, (dotdot_prefix_rev k)) in
       let (dst_start, out0) = p in
       let dst0 = length out0 in
       let comps = split_slash r in
       let st = fold_left (mid_step dst0) (removelast comps) (O, out0) in
       let out1 = last_step dst0 st (last comps []) in
       let out2 =
         match out1 with
         | [] -> out1
         | c :: o' ->
           if (&&) (Nat.ltb dst_start (length out1)) (N.eqb c b_slash)
           then o'
           else out1
       in
       (match out2 with
        | [] -> b_dot :: []
        | _ :: _ -> rev out2)

(** val k_english : bytes **)

let k_english =
  (Npos (XO (XI (XI (XI (XO (XO XH))))))) :: ((Npos (XI (XI (XI (XI (XO (XI
    XH))))))) :: ((Npos (XO (XO (XI (XO (XI (XI XH))))))) :: ((Npos (XI (XO
    (XI (XO (XO (XI XH))))))) :: ((Npos (XO (XI (XO (XI (XI
    XH)))))) :: ((Npos (XO (XO (XO (XO (XO XH)))))) :: ((Npos (XI (XO (XO (XI
    (XO (XI XH))))))) :: ((Npos (XO (XI (XI (XI (XO (XI XH))))))) :: ((Npos
    (XI (XI (XO (XO (XO (XI XH))))))) :: ((Npos (XO (XO (XI (XI (XO (XI
    XH))))))) :: ((Npos (XI (XO (XI (XO (XI (XI XH))))))) :: ((Npos (XO (XO
    (XI (XO (XO (XI XH))))))) :: ((Npos (XI (XO (XO (XI (XO (XI
    XH))))))) :: ((Npos (XO (XI (XI (XI (XO (XI XH))))))) :: ((Npos (XI (XI
    (XI (XO (XO (XI XH))))))) :: ((Npos (XO (XO (XO (XO (XO
    XH)))))) :: ((Npos (XO (XI (XI (XO (XO (XI XH))))))) :: ((Npos (XI (XO
    (XO (XI (XO (XI XH))))))) :: ((Npos (XO (XO (XI (XI (XO (XI
    XH))))))) :: ((Npos (XI (XO (XI (XO (XO (XI XH))))))) :: ((Npos (XO (XI
    (XO (XI (XI XH)))))) :: ((Npos (XO (XO (XO (XO (XO
    XH)))))) :: [])))))))))))))))))))))

(** val k_program_files : bytes **)

let k_program_files =
  (Npos (XO (XO (XO (XO (XI (XI XH))))))) :: ((Npos (XO (XI (XO (XO (XI (XI
    XH))))))) :: ((Npos (XI (XI (XI (XI (XO (XI XH))))))) :: ((Npos (XI (XI
    (XI (XO (XO (XI XH))))))) :: ((Npos (XO (XI (XO (XO (XI (XI
    XH))))))) :: ((Npos (XI (XO (XO (XO (XO (XI XH))))))) :: ((Npos (XI (XO
    (XI (XI (XO (XI XH))))))) :: ((Npos (XO (XO (XO (XO (XO
    XH)))))) :: ((Npos (XO (XI (XI (XO (XO (XI XH))))))) :: ((Npos (XI (XO
    (XO (XI (XO (XI XH))))))) :: ((Npos (XO (XO (XI (XI (XO (XI
    XH))))))) :: ((Npos (XI (XO (XI (XO (XO (XI XH))))))) :: ((Npos (XI (XI
    (XO (XO (XI (XI XH))))))) :: []))))))))))))

(** val k_msvs : bytes **)

let k_msvs =
  (Npos (XI (XO (XI (XI (XO (XI XH))))))) :: ((Npos (XI (XO (XO (XI (XO (XI
    XH))))))) :: ((Npos (XI (XI (XO (XO (XO (XI XH))))))) :: ((Npos (XO (XI
    (XO (XO (XI (XI XH))))))) :: ((Npos (XI (XI (XI (XI (XO (XI
    XH))))))) :: ((Npos (XI (XI (XO (XO (XI (XI XH))))))) :: ((Npos (XI (XI
    (XI (XI (XO (XI XH))))))) :: ((Npos (XO (XI (XI (XO (XO (XI
    XH))))))) :: ((Npos (XO (XO (XI (XO (XI (XI XH))))))) :: ((Npos (XO (XO
    (XO (XO (XO XH)))))) :: ((Npos (XO (XI (XI (XO (XI (XI
    XH))))))) :: ((Npos (XI (XO (XO (XI (XO (XI XH))))))) :: ((Npos (XI (XI
    (XO (XO (XI (XI XH))))))) :: ((Npos (XI (XO (XI (XO (XI (XI
    XH))))))) :: ((Npos (XI (XO (XO (XO (XO (XI XH))))))) :: ((Npos (XO (XO
    (XI (XI (XO (XI XH))))))) :: ((Npos (XO (XO (XO (XO (XO
    XH)))))) :: ((Npos (XI (XI (XO (XO (XI (XI XH))))))) :: ((Npos (XO (XO
    (XI (XO (XI (XI XH))))))) :: ((Npos (XI (XO (XI (XO (XI (XI
    XH))))))) :: ((Npos (XO (XO (XI (XO (XO (XI XH))))))) :: ((Npos (XI (XO
    (XO (XI (XO (XI XH))))))) :: ((Npos (XI (XI (XI (XI (XO (XI
    XH))))))) :: []))))))))))))))))))))))

(** val k_ext_c : bytes **)

let k_ext_c =
  (Npos (XO (XI (XI (XI (XO XH)))))) :: ((Npos (XI (XI (XO (XO (XO (XI
    XH))))))) :: [])

(** val k_ext_cc : bytes **)

let k_ext_cc =
  (Npos (XO (XI (XI (XI (XO XH)))))) :: ((Npos (XI (XI (XO (XO (XO (XI
    XH))))))) :: ((Npos (XI (XI (XO (XO (XO (XI XH))))))) :: []))

(** val k_ext_cxx : bytes **)

let k_ext_cxx =
  (Npos (XO (XI (XI (XI (XO XH)))))) :: ((Npos (XI (XI (XO (XO (XO (XI
    XH))))))) :: ((Npos (XO (XO (XO (XI (XI (XI XH))))))) :: ((Npos (XO (XO
    (XO (XI (XI (XI XH))))))) :: [])))

(** val k_ext_cpp : bytes **)

let k_ext_cpp =
  (Npos (XO (XI (XI (XI (XO XH)))))) :: ((Npos (XI (XI (XO (XO (XO (XI
    XH))))))) :: ((Npos (XO (XO (XO (XO (XI (XI XH))))))) :: ((Npos (XO (XO
    (XO (XO (XI (XI XH))))))) :: [])))

(** val k_ext_cplus : bytes **)

let k_ext_cplus =
  (Npos (XO (XI (XI (XI (XO XH)))))) :: ((Npos (XI (XI (XO (XO (XO (XI
    XH))))))) :: ((Npos (XI (XI (XO (XI (XO XH)))))) :: ((Npos (XI (XI (XO
    (XI (XO XH)))))) :: [])))

(** val to_lower : byte -> byte **)

let to_lower c =
  if (&&) (N.leb (Npos (XI (XO (XO (XO (XO (XO XH))))))) c)
       (N.leb c (Npos (XO (XI (XO (XI (XI (XO XH))))))))
  then N.add c (Npos (XO (XO (XO (XO (XO XH))))))
  else c

(** val starts_with : bytes -> bytes -> bool **)

let rec starts_with p s =
  match p with
  | [] -> true
  | x :: p' ->
    (match s with
     | [] -> false
     | y :: s' -> (&&) (N.eqb x y) (starts_with p' s'))

(** val has_infix : bytes -> bytes -> bool **)

let rec has_infix needle s = match s with
| [] -> starts_with needle []
| _ :: s' -> (||) (starts_with needle s) (has_infix needle s')

(** val ends_with : bytes -> bytes -> bool **)

let ends_with input needle =
  (&&) (Nat.leb (length needle) (length input))
    (bytes_eqb (skipn (sub (length input) (length needle)) input) needle)

(** val drop_spaces : bytes -> bytes **)

let rec drop_spaces s = match s with
| [] -> []
| c :: s' -> if N.eqb c b_sp then drop_spaces s' else s

(** val eff_prefix : bytes -> bytes **)

let eff_prefix deps_prefix = match deps_prefix with
| [] -> k_english
| _ :: _ -> deps_prefix

(** val filter_show_includes : bytes -> bytes -> bytes **)

let filter_show_includes line deps_prefix =
  let prefix = eff_prefix deps_prefix in
  if (&&) (Nat.ltb (length prefix) (length line)) (starts_with prefix line)
  then drop_spaces (skipn (length prefix) line)
  else []

(** val is_system_include : bytes -> bool **)

let is_system_include path =
  let p = map to_lower path in
  (||) (has_infix k_program_files p) (has_infix k_msvs p)

(** val filter_input_filename : bytes -> bool **)

let filter_input_filename line =
  let l = map to_lower line in
  (||)
    ((||)
      ((||) ((||) (ends_with l k_ext_c) (ends_with l k_ext_cc))
        (ends_with l k_ext_cxx)) (ends_with l k_ext_cpp))
    (ends_with l k_ext_cplus)

(** val is_eol : byte -> bool **)

let is_eol c =
  (||) (N.eqb c b_cr) (N.eqb c b_lf)

(** val take_line : bytes -> bytes * bytes **)

let rec take_line s = match s with
| [] -> ([], [])
| c :: s' ->
  if is_eol c then ([], s) else let (l, r) = take_line s' in ((c :: l), r)

(** val skip_eol : bytes -> bytes **)

let skip_eol r =
  let r1 = match r with
           | [] -> r
           | c :: r' -> if N.eqb c b_cr then r' else r in
  (match r1 with
   | [] -> r1
   | c :: r' -> if N.eqb c b_lf then r' else r1)

type cl_state = { cs_seen : bool; cs_out : bytes; cs_incs : bytes list }

(** val cl_init : cl_state **)

let cl_init =
  { cs_seen = false; cs_out = []; cs_incs = [] }

type line_class =
| LInclude of bytes
| LDrop
| LKeep

(** val classify : bytes -> bool -> bytes -> line_class **)

let classify pre seen line =
  match filter_show_includes line pre with
  | [] ->
    if (&&) (negb seen) (filter_input_filename line) then LDrop else LKeep
  | c :: inc -> LInclude (c :: inc)

(** val set_insert : bytes -> bytes list -> bytes list **)

let set_insert x l =
  if mem_bytes x l then l else app l (x :: [])

(** val cl_step : bytes -> cl_state -> bytes -> cl_state **)

let cl_step pre st line =
  match classify pre st.cs_seen line with
  | LInclude inc ->
    let n0 = canon inc in
    { cs_seen = true; cs_out = st.cs_out; cs_incs =
    (if is_system_include n0 then st.cs_incs else set_insert n0 st.cs_incs) }
  | LDrop -> st
  | LKeep ->
    { cs_seen = st.cs_seen; cs_out = (app st.cs_out (app line (b_lf :: [])));
      cs_incs = st.cs_incs }

(** val cl_loop : nat -> bytes -> bytes -> cl_state -> cl_state option **)

let rec cl_loop fuel pre s st =
  match s with
  | [] -> Some st
  | _ :: _ ->
    (match fuel with
     | O -> None
     | S f ->
       let (line, r) = take_line s in
       cl_loop f pre (skip_eol r) (cl_step pre st line))

(** val cl_parse : bytes -> bytes -> cl_state option **)

let cl_parse output deps_prefix =
  cl_loop (length output) deps_prefix output cl_init

(** val lines_loop : nat -> bytes -> bytes list option **)

let rec lines_loop fuel s = match s with
| [] -> Some []
| _ :: _ ->
  (match fuel with
   | O -> None
   | S f ->
     let (line, r) = take_line s in
     (match lines_loop f (skip_eol r) with
      | Some ls -> Some (line :: ls)
      | None -> None))

(** val cl_lines : bytes -> bytes list **)

let cl_lines output =
  match lines_loop (length output) output with
  | Some ls -> ls
  | None -> []

(** val k_auth : bytes **)

let k_auth =
  (Npos (XI (XO (XI (XI (XO XH)))))) :: ((Npos (XI (XO (XI (XI (XO
    XH)))))) :: ((Npos (XO (XI (XO (XI (XO (XI XH))))))) :: ((Npos (XI (XI
    (XI (XI (XO (XI XH))))))) :: ((Npos (XO (XI (XO (XO (XO (XI
    XH))))))) :: ((Npos (XI (XI (XO (XO (XI (XI XH))))))) :: ((Npos (XI (XO
    (XI (XO (XO (XI XH))))))) :: ((Npos (XO (XI (XO (XO (XI (XI
    XH))))))) :: ((Npos (XO (XI (XI (XO (XI (XI XH))))))) :: ((Npos (XI (XO
    (XI (XO (XO (XI XH))))))) :: ((Npos (XO (XI (XO (XO (XI (XI
    XH))))))) :: ((Npos (XI (XO (XI (XI (XO XH)))))) :: ((Npos (XI (XO (XO
    (XO (XO (XI XH))))))) :: ((Npos (XI (XO (XI (XO (XI (XI
    XH))))))) :: ((Npos (XO (XO (XI (XO (XI (XI XH))))))) :: ((Npos (XO (XO
    (XO (XI (XO (XI XH))))))) :: ((Npos (XI (XO (XI (XI (XI
    XH)))))) :: []))))))))))))))))

(** val k_fds : bytes **)

let k_fds =
  (Npos (XI (XO (XI (XI (XO XH)))))) :: ((Npos (XI (XO (XI (XI (XO
    XH)))))) :: ((Npos (XO (XI (XO (XI (XO (XI XH))))))) :: ((Npos (XI (XI
    (XI (XI (XO (XI XH))))))) :: ((Npos (XO (XI (XO (XO (XO (XI
    XH))))))) :: ((Npos (XI (XI (XO (XO (XI (XI XH))))))) :: ((Npos (XI (XO
    (XI (XO (XO (XI XH))))))) :: ((Npos (XO (XI (XO (XO (XI (XI
    XH))))))) :: ((Npos (XO (XI (XI (XO (XI (XI XH))))))) :: ((Npos (XI (XO
    (XI (XO (XO (XI XH))))))) :: ((Npos (XO (XI (XO (XO (XI (XI
    XH))))))) :: ((Npos (XI (XO (XI (XI (XO XH)))))) :: ((Npos (XO (XI (XI
    (XO (XO (XI XH))))))) :: ((Npos (XO (XO (XI (XO (XO (XI
    XH))))))) :: ((Npos (XI (XI (XO (XO (XI (XI XH))))))) :: ((Npos (XI (XO
    (XI (XI (XI XH)))))) :: [])))))))))))))))

(** val k_fifo : bytes **)

let k_fifo =
  (Npos (XO (XI (XI (XO (XO (XI XH))))))) :: ((Npos (XI (XO (XO (XI (XO (XI
    XH))))))) :: ((Npos (XO (XI (XI (XO (XO (XI XH))))))) :: ((Npos (XI (XI
    (XI (XI (XO (XI XH))))))) :: ((Npos (XO (XI (XO (XI (XI XH)))))) :: []))))

type mf_mode =
| ModeNone
| ModePipe
| ModePosixFifo
| ModeWin32Sem

type mf_config = { cfg_mode : mf_mode; cfg_path : bytes }

(** val cfg_default : mf_config **)

let cfg_default =
  { cfg_mode = ModeNone; cfg_path = [] }

type mf_error =
| ENone
| EBadPair of bytes
| EPipe
| ESem

type mf_result = { r_ok : bool; r_cfg : mf_config; r_err : mf_error }

(** val cstr : bytes -> bytes **)

let rec cstr = function
| [] -> []
| c :: s' -> if N.eqb c N0 then [] else c :: (cstr s')

(** val is_sep : byte -> bool **)

let is_sep c =
  (||) (N.eqb c b_sp) (N.eqb c b_tab)

(** val mf_args_aux : bytes -> bytes -> bytes list **)

let rec mf_args_aux cur = function
| [] -> (match cur with
         | [] -> []
         | _ :: _ -> (rev cur) :: [])
| c :: s' ->
  if is_sep c
  then (match cur with
        | [] -> mf_args_aux [] s'
        | _ :: _ -> (rev cur) :: (mf_args_aux [] s'))
  else mf_args_aux (c :: cur) s'

(** val mf_args : bytes -> bytes list **)

let mf_args s =
  mf_args_aux [] s

(** val is_space : byte -> bool **)

let is_space c =
  (||) (N.eqb c (Npos (XO (XO (XO (XO (XO XH)))))))
    ((&&) (N.leb (Npos (XI (XO (XO XH)))) c)
      (N.leb c (Npos (XI (XO (XI XH))))))

(** val skip_ws : bytes -> bytes **)

let rec skip_ws s = match s with
| [] -> []
| c :: s' -> if is_space c then skip_ws s' else s

(** val is_digit : byte -> bool **)

let is_digit c =
  (&&) (N.leb (Npos (XO (XO (XO (XO (XI XH)))))) c)
    (N.leb c (Npos (XI (XO (XO (XI (XI XH)))))))

(** val take_digits : bytes -> bytes * bytes **)

let rec take_digits s = match s with
| [] -> ([], [])
| c :: s' ->
  if is_digit c then let (d, r) = take_digits s' in ((c :: d), r) else ([], s)

(** val digits_value : bytes -> z **)

let digits_value ds =
  fold_left (fun a d ->
    Z.add (Z.mul a (Zpos (XO (XI (XO XH)))))
      (Z.sub (Z.of_N d) (Zpos (XO (XO (XO (XO (XI XH)))))))) ds Z0

(** val clamp64 : z -> z **)

let clamp64 z0 =
  Z.max (Zneg (XO (XO (XO (XO (XO (XO (XO (XO (XO (XO (XO (XO (XO (XO (XO (XO
    (XO (XO (XO (XO (XO (XO (XO (XO (XO (XO (XO (XO (XO (XO (XO (XO (XO (XO
    (XO (XO (XO (XO (XO (XO (XO (XO (XO (XO (XO (XO (XO (XO (XO (XO (XO (XO
    (XO (XO (XO (XO (XO (XO (XO (XO (XO (XO (XO
    XH))))))))))))))))))))))))))))))))))))))))))))))))))))))))))))))))
    (Z.min (Zpos (XI (XI (XI (XI (XI (XI (XI (XI (XI (XI (XI (XI (XI (XI (XI
      (XI (XI (XI (XI (XI (XI (XI (XI (XI (XI (XI (XI (XI (XI (XI (XI (XI (XI
      (XI (XI (XI (XI (XI (XI (XI (XI (XI (XI (XI (XI (XI (XI (XI (XI (XI (XI
      (XI (XI (XI (XI (XI (XI (XI (XI (XI (XI (XI
      XH))))))))))))))))))))))))))))))))))))))))))))))))))))))))))))))) z0)

(** val wrap32 : z -> z **)

let wrap32 z0 =
  let m =
    Z.modulo z0 (Zpos (XO (XO (XO (XO (XO (XO (XO (XO (XO (XO (XO (XO (XO (XO
      (XO (XO (XO (XO (XO (XO (XO (XO (XO (XO (XO (XO (XO (XO (XO (XO (XO (XO
      XH)))))))))))))))))))))))))))))))))
  in
  if Z.leb (Zpos (XO (XO (XO (XO (XO (XO (XO (XO (XO (XO (XO (XO (XO (XO (XO
       (XO (XO (XO (XO (XO (XO (XO (XO (XO (XO (XO (XO (XO (XO (XO (XO
       XH)))))))))))))))))))))))))))))))) m
  then Z.sub m (Zpos (XO (XO (XO (XO (XO (XO (XO (XO (XO (XO (XO (XO (XO (XO
         (XO (XO (XO (XO (XO (XO (XO (XO (XO (XO (XO (XO (XO (XO (XO (XO (XO
         (XO XH)))))))))))))))))))))))))))))))))
  else m

(** val scan_int : bytes -> (z * bytes) option **)

let scan_int s =
  let s1 = skip_ws s in
  (match s1 with
   | [] ->
     let neg = false in
     let (ds, s3) = take_digits s1 in
     (match ds with
      | [] -> None
      | _ :: _ ->
        let v = digits_value ds in
        Some ((wrap32 (clamp64 (if neg then Z.opp v else v))), s3))
   | c :: r ->
     if N.eqb c (Npos (XI (XO (XI (XI (XO XH))))))
     then let neg = true in
          let (ds, s3) = take_digits r in
          (match ds with
           | [] -> None
           | _ :: _ ->
             let v = digits_value ds in
             Some ((wrap32 (clamp64 (if neg then Z.opp v else v))), s3))
     else if N.eqb c (Npos (XI (XI (XO (XI (XO XH))))))
          then let neg = false in
               let (ds, s3) = take_digits r in
               (match ds with
                | [] -> None
                | _ :: _ ->
                  let v = digits_value ds in
                  Some ((wrap32 (clamp64 (if neg then Z.opp v else v))), s3))
          else let neg = false in
               let (ds, s3) = take_digits s1 in
               (match ds with
                | [] -> None
                | _ :: _ ->
                  let v = digits_value ds in
                  Some ((wrap32 (clamp64 (if neg then Z.opp v else v))), s3)))

(** val fd_pair : bytes -> (z * z) option **)

let fd_pair s =
  match scan_int s with
  | Some p ->
    let (r, s1) = p in
    (match s1 with
     | [] -> None
     | c :: s2 ->
       if N.eqb c (Npos (XO (XO (XI (XI (XO XH))))))
       then (match scan_int s2 with
             | Some p0 -> let (w, _) = p0 in Some (r, w)
             | None -> None)
       else None)
  | None -> None

(** val pair_mode : (z * z) -> mf_mode **)

let pair_mode p =
  if (||) (Z.ltb (fst p) Z0) (Z.ltb (snd p) Z0) then ModeNone else ModePipe

(** val get_prefixed : bytes -> bytes -> bytes option **)

let get_prefixed input prefix =
  if starts_with prefix input
  then Some (skipn (length prefix) input)
  else None

(** val mf_step : mf_config -> bytes -> (mf_config, bytes) sum **)

let mf_step cfg arg =
  match get_prefixed arg k_auth with
  | Some value ->
    (match fd_pair value with
     | Some p -> Inl { cfg_mode = (pair_mode p); cfg_path = cfg.cfg_path }
     | None ->
       (match get_prefixed value k_fifo with
        | Some fifo -> Inl { cfg_mode = ModePosixFifo; cfg_path = fifo }
        | None -> Inl { cfg_mode = ModeWin32Sem; cfg_path = value }))
  | None ->
    (match get_prefixed arg k_fds with
     | Some value ->
       (match fd_pair value with
        | Some _ -> Inl { cfg_mode = ModePipe; cfg_path = cfg.cfg_path }
        | None -> Inr value)
     | None -> Inl cfg)

(** val mf_loop : bytes list -> mf_config -> mf_result **)

let rec mf_loop args cfg =
  match args with
  | [] -> { r_ok = true; r_cfg = cfg; r_err = ENone }
  | a :: rest ->
    (match mf_step cfg a with
     | Inl cfg' -> mf_loop rest cfg'
     | Inr v -> { r_ok = false; r_cfg = cfg; r_err = (EBadPair v) })

(** val first_word_n : bytes list -> bool **)

let first_word_n = function
| [] -> false
| b :: _ ->
  (match b with
   | [] -> false
   | c :: w ->
     (&&) (negb (N.eqb c (Npos (XI (XO (XI (XI (XO XH))))))))
       (existsb (N.eqb (Npos (XO (XI (XI (XI (XO (XI XH)))))))) (c :: w)))

(** val parse_makeflags : bytes -> mf_result **)

let parse_makeflags env =
  let s = cstr env in
  (match s with
   | [] -> { r_ok = true; r_cfg = cfg_default; r_err = ENone }
   | _ :: _ ->
     let args = mf_args s in
     if first_word_n args
     then { r_ok = true; r_cfg = cfg_default; r_err = ENone }
     else mf_loop args cfg_default)

(** val parse_native_makeflags : bytes -> mf_result **)

let parse_native_makeflags env =
  let r = parse_makeflags env in
  if r.r_ok
  then (match r.r_cfg.cfg_mode with
        | ModePipe -> { r_ok = false; r_cfg = r.r_cfg; r_err = EPipe }
        | ModeWin32Sem -> { r_ok = false; r_cfg = r.r_cfg; r_err = ESem }
        | _ -> r)
  else r
