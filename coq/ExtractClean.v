(* Extraction of the Cleaner model (C18) into its own OCaml module. *)
Require Import ExtrOcamlBasic.
From NinjaV Require Import Base.Bytes Clean.CleanDefs.
Extraction Language OCaml.
Set Extraction KeepSingleton.
Extraction "cleanmodel.ml" clean_all clean_targets clean_targets_fuel clean_rules clean_dead
  disk_of result default_fuel c_disk c_removed c_cleaned.
