(* Extraction of the dependency-scan model with scan-time dyndep loads into its own OCaml module. *)
Require Import ExtrOcamlBasic.
From NinjaV Require Import Base.Bytes Engine.ScanDefs Engine.ScanDynDefs.
Extraction Language OCaml.
Set Extraction KeepSingleton.
Extraction "scandynmodel.ml" Z.add N.add Nat.add scan scan_dyn inline no_dyndep.
