
(** val negb : bool -> bool **)

let negb = function
| true -> false
| false -> true

type nat =
| O
| S of nat

type ('a, 'b) sum =
| Inl of 'a
| Inr of 'b

(** val fst : ('a1 * 'a2) -> 'a1 **)

let fst = function
| (x, _) -> x

(** val snd : ('a1 * 'a2) -> 'a2 **)

let snd = function
| (_, y) -> y

(** val length : 'a1 list -> nat **)

let rec length = function
| [] -> O
| _ :: l' -> S (length l')

(** val app : 'a1 list -> 'a1 list -> 'a1 list **)

let rec app l m =
  match l with
  | [] -> m
  | a :: l1 -> a :: (app l1 m)

type comparison =
| Eq
| Lt
| Gt

(** val add : nat -> nat -> nat **)

let rec add n0 m =
  match n0 with
  | O -> m
  | S p -> S (add p m)

(** val sub : nat -> nat -> nat **)

let rec sub n0 m =
  match n0 with
  | O -> n0
  | S k -> (match m with
            | O -> n0
            | S l -> sub k l)

(** val eqb : bool -> bool -> bool **)

let eqb b1 b2 =
  if b1 then b2 else if b2 then false else true

module Nat =
 struct
  (** val eqb : nat -> nat -> bool **)

  let rec eqb n0 m =
    match n0 with
    | O -> (match m with
            | O -> true
            | S _ -> false)
    | S n' -> (match m with
               | O -> false
               | S m' -> eqb n' m')

  (** val leb : nat -> nat -> bool **)

  let rec leb n0 m =
    match n0 with
    | O -> true
    | S n' -> (match m with
               | O -> false
               | S m' -> leb n' m')

  (** val ltb : nat -> nat -> bool **)

  let ltb n0 m =
    leb (S n0) m

  (** val min : nat -> nat -> nat **)

  let rec min n0 m =
    match n0 with
    | O -> O
    | S n' -> (match m with
               | O -> O
               | S m' -> S (min n' m'))

  (** val divmod : nat -> nat -> nat -> nat -> nat * nat **)

  let rec divmod x y q u =
    match x with
    | O -> (q, u)
    | S x' ->
      (match u with
       | O -> divmod x' y (S q) y
       | S u' -> divmod x' y q u')

  (** val div : nat -> nat -> nat **)

  let div x y = match y with
  | O -> y
  | S y' -> fst (divmod x y' O y')
 end

(** val concat : 'a1 list list -> 'a1 list **)

let rec concat = function
| [] -> []
| x :: l0 -> app x (concat l0)

(** val map : ('a1 -> 'a2) -> 'a1 list -> 'a2 list **)

let rec map f = function
| [] -> []
| a :: t -> (f a) :: (map f t)

(** val existsb : ('a1 -> bool) -> 'a1 list -> bool **)

let rec existsb f = function
| [] -> false
| a :: l0 -> (||) (f a) (existsb f l0)

(** val filter : ('a1 -> bool) -> 'a1 list -> 'a1 list **)

let rec filter f = function
| [] -> []
| x :: l0 -> if f x then x :: (filter f l0) else filter f l0

(** val combine : 'a1 list -> 'a2 list -> ('a1 * 'a2) list **)

let rec combine l l' =
  match l with
  | [] -> []
  | x :: tl ->
    (match l' with
     | [] -> []
     | y :: tl' -> (x, y) :: (combine tl tl'))

(** val firstn : nat -> 'a1 list -> 'a1 list **)

let rec firstn n0 l =
  match n0 with
  | O -> []
  | S n1 -> (match l with
             | [] -> []
             | a :: l0 -> a :: (firstn n1 l0))

(** val skipn : nat -> 'a1 list -> 'a1 list **)

let rec skipn n0 l =
  match n0 with
  | O -> l
  | S n1 -> (match l with
             | [] -> []
             | _ :: l0 -> skipn n1 l0)

(** val repeat : 'a1 -> nat -> 'a1 list **)

let rec repeat x = function
| O -> []
| S k -> x :: (repeat x k)

type positive =
| XI of positive
| XO of positive
| XH

type n =
| N0
| Npos of positive

type z =
| Z0
| Zpos of positive
| Zneg of positive

module Pos =
 struct
  type mask =
  | IsNul
  | IsPos of positive
  | IsNeg
 end

module Coq_Pos =
 struct
  (** val succ : positive -> positive **)

  let rec succ = function
  | XI p -> XO (succ p)
  | XO p -> XI p
  | XH -> XO XH

  (** val add : positive -> positive -> positive **)

  let rec add x y =
    match x with
    | XI p ->
      (match y with
       | XI q -> XO (add_carry p q)
       | XO q -> XI (add p q)
       | XH -> XO (succ p))
    | XO p ->
      (match y with
       | XI q -> XI (add p q)
       | XO q -> XO (add p q)
       | XH -> XI p)
    | XH -> (match y with
             | XI q -> XO (succ q)
             | XO q -> XI q
             | XH -> XO XH)

  (** val add_carry : positive -> positive -> positive **)

  and add_carry x y =
    match x with
    | XI p ->
      (match y with
       | XI q -> XI (add_carry p q)
       | XO q -> XO (add_carry p q)
       | XH -> XI (succ p))
    | XO p ->
      (match y with
       | XI q -> XO (add_carry p q)
       | XO q -> XI (add p q)
       | XH -> XO (succ p))
    | XH ->
      (match y with
       | XI q -> XI (succ q)
       | XO q -> XO (succ q)
       | XH -> XI XH)

  (** val pred_double : positive -> positive **)

  let rec pred_double = function
  | XI p -> XI (XO p)
  | XO p -> XI (pred_double p)
  | XH -> XH

  type mask = Pos.mask =
  | IsNul
  | IsPos of positive
  | IsNeg

  (** val succ_double_mask : mask -> mask **)

  let succ_double_mask = function
  | IsNul -> IsPos XH
  | IsPos p -> IsPos (XI p)
  | IsNeg -> IsNeg

  (** val double_mask : mask -> mask **)

  let double_mask = function
  | IsPos p -> IsPos (XO p)
  | x0 -> x0

  (** val double_pred_mask : positive -> mask **)

  let double_pred_mask = function
  | XI p -> IsPos (XO (XO p))
  | XO p -> IsPos (XO (pred_double p))
  | XH -> IsNul

  (** val sub_mask : positive -> positive -> mask **)

  let rec sub_mask x y =
    match x with
    | XI p ->
      (match y with
       | XI q -> double_mask (sub_mask p q)
       | XO q -> succ_double_mask (sub_mask p q)
       | XH -> IsPos (XO p))
    | XO p ->
      (match y with
       | XI q -> succ_double_mask (sub_mask_carry p q)
       | XO q -> double_mask (sub_mask p q)
       | XH -> IsPos (pred_double p))
    | XH -> (match y with
             | XH -> IsNul
             | _ -> IsNeg)

  (** val sub_mask_carry : positive -> positive -> mask **)

  and sub_mask_carry x y =
    match x with
    | XI p ->
      (match y with
       | XI q -> succ_double_mask (sub_mask_carry p q)
       | XO q -> double_mask (sub_mask p q)
       | XH -> IsPos (pred_double p))
    | XO p ->
      (match y with
       | XI q -> double_mask (sub_mask_carry p q)
       | XO q -> succ_double_mask (sub_mask_carry p q)
       | XH -> double_pred_mask p)
    | XH -> IsNeg

  (** val mul : positive -> positive -> positive **)

  let rec mul x y =
    match x with
    | XI p -> add y (XO (mul p y))
    | XO p -> XO (mul p y)
    | XH -> y

  (** val size_nat : positive -> nat **)

  let rec size_nat = function
  | XI p0 -> S (size_nat p0)
  | XO p0 -> S (size_nat p0)
  | XH -> S O

  (** val compare_cont : comparison -> positive -> positive -> comparison **)

  let rec compare_cont r x y =
    match x with
    | XI p ->
      (match y with
       | XI q -> compare_cont r p q
       | XO q -> compare_cont Gt p q
       | XH -> Gt)
    | XO p ->
      (match y with
       | XI q -> compare_cont Lt p q
       | XO q -> compare_cont r p q
       | XH -> Gt)
    | XH -> (match y with
             | XH -> r
             | _ -> Lt)

  (** val compare : positive -> positive -> comparison **)

  let compare =
    compare_cont Eq

  (** val eqb : positive -> positive -> bool **)

  let rec eqb p q =
    match p with
    | XI p0 -> (match q with
                | XI q0 -> eqb p0 q0
                | _ -> false)
    | XO p0 -> (match q with
                | XO q0 -> eqb p0 q0
                | _ -> false)
    | XH -> (match q with
             | XH -> true
             | _ -> false)
 end

module N =
 struct
  (** val succ_double : n -> n **)

  let succ_double = function
  | N0 -> Npos XH
  | Npos p -> Npos (XI p)

  (** val double : n -> n **)

  let double = function
  | N0 -> N0
  | Npos p -> Npos (XO p)

  (** val add : n -> n -> n **)

  let add n0 m =
    match n0 with
    | N0 -> m
    | Npos p -> (match m with
                 | N0 -> n0
                 | Npos q -> Npos (Coq_Pos.add p q))

  (** val sub : n -> n -> n **)

  let sub n0 m =
    match n0 with
    | N0 -> N0
    | Npos n' ->
      (match m with
       | N0 -> n0
       | Npos m' ->
         (match Coq_Pos.sub_mask n' m' with
          | Coq_Pos.IsPos p -> Npos p
          | _ -> N0))

  (** val compare : n -> n -> comparison **)

  let compare n0 m =
    match n0 with
    | N0 -> (match m with
             | N0 -> Eq
             | Npos _ -> Lt)
    | Npos n' -> (match m with
                  | N0 -> Gt
                  | Npos m' -> Coq_Pos.compare n' m')

  (** val eqb : n -> n -> bool **)

  let eqb n0 m =
    match n0 with
    | N0 -> (match m with
             | N0 -> true
             | Npos _ -> false)
    | Npos p -> (match m with
                 | N0 -> false
                 | Npos q -> Coq_Pos.eqb p q)

  (** val leb : n -> n -> bool **)

  let leb x y =
    match compare x y with
    | Gt -> false
    | _ -> true

  (** val size_nat : n -> nat **)

  let size_nat = function
  | N0 -> O
  | Npos p -> Coq_Pos.size_nat p

  (** val pos_div_eucl : positive -> n -> n * n **)

  let rec pos_div_eucl a b =
    match a with
    | XI a' ->
      let (q, r) = pos_div_eucl a' b in
      let r' = succ_double r in
      if leb b r' then ((succ_double q), (sub r' b)) else ((double q), r')
    | XO a' ->
      let (q, r) = pos_div_eucl a' b in
      let r' = double r in
      if leb b r' then ((succ_double q), (sub r' b)) else ((double q), r')
    | XH ->
      (match b with
       | N0 -> (N0, (Npos XH))
       | Npos p -> (match p with
                    | XH -> ((Npos XH), N0)
                    | _ -> (N0, (Npos XH))))

  (** val div_eucl : n -> n -> n * n **)

  let div_eucl a b =
    match a with
    | N0 -> (N0, N0)
    | Npos na -> (match b with
                  | N0 -> (N0, a)
                  | Npos _ -> pos_div_eucl na b)

  (** val div : n -> n -> n **)

  let div a b =
    fst (div_eucl a b)

  (** val modulo : n -> n -> n **)

  let modulo a b =
    snd (div_eucl a b)
 end

module Z =
 struct
  (** val double : z -> z **)

  let double = function
  | Z0 -> Z0
  | Zpos p -> Zpos (XO p)
  | Zneg p -> Zneg (XO p)

  (** val succ_double : z -> z **)

  let succ_double = function
  | Z0 -> Zpos XH
  | Zpos p -> Zpos (XI p)
  | Zneg p -> Zneg (Coq_Pos.pred_double p)

  (** val pred_double : z -> z **)

  let pred_double = function
  | Z0 -> Zneg XH
  | Zpos p -> Zpos (Coq_Pos.pred_double p)
  | Zneg p -> Zneg (XI p)

  (** val pos_sub : positive -> positive -> z **)

  let rec pos_sub x y =
    match x with
    | XI p ->
      (match y with
       | XI q -> double (pos_sub p q)
       | XO q -> succ_double (pos_sub p q)
       | XH -> Zpos (XO p))
    | XO p ->
      (match y with
       | XI q -> pred_double (pos_sub p q)
       | XO q -> double (pos_sub p q)
       | XH -> Zpos (Coq_Pos.pred_double p))
    | XH ->
      (match y with
       | XI q -> Zneg (XO q)
       | XO q -> Zneg (Coq_Pos.pred_double q)
       | XH -> Z0)

  (** val add : z -> z -> z **)

  let add x y =
    match x with
    | Z0 -> y
    | Zpos x' ->
      (match y with
       | Z0 -> x
       | Zpos y' -> Zpos (Coq_Pos.add x' y')
       | Zneg y' -> pos_sub x' y')
    | Zneg x' ->
      (match y with
       | Z0 -> x
       | Zpos y' -> pos_sub y' x'
       | Zneg y' -> Zneg (Coq_Pos.add x' y'))

  (** val opp : z -> z **)

  let opp = function
  | Z0 -> Z0
  | Zpos x0 -> Zneg x0
  | Zneg x0 -> Zpos x0

  (** val sub : z -> z -> z **)

  let sub m n0 =
    add m (opp n0)

  (** val mul : z -> z -> z **)

  let mul x y =
    match x with
    | Z0 -> Z0
    | Zpos x' ->
      (match y with
       | Z0 -> Z0
       | Zpos y' -> Zpos (Coq_Pos.mul x' y')
       | Zneg y' -> Zneg (Coq_Pos.mul x' y'))
    | Zneg x' ->
      (match y with
       | Z0 -> Z0
       | Zpos y' -> Zneg (Coq_Pos.mul x' y')
       | Zneg y' -> Zpos (Coq_Pos.mul x' y'))

  (** val eqb : z -> z -> bool **)

  let eqb x y =
    match x with
    | Z0 -> (match y with
             | Z0 -> true
             | _ -> false)
    | Zpos p -> (match y with
                 | Zpos q -> Coq_Pos.eqb p q
                 | _ -> false)
    | Zneg p -> (match y with
                 | Zneg q -> Coq_Pos.eqb p q
                 | _ -> false)

  (** val to_N : z -> n **)

  let to_N = function
  | Zpos p -> Npos p
  | _ -> N0

  (** val of_N : n -> z **)

  let of_N = function
  | N0 -> Z0
  | Npos p -> Zpos p

  (** val quotrem : z -> z -> z * z **)

  let quotrem a b =
    match a with
    | Z0 -> (Z0, Z0)
    | Zpos a0 ->
      (match b with
       | Z0 -> (Z0, a)
       | Zpos b0 ->
         let (q, r) = N.pos_div_eucl a0 (Npos b0) in ((of_N q), (of_N r))
       | Zneg b0 ->
         let (q, r) = N.pos_div_eucl a0 (Npos b0) in
         ((opp (of_N q)), (of_N r)))
    | Zneg a0 ->
      (match b with
       | Z0 -> (Z0, a)
       | Zpos b0 ->
         let (q, r) = N.pos_div_eucl a0 (Npos b0) in
         ((opp (of_N q)), (opp (of_N r)))
       | Zneg b0 ->
         let (q, r) = N.pos_div_eucl a0 (Npos b0) in
         ((of_N q), (opp (of_N r))))

  (** val quot : z -> z -> z **)

  let quot a b =
    fst (quotrem a b)
 end

type byte = n

type bytes = byte list

(** val bytes_eqb : bytes -> bytes -> bool **)

let rec bytes_eqb a b =
  match a with
  | [] -> (match b with
           | [] -> true
           | _ :: _ -> false)
  | x :: a' ->
    (match b with
     | [] -> false
     | y :: b' -> (&&) (N.eqb x y) (bytes_eqb a' b'))

(** val b_lf : byte **)

let b_lf =
  Npos (XO (XI (XO XH)))

(** val b_cr : byte **)

let b_cr =
  Npos (XI (XO (XI XH)))

(** val b_sp : byte **)

let b_sp =
  Npos (XO (XO (XO (XO (XO XH)))))

(** val b_esc : byte **)

let b_esc =
  Npos (XI (XI (XO (XI XH))))

(** val b_pct : byte **)

let b_pct =
  Npos (XI (XO (XI (XO (XO XH)))))

(** val b_lbr : byte **)

let b_lbr =
  Npos (XI (XI (XO (XI (XI (XO XH))))))

(** val l_failed : bytes **)

let l_failed =
  (Npos (XO (XI (XI (XO (XO (XO XH))))))) :: ((Npos (XI (XO (XO (XO (XO (XO
    XH))))))) :: ((Npos (XI (XO (XO (XI (XO (XO XH))))))) :: ((Npos (XO (XO
    (XI (XI (XO (XO XH))))))) :: ((Npos (XI (XO (XI (XO (XO (XO
    XH))))))) :: ((Npos (XO (XO (XI (XO (XO (XO XH))))))) :: ((Npos (XO (XI
    (XO (XI (XI XH)))))) :: ((Npos (XO (XO (XO (XO (XO XH)))))) :: ((Npos (XI
    (XI (XO (XI (XI (XO XH))))))) :: ((Npos (XI (XI (XO (XO (XO (XI
    XH))))))) :: ((Npos (XI (XI (XI (XI (XO (XI XH))))))) :: ((Npos (XO (XO
    (XI (XO (XO (XI XH))))))) :: ((Npos (XI (XO (XI (XO (XO (XI
    XH))))))) :: ((Npos (XI (XO (XI (XI (XI XH)))))) :: [])))))))))))))

(** val l_close : bytes **)

let l_close =
  (Npos (XI (XO (XI (XI (XI (XO XH))))))) :: ((Npos (XO (XO (XO (XO (XO
    XH)))))) :: [])

(** val l_red : bytes **)

let l_red =
  (Npos (XI (XI (XO (XI XH))))) :: ((Npos (XI (XI (XO (XI (XI (XO
    XH))))))) :: ((Npos (XI (XI (XO (XO (XI XH)))))) :: ((Npos (XI (XO (XO
    (XO (XI XH)))))) :: ((Npos (XI (XO (XI (XI (XO (XI XH))))))) :: []))))

(** val l_reset : bytes **)

let l_reset =
  (Npos (XI (XI (XO (XI XH))))) :: ((Npos (XI (XI (XO (XI (XI (XO
    XH))))))) :: ((Npos (XO (XO (XO (XO (XI XH)))))) :: ((Npos (XI (XO (XI
    (XI (XO (XI XH))))))) :: [])))

(** val l_clreol : bytes **)

let l_clreol =
  (Npos (XI (XI (XO (XI XH))))) :: ((Npos (XI (XI (XO (XI (XI (XO
    XH))))))) :: ((Npos (XI (XI (XO (XI (XO (XO XH))))))) :: []))

(** val l_ninja : bytes **)

let l_ninja =
  (Npos (XO (XI (XI (XI (XO (XI XH))))))) :: ((Npos (XI (XO (XO (XI (XO (XI
    XH))))))) :: ((Npos (XO (XI (XI (XI (XO (XI XH))))))) :: ((Npos (XO (XI
    (XO (XI (XO (XI XH))))))) :: ((Npos (XI (XO (XO (XO (XO (XI
    XH))))))) :: ((Npos (XO (XI (XO (XI (XI XH)))))) :: ((Npos (XO (XO (XO
    (XO (XO XH)))))) :: []))))))

(** val l_warning : bytes **)

let l_warning =
  (Npos (XI (XI (XI (XO (XI (XI XH))))))) :: ((Npos (XI (XO (XO (XO (XO (XI
    XH))))))) :: ((Npos (XO (XI (XO (XO (XI (XI XH))))))) :: ((Npos (XO (XI
    (XI (XI (XO (XI XH))))))) :: ((Npos (XI (XO (XO (XI (XO (XI
    XH))))))) :: ((Npos (XO (XI (XI (XI (XO (XI XH))))))) :: ((Npos (XI (XI
    (XI (XO (XO (XI XH))))))) :: ((Npos (XO (XI (XO (XI (XI
    XH)))))) :: ((Npos (XO (XO (XO (XO (XO XH)))))) :: []))))))))

(** val l_error : bytes **)

let l_error =
  (Npos (XI (XO (XI (XO (XO (XI XH))))))) :: ((Npos (XO (XI (XO (XO (XI (XI
    XH))))))) :: ((Npos (XO (XI (XO (XO (XI (XI XH))))))) :: ((Npos (XI (XI
    (XI (XI (XO (XI XH))))))) :: ((Npos (XO (XI (XO (XO (XI (XI
    XH))))))) :: ((Npos (XO (XI (XO (XI (XI XH)))))) :: ((Npos (XO (XO (XO
    (XO (XO XH)))))) :: []))))))

(** val l_fatal : bytes **)

let l_fatal =
  (Npos (XO (XI (XI (XO (XO (XI XH))))))) :: ((Npos (XI (XO (XO (XO (XO (XI
    XH))))))) :: ((Npos (XO (XO (XI (XO (XI (XI XH))))))) :: ((Npos (XI (XO
    (XO (XO (XO (XI XH))))))) :: ((Npos (XO (XO (XI (XI (XO (XI
    XH))))))) :: ((Npos (XO (XI (XO (XI (XI XH)))))) :: ((Npos (XO (XO (XO
    (XO (XO XH)))))) :: []))))))

(** val l_unkph1 : bytes **)

let l_unkph1 =
  (Npos (XI (XO (XI (XO (XI (XI XH))))))) :: ((Npos (XO (XI (XI (XI (XO (XI
    XH))))))) :: ((Npos (XI (XI (XO (XI (XO (XI XH))))))) :: ((Npos (XO (XI
    (XI (XI (XO (XI XH))))))) :: ((Npos (XI (XI (XI (XI (XO (XI
    XH))))))) :: ((Npos (XI (XI (XI (XO (XI (XI XH))))))) :: ((Npos (XO (XI
    (XI (XI (XO (XI XH))))))) :: ((Npos (XO (XO (XO (XO (XO
    XH)))))) :: ((Npos (XO (XO (XO (XO (XI (XI XH))))))) :: ((Npos (XO (XO
    (XI (XI (XO (XI XH))))))) :: ((Npos (XI (XO (XO (XO (XO (XI
    XH))))))) :: ((Npos (XI (XI (XO (XO (XO (XI XH))))))) :: ((Npos (XI (XO
    (XI (XO (XO (XI XH))))))) :: ((Npos (XO (XO (XO (XI (XO (XI
    XH))))))) :: ((Npos (XI (XI (XI (XI (XO (XI XH))))))) :: ((Npos (XO (XO
    (XI (XI (XO (XI XH))))))) :: ((Npos (XO (XO (XI (XO (XO (XI
    XH))))))) :: ((Npos (XI (XO (XI (XO (XO (XI XH))))))) :: ((Npos (XO (XI
    (XO (XO (XI (XI XH))))))) :: ((Npos (XO (XO (XO (XO (XO
    XH)))))) :: ((Npos (XI (XI (XI (XO (XO XH)))))) :: ((Npos (XI (XO (XI (XO
    (XO XH)))))) :: [])))))))))))))))))))))

(** val l_unkph2 : bytes **)

let l_unkph2 =
  (Npos (XI (XI (XI (XO (XO XH)))))) :: ((Npos (XO (XO (XO (XO (XO
    XH)))))) :: ((Npos (XI (XO (XO (XI (XO (XI XH))))))) :: ((Npos (XO (XI
    (XI (XI (XO (XI XH))))))) :: ((Npos (XO (XO (XO (XO (XO
    XH)))))) :: ((Npos (XO (XO (XI (XO (XO XH)))))) :: ((Npos (XO (XI (XI (XI
    (XO (XO XH))))))) :: ((Npos (XI (XO (XO (XI (XO (XO XH))))))) :: ((Npos
    (XO (XI (XI (XI (XO (XO XH))))))) :: ((Npos (XO (XI (XO (XI (XO (XO
    XH))))))) :: ((Npos (XI (XO (XO (XO (XO (XO XH))))))) :: ((Npos (XI (XI
    (XI (XI (XI (XO XH))))))) :: ((Npos (XI (XI (XO (XO (XI (XO
    XH))))))) :: ((Npos (XO (XO (XI (XO (XI (XO XH))))))) :: ((Npos (XI (XO
    (XO (XO (XO (XO XH))))))) :: ((Npos (XO (XO (XI (XO (XI (XO
    XH))))))) :: ((Npos (XI (XO (XI (XO (XI (XO XH))))))) :: ((Npos (XI (XI
    (XO (XO (XI (XO XH))))))) :: [])))))))))))))))))

(** val l_unkvar1 : bytes **)

let l_unkvar1 =
  (Npos (XI (XO (XI (XO (XI (XI XH))))))) :: ((Npos (XO (XI (XI (XI (XO (XI
    XH))))))) :: ((Npos (XI (XI (XO (XI (XO (XI XH))))))) :: ((Npos (XO (XI
    (XI (XI (XO (XI XH))))))) :: ((Npos (XI (XI (XI (XI (XO (XI
    XH))))))) :: ((Npos (XI (XI (XI (XO (XI (XI XH))))))) :: ((Npos (XO (XI
    (XI (XI (XO (XI XH))))))) :: ((Npos (XO (XO (XO (XO (XO
    XH)))))) :: ((Npos (XO (XI (XI (XO (XI (XI XH))))))) :: ((Npos (XI (XO
    (XO (XO (XO (XI XH))))))) :: ((Npos (XO (XI (XO (XO (XI (XI
    XH))))))) :: ((Npos (XI (XO (XO (XI (XO (XI XH))))))) :: ((Npos (XI (XO
    (XO (XO (XO (XI XH))))))) :: ((Npos (XO (XI (XO (XO (XO (XI
    XH))))))) :: ((Npos (XO (XO (XI (XI (XO (XI XH))))))) :: ((Npos (XI (XO
    (XI (XO (XO (XI XH))))))) :: ((Npos (XO (XO (XO (XO (XO
    XH)))))) :: ((Npos (XI (XI (XI (XO (XO XH)))))) :: [])))))))))))))))))

(** val l_unkvar2 : bytes **)

let l_unkvar2 =
  (Npos (XI (XI (XI (XO (XO XH)))))) :: ((Npos (XO (XO (XO (XO (XO
    XH)))))) :: ((Npos (XI (XO (XO (XI (XO (XI XH))))))) :: ((Npos (XO (XI
    (XI (XI (XO (XI XH))))))) :: ((Npos (XO (XO (XO (XO (XO
    XH)))))) :: ((Npos (XI (XO (XI (XI (XO XH)))))) :: ((Npos (XI (XO (XI (XI
    (XO XH)))))) :: ((Npos (XI (XI (XO (XO (XI (XI XH))))))) :: ((Npos (XO
    (XO (XI (XO (XI (XI XH))))))) :: ((Npos (XI (XO (XO (XO (XO (XI
    XH))))))) :: ((Npos (XO (XO (XI (XO (XI (XI XH))))))) :: ((Npos (XI (XO
    (XI (XO (XI (XI XH))))))) :: ((Npos (XI (XI (XO (XO (XI (XI
    XH))))))) :: ((Npos (XO (XO (XO (XO (XO XH)))))) :: ((Npos (XO (XI (XI
    (XO (XO (XI XH))))))) :: ((Npos (XI (XI (XI (XI (XO (XI
    XH))))))) :: ((Npos (XO (XI (XO (XO (XI (XI XH))))))) :: ((Npos (XI (XO
    (XI (XI (XO (XI XH))))))) :: ((Npos (XI (XO (XO (XO (XO (XI
    XH))))))) :: ((Npos (XO (XO (XI (XO (XI (XI
    XH))))))) :: [])))))))))))))))))))

(** val l_dots : bytes **)

let l_dots =
  (Npos (XO (XI (XI (XI (XO XH)))))) :: ((Npos (XO (XI (XI (XI (XO
    XH)))))) :: ((Npos (XO (XI (XI (XI (XO XH)))))) :: []))

(** val default_format : bytes **)

let default_format =
  (Npos (XI (XI (XO (XI (XI (XO XH))))))) :: ((Npos (XI (XO (XI (XO (XO
    XH)))))) :: ((Npos (XO (XI (XI (XO (XO (XI XH))))))) :: ((Npos (XI (XI
    (XI (XI (XO XH)))))) :: ((Npos (XI (XO (XI (XO (XO XH)))))) :: ((Npos (XO
    (XO (XI (XO (XI (XI XH))))))) :: ((Npos (XI (XO (XI (XI (XI (XO
    XH))))))) :: ((Npos (XO (XO (XO (XO (XO XH)))))) :: [])))))))

(** val v_description : bytes **)

let v_description =
  (Npos (XO (XO (XI (XO (XO (XI XH))))))) :: ((Npos (XI (XO (XI (XO (XO (XI
    XH))))))) :: ((Npos (XI (XI (XO (XO (XI (XI XH))))))) :: ((Npos (XI (XI
    (XO (XO (XO (XI XH))))))) :: ((Npos (XO (XI (XO (XO (XI (XI
    XH))))))) :: ((Npos (XI (XO (XO (XI (XO (XI XH))))))) :: ((Npos (XO (XO
    (XO (XO (XI (XI XH))))))) :: ((Npos (XO (XO (XI (XO (XI (XI
    XH))))))) :: ((Npos (XI (XO (XO (XI (XO (XI XH))))))) :: ((Npos (XI (XI
    (XI (XI (XO (XI XH))))))) :: ((Npos (XO (XI (XI (XI (XO (XI
    XH))))))) :: []))))))))))

(** val v_started : bytes **)

let v_started =
  (Npos (XI (XI (XO (XO (XI (XI XH))))))) :: ((Npos (XO (XO (XI (XO (XI (XI
    XH))))))) :: ((Npos (XI (XO (XO (XO (XO (XI XH))))))) :: ((Npos (XO (XI
    (XO (XO (XI (XI XH))))))) :: ((Npos (XO (XO (XI (XO (XI (XI
    XH))))))) :: ((Npos (XI (XO (XI (XO (XO (XI XH))))))) :: ((Npos (XO (XO
    (XI (XO (XO (XI XH))))))) :: []))))))

(** val v_total : bytes **)

let v_total =
  (Npos (XO (XO (XI (XO (XI (XI XH))))))) :: ((Npos (XI (XI (XI (XI (XO (XI
    XH))))))) :: ((Npos (XO (XO (XI (XO (XI (XI XH))))))) :: ((Npos (XI (XO
    (XO (XO (XO (XI XH))))))) :: ((Npos (XO (XO (XI (XI (XO (XI
    XH))))))) :: []))))

(** val v_running : bytes **)

let v_running =
  (Npos (XO (XI (XO (XO (XI (XI XH))))))) :: ((Npos (XI (XO (XI (XO (XI (XI
    XH))))))) :: ((Npos (XO (XI (XI (XI (XO (XI XH))))))) :: ((Npos (XO (XI
    (XI (XI (XO (XI XH))))))) :: ((Npos (XI (XO (XO (XI (XO (XI
    XH))))))) :: ((Npos (XO (XI (XI (XI (XO (XI XH))))))) :: ((Npos (XI (XI
    (XI (XO (XO (XI XH))))))) :: []))))))

(** val v_remaining : bytes **)

let v_remaining =
  (Npos (XO (XI (XO (XO (XI (XI XH))))))) :: ((Npos (XI (XO (XI (XO (XO (XI
    XH))))))) :: ((Npos (XI (XO (XI (XI (XO (XI XH))))))) :: ((Npos (XI (XO
    (XO (XO (XO (XI XH))))))) :: ((Npos (XI (XO (XO (XI (XO (XI
    XH))))))) :: ((Npos (XO (XI (XI (XI (XO (XI XH))))))) :: ((Npos (XI (XO
    (XO (XI (XO (XI XH))))))) :: ((Npos (XO (XI (XI (XI (XO (XI
    XH))))))) :: ((Npos (XI (XI (XI (XO (XO (XI XH))))))) :: []))))))))

(** val v_finished : bytes **)

let v_finished =
  (Npos (XO (XI (XI (XO (XO (XI XH))))))) :: ((Npos (XI (XO (XO (XI (XO (XI
    XH))))))) :: ((Npos (XO (XI (XI (XI (XO (XI XH))))))) :: ((Npos (XI (XO
    (XO (XI (XO (XI XH))))))) :: ((Npos (XI (XI (XO (XO (XI (XI
    XH))))))) :: ((Npos (XO (XO (XO (XI (XO (XI XH))))))) :: ((Npos (XI (XO
    (XI (XO (XO (XI XH))))))) :: ((Npos (XO (XO (XI (XO (XO (XI
    XH))))))) :: [])))))))

(** val v_rate : bytes **)

let v_rate =
  (Npos (XO (XI (XO (XO (XI (XI XH))))))) :: ((Npos (XI (XO (XO (XO (XO (XI
    XH))))))) :: ((Npos (XO (XO (XI (XO (XI (XI XH))))))) :: ((Npos (XI (XO
    (XI (XO (XO (XI XH))))))) :: [])))

(** val v_current_rate : bytes **)

let v_current_rate =
  (Npos (XI (XI (XO (XO (XO (XI XH))))))) :: ((Npos (XI (XO (XI (XO (XI (XI
    XH))))))) :: ((Npos (XO (XI (XO (XO (XI (XI XH))))))) :: ((Npos (XO (XI
    (XO (XO (XI (XI XH))))))) :: ((Npos (XI (XO (XI (XO (XO (XI
    XH))))))) :: ((Npos (XO (XI (XI (XI (XO (XI XH))))))) :: ((Npos (XO (XO
    (XI (XO (XI (XI XH))))))) :: ((Npos (XI (XI (XI (XI (XI (XO
    XH))))))) :: ((Npos (XO (XI (XO (XO (XI (XI XH))))))) :: ((Npos (XI (XO
    (XO (XO (XO (XI XH))))))) :: ((Npos (XO (XO (XI (XO (XI (XI
    XH))))))) :: ((Npos (XI (XO (XI (XO (XO (XI XH))))))) :: [])))))))))))

(** val v_progress : bytes **)

let v_progress =
  (Npos (XO (XO (XO (XO (XI (XI XH))))))) :: ((Npos (XO (XI (XO (XO (XI (XI
    XH))))))) :: ((Npos (XI (XI (XI (XI (XO (XI XH))))))) :: ((Npos (XI (XI
    (XI (XO (XO (XI XH))))))) :: ((Npos (XO (XI (XO (XO (XI (XI
    XH))))))) :: ((Npos (XI (XO (XI (XO (XO (XI XH))))))) :: ((Npos (XI (XI
    (XO (XO (XI (XI XH))))))) :: ((Npos (XI (XI (XO (XO (XI (XI
    XH))))))) :: [])))))))

(** val v_predicted_progress : bytes **)

let v_predicted_progress =
  (Npos (XO (XO (XO (XO (XI (XI XH))))))) :: ((Npos (XO (XI (XO (XO (XI (XI
    XH))))))) :: ((Npos (XI (XO (XI (XO (XO (XI XH))))))) :: ((Npos (XO (XO
    (XI (XO (XO (XI XH))))))) :: ((Npos (XI (XO (XO (XI (XO (XI
    XH))))))) :: ((Npos (XI (XI (XO (XO (XO (XI XH))))))) :: ((Npos (XO (XO
    (XI (XO (XI (XI XH))))))) :: ((Npos (XI (XO (XI (XO (XO (XI
    XH))))))) :: ((Npos (XO (XO (XI (XO (XO (XI XH))))))) :: ((Npos (XI (XI
    (XI (XI (XI (XO XH))))))) :: ((Npos (XO (XO (XO (XO (XI (XI
    XH))))))) :: ((Npos (XO (XI (XO (XO (XI (XI XH))))))) :: ((Npos (XI (XI
    (XI (XI (XO (XI XH))))))) :: ((Npos (XI (XI (XI (XO (XO (XI
    XH))))))) :: ((Npos (XO (XI (XO (XO (XI (XI XH))))))) :: ((Npos (XI (XO
    (XI (XO (XO (XI XH))))))) :: ((Npos (XI (XI (XO (XO (XI (XI
    XH))))))) :: ((Npos (XI (XI (XO (XO (XI (XI
    XH))))))) :: [])))))))))))))))))

(** val v_elapsed : bytes **)

let v_elapsed =
  (Npos (XI (XO (XI (XO (XO (XI XH))))))) :: ((Npos (XO (XO (XI (XI (XO (XI
    XH))))))) :: ((Npos (XI (XO (XO (XO (XO (XI XH))))))) :: ((Npos (XO (XO
    (XO (XO (XI (XI XH))))))) :: ((Npos (XI (XI (XO (XO (XI (XI
    XH))))))) :: ((Npos (XI (XO (XI (XO (XO (XI XH))))))) :: ((Npos (XO (XO
    (XI (XO (XO (XI XH))))))) :: []))))))

(** val v_elapsed_seconds : bytes **)

let v_elapsed_seconds =
  (Npos (XI (XO (XI (XO (XO (XI XH))))))) :: ((Npos (XO (XO (XI (XI (XO (XI
    XH))))))) :: ((Npos (XI (XO (XO (XO (XO (XI XH))))))) :: ((Npos (XO (XO
    (XO (XO (XI (XI XH))))))) :: ((Npos (XI (XI (XO (XO (XI (XI
    XH))))))) :: ((Npos (XI (XO (XI (XO (XO (XI XH))))))) :: ((Npos (XO (XO
    (XI (XO (XO (XI XH))))))) :: ((Npos (XI (XI (XI (XI (XI (XO
    XH))))))) :: ((Npos (XI (XI (XO (XO (XI (XI XH))))))) :: ((Npos (XI (XO
    (XI (XO (XO (XI XH))))))) :: ((Npos (XI (XI (XO (XO (XO (XI
    XH))))))) :: ((Npos (XI (XI (XI (XI (XO (XI XH))))))) :: ((Npos (XO (XI
    (XI (XI (XO (XI XH))))))) :: ((Npos (XO (XO (XI (XO (XO (XI
    XH))))))) :: ((Npos (XI (XI (XO (XO (XI (XI XH))))))) :: []))))))))))))))

(** val v_eta : bytes **)

let v_eta =
  (Npos (XI (XO (XI (XO (XO (XI XH))))))) :: ((Npos (XO (XO (XI (XO (XI (XI
    XH))))))) :: ((Npos (XI (XO (XO (XO (XO (XI XH))))))) :: []))

(** val v_eta_seconds : bytes **)

let v_eta_seconds =
  (Npos (XI (XO (XI (XO (XO (XI XH))))))) :: ((Npos (XO (XO (XI (XO (XI (XI
    XH))))))) :: ((Npos (XI (XO (XO (XO (XO (XI XH))))))) :: ((Npos (XI (XI
    (XI (XI (XI (XO XH))))))) :: ((Npos (XI (XI (XO (XO (XI (XI
    XH))))))) :: ((Npos (XI (XO (XI (XO (XO (XI XH))))))) :: ((Npos (XI (XI
    (XO (XO (XO (XI XH))))))) :: ((Npos (XI (XI (XI (XI (XO (XI
    XH))))))) :: ((Npos (XO (XI (XI (XI (XO (XI XH))))))) :: ((Npos (XO (XO
    (XI (XO (XO (XI XH))))))) :: ((Npos (XI (XI (XO (XO (XI (XI
    XH))))))) :: []))))))))))

(** val cstr : bytes -> bytes **)

let rec cstr = function
| [] -> []
| c :: r -> if N.eqb c N0 then [] else c :: (cstr r)

(** val dec_fuel : nat -> n -> bytes -> bytes **)

let rec dec_fuel fuel n0 acc =
  match fuel with
  | O -> acc
  | S f ->
    let acc' =
      (N.add (Npos (XO (XO (XO (XO (XI XH))))))
        (N.modulo n0 (Npos (XO (XI (XO XH)))))) :: acc
    in
    if N.eqb (N.div n0 (Npos (XO (XI (XO XH))))) N0
    then acc'
    else dec_fuel f (N.div n0 (Npos (XO (XI (XO XH))))) acc'

(** val dec_N : n -> bytes **)

let dec_N n0 =
  dec_fuel (S (N.size_nat n0)) n0 []

(** val dec_Z : z -> bytes **)

let dec_Z z0 = match z0 with
| Zneg p -> (Npos (XI (XO (XI (XI (XO XH)))))) :: (dec_N (Npos p))
| _ -> dec_N (Z.to_N z0)

(** val pad3 : bytes -> bytes **)

let pad3 s =
  app
    (repeat (Npos (XO (XO (XO (XO (XO XH)))))) (sub (S (S (S O))) (length s)))
    s

(** val last_byte : bytes -> byte -> byte **)

let rec last_byte s d =
  match s with
  | [] -> d
  | c :: r -> last_byte r c

(** val ends_blank : bytes -> bool **)

let ends_blank s =
  N.eqb (last_byte s (Npos (XO (XI (XO XH))))) (Npos (XO (XI (XO XH))))

(** val is_empty : bytes -> bool **)

let is_empty = function
| [] -> true
| _ :: _ -> false

(** val has_esc : bytes -> bool **)

let has_esc s =
  existsb (N.eqb b_esc) s

(** val islatinalpha : byte -> bool **)

let islatinalpha c =
  (||)
    ((&&) (N.leb (Npos (XI (XO (XO (XO (XO (XI XH))))))) c)
      (N.leb c (Npos (XO (XI (XO (XI (XI (XI XH)))))))))
    ((&&) (N.leb (Npos (XI (XO (XO (XO (XO (XO XH))))))) c)
      (N.leb c (Npos (XO (XI (XO (XI (XI (XO XH)))))))))

(** val strip_go : bool -> bytes -> bytes **)

let rec strip_go incsi = function
| [] -> []
| c :: r ->
  if incsi
  then if islatinalpha c then strip_go false r else strip_go true r
  else if negb (N.eqb c b_esc)
       then c :: (strip_go false r)
       else (match r with
             | [] -> []
             | d :: r' ->
               if N.eqb d b_lbr then strip_go true r' else strip_go false r)

(** val strip_ansi : bytes -> bytes **)

let strip_ansi s =
  strip_go false s

(** val is_param : byte -> bool **)

let is_param c =
  (||)
    ((&&) (N.leb (Npos (XO (XO (XO (XO (XI XH)))))) c)
      (N.leb c (Npos (XI (XO (XO (XI (XI XH))))))))
    (N.eqb c (Npos (XI (XI (XO (XI (XI XH)))))))

(** val skip_params : bytes -> nat -> (nat * byte) option **)

let rec skip_params l k =
  match l with
  | [] -> None
  | c :: r -> if is_param c then skip_params r (S k) else Some (k, c)

type seq_res =
| SeqFound of nat
| SeqNotM
| SeqNo

(** val seq_at : bytes -> seq_res **)

let seq_at l =
  if Nat.ltb (length l) (S (S (S (S O))))
  then SeqNo
  else (match l with
        | [] -> SeqNo
        | _ :: l0 ->
          (match l0 with
           | [] -> SeqNo
           | d :: r2 ->
             if negb (N.eqb d b_lbr)
             then SeqNo
             else (match skip_params r2 O with
                   | Some p ->
                     let (k, c) = p in
                     if N.eqb c (Npos (XI (XO (XI (XI (XO (XI XH)))))))
                     then SeqFound (add k (S (S (S O))))
                     else SeqNotM
                   | None -> SeqNo)))

(** val vis_go : nat -> nat -> bytes -> bool list **)

let rec vis_go inv pass l = match l with
| [] -> []
| c :: r ->
  (match inv with
   | O ->
     (match pass with
      | O ->
        if N.eqb c b_esc
        then (match seq_at l with
              | SeqFound n0 -> false :: (vis_go (sub n0 (S O)) O r)
              | SeqNotM -> true :: (vis_go O (S (S O)) r)
              | SeqNo -> true :: (vis_go O O r))
        else true :: (vis_go O O r)
      | S p -> true :: (vis_go O p r))
   | S i -> false :: (vis_go i O r))

(** val vis_flags : bytes -> bool list **)

let vis_flags s =
  vis_go O O s

(** val b2n : bool -> nat **)

let b2n = function
| true -> S O
| false -> O

(** val elide_tail : nat -> nat -> (byte * bool) list -> bytes **)

let rec elide_tail vp ge l = match l with
| [] -> []
| p :: r ->
  let (c, v) = p in
  if Nat.eqb vp ge
  then map fst l
  else app (if v then [] else c :: []) (elide_tail (add vp (b2n v)) ge r)

(** val elide_head :
    nat -> nat -> nat -> bytes -> (byte * bool) list -> bytes **)

let rec elide_head vp gs ge ell l = match l with
| [] -> ell
| p :: r ->
  let (c, v) = p in
  if Nat.eqb vp gs
  then app ell (elide_tail vp ge l)
  else c :: (elide_head (add vp (b2n v)) gs ge ell r)

(** val elide_middle : bytes -> nat -> bytes **)

let elide_middle s w =
  if Nat.leb (length s) w
  then s
  else if negb (has_esc s)
       then if Nat.leb w (S (S (S O)))
            then firstn w l_dots
            else let rem = sub w (S (S (S O))) in
                 let left = Nat.div rem (S (S O)) in
                 let right = sub rem left in
                 app (firstn left s)
                   (app l_dots (skipn (sub (length s) right) s))
       else let fl = vis_flags s in
            let vw = length (filter (fun b -> b) fl) in
            if Nat.leb vw w
            then s
            else let ew = Nat.min w (S (S (S O))) in
                 let left = Nat.div (sub w ew) (S (S O)) in
                 let right = sub (sub w ew) left in
                 elide_head O left (sub vw right) (firstn ew l_dots)
                   (combine s fl)

type verbosity =
| VQuiet
| VNoStatus
| VNormal
| VVerbose

type tok = bool * bytes

type config = { c_tty : bool; c_verb : verbosity; c_color : bool;
                c_width : nat; c_format : bytes; c_eval : tok list option;
                c_time : (nat -> bytes -> bytes) }

(** val smart : config -> bool **)

let smart cfg =
  (&&) cfg.c_tty (match cfg.c_verb with
                  | VNormal -> true
                  | _ -> false)

type edge = { e_desc : bytes; e_cmd : bytes; e_console : bool;
              e_outs : bytes list }

type call =
| Added of edge
| Removed of edge
| Started of edge
| Finished of edge * z * bytes
| BuildStarted
| BuildFinished
| ConsoleLock of bool
| NewLine
| Info of bytes
| Warning of bytes
| Error of bytes

type counters = { n_total : z; n_started : z; n_finished : z; n_running : z }

(** val percent : counters -> bytes **)

let percent cn =
  let p =
    if (||) (Z.eqb cn.n_finished Z0) (Z.eqb cn.n_total Z0)
    then Z0
    else Z.quot (Z.mul (Zpos (XO (XO (XI (XO (XO (XI XH))))))) cn.n_finished)
           cn.n_total
  in
  app (pad3 (dec_Z p)) (b_pct :: [])

(** val placeholder : (bytes -> bytes) -> counters -> byte -> bytes option **)

let placeholder tm cn c =
  if N.eqb c (Npos (XI (XO (XI (XO (XO XH))))))
  then Some (b_pct :: [])
  else if N.eqb c (Npos (XI (XI (XO (XO (XI (XI XH)))))))
       then Some (dec_Z cn.n_started)
       else if N.eqb c (Npos (XO (XO (XI (XO (XI (XI XH)))))))
            then Some (dec_Z cn.n_total)
            else if N.eqb c (Npos (XO (XI (XO (XO (XI (XI XH)))))))
                 then Some (dec_Z cn.n_running)
                 else if N.eqb c (Npos (XI (XO (XI (XO (XI (XI XH)))))))
                      then Some (dec_Z (Z.sub cn.n_total cn.n_started))
                      else if N.eqb c (Npos (XO (XI (XI (XO (XO (XI XH)))))))
                           then Some (dec_Z cn.n_finished)
                           else if N.eqb c (Npos (XO (XO (XO (XO (XI (XI
                                     XH)))))))
                                then Some (percent cn)
                                else if (||)
                                          ((||)
                                            ((||)
                                              ((||)
                                                ((||)
                                                  ((||)
                                                    (N.eqb c (Npos (XI (XI
                                                      (XI (XI (XO (XI
                                                      XH))))))))
                                                    (N.eqb c (Npos (XI (XI
                                                      (XO (XO (XO (XI
                                                      XH)))))))))
                                                  (N.eqb c (Npos (XI (XO (XI
                                                    (XO (XO (XI XH)))))))))
                                                (N.eqb c (Npos (XI (XI (XI
                                                  (XO (XI (XI XH)))))))))
                                              (N.eqb c (Npos (XI (XO (XI (XO
                                                (XO (XO XH)))))))))
                                            (N.eqb c (Npos (XI (XI (XI (XO
                                              (XI (XO XH)))))))))
                                          (N.eqb c (Npos (XO (XO (XO (XO (XI
                                            (XO XH))))))))
                                     then Some (tm (c :: []))
                                     else None

(** val format_go :
    (bytes -> bytes) -> counters -> bytes -> (bytes, byte) sum **)

let rec format_go tm cn = function
| [] -> Inl []
| c :: r ->
  if N.eqb c b_pct
  then (match r with
        | [] -> Inr N0
        | d :: r' ->
          (match placeholder tm cn d with
           | Some x ->
             (match format_go tm cn r' with
              | Inl o -> Inl (app x o)
              | Inr b -> Inr b)
           | None -> Inr d))
  else (match format_go tm cn r with
        | Inl o -> Inl (c :: o)
        | Inr b -> Inr b)

(** val format_progress :
    (bytes -> bytes) -> counters -> bytes -> (bytes, byte) sum **)

let format_progress tm cn fmt =
  format_go tm cn (cstr fmt)

(** val status_variable :
    (bytes -> bytes) -> counters -> bytes -> bytes option **)

let status_variable tm cn name =
  if bytes_eqb name v_started
  then Some (dec_Z cn.n_started)
  else if bytes_eqb name v_total
       then Some (dec_Z cn.n_total)
       else if bytes_eqb name v_running
            then Some (dec_Z cn.n_running)
            else if bytes_eqb name v_remaining
                 then Some (dec_Z (Z.sub cn.n_total cn.n_started))
                 else if bytes_eqb name v_finished
                      then Some (dec_Z cn.n_finished)
                      else if bytes_eqb name v_progress
                           then Some (percent cn)
                           else if (||)
                                     ((||)
                                       ((||)
                                         ((||)
                                           ((||)
                                             ((||) (bytes_eqb name v_rate)
                                               (bytes_eqb name v_current_rate))
                                             (bytes_eqb name
                                               v_predicted_progress))
                                           (bytes_eqb name v_elapsed))
                                         (bytes_eqb name v_elapsed_seconds))
                                       (bytes_eqb name v_eta))
                                     (bytes_eqb name v_eta_seconds)
                                then Some (tm name)
                                else None

(** val eval_go :
    (bytes -> bytes) -> counters -> bytes -> tok list -> (bytes, bytes) sum **)

let rec eval_go tm cn desc = function
| [] -> Inl []
| t :: r ->
  let (isvar, x) = t in
  let here =
    if isvar
    then if bytes_eqb x v_description
         then Some desc
         else status_variable tm cn x
    else Some x
  in
  (match here with
   | Some h ->
     (match eval_go tm cn desc r with
      | Inl o -> Inl (app h o)
      | Inr b -> Inr b)
   | None -> Inr x)

(** val description_of : config -> edge -> bytes **)

let description_of cfg e =
  if (||) (is_empty e.e_desc)
       (match cfg.c_verb with
        | VVerbose -> true
        | _ -> false)
  then e.e_cmd
  else e.e_desc

(** val status_text :
    config -> nat -> counters -> edge -> (bytes, bytes) sum **)

let status_text cfg idx cn e =
  let d = description_of cfg e in
  (match cfg.c_eval with
   | Some ts ->
     (match eval_go (cfg.c_time idx) cn d ts with
      | Inl o -> Inl o
      | Inr v ->
        Inr
          (app l_ninja
            (app l_fatal
              (app l_unkvar1 (app (cstr v) (app l_unkvar2 (b_lf :: [])))))))
   | None ->
     (match format_progress (cfg.c_time idx) cn cfg.c_format with
      | Inl o -> Inl (app o d)
      | Inr c ->
        Inr
          (app l_ninja
            (app l_fatal
              (app l_unkph1 (app (c :: []) (app l_unkph2 (b_lf :: []))))))))

type lp = { lp_blank : bool; lp_locked : bool; lp_line : bytes;
            lp_elide : bool; lp_out : bytes }

(** val lp_init : lp **)

let lp_init =
  { lp_blank = true; lp_locked = false; lp_line = []; lp_elide = true;
    lp_out = [] }

(** val lp_print : config -> lp -> bytes -> bool -> lp * bytes **)

let lp_print cfg p s el =
  if p.lp_locked
  then ({ lp_blank = p.lp_blank; lp_locked = true; lp_line = s; lp_elide =
         el; lp_out = p.lp_out }, [])
  else if smart cfg
       then if el
            then ({ lp_blank = false; lp_locked = false; lp_line = p.lp_line;
                   lp_elide = p.lp_elide; lp_out = p.lp_out },
                   (app (b_cr :: [])
                     (app
                       (cstr
                         (match cfg.c_width with
                          | O -> s
                          | S n0 -> elide_middle s (S n0))) l_clreol)))
            else (p, (app (b_cr :: []) (app (cstr s) (b_lf :: []))))
       else (p, (app (cstr s) (b_lf :: [])))

(** val lp_put : lp -> bytes -> lp * bytes **)

let lp_put p s =
  if p.lp_locked
  then ({ lp_blank = p.lp_blank; lp_locked = true; lp_line = p.lp_line;
         lp_elide = p.lp_elide; lp_out = (app p.lp_out s) }, [])
  else (p, s)

(** val lp_newline : lp -> bytes -> lp * bytes **)

let lp_newline p s =
  let p1 =
    if (&&) p.lp_locked (negb (is_empty p.lp_line))
    then { lp_blank = p.lp_blank; lp_locked = true; lp_line = []; lp_elide =
           p.lp_elide; lp_out = (app p.lp_out (app p.lp_line (b_lf :: []))) }
    else p
  in
  let (p2, o2) = if p1.lp_blank then (p1, []) else lp_put p1 (b_lf :: []) in
  let (p3, o3) = if is_empty s then (p2, []) else lp_put p2 s in
  ({ lp_blank = (ends_blank s); lp_locked = p3.lp_locked; lp_line =
  p3.lp_line; lp_elide = p3.lp_elide; lp_out = p3.lp_out }, (app o2 o3))

(** val lp_lock : config -> lp -> bool -> lp * bytes **)

let lp_lock cfg p b =
  if eqb b p.lp_locked
  then (p, [])
  else if b
       then let (p1, o1) = lp_newline p [] in
            ({ lp_blank = p1.lp_blank; lp_locked = true; lp_line =
            p1.lp_line; lp_elide = p1.lp_elide; lp_out = p1.lp_out }, o1)
       else let p0 = { lp_blank = p.lp_blank; lp_locked = false; lp_line =
              p.lp_line; lp_elide = p.lp_elide; lp_out = p.lp_out }
            in
            let (p1, o1) = lp_newline p0 p0.lp_out in
            let (p2, o2) =
              if is_empty p1.lp_line
              then (p1, [])
              else lp_print cfg p1 p1.lp_line p1.lp_elide
            in
            ({ lp_blank = p2.lp_blank; lp_locked = p2.lp_locked; lp_line =
            []; lp_elide = p2.lp_elide; lp_out = [] }, (app o1 o2))

type state = { s_cn : counters; s_lp : lp; s_dead : bool; s_idx : nat }

(** val init_state : state **)

let init_state =
  { s_cn = { n_total = Z0; n_started = Z0; n_finished = Z0; n_running = Z0 };
    s_lp = lp_init; s_dead = false; s_idx = O }

type res = (state * bytes) * bytes

(** val print_status :
    config -> nat -> counters -> lp -> edge -> (lp * bytes, bytes) sum **)

let print_status cfg idx cn p e =
  match cfg.c_verb with
  | VNormal ->
    (match status_text cfg idx cn e with
     | Inl line -> Inl (lp_print cfg p line true)
     | Inr msg -> Inr msg)
  | VVerbose ->
    (match status_text cfg idx cn e with
     | Inl line -> Inl (lp_print cfg p line false)
     | Inr msg -> Inr msg)
  | _ -> Inl (p, [])

(** val outputs_text : edge -> bytes **)

let outputs_text e =
  concat (map (fun o -> app o (b_sp :: [])) e.e_outs)

(** val failed_line : config -> edge -> z -> bytes **)

let failed_line cfg e code =
  let failed = app l_failed (app (dec_Z code) l_close) in
  app (if cfg.c_color then app l_red (app failed l_reset) else failed)
    (app (outputs_text e) (b_lf :: []))

(** val shown_output : config -> bytes -> bytes **)

let shown_output cfg output =
  if (||) cfg.c_color (negb (has_esc output))
  then output
  else strip_ansi output

(** val finish_body : config -> lp -> edge -> z -> bytes -> lp * bytes **)

let finish_body cfg p e code output =
  if Z.eqb code Z0
  then let o1 = [] in
       let (p2, o2) =
         if is_empty output
         then (p, [])
         else lp_newline p (shown_output cfg output)
       in
       (p2, (app o1 o2))
  else let (pa, oa) = lp_newline p (failed_line cfg e code) in
       let (pb, ob) = lp_newline pa (app e.e_cmd (b_lf :: [])) in
       let o1 = app oa ob in
       let (p2, o2) =
         if is_empty output
         then (pb, [])
         else lp_newline pb (shown_output cfg output)
       in
       (p2, (app o1 o2))

(** val dead_of : state -> counters -> lp -> bytes -> bytes -> res **)

let dead_of s cn p out msg =
  (({ s_cn = cn; s_lp = p; s_dead = true; s_idx = (S s.s_idx) }, out), msg)

(** val ok_of : state -> counters -> lp -> bytes -> res **)

let ok_of s cn p out =
  (({ s_cn = cn; s_lp = p; s_dead = false; s_idx = (S s.s_idx) }, out), [])

(** val step : config -> state -> call -> res **)

let step cfg s c =
  if s.s_dead
  then ((s, []), [])
  else let cn = s.s_cn in
       let p = s.s_lp in
       let idx = s.s_idx in
       (match c with
        | Added _ ->
          ok_of s { n_total = (Z.add cn.n_total (Zpos XH)); n_started =
            cn.n_started; n_finished = cn.n_finished; n_running =
            cn.n_running } p []
        | Removed _ ->
          ok_of s { n_total = (Z.sub cn.n_total (Zpos XH)); n_started =
            cn.n_started; n_finished = cn.n_finished; n_running =
            cn.n_running } p []
        | Started e ->
          let cn1 = { n_total = cn.n_total; n_started =
            (Z.add cn.n_started (Zpos XH)); n_finished = cn.n_finished;
            n_running = (Z.add cn.n_running (Zpos XH)) }
          in
          (match if (||) e.e_console (smart cfg)
                 then print_status cfg idx cn1 p e
                 else Inl (p, []) with
           | Inl p0 ->
             let (p1, o1) = p0 in
             let (p2, o2) =
               if e.e_console then lp_lock cfg p1 true else (p1, [])
             in
             ok_of s cn1 p2 (app o1 o2)
           | Inr msg -> dead_of s cn1 p [] msg)
        | Finished (e, code, output) ->
          let cn1 = { n_total = cn.n_total; n_started = cn.n_started;
            n_finished = (Z.add cn.n_finished (Zpos XH)); n_running =
            cn.n_running }
          in
          let (p1, o1) = if e.e_console then lp_lock cfg p false else (p, [])
          in
          (match cfg.c_verb with
           | VQuiet -> ok_of s cn1 p1 o1
           | VNoStatus ->
             (match if e.e_console
                    then Inl (p1, [])
                    else print_status cfg idx cn1 p1 e with
              | Inl p0 ->
                let (p2, o2) = p0 in
                let cn2 = { n_total = cn1.n_total; n_started = cn1.n_started;
                  n_finished = cn1.n_finished; n_running =
                  (Z.sub cn1.n_running (Zpos XH)) }
                in
                let (p3, o3) = finish_body cfg p2 e code output in
                ok_of s cn2 p3 (app o1 (app o2 o3))
              | Inr msg -> dead_of s cn1 p1 o1 msg)
           | VNormal ->
             (match if e.e_console
                    then Inl (p1, [])
                    else print_status cfg idx cn1 p1 e with
              | Inl p0 ->
                let (p2, o2) = p0 in
                let cn2 = { n_total = cn1.n_total; n_started = cn1.n_started;
                  n_finished = cn1.n_finished; n_running =
                  (Z.sub cn1.n_running (Zpos XH)) }
                in
                let (p3, o3) = finish_body cfg p2 e code output in
                ok_of s cn2 p3 (app o1 (app o2 o3))
              | Inr msg -> dead_of s cn1 p1 o1 msg)
           | VVerbose ->
             (match if e.e_console
                    then Inl (p1, [])
                    else print_status cfg idx cn1 p1 e with
              | Inl p0 ->
                let (p2, o2) = p0 in
                let cn2 = { n_total = cn1.n_total; n_started = cn1.n_started;
                  n_finished = cn1.n_finished; n_running =
                  (Z.sub cn1.n_running (Zpos XH)) }
                in
                let (p3, o3) = finish_body cfg p2 e code output in
                ok_of s cn2 p3 (app o1 (app o2 o3))
              | Inr msg -> dead_of s cn1 p1 o1 msg))
        | BuildStarted ->
          ok_of s { n_total = cn.n_total; n_started = Z0; n_finished = Z0;
            n_running = Z0 } p []
        | BuildFinished ->
          let (p1, o1) = lp_lock cfg p false in
          let (p2, o2) = lp_newline p1 [] in
          ok_of s { n_total = Z0; n_started = cn.n_started; n_finished =
            cn.n_finished; n_running = cn.n_running } p2 (app o1 o2)
        | ConsoleLock b -> let (p1, o1) = lp_lock cfg p b in ok_of s cn p1 o1
        | NewLine -> let (p1, o1) = lp_newline p [] in ok_of s cn p1 o1
        | Info m -> ok_of s cn p (app l_ninja (app (cstr m) (b_lf :: [])))
        | Warning m ->
          (({ s_cn = cn; s_lp = p; s_dead = false; s_idx = (S idx) }, []),
            (app l_ninja (app l_warning (app (cstr m) (b_lf :: [])))))
        | Error m ->
          (({ s_cn = cn; s_lp = p; s_dead = false; s_idx = (S idx) }, []),
            (app l_ninja (app l_error (app (cstr m) (b_lf :: []))))))

(** val run_from : config -> state -> call list -> res **)

let rec run_from cfg s = function
| [] -> ((s, []), [])
| c :: r ->
  let (p, e1) = step cfg s c in
  let (s1, o1) = p in
  let (p0, e2) = run_from cfg s1 r in
  let (s2, o2) = p0 in ((s2, (app o1 o2)), (app e1 e2))

(** val run : config -> call list -> res **)

let run cfg cs =
  run_from cfg init_state cs

(** val render : config -> call list -> bytes **)

let render cfg cs =
  snd (fst (run cfg cs))

(** val render_err : config -> call list -> bytes **)

let render_err cfg cs =
  snd (run cfg cs)
