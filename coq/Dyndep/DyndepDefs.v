(* C11 (file-level part) / C13: executable model of how ninja reads and applies a DYNDEP file.
   Definitions only.

   C++ modelled (the tree /repo, INCLUDING the commits
     "fix: propagate lexer errors in DyndepParser::ParseEdge"  (the two [return err;] are [return false;]),
     "fix: iterate over a copy of out_edges in DyndepLoader::LoadDyndeps",
     "fix: give an edge whose dyndep binding comes from its rule a scope of its own"):
     src/lexer.in.cc  (compiled: src/lexer.cc)  ReadToken / PeekToken / UnreadToken / EatWhitespace /
                                                ReadIdent / ReadEvalString (ReadPath, ReadVarValue)
     src/eval_env.cc                            EvalString::Evaluate against the parser's EMPTY env
     src/version.cc                             ParseVersion (atoi)
     src/dyndep_parser.cc                       Parse / ParseDyndepVersion / ParseLet / ParseEdge
     src/dyndep.cc                              DyndepLoader::LoadDyndeps / UpdateEdge
     src/parser.cc                              Parser::Load (missing file) / ExpectToken

   The lexer state of the C++ is the pair (ofs_, last_token_) of pointers into a NUL-terminated
   buffer.  Here a position is THE REMAINING INPUT (a byte list); the model is run on
   [contents ++ [0]].  A scanner that would have to look at a byte after the end of the list
   returns the distinct error [E_overrun]; DyndepProofs shows that it is unreachable as soon as the
   remaining input contains a NUL (C13: the lexer never reads past the sentinel).  The loops of the
   parser ([for (;;)] over tokens / over paths) take fuel; exhaustion is the distinct error
   [E_fuel], proved unreachable for fuel = S (length input) (C13_dyndep_total).

   Only the CLASS of an error is modelled (one constructor per error branch of the C++), not the
   line/column/context text that Lexer::Error adds. *)
From NinjaV Require Import Base.Bytes Canon.CanonDefs.
Local Open Scope N_scope.

(* ------------------------------------------------------------------------------------------ *)
(** * Tokens, errors *)

Inductive token :=
| T_ERROR | T_BUILD | T_COLON | T_DEFAULT | T_EQUALS | T_IDENT | T_INCLUDE | T_INDENT
| T_NEWLINE | T_PIPE | T_PIPE2 | T_PIPEAT | T_POOL | T_RULE | T_SUBNINJA | T_TEOF.

Definition token_eqb (a b : token) : bool :=
  match a, b with
  | T_ERROR, T_ERROR | T_BUILD, T_BUILD | T_COLON, T_COLON | T_DEFAULT, T_DEFAULT
  | T_EQUALS, T_EQUALS | T_IDENT, T_IDENT | T_INCLUDE, T_INCLUDE | T_INDENT, T_INDENT
  | T_NEWLINE, T_NEWLINE | T_PIPE, T_PIPE | T_PIPE2, T_PIPE2 | T_PIPEAT, T_PIPEAT
  | T_POOL, T_POOL | T_RULE, T_RULE | T_SUBNINJA, T_SUBNINJA | T_TEOF, T_TEOF => true
  | _, _ => false
  end.

Inductive dd_err :=
(* Parser::Load *)
| E_loading                      (* "loading '<file>': <reason>" : the file cannot be read *)
(* DyndepParser::Parse *)
| E_version_expected_build       (* BUILD before the version line: "expected 'ninja_dyndep_version = ...'" *)
| E_version_expected_eof         (* EOF without a version line: same text *)
| E_version_expected_name        (* first binding is not ninja_dyndep_version: same text *)
| E_unexpected (t : token)       (* "unexpected <token>" (IDENT after the version; default branch) *)
| E_lex_token (tab : bool)       (* ERROR token at statement level: DescribeLastError():
                                    "tabs are not allowed, use spaces" / "lexing error" *)
(* ParseDyndepVersion / ParseLet *)
| E_unsupported_version          (* "unsupported 'ninja_dyndep_version = <v>'" *)
| E_expected_var_name            (* "expected variable name" *)
| E_expected (want got : token)  (* Parser::ExpectToken: "expected <want>, got <got>" *)
(* ParseEdge *)
| E_expected_path                (* "expected path" *)
| E_empty_path                   (* "empty path" (3 branches: out, implicit in, implicit out) *)
| E_no_build_stmt                (* "no build statement exists for '<out>'" *)
| E_multiple_stmts               (* "multiple statements for '<out>'" *)
| E_explicit_outs                (* "explicit outputs not supported" *)
| E_expected_dyndep              (* "expected build command name 'dyndep'" *)
| E_explicit_ins                 (* "explicit inputs not supported" *)
| E_order_only                   (* "order-only inputs not supported" *)
| E_binding_not_restat           (* "binding is not 'restat'" *)
(* Lexer::ReadEvalString *)
| E_bad_escape                   (* "bad $-escape (literal $ must be written as $$)" *)
| E_unexpected_eof               (* "unexpected EOF" *)
| E_lexing                       (* the [^] rule of ReadEvalString (a lone CR): "lexing error" *)
| E_newline_version              (* "$^": "using $^ escape requires specifying 'ninja_required_version'..."
                                    (the dyndep parser's lexer always has version 0.0) *)
(* DyndepLoader::LoadDyndeps / UpdateEdge *)
| E_not_mentioned                (* "'<out>' not mentioned in its dyndep file '<f>'" *)
| E_not_bound                    (* "dyndep file '<f>' mentions output '<out>' whose build statement
                                    does not have a dyndep binding for the file" *)
| E_multiple_rules               (* "multiple rules generate <node>" *)
(* model only; unreachable (DyndepProofs) *)
| E_overrun                      (* a scanner looked past the end of the byte list *)
| E_fuel.                        (* a parser loop ran out of fuel *)

Inductive result (A : Type) := Ok (a : A) | Err (e : dd_err).
Arguments Ok {A} a.
Arguments Err {A} e.

Definition bind {A B : Type} (r : result A) (f : A -> result B) : result B :=
  match r with Ok a => f a | Err e => Err e end.

(* ------------------------------------------------------------------------------------------ *)
(** * Byte strings and character classes *)

(* numeric literals: extraction must not pull in Coq's [string] *)
Definition s_build : bytes := [98; 117; 105; 108; 100].
Definition s_pool : bytes := [112; 111; 111; 108].
Definition s_rule : bytes := [114; 117; 108; 101].
Definition s_default : bytes := [100; 101; 102; 97; 117; 108; 116].
Definition s_include : bytes := [105; 110; 99; 108; 117; 100; 101].
Definition s_subninja : bytes := [115; 117; 98; 110; 105; 110; 106; 97].
Definition s_dyndep : bytes := [100; 121; 110; 100; 101; 112].
Definition s_restat : bytes := [114; 101; 115; 116; 97; 116].
Definition s_version_var : bytes :=      (* "ninja_dyndep_version" *)
  [110; 105; 110; 106; 97; 95; 100; 121; 110; 100; 101; 112; 95; 118; 101; 114; 115; 105; 111; 110].

Definition in_range (lo hi c : byte) : bool := N.leb lo c && N.leb c hi.
Definition is_alnum (c : byte) : bool :=
  in_range 97 122 c || in_range 65 90 c || in_range 48 57 c.
(* simple_varname = [a-zA-Z0-9_-]+ ; varname = [a-zA-Z0-9_.-]+ *)
Definition is_simple_varname_char (c : byte) : bool := is_alnum c || N.eqb c 95 || N.eqb c 45.
Definition is_varname_char (c : byte) : bool := is_simple_varname_char c || N.eqb c 46.

(* ------------------------------------------------------------------------------------------ *)
(** * Lexer::EatWhitespace
     [ ]+ | "$\r\n" | "$\n" -> continue ;  nul | [^] -> break *)
Fixpoint eat_ws (s : bytes) : result bytes :=
  match s with
  | [] => Err E_overrun
  | c :: s1 =>
    if N.eqb c 32 then eat_ws s1
    else if N.eqb c 36 then
      match s1 with
      | [] => Err E_overrun
      | d :: s2 =>
        if N.eqb d 10 then eat_ws s2
        else if N.eqb d 13 then
          match s2 with
          | [] => Err E_overrun
          | e :: s3 => if N.eqb e 10 then eat_ws s3 else Ok s
          end
        else Ok s
      end
    else Ok s
  end.

(* ------------------------------------------------------------------------------------------ *)
(** * Lexer::ReadToken *)

(* maximal run of varname characters *)
Fixpoint span_varname (s : bytes) : result (bytes * bytes) :=
  match s with
  | [] => Err E_overrun
  | c :: s' =>
    if is_varname_char c then
      match span_varname s' with
      | Ok (w, r) => Ok (c :: w, r)
      | Err e => Err e
      end
    else Ok ([], s)
  end.

Definition keyword_or_ident (w : bytes) : token :=
  if bytes_eqb w s_build then T_BUILD
  else if bytes_eqb w s_pool then T_POOL
  else if bytes_eqb w s_rule then T_RULE
  else if bytes_eqb w s_default then T_DEFAULT
  else if bytes_eqb w s_include then T_INCLUDE
  else if bytes_eqb w s_subninja then T_SUBNINJA
  else T_IDENT.

(* a token that starts at a byte [c] which is not a space and does not begin a comment / newline *)
Definition scan_plain (c : byte) (s' : bytes) : result (token * bytes) :=
  if is_varname_char c then
    match span_varname s' with
    | Ok (w, r) => Ok (keyword_or_ident (c :: w), r)
    | Err e => Err e
    end
  else if N.eqb c 61 then Ok (T_EQUALS, s')
  else if N.eqb c 58 then Ok (T_COLON, s')
  else if N.eqb c 124 then
    match s' with
    | [] => Err E_overrun
    | d :: s'' => if N.eqb d 64 then Ok (T_PIPEAT, s'')
                  else if N.eqb d 124 then Ok (T_PIPE2, s'')
                  else Ok (T_PIPE, s')
    end
  else if N.eqb c 0 then Ok (T_TEOF, s')
  else Ok (T_ERROR, s').

Inductive rtmode :=
| RT_spaces                      (* in the leading run of spaces of a candidate token *)
| RT_comment (hash : bytes).     (* after [ ]*"#", inside [^\000\n]*; [hash] = input at the '#' *)

(* [st] = input at the start of the candidate token (the C++ [start], later [last_token_]);
   [sp] = at least one leading space seen.  A terminated comment restarts the loop; an
   unterminated one falls back to the longest other match: INDENT when there were spaces, else
   the one-byte [^] rule (ERROR) on the '#'.
   Result: (token, input at last_token_, input after the token). *)
Fixpoint read_token_aux (s st : bytes) (sp : bool) (m : rtmode) : result (token * bytes * bytes) :=
  match s with
  | [] => Err E_overrun
  | c :: s' =>
    match m with
    | RT_comment hr =>
      if N.eqb c 10 then read_token_aux s' s' false RT_spaces
      else if N.eqb c 0 then
        (if sp then Ok (T_INDENT, st, hr) else Ok (T_ERROR, st, tl hr))
      else read_token_aux s' st sp (RT_comment hr)
    | RT_spaces =>
      if N.eqb c 32 then read_token_aux s' st true RT_spaces
      else if N.eqb c 35 then read_token_aux s' st sp (RT_comment s)
      else if N.eqb c 10 then Ok (T_NEWLINE, st, s')
      else
        let fallback :=
          if sp then Ok (T_INDENT, st, s)
          else match scan_plain c s' with
               | Ok (t, r) => Ok (t, st, r)
               | Err e => Err e
               end in
        if N.eqb c 13 then
          match s' with
          | [] => Err E_overrun
          | d :: s'' => if N.eqb d 10 then Ok (T_NEWLINE, st, s'') else fallback
          end
        else fallback
    end
  end.

Definition read_token (s : bytes) : result (token * bytes * bytes) :=
  match read_token_aux s s false RT_spaces with
  | Err e => Err e
  | Ok (t, st, r) =>
    match t with
    | T_NEWLINE | T_TEOF => Ok (t, st, r)
    | _ => match eat_ws r with Ok r' => Ok (t, st, r') | Err e => Err e end
    end
  end.

(* Lexer::PeekToken: on a mismatch UnreadToken() puts ofs_ back to last_token_ (which is AFTER any
   comment lines the scanner skipped). *)
Definition peek_token (want : token) (s : bytes) : result (bool * bytes) :=
  match read_token s with
  | Err e => Err e
  | Ok (t, st, r) => if token_eqb t want then Ok (true, r) else Ok (false, st)
  end.

(* Parser::ExpectToken *)
Definition expect_token (want : token) (s : bytes) : result bytes :=
  match read_token s with
  | Err e => Err e
  | Ok (t, _, r) => if token_eqb t want then Ok r else Err (E_expected want t)
  end.

(* Lexer::ReadIdent: [Ok None] = no identifier here *)
Definition read_ident (s : bytes) : result (option (bytes * bytes)) :=
  match s with
  | [] => Err E_overrun
  | c :: s' =>
    if is_varname_char c then
      match span_varname s' with
      | Err e => Err e
      | Ok (w, r) => match eat_ws r with Ok r' => Ok (Some (c :: w, r')) | Err e => Err e end
      end
    else Ok None
  end.

(* ------------------------------------------------------------------------------------------ *)
(** * Lexer::ReadEvalString, evaluated on the fly against the EMPTY environment

   DyndepParser::env_ is a fresh BindingEnv without parent and nothing is ever added to it:
   EvalString::Evaluate gives the concatenation of the RAW pieces, every "$x"/"${x}" contributes
   the empty string.  What the parser needs of an EvalString is therefore
     - the evaluated text                                   ([rev acc]), and
     - [EvalString::empty()], which is false as soon as some text OR some variable reference was
       added                                                ([ne] = "not empty").
   A path written as "$x" is hence NOT empty() but evaluates to "" ("empty path" error instead of
   the end of a list). *)

Inductive ckind := K_text | K_dollar | K_space | K_colon | K_pipe | K_cr | K_lf | K_nul.
Definition ckind_of (c : byte) : ckind :=
  if N.eqb c 36 then K_dollar
  else if N.eqb c 32 then K_space
  else if N.eqb c 58 then K_colon
  else if N.eqb c 124 then K_pipe
  else if N.eqb c 13 then K_cr
  else if N.eqb c 10 then K_lf
  else if N.eqb c 0 then K_nul
  else K_text.

Inductive evmode :=
| EM_normal
| EM_skipsp            (* after "$\n" / "$\r\n": inside the [ ]* of that rule *)
| EM_simple            (* inside "$"simple_varname (at least one character read) *)
| EM_brace (b : bool). (* inside "${"varname ; [b] = at least one character read *)

(* Result: (evaluated text, not-empty flag, input after the string).  For a path the delimiter is
   NOT consumed; for a value the terminating "\n" / "\r\n" is. *)
Fixpoint read_eval (path : bool) (s : bytes) (m : evmode) (acc : bytes) (ne : bool)
  : result (bytes * bool * bytes) :=
  match s with
  | [] => Err E_overrun
  | c :: s' =>
    let normal :=
      match ckind_of c with
      | K_text => read_eval path s' EM_normal (c :: acc) true
      | K_nul => Err E_unexpected_eof
      | K_cr =>
        match s' with
        | [] => Err E_overrun
        | d :: s'' => if N.eqb d 10 then Ok (rev acc, ne, if path then s else s'')
                      else Err E_lexing
        end
      | K_lf => Ok (rev acc, ne, if path then s else s')
      | K_space | K_colon | K_pipe =>
        if path then Ok (rev acc, ne, s) else read_eval path s' EM_normal (c :: acc) true
      | K_dollar =>
        match s' with
        | [] => Err E_overrun
        | d :: s'' =>
          if N.eqb d 36 then read_eval path s'' EM_normal (36 :: acc) true
          else if N.eqb d 32 then read_eval path s'' EM_normal (32 :: acc) true
          else if N.eqb d 58 then read_eval path s'' EM_normal (58 :: acc) true
          else if N.eqb d 10 then read_eval path s'' EM_skipsp acc ne
          else if N.eqb d 13 then
            match s'' with
            | [] => Err E_overrun
            | e :: s3 => if N.eqb e 10 then read_eval path s3 EM_skipsp acc ne
                         else Err E_bad_escape
            end
          else if N.eqb d 123 then read_eval path s'' (EM_brace false) acc ne
          else if N.eqb d 94 then Err E_newline_version
          else if is_simple_varname_char d then read_eval path s'' EM_simple acc true
          else Err E_bad_escape
        end
      end in
    match m with
    | EM_normal => normal
    | EM_skipsp => if N.eqb c 32 then read_eval path s' EM_skipsp acc ne else normal
    | EM_simple => if is_simple_varname_char c then read_eval path s' EM_simple acc ne else normal
    | EM_brace b =>
      if is_varname_char c then read_eval path s' (EM_brace true) acc ne
      else if N.eqb c 125 && b then read_eval path s' EM_normal acc true
      else Err E_bad_escape
    end
  end.

(* Lexer::ReadPath: ... ; if (path) EatWhitespace(); *)
Definition read_path (s : bytes) : result (bytes * bool * bytes) :=
  match read_eval true s EM_normal [] false with
  | Err e => Err e
  | Ok (t, ne, r) => match eat_ws r with Ok r' => Ok (t, ne, r') | Err e => Err e end
  end.

(* Lexer::ReadVarValue *)
Definition read_var_value (s : bytes) : result (bytes * bool * bytes) :=
  read_eval false s EM_normal [] false.

(* EvalString::empty() of what read_eval returned *)
Definition ev_empty (t : bytes) (ne : bool) : bool := negb ne.

(* ------------------------------------------------------------------------------------------ *)
(** * ParseVersion (src/version.cc) with glibc's atoi = (int) strtol(s, NULL, 10) *)

Definition is_cspace (c : byte) : bool := N.eqb c 32 || in_range 9 13 c.
Fixpoint skip_cspaces (s : bytes) : bytes :=
  match s with
  | c :: s' => if is_cspace c then skip_cspaces s' else s
  | [] => []
  end.
Fixpoint digits_val (s : bytes) (acc : Z) : Z :=
  match s with
  | c :: s' => if in_range 48 57 c then digits_val s' (acc * 10 + Z.of_N (c - 48))%Z else acc
  | [] => acc
  end.
Definition strtol10 (s : bytes) : Z :=
  let s1 := skip_cspaces s in
  let '(neg, s2) := match s1 with
                    | c :: r => if N.eqb c 45 then (true, r)
                                else if N.eqb c 43 then (false, r) else (false, s1)
                    | [] => (false, s1)
                    end in
  let v := digits_val s2 0%Z in
  let v' := if neg then (- v)%Z else v in
  (* saturation at LONG_MIN / LONG_MAX (64-bit long) *)
  Z.max (- 9223372036854775808)%Z (Z.min 9223372036854775807%Z v').
Definition wrap_int32 (z : Z) : Z := (((z + 2147483648) mod 4294967296) - 2147483648)%Z.
Definition c_atoi (s : bytes) : Z := wrap_int32 (strtol10 s).

(* text after the first '.', if any *)
Fixpoint after_dot (s : bytes) : option bytes :=
  match s with
  | [] => None
  | c :: s' => if N.eqb c 46 then Some s' else after_dot s'
  end.
(* ParseVersion: major = atoi(text before the first '.') = atoi(text) because atoi stops at the
   '.'; minor = atoi(text after the first '.') (the substr(start, end) there passes a POSITION as
   a length, which only makes the substring longer; atoi stops at the next '.' anyway), 0 if
   there is no '.'. *)
Definition version_ok (v : bytes) : bool :=
  Z.eqb (c_atoi v) 1 &&
  Z.eqb (match after_dot v with Some r => c_atoi r | None => 0%Z end) 0.

(* ------------------------------------------------------------------------------------------ *)
(** * DyndepParser *)

Record dd_stmt := mkStmt {
  dd_out : bytes;              (* the (canonicalised) explicit output naming the edge *)
  dd_imp_outs : list bytes;    (* canonicalised implicit outputs *)
  dd_imp_ins : list bytes;     (* canonicalised implicit inputs *)
  dd_restat : bool
}.

(* ParseLet: ReadIdent, ExpectToken(EQUALS), ReadVarValue *)
Definition parse_let (s : bytes) : result (bytes * (bytes * bool) * bytes) :=
  match read_ident s with
  | Err e => Err e
  | Ok None => Err E_expected_var_name
  | Ok (Some (key, r1)) =>
    match expect_token T_EQUALS r1 with
    | Err e => Err e
    | Ok r2 =>
      match read_var_value r2 with
      | Err e => Err e
      | Ok (v, ne, r3) => Ok (key, (v, ne), r3)
      end
    end
  end.

(* ParseDyndepVersion (entered after UnreadToken: [s] is the input at the identifier) *)
Definition parse_version (s : bytes) : result bytes :=
  match parse_let s with
  | Err e => Err e
  | Ok (name, (v, _), r) =>
    if negb (bytes_eqb name s_version_var) then Err E_version_expected_name
    else if version_ok v then Ok r
    else Err E_unsupported_version
  end.

(* the two [for (;;) { ReadPath; if (empty) break; push_back }] loops *)
Fixpoint read_paths (fuel : nat) (s : bytes) : result (list bytes * bytes) :=
  match fuel with
  | O => Err E_fuel
  | S f =>
    match read_path s with
    | Err e => Err e
    | Ok (t, ne, r) =>
      if ev_empty t ne then Ok ([], r)
      else match read_paths f r with
           | Err e => Err e
           | Ok (l, r') => Ok (t :: l, r')
           end
    end
  end.

(* the two evaluation loops at the end of ParseEdge: empty evaluated path => "empty path" *)
Fixpoint canon_paths (l : list bytes) : result (list bytes) :=
  match l with
  | [] => Ok []
  | p :: l' =>
    match p with
    | [] => Err E_empty_path
    | _ => match canon_paths l' with Ok r => Ok (canon p :: r) | Err e => Err e end
    end
  end.

(* [chk seen out]: the two checks ParseEdge makes against the State right after reading the
   first path ("no build statement exists" / "multiple statements"); [seen] = statements parsed
   so far, most recent first.  [s] = input after the BUILD token. *)
Definition parse_edge (fuel : nat) (chk : list dd_stmt -> bytes -> option dd_err)
           (seen : list dd_stmt) (s : bytes) : result (dd_stmt * bytes) :=
  match read_path s with
  | Err e => Err e
  | Ok (t0, ne0, r1) =>
    if ev_empty t0 ne0 then Err E_expected_path
    else if is_empty t0 then Err E_empty_path
    else
      let out := canon t0 in
      match chk seen out with
      | Some e => Err e
      | None =>
        (* Disallow explicit outputs. *)
        match read_path r1 with
        | Err e => Err e
        | Ok (t1, ne1, r2) =>
          if negb (ev_empty t1 ne1) then Err E_explicit_outs
          else
          (* Parse implicit outputs, if any. *)
          match peek_token T_PIPE r2 with
          | Err e => Err e
          | Ok (has_outs, r3) =>
            match (if has_outs then read_paths fuel r3 else Ok ([], r3)) with
            | Err e => Err e
            | Ok (outs, r4) =>
              match expect_token T_COLON r4 with
              | Err e => Err e
              | Ok r5 =>
                match read_ident r5 with
                | Err e => Err e
                | Ok None => Err E_expected_dyndep
                | Ok (Some (rule, r6)) =>
                  if negb (bytes_eqb rule s_dyndep) then Err E_expected_dyndep
                  else
                  (* Disallow explicit inputs. *)
                  match read_path r6 with
                  | Err e => Err e
                  | Ok (t2, ne2, r7) =>
                    if negb (ev_empty t2 ne2) then Err E_explicit_ins
                    else
                    match peek_token T_PIPE r7 with
                    | Err e => Err e
                    | Ok (has_ins, r8) =>
                      match (if has_ins then read_paths fuel r8 else Ok ([], r8)) with
                      | Err e => Err e
                      | Ok (ins, r9) =>
                        (* Disallow order-only inputs. *)
                        match peek_token T_PIPE2 r9 with
                        | Err e => Err e
                        | Ok (true, _) => Err E_order_only
                        | Ok (false, r10) =>
                          match expect_token T_NEWLINE r10 with
                          | Err e => Err e
                          | Ok r11 =>
                            match peek_token T_INDENT r11 with
                            | Err e => Err e
                            | Ok (has_let, r12) =>
                              match (if has_let then
                                       match parse_let r12 with
                                       | Err e => Err e
                                       | Ok (key, (v, _), r13) =>
                                         if negb (bytes_eqb key s_restat) then Err E_binding_not_restat
                                         else Ok (negb (is_empty v), r13)
                                       end
                                     else Ok (false, r12)) with
                              | Err e => Err e
                              | Ok (restat, r14) =>
                                match canon_paths ins with
                                | Err e => Err e
                                | Ok cins =>
                                  match canon_paths outs with
                                  | Err e => Err e
                                  | Ok couts => Ok (mkStmt out couts cins restat, r14)
                                  end
                                end
                              end
                            end
                          end
                        end
                      end
                    end
                  end
                end
              end
            end
          end
        end
      end
  end.

(* DyndepParser::Parse.  [have] = haveDyndepVersion; [acc] = statements so far, most recent first. *)
Fixpoint parse_loop (fuel fuel0 : nat) (chk : list dd_stmt -> bytes -> option dd_err)
         (s : bytes) (have : bool) (acc : list dd_stmt) : result (list dd_stmt) :=
  match fuel with
  | O => Err E_fuel
  | S f =>
    match read_token s with
    | Err e => Err e
    | Ok (t, st, r) =>
      match t with
      | T_BUILD =>
        if negb have then Err E_version_expected_build
        else match parse_edge fuel0 chk acc r with
             | Err e => Err e
             | Ok (stmt, r') => parse_loop f fuel0 chk r' have (stmt :: acc)
             end
      | T_IDENT =>
        (* lexer_.UnreadToken(): back to last_token_ *)
        if have then Err (E_unexpected T_IDENT)
        else match parse_version st with
             | Err e => Err e
             | Ok r' => parse_loop f fuel0 chk r' true acc
             end
      | T_ERROR => Err (E_lex_token (match st with c :: _ => N.eqb c 9 | [] => false end))
      | T_TEOF => if have then Ok (rev acc) else Err E_version_expected_eof
      | T_NEWLINE => parse_loop f fuel0 chk r have acc
      | _ => Err (E_unexpected t)
      end
    end
  end.

(* [buf] is the NUL-terminated buffer *)
Definition parse_raw (chk : list dd_stmt -> bytes -> option dd_err) (buf : bytes)
  : result (list dd_stmt) :=
  parse_loop (S (length buf)) (S (length buf)) chk buf false [].

Definition parse_gen (chk : list dd_stmt -> bytes -> option dd_err) (content : bytes)
  : result (list dd_stmt) :=
  parse_raw chk (content ++ [0]).

(* the pure syntax: no State to check against *)
Definition no_chk (seen : list dd_stmt) (out : bytes) : option dd_err := None.
Definition parse_dyndep (content : bytes) : result (list dd_stmt) := parse_gen no_chk content.

(* ------------------------------------------------------------------------------------------ *)
(** * The graph as the loader sees it *)

Definition node := bytes.

(* Edge::env_: either the enclosing (file level) BindingEnv, when the build statement has no
   indented bindings, or a scope of its own, which may or may not bind "restat"
   ([Some b]: bound, b = "value is not empty" = GetBindingBool). *)
Inductive scope := NoScope | Scope (restat : option bool).

Record edge := mkEdge {
  e_outs : list node;          (* outputs_  *)
  e_nimp_out : nat;            (* implicit_outs_ : the last n of outputs_ *)
  e_ins : list node;           (* inputs_ : explicit, implicit, order-only *)
  e_nimp : nat;                (* implicit_deps_ *)
  e_noo : nat;                 (* order_only_deps_ : the last n of inputs_ *)
  e_dyndep : option node;      (* dyndep_ *)
  e_scope : scope;             (* env_ *)
  e_rule_restat : option bool  (* the rule's own "restat" binding (literal), if any *)
}.

Record graph := mkGraph {
  g_edges : list edge;              (* State::edges_ in manifest order *)
  g_file_restat : option bool       (* "restat" bound at file level (State::bindings_) *)
}.

(* Edge::GetBindingBool("restat") for a one-file manifest:
   EdgeEnv::LookupVariable -> edge->env_->LookupWithFallback(var, rule binding, this):
   the bindings of env_ itself, then the rule's binding, then env_->parent_. *)
Definition or_else (a : option bool) (b : option bool) : option bool :=
  match a with Some _ => a | None => b end.
Definition edge_restat (g : graph) (e : edge) : bool :=
  match (match e_scope e with
         | Scope own => or_else own (or_else (e_rule_restat e) (g_file_restat g))
         | NoScope => or_else (g_file_restat g) (e_rule_restat e)
         end) with
  | Some b => b
  | None => false
  end.

Fixpoint find_index {A : Type} (p : A -> bool) (l : list A) : option nat :=
  match l with
  | [] => None
  | x :: l' => if p x then Some O else option_map S (find_index p l')
  end.

(* Node::in_edge(): the edge that lists the node among its outputs (unique in a loaded State:
   State::AddOut and UpdateEdge refuse a second producer) *)
Definition producer (g : graph) (n : node) : option nat :=
  find_index (fun e => mem_bytes n (e_outs e)) (g_edges g).

Fixpoint count_bytes (n : node) (l : list node) : nat :=
  match l with
  | [] => O
  | x :: l' => (if bytes_eqb n x then 1 else 0) + count_bytes n l'
  end.

(* Node::out_edges() of a freshly parsed manifest: State::AddIn pushes the edge once PER
   OCCURRENCE of the node among its inputs, edges in manifest order. *)
Fixpoint out_edges_from (i : nat) (es : list edge) (n : node) : list nat :=
  match es with
  | [] => []
  | e :: es' => repeat i (count_bytes n (e_ins e)) ++ out_edges_from (S i) es' n
  end.
Definition out_edges (g : graph) (n : node) : list nat := out_edges_from 0 (g_edges g) n.

Fixpoint update_nth {A : Type} (i : nat) (f : A -> A) (l : list A) : list A :=
  match l, i with
  | [], _ => []
  | x :: l', O => f x :: l'
  | x :: l', S i' => x :: update_nth i' f l'
  end.

Definition opt_node_eqb (a : option node) (b : node) : bool :=
  match a with Some x => bytes_eqb x b | None => false end.

(* ------------------------------------------------------------------------------------------ *)
(** * DyndepLoader::UpdateEdge *)

Definition scope_restat (e : edge) : edge :=
  mkEdge (e_outs e) (e_nimp_out e) (e_ins e) (e_nimp e) (e_noo e) (e_dyndep e)
         (Scope (Some true)) (e_rule_restat e).

(* edge->env_->AddBinding("restat", "1") on the tree after "fix: give an edge whose dyndep binding
   comes from its rule a scope of its own": ManifestParser::ParseEdge now allocates a BindingEnv for
   every edge that has a dyndep binding and no indented binding (where env_ used to be the
   file-level scope), so by the time UpdateEdge runs the edge owns env_; the binding shadows an
   earlier "restat =" of the statement and no other edge sees it.  (The parser side of that fix is
   modelled in Manifest/EvalModel.v, parse_edge, [fresh].) *)
Definition set_restat (g : graph) (i : nat) : graph :=
  mkGraph (update_nth i scope_restat (g_edges g)) (g_file_restat g).

(* THE OLD CODE (before that fix): edge->env_->AddBinding("restat", "1") on the existing env_,
   which is the FILE-LEVEL scope when the statement has no indented binding: restat leaks to
   every edge of the manifest.  Kept for the refutation C11_restat_leak_witness. *)
Definition set_restat_old (g : graph) (i : nat) : graph :=
  match nth_error (g_edges g) i with
  | None => g
  | Some e =>
    match e_scope e with
    | Scope _ => mkGraph (update_nth i scope_restat (g_edges g)) (g_file_restat g)
    | NoScope => mkGraph (g_edges g) (Some true)
    end
  end.

Definition add_out (e : edge) (o : node) : edge :=
  mkEdge (e_outs e ++ [o]) (S (e_nimp_out e)) (e_ins e) (e_nimp e) (e_noo e)
         (e_dyndep e) (e_scope e) (e_rule_restat e).

(* outputs_.insert(end, ...) ; implicit_outs_ += n ; then for each new output:
   in_edge() already set => "multiple rules generate", else set_in_edge(edge).
   With [producer] derived from the output lists this is: one at a time, refuse a node that
   already has a producer (in the manifest, from an earlier statement of this file, or earlier in
   this very list). *)
Fixpoint add_outs (g : graph) (i : nat) (outs : list node) : result graph :=
  match outs with
  | [] => Ok g
  | o :: outs' =>
    match producer g o with
    | Some _ => Err E_multiple_rules
    | None => add_outs (mkGraph (update_nth i (fun e => add_out e o) (g_edges g)) (g_file_restat g))
                       i outs'
    end
  end.

(* inputs_.insert(inputs_.end() - order_only_deps_, ...) ; implicit_deps_ += n *)
Definition splice_ins (e : edge) (new : list node) : edge :=
  let k := (length (e_ins e) - e_noo e)%nat in
  mkEdge (e_outs e) (e_nimp_out e) (firstn k (e_ins e) ++ new ++ skipn k (e_ins e))
         (e_nimp e + length new)%nat (e_noo e) (e_dyndep e) (e_scope e) (e_rule_restat e).

Definition update_edge (g : graph) (i : nat) (st : dd_stmt) : result graph :=
  let g1 := if dd_restat st then set_restat g i else g in
  match add_outs g1 i (dd_imp_outs st) with
  | Err e => Err e
  | Ok g2 =>
    Ok (mkGraph (update_nth i (fun e => splice_ins e (dd_imp_ins st)) (g_edges g2)) (g_file_restat g2))
  end.

(* ------------------------------------------------------------------------------------------ *)
(** * DyndepLoader::LoadDyndeps *)

(* the key of a statement in the DyndepFile map: the edge producing its output, looked up when the
   statement is parsed, i.e. in the graph BEFORE any update *)
Definition stmt_key (g : graph) (st : dd_stmt) : option nat := producer g (dd_out st).

Definition key_is (g : graph) (i : nat) (st : dd_stmt) : bool :=
  match stmt_key g st with Some j => Nat.eqb i j | None => false end.

(* ddf->find(edge) *)
Definition find_stmt (g : graph) (stmts : list dd_stmt) (i : nat) : option dd_stmt :=
  find (key_is g i) stmts.

(* the checks ParseEdge makes against the State *)
Definition graph_chk (g : graph) (seen : list dd_stmt) (out : bytes) : option dd_err :=
  match producer g out with
  | None => Some E_no_build_stmt
  | Some i => if existsb (key_is g i) seen then Some E_multiple_stmts else None
  end.

(* the same two checks on a list of statements that did not come out of the parser
   (most recent first in [seen]) *)
Fixpoint check_stmts (g : graph) (seen : list dd_stmt) (stmts : list dd_stmt) : option dd_err :=
  match stmts with
  | [] => None
  | st :: stmts' =>
    match graph_chk g seen (dd_out st) with
    | Some e => Some e
    | None => check_stmts g (st :: seen) stmts'
    end
  end.

Definition bound_to (g0 : graph) (f : node) (i : nat) : bool :=
  match nth_error (g_edges g0) i with
  | Some e => opt_node_eqb (e_dyndep e) f
  | None => false
  end.

(* out_edges = COPY of node->out_edges() (UpdateEdge appends to the out edges of every implicit
   input, possibly of this very node: the loop visits the edges that were out edges BEFORE the load);
   for (Edge* edge : out_edges) { if (edge->dyndep_ != node) continue; find; UpdateEdge }
   [g0] = the graph before the load (statement keys), [g] = the graph being updated *)
Fixpoint load_edges (g0 : graph) (f : node) (stmts : list dd_stmt) (oe : list nat) (g : graph)
  : result graph :=
  match oe with
  | [] => Ok g
  | i :: oe' =>
    if negb (bound_to g0 f i) then load_edges g0 f stmts oe' g
    else match find_stmt g0 stmts i with
         | None => Err E_not_mentioned
         | Some st =>
           match update_edge g i st with
           | Err e => Err e
           | Ok g' => load_edges g0 f stmts oe' g'
           end
         end
  end.

(* used_ of a statement: its edge was met by the loop above *)
Definition stmt_used (g0 : graph) (f : node) (oe : list nat) (st : dd_stmt) : bool :=
  match stmt_key g0 st with
  | Some i => existsb (Nat.eqb i) oe && bound_to g0 f i
  | None => false
  end.

Definition load_dyndep (g : graph) (f : node) (stmts : list dd_stmt) : result graph :=
  match check_stmts g [] stmts with
  | Some e => Err e
  | None =>
    let oe := out_edges g f in
    match load_edges g f stmts oe g with
    | Err e => Err e
    | Ok g' => if forallb (stmt_used g f oe) stmts then Ok g' else Err E_not_bound
    end
  end.

(* the loader with the OLD UpdateEdge (restat into the existing env_), for the refutation only *)
Definition update_edge_old (g : graph) (i : nat) (st : dd_stmt) : result graph :=
  let g1 := if dd_restat st then set_restat_old g i else g in
  match add_outs g1 i (dd_imp_outs st) with
  | Err e => Err e
  | Ok g2 =>
    Ok (mkGraph (update_nth i (fun e => splice_ins e (dd_imp_ins st)) (g_edges g2)) (g_file_restat g2))
  end.
Fixpoint load_edges_old (g0 : graph) (f : node) (stmts : list dd_stmt) (oe : list nat) (g : graph)
  : result graph :=
  match oe with
  | [] => Ok g
  | i :: oe' =>
    if negb (bound_to g0 f i) then load_edges_old g0 f stmts oe' g
    else match find_stmt g0 stmts i with
         | None => Err E_not_mentioned
         | Some st =>
           match update_edge_old g i st with
           | Err e => Err e
           | Ok g' => load_edges_old g0 f stmts oe' g'
           end
         end
  end.
Definition load_dyndep_old (g : graph) (f : node) (stmts : list dd_stmt) : result graph :=
  match check_stmts g [] stmts with
  | Some e => Err e
  | None =>
    let oe := out_edges g f in
    match load_edges_old g f stmts oe g with
    | Err e => Err e
    | Ok g' => if forallb (stmt_used g f oe) stmts then Ok g' else Err E_not_bound
    end
  end.

(* the whole of DyndepLoader::LoadDyndeps(node, &err) on file content [content]
   ([None] = the file does not exist) *)
Definition dyndep_load (g : graph) (f : node) (content : option bytes) : result graph :=
  match content with
  | None => Err E_loading
  | Some c =>
    match parse_gen (graph_chk g) c with
    | Err e => Err e
    | Ok stmts => load_dyndep g f stmts
    end
  end.

(* ------------------------------------------------------------------------------------------ *)
(** * The manifest-level meaning: the same information written into the build statements *)

(* "build outs | IMP_OUTS : rule ins | imp IMP_INS || oo" + "  restat = 1" *)
Definition apply_stmt (e : edge) (st : dd_stmt) : edge :=
  let k := (length (e_ins e) - e_noo e)%nat in
  mkEdge (e_outs e ++ dd_imp_outs st) (e_nimp_out e + length (dd_imp_outs st))%nat
         (firstn k (e_ins e) ++ dd_imp_ins st ++ skipn k (e_ins e))
         (e_nimp e + length (dd_imp_ins st))%nat (e_noo e) (e_dyndep e)
         (if dd_restat st then Scope (Some true) else e_scope e) (e_rule_restat e).

Fixpoint inline_edges (g0 : graph) (stmts : list dd_stmt) (i : nat) (es : list edge) : list edge :=
  match es with
  | [] => []
  | e :: es' =>
    (match find_stmt g0 stmts i with Some st => apply_stmt e st | None => e end)
      :: inline_edges g0 stmts (S i) es'
  end.

Definition inline_dyndep (g : graph) (stmts : list dd_stmt) : graph :=
  mkGraph (inline_edges g stmts 0 (g_edges g)) (g_file_restat g).

(* ------------------------------------------------------------------------------------------ *)
(** * A printer (canonical rendering) *)

Definition esc_char (c : byte) : bytes :=
  if N.eqb c 36 || N.eqb c 32 || N.eqb c 58 then [36; c] else [c].
Definition esc_path (p : bytes) : bytes := flat_map esc_char p.

Definition print_list (l : list bytes) : bytes :=
  match l with
  | [] => []
  | _ => 32 :: 124 :: flat_map (fun p => 32 :: esc_path p) l       (* " |" then " path" each *)
  end.

Definition s_restat_line : bytes :=       (* "  restat = 1\n" *)
  [32; 32] ++ s_restat ++ [32; 61; 32; 49; 10].

Definition print_stmt (st : dd_stmt) : bytes :=
  s_build ++ 32 :: esc_path (dd_out st) ++ print_list (dd_imp_outs st) ++
  58 :: 32 :: s_dyndep ++ print_list (dd_imp_ins st) ++ [10] ++
  (if dd_restat st then s_restat_line else []).

Definition s_version_line : bytes :=      (* "ninja_dyndep_version = 1\n" *)
  s_version_var ++ [32; 61; 32; 49; 10].

Definition print_body (stmts : list dd_stmt) : bytes := flat_map print_stmt stmts.
Definition print_dyndep (stmts : list dd_stmt) : bytes := s_version_line ++ print_body stmts.

(* names the printer can render: non-empty, no NUL / LF / CR / '|' (there is no escape for
   them), already canonical *)
Definition name_char_ok (c : byte) : bool :=
  negb (N.eqb c 0 || N.eqb c 10 || N.eqb c 13 || N.eqb c 124).
Definition wf_name (p : bytes) : bool :=
  match p with [] => false | _ => forallb name_char_ok p && bytes_eqb (canon p) p end.
Definition wf_stmt (st : dd_stmt) : bool :=
  wf_name (dd_out st) && forallb wf_name (dd_imp_outs st) && forallb wf_name (dd_imp_ins st).
