(* C11 (file-level part) / C13: theorems about the dyndep-file model of DyndepDefs.v.
   No axioms: stdlib List/NArith/ZArith/Lia/Bool only. *)
From NinjaV Require Import Base.Bytes Canon.CanonDefs Dyndep.DyndepDefs.
Local Open Scope N_scope.

(* ========================================================================================== *)
(** * Part 1: the loader *)

(* ---------- list helpers ---------- *)
Lemma update_nth_app {A} (f : A -> A) (pre : list A) (e : A) (post : list A) :
  update_nth (length pre) f (pre ++ e :: post) = pre ++ f e :: post.
Proof. induction pre as [|x pre IH]; cbn [update_nth length app]; [reflexivity|]. now rewrite IH. Qed.

Lemma nth_error_app_mid {A} (pre : list A) (e : A) (post : list A) :
  nth_error (pre ++ e :: post) (length pre) = Some e.
Proof. induction pre as [|x pre IH]; cbn [nth_error length app]; auto. Qed.

Lemma find_index_none {A} (p : A -> bool) (l : list A) :
  find_index p l = None <-> existsb p l = false.
Proof.
  induction l as [|x l IH]; cbn [find_index existsb]; [tauto|].
  destruct (p x); cbn [orb]; [split; discriminate|].
  destruct (find_index p l); cbn [option_map]; split; intro H; try discriminate; try (apply IH; exact H).
  apply IH in H. discriminate.
Qed.

Lemma find_index_some_lt {A} (p : A -> bool) (l : list A) i :
  find_index p l = Some i -> exists x, nth_error l i = Some x /\ p x = true.
Proof.
  revert i; induction l as [|x l IH]; intros i; cbn [find_index]; [discriminate|].
  destruct (p x) eqn:Hp.
  - intros [= <-]. exists x; auto.
  - destruct (find_index p l) as [j|]; cbn [option_map]; [|discriminate].
    intros [= <-]. destruct (IH j eq_refl) as [y Hy]. exists y; exact Hy.
Qed.

Lemma inline_edges_app g0 stmts k a b :
  inline_edges g0 stmts k (a ++ b) =
  inline_edges g0 stmts k a ++ inline_edges g0 stmts (k + length a) b.
Proof.
  revert k; induction a as [|e a IH]; intros k; cbn [inline_edges app length].
  - now rewrite Nat.add_0_r.
  - rewrite IH. now rewrite Nat.add_succ_r.
Qed.

Lemma inline_edges_length g0 stmts k a : length (inline_edges g0 stmts k a) = length a.
Proof. revert k; induction a as [|e a IH]; intros k; cbn [inline_edges length]; auto. Qed.

(* ---------- UpdateEdge on the edge at position [length pre] ---------- *)
Lemma add_outs_ok : forall outs pre e post fr g2,
  add_outs (mkGraph (pre ++ e :: post) fr) (length pre) outs = Ok g2 ->
  g2 = mkGraph (pre ++ mkEdge (e_outs e ++ outs) (e_nimp_out e + length outs)%nat (e_ins e)
                              (e_nimp e) (e_noo e) (e_dyndep e) (e_scope e) (e_rule_restat e)
                    :: post) fr.
Proof.
  induction outs as [|o outs IH]; intros pre e post fr g2; cbn [add_outs].
  - intros [= <-]. rewrite app_nil_r, Nat.add_0_r. now destruct e.
  - destruct (producer _ o); [discriminate|].
    cbn [g_edges g_file_restat]. rewrite update_nth_app. intros H.
    apply IH in H. rewrite H. unfold add_out; cbn [e_outs e_nimp_out e_ins e_nimp e_noo e_dyndep e_scope e_rule_restat length].
    rewrite <- app_assoc. cbn [app]. now rewrite Nat.add_succ_r.
Qed.

Lemma set_restat_scoped pre e post fr :
  e_scope e <> NoScope ->
  set_restat (mkGraph (pre ++ e :: post) fr) (length pre) =
  mkGraph (pre ++ mkEdge (e_outs e) (e_nimp_out e) (e_ins e) (e_nimp e) (e_noo e) (e_dyndep e)
                         (Scope (Some true)) (e_rule_restat e) :: post) fr.
Proof.
  intros Hs. unfold set_restat. cbn [g_edges g_file_restat]. rewrite nth_error_app_mid.
  destruct (e_scope e) eqn:He; [congruence|]. now rewrite update_nth_app.
Qed.

Lemma update_edge_ok pre e post fr st g2 :
  (dd_restat st = true -> e_scope e <> NoScope) ->
  update_edge (mkGraph (pre ++ e :: post) fr) (length pre) st = Ok g2 ->
  g2 = mkGraph (pre ++ apply_stmt e st :: post) fr.
Proof.
  intros Hs. unfold update_edge.
  destruct (dd_restat st) eqn:Hr.
  - rewrite (set_restat_scoped pre e post fr (Hs eq_refl)).
    destruct (add_outs _ _ _) as [g1|] eqn:Ha; [|discriminate].
    apply add_outs_ok in Ha. subst g1. intros [= <-].
    cbn [g_edges g_file_restat]. rewrite update_nth_app.
    unfold splice_ins, apply_stmt. cbn [e_outs e_nimp_out e_ins e_nimp e_noo e_dyndep e_scope e_rule_restat].
    now rewrite Hr.
  - destruct (add_outs _ _ _) as [g1|] eqn:Ha; [|discriminate].
    apply add_outs_ok in Ha. subst g1. intros [= <-].
    cbn [g_edges g_file_restat]. rewrite update_nth_app.
    unfold splice_ins, apply_stmt. cbn [e_outs e_nimp_out e_ins e_nimp e_noo e_dyndep e_scope e_rule_restat].
    now rewrite Hr.
Qed.

(* ---------- hypotheses of the metamorphic statement ---------- *)
(* the dyndep file is listed exactly once among the inputs of every edge bound to it (the manifest
   parser guarantees "at least once") *)
Definition listed_once (g : graph) (f : node) : Prop :=
  forall i e, nth_error (g_edges g) i = Some e -> opt_node_eqb (e_dyndep e) f = true ->
              count_bytes f (e_ins e) = 1%nat.
(* an edge whose statement sets restat has a binding scope of its own (true whenever the dyndep
   binding is written in the build statement; FALSE when it is inherited from the rule and the
   statement has no indented binding) *)
Definition restat_scoped (g : graph) (stmts : list dd_stmt) : Prop :=
  forall i e st, nth_error (g_edges g) i = Some e -> find_stmt g stmts i = Some st ->
                 dd_restat st = true -> e_scope e <> NoScope.

Lemma load_edges_skip g0 f stmts i n oe g :
  bound_to g0 f i = false ->
  load_edges g0 f stmts (repeat i n ++ oe) g = load_edges g0 f stmts oe g.
Proof.
  intros Hb. induction n as [|n IH]; cbn [repeat app load_edges]; [reflexivity|].
  now rewrite Hb.
Qed.

Lemma load_edges_inline g0 f stmts :
  listed_once g0 f -> restat_scoped g0 stmts ->
  (forall j st, find_stmt g0 stmts j = Some st -> bound_to g0 f j = true) ->
  forall es pre0 g',
    g_edges g0 = pre0 ++ es ->
    load_edges g0 f stmts (out_edges_from (length pre0) es f)
               (mkGraph (inline_edges g0 stmts 0 pre0 ++ es) (g_file_restat g0)) = Ok g' ->
    g' = mkGraph (inline_edges g0 stmts 0 (pre0 ++ es)) (g_file_restat g0).
Proof.
  intros Honce Hsc Hused.
  induction es as [|e es IH]; intros pre0 g' Hg.
  - cbn [out_edges_from load_edges]. intros [= <-]. now rewrite !app_nil_r.
  - cbn [out_edges_from].
    assert (Hnth : nth_error (g_edges g0) (length pre0) = Some e)
      by (rewrite Hg; apply nth_error_app_mid).
    assert (Hstep : forall g1,
      g1 = mkGraph (inline_edges g0 stmts 0 (pre0 ++ [e]) ++ es) (g_file_restat g0) ->
      load_edges g0 f stmts (out_edges_from (S (length pre0)) es f) g1 = Ok g' ->
      g' = mkGraph (inline_edges g0 stmts 0 (pre0 ++ e :: es)) (g_file_restat g0)).
    { intros g1 -> H.
      replace (pre0 ++ e :: es) with ((pre0 ++ [e]) ++ es) by (rewrite <- app_assoc; reflexivity).
      apply IH.
      - rewrite Hg, <- app_assoc. reflexivity.
      - rewrite app_length. cbn [length]. rewrite Nat.add_1_r. exact H. }
    destruct (bound_to g0 f (length pre0)) eqn:Hb.
    + assert (Hc : count_bytes f (e_ins e) = 1%nat).
      { apply (Honce (length pre0) e Hnth). unfold bound_to in Hb. now rewrite Hnth in Hb. }
      rewrite Hc. cbn [repeat app load_edges]. rewrite Hb. cbn [negb].
      destruct (find_stmt g0 stmts (length pre0)) as [st|] eqn:Hf; [|discriminate].
      destruct (update_edge _ _ st) as [g1|] eqn:Hu; [|discriminate].
      rewrite <- (inline_edges_length g0 stmts 0 pre0) in Hu.
      apply update_edge_ok in Hu; [|intro Hr; exact (Hsc _ _ _ Hnth Hf Hr)].
      apply Hstep. subst g1. rewrite inline_edges_app. cbn [inline_edges].
      rewrite Nat.add_0_l, Hf. rewrite <- app_assoc. reflexivity.
    + rewrite load_edges_skip by exact Hb.
      apply Hstep. rewrite inline_edges_app. cbn [inline_edges]. rewrite Nat.add_0_l.
      destruct (find_stmt g0 stmts (length pre0)) as [st|] eqn:Hf.
      * apply Hused in Hf. congruence.
      * rewrite <- app_assoc. reflexivity.
Qed.

Lemma stmt_used_bound g f oe st i :
  stmt_used g f oe st = true -> stmt_key g st = Some i -> bound_to g f i = true.
Proof.
  unfold stmt_used. intros H Hk. rewrite Hk in H. apply andb_true_iff in H. tauto.
Qed.

Lemma find_stmt_some g stmts i st :
  find_stmt g stmts i = Some st -> In st stmts /\ stmt_key g st = Some i.
Proof.
  unfold find_stmt. intros H. apply find_some in H. destruct H as [Hin Hk]. split; [exact Hin|].
  unfold key_is in Hk. destruct (stmt_key g st) as [j|]; [|discriminate].
  apply Nat.eqb_eq in Hk. now subst.
Qed.

(** C11, graph level: loading the dyndep file = writing its information into the manifest.
    The graph record holds exactly what the engine observes (per edge: outputs with the implicit
    count, inputs with implicit / order-only counts, dyndep binding, the restat sources; producers
    and out-edges are functions of these), so the conclusion is plain equality. *)
Theorem C11_load_is_inline_proof : forall g f stmts g',
  listed_once g f -> restat_scoped g stmts ->
  load_dyndep g f stmts = Ok g' -> g' = inline_dyndep g stmts.
Proof.
  intros g f stmts g' Honce Hsc. unfold load_dyndep.
  destruct (check_stmts g [] stmts); [discriminate|].
  destruct (load_edges g f stmts (out_edges g f) g) as [g1|] eqn:Hl; [|discriminate].
  destruct (forallb _ stmts) eqn:Hu; [|discriminate]. intros [= <-].
  unfold inline_dyndep.
  assert (Hused : forall j st, find_stmt g stmts j = Some st -> bound_to g f j = true).
  { intros j st Hf. apply find_stmt_some in Hf. destruct Hf as [Hin Hk].
    rewrite forallb_forall in Hu. eapply stmt_used_bound; [apply Hu; exact Hin|exact Hk]. }
  pose proof (load_edges_inline g f stmts Honce Hsc Hused (g_edges g) [] g1 eq_refl) as H.
  cbn [length inline_edges app] in H. apply H.
  unfold out_edges in Hl. destruct g as [es fr]. exact Hl.
Qed.

(* ---------- the invalid classes the loader rejects ---------- *)
Lemma check_stmts_app g l1 : forall seen rest,
  check_stmts g seen (l1 ++ rest) = None -> check_stmts g (rev l1 ++ seen) rest = None.
Proof.
  induction l1 as [|st l1 IH]; intros seen rest; cbn [app rev check_stmts]; [auto|].
  destruct (graph_chk g seen (dd_out st)); [discriminate|].
  intros H. apply IH in H. now rewrite <- app_assoc.
Qed.

Lemma existsb_key_is g i seen st :
  In st seen -> stmt_key g st = Some i -> existsb (key_is g i) seen = true.
Proof.
  intros Hin Hk. apply existsb_exists. exists st. split; [exact Hin|].
  unfold key_is. rewrite Hk. apply Nat.eqb_refl.
Qed.

Lemma check_stmts_seen g st1 i : forall l1 seen st2 l3,
  In st1 seen -> stmt_key g st1 = Some i -> stmt_key g st2 = Some i ->
  check_stmts g seen (l1 ++ st2 :: l3) <> None.
Proof.
  induction l1 as [|st l1 IH]; intros seen st2 l3 Hin Hk1 Hk2; cbn [app check_stmts].
  - unfold graph_chk. unfold stmt_key in Hk2. rewrite Hk2.
    rewrite (existsb_key_is g i seen st1 Hin Hk1). discriminate.
  - destruct (graph_chk g seen (dd_out st)); [discriminate|].
    apply IH; auto. now right.
Qed.

Lemma check_stmts_known g : forall stmts seen st,
  check_stmts g seen stmts = None -> In st stmts -> stmt_key g st <> None.
Proof.
  induction stmts as [|s stmts IH]; intros seen st; cbn [check_stmts In]; [tauto|].
  unfold graph_chk at 1. intros H [->|Hin].
  - unfold stmt_key. destruct (producer g (dd_out st)); [discriminate|discriminate].
  - destruct (producer g (dd_out s)) as [i|]; [|discriminate].
    destruct (existsb (key_is g i) seen); [discriminate|]. eapply IH; eauto.
Qed.

(** a statement for an output that no build statement of the manifest produces *)
Theorem C11_rejects_unknown_output_proof : forall g f stmts st,
  In st stmts -> stmt_key g st = None -> exists e, load_dyndep g f stmts = Err e.
Proof.
  intros g f stmts st Hin Hk. unfold load_dyndep.
  destruct (check_stmts g [] stmts) as [e|] eqn:Hc; [eauto|].
  exfalso. exact (check_stmts_known g stmts [] st Hc Hin Hk).
Qed.

(** two statements for the same build statement (same or different output of it) *)
Theorem C11_rejects_duplicate_proof : forall g f l1 st1 l2 st2 l3 i,
  stmt_key g st1 = Some i -> stmt_key g st2 = Some i ->
  exists e, load_dyndep g f (l1 ++ st1 :: l2 ++ st2 :: l3) = Err e.
Proof.
  intros g f l1 st1 l2 st2 l3 i Hk1 Hk2. unfold load_dyndep.
  destruct (check_stmts g [] _) as [e|] eqn:Hc; [eauto|].
  exfalso. apply check_stmts_app in Hc. cbn [check_stmts] in Hc.
  destruct (graph_chk g _ (dd_out st1)); [discriminate|].
  revert Hc. apply (check_stmts_seen g st1 i l2 _ st2 l3); auto. now left.
Qed.

(** "adds a build statement": a statement for an edge that is not bound to this dyndep file *)
Theorem C11_rejects_unbound_proof : forall g f stmts st i,
  In st stmts -> stmt_key g st = Some i -> bound_to g f i = false ->
  exists e, load_dyndep g f stmts = Err e.
Proof.
  intros g f stmts st i Hin Hk Hb. unfold load_dyndep.
  destruct (check_stmts g [] stmts); [eauto|].
  destruct (load_edges _ _ _ _ _); [|eauto].
  destruct (forallb _ stmts) eqn:Hu; [|eauto].
  exfalso. rewrite forallb_forall in Hu. specialize (Hu st Hin).
  rewrite (stmt_used_bound _ _ _ _ _ Hu Hk) in Hb. discriminate.
Qed.

(** "omits a build statement": an edge bound to the file without a statement in it *)
Lemma load_edges_missing g0 f stmts i : forall oe g,
  In i oe -> bound_to g0 f i = true -> find_stmt g0 stmts i = None ->
  exists e, load_edges g0 f stmts oe g = Err e.
Proof.
  induction oe as [|j oe IH]; intros g Hin Hb Hf; [destruct Hin|].
  cbn [load_edges]. destruct Hin as [->|Hin].
  - rewrite Hb, Hf. cbn [negb]. eauto.
  - destruct (negb (bound_to g0 f j)); [now apply IH|].
    destruct (find_stmt g0 stmts j); [|eauto].
    destruct (update_edge g j d); [now apply IH|eauto].
Qed.

Theorem C11_rejects_omitted_proof : forall g f stmts i,
  In i (out_edges g f) -> bound_to g f i = true -> find_stmt g stmts i = None ->
  exists e, load_dyndep g f stmts = Err e.
Proof.
  intros g f stmts i Hin Hb Hf. unfold load_dyndep.
  destruct (check_stmts g [] stmts); [eauto|].
  destruct (load_edges_missing g f stmts i (out_edges g f) g Hin Hb Hf) as [e He].
  rewrite He. eauto.
Qed.

(* every edge bound to [f] that lists [f] among its inputs is in the loop *)
Lemma count_bytes_pos f l : mem_bytes f l = true -> (0 < count_bytes f l)%nat.
Proof.
  induction l as [|x l IH]; cbn [mem_bytes count_bytes]; [discriminate|].
  destruct (bytes_eqb f x); cbn [orb]; [lia|]. intros H. apply IH in H. lia.
Qed.

Lemma out_edges_from_in f : forall es k j e,
  nth_error es j = Some e -> mem_bytes f (e_ins e) = true -> In (k + j)%nat (out_edges_from k es f).
Proof.
  induction es as [|x es IH]; intros k j e; [destruct j; discriminate|].
  cbn [out_edges_from]. destruct j as [|j]; cbn [nth_error].
  - intros [= ->] Hm. apply in_or_app. left. apply count_bytes_pos in Hm.
    destruct (count_bytes f (e_ins e)); [lia|]. cbn [repeat]. left. lia.
  - intros Hn Hm. apply in_or_app. right. replace (k + S j)%nat with (S k + j)%nat by lia.
    eapply IH; eauto.
Qed.

Theorem C11_rejects_omitted_edge_proof : forall g f stmts i e,
  nth_error (g_edges g) i = Some e -> e_dyndep e = Some f -> mem_bytes f (e_ins e) = true ->
  find_stmt g stmts i = None ->
  exists err, load_dyndep g f stmts = Err err.
Proof.
  intros g f stmts i e Hn Hd Hm Hf.
  apply (C11_rejects_omitted_proof g f stmts i); auto.
  - unfold out_edges. apply (out_edges_from_in f (g_edges g) 0 i e Hn Hm).
  - unfold bound_to. rewrite Hn. unfold opt_node_eqb. rewrite Hd. apply bytes_eqb_refl.
Qed.

(** an implicit output that some build statement of the manifest already produces *)
Definition has_prod (es : list edge) (o : node) : bool :=
  existsb (fun e => mem_bytes o (e_outs e)) es.

Lemma producer_none g o : producer g o = None <-> has_prod (g_edges g) o = false.
Proof. unfold producer, has_prod. apply find_index_none. Qed.

Lemma has_prod_update f i o :
  (forall e, mem_bytes o (e_outs e) = true -> mem_bytes o (e_outs (f e)) = true) ->
  forall es, has_prod es o = true -> has_prod (update_nth i f es) o = true.
Proof.
  intros Hf es; revert i. unfold has_prod.
  induction es as [|e es IH]; intros i; cbn [existsb update_nth]; [discriminate|].
  intros H. apply orb_true_iff in H.
  destruct i as [|i]; cbn [existsb]; apply orb_true_iff; destruct H as [H|H]; auto.
Qed.

Lemma mem_bytes_app o a b : mem_bytes o (a ++ b) = mem_bytes o a || mem_bytes o b.
Proof. induction a as [|x a IH]; cbn [mem_bytes app]; [reflexivity|]. now rewrite IH, orb_assoc. Qed.

Lemma add_outs_fresh : forall outs g i g2,
  add_outs g i outs = Ok g2 ->
  (forall o, In o outs -> has_prod (g_edges g) o = false) /\
  (forall o, has_prod (g_edges g) o = true -> has_prod (g_edges g2) o = true).
Proof.
  induction outs as [|o outs IH]; intros g i g2; cbn [add_outs].
  - intros [= <-]. split; [intros o []|auto].
  - destruct (producer g o) eqn:Hp; [discriminate|]. intros H. apply IH in H.
    cbn [g_edges] in H. destruct H as [Hfresh Hmono].
    assert (Hstep : forall o', has_prod (g_edges g) o' = true ->
                               has_prod (update_nth i (fun e => add_out e o) (g_edges g)) o' = true).
    { intros o'. apply has_prod_update. intros e He. unfold add_out; cbn [e_outs].
      rewrite mem_bytes_app, He. reflexivity. }
    split.
    + intros o' [<-|Hin]; [now apply producer_none|].
      specialize (Hfresh o' Hin). destruct (has_prod (g_edges g) o') eqn:Hq; [|reflexivity].
      apply Hstep in Hq. congruence.
    + intros o' Hq. apply Hmono, Hstep, Hq.
Qed.

Lemma set_restat_prod g i o :
  has_prod (g_edges g) o = true -> has_prod (g_edges (set_restat g i)) o = true.
Proof.
  unfold set_restat. destruct (nth_error (g_edges g) i) as [e|]; [|auto].
  destruct (e_scope e); cbn [g_edges]; [auto|]. apply has_prod_update. intros e0 H. exact H.
Qed.

Lemma update_edge_fresh g i st g2 :
  update_edge g i st = Ok g2 ->
  (forall o, In o (dd_imp_outs st) -> has_prod (g_edges g) o = false) /\
  (forall o, has_prod (g_edges g) o = true -> has_prod (g_edges g2) o = true).
Proof.
  unfold update_edge.
  set (g1 := if dd_restat st then set_restat g i else g).
  assert (H1 : forall o, has_prod (g_edges g) o = true -> has_prod (g_edges g1) o = true).
  { intros o. subst g1. destruct (dd_restat st); [apply set_restat_prod|auto]. }
  destruct (add_outs g1 i (dd_imp_outs st)) as [g3|] eqn:Ha; [|discriminate].
  intros [= <-]. apply add_outs_fresh in Ha. destruct Ha as [Hfresh Hmono]. cbn [g_edges]. split.
  - intros o Hin. specialize (Hfresh o Hin).
    destruct (has_prod (g_edges g) o) eqn:Hq; [|reflexivity]. apply H1 in Hq. congruence.
  - intros o Hq. apply has_prod_update; [intros e He; exact He|]. apply Hmono, H1, Hq.
Qed.

Lemma load_edges_claims g0 f stmts i st o : forall oe gc g',
  load_edges g0 f stmts oe gc = Ok g' ->
  In i oe -> bound_to g0 f i = true -> find_stmt g0 stmts i = Some st -> In o (dd_imp_outs st) ->
  (forall o', has_prod (g_edges g0) o' = true -> has_prod (g_edges gc) o' = true) ->
  has_prod (g_edges g0) o = false.
Proof.
  induction oe as [|j oe IH]; intros gc g' Hl Hin Hb Hf Ho Hmono; [destruct Hin|].
  cbn [load_edges] in Hl.
  destruct (Nat.eq_dec j i) as [->|Hne].
  - rewrite Hb, Hf in Hl. cbn [negb] in Hl.
    destruct (update_edge gc i st) as [g1|] eqn:Hu; [|discriminate].
    apply update_edge_fresh in Hu. destruct Hu as [Hfresh _].
    specialize (Hfresh o Ho). destruct (has_prod (g_edges g0) o) eqn:Hq; [|reflexivity].
    apply Hmono in Hq. congruence.
  - destruct Hin as [->|Hin]; [congruence|].
    destruct (negb (bound_to g0 f j)); [eapply IH; eauto|].
    destruct (find_stmt g0 stmts j) as [sj|]; [|discriminate].
    destruct (update_edge gc j sj) as [g1|] eqn:Hu; [|discriminate].
    apply update_edge_fresh in Hu. destruct Hu as [_ Hm2].
    eapply IH; eauto.
Qed.

Lemma existsb_eqb_in i l : existsb (Nat.eqb i) l = true -> In i l.
Proof.
  intros H. apply existsb_exists in H. destruct H as [j [Hin Hj]]. apply Nat.eqb_eq in Hj. now subst.
Qed.

Theorem C11_rejects_claimed_output_proof : forall g f stmts i st o,
  find_stmt g stmts i = Some st -> In o (dd_imp_outs st) -> producer g o <> None ->
  exists e, load_dyndep g f stmts = Err e.
Proof.
  intros g f stmts i st o Hf Ho Hp. unfold load_dyndep.
  destruct (check_stmts g [] stmts); [eauto|].
  destruct (load_edges g f stmts (out_edges g f) g) as [g1|] eqn:Hl; [|eauto].
  destruct (forallb _ stmts) eqn:Hu; [|eauto]. exfalso.
  destruct (find_stmt_some _ _ _ _ Hf) as [Hin Hk].
  rewrite forallb_forall in Hu. specialize (Hu st Hin).
  pose proof (stmt_used_bound _ _ _ _ _ Hu Hk) as Hb.
  unfold stmt_used in Hu. rewrite Hk in Hu. apply andb_true_iff in Hu. destruct Hu as [Hoe _].
  apply existsb_eqb_in in Hoe.
  apply Hp. apply producer_none.
  eapply (load_edges_claims g f stmts i st o); eauto.
Qed.

(** an implicit output that two statements of the file (or one statement twice) claim:
    the second claim meets the producer installed by the first *)
Lemma has_prod_nth es i e o :
  nth_error es i = Some e -> mem_bytes o (e_outs e) = true -> has_prod es o = true.
Proof.
  intros Hn Hm. unfold has_prod. apply existsb_exists. exists e. split; [|exact Hm].
  eapply nth_error_In; eauto.
Qed.

Lemma nth_error_update_nth {A} (f : A -> A) : forall l i x,
  nth_error l i = Some x -> nth_error (update_nth i f l) i = Some (f x).
Proof.
  induction l as [|y l IH]; intros i x; destruct i; cbn [nth_error update_nth]; try discriminate.
  - now intros [= ->].
  - apply IH.
Qed.

Lemma add_outs_installs : forall outs g i g2 o,
  add_outs g i outs = Ok g2 -> (i < length (g_edges g))%nat -> In o outs ->
  has_prod (g_edges g2) o = true.
Proof.
  induction outs as [|o1 outs IH]; intros g i g2 o; cbn [add_outs]; [intros _ _ []|].
  destruct (producer g o1); [discriminate|]. intros H Hi Hin.
  destruct Hin as [<-|Hin].
  - apply add_outs_fresh in H. destruct H as [_ Hm]. apply Hm. cbn [g_edges].
    destruct (nth_error (g_edges g) i) as [e|] eqn:Hn; [|apply nth_error_None in Hn; lia].
    eapply has_prod_nth; [apply nth_error_update_nth; exact Hn|].
    unfold add_out; cbn [e_outs]. rewrite mem_bytes_app. cbn [mem_bytes].
    rewrite bytes_eqb_refl. now rewrite orb_true_r.
  - eapply IH; eauto. cbn [g_edges].
    clear -Hi. revert i Hi. induction (g_edges g) as [|y l IHl]; intros i Hi; destruct i; cbn [update_nth length] in *; try lia.
    specialize (IHl i). lia.
Qed.

Lemma update_nth_length {A} (f : A -> A) : forall l i, length (update_nth i f l) = length l.
Proof. induction l as [|x l IH]; intros i; destruct i; cbn [update_nth length]; auto. Qed.

Lemma set_restat_length g i : length (g_edges (set_restat g i)) = length (g_edges g).
Proof.
  unfold set_restat. destruct (nth_error (g_edges g) i) as [e|]; [|reflexivity].
  destruct (e_scope e); cbn [g_edges]; [reflexivity|apply update_nth_length].
Qed.

Lemma update_edge_installs g i st g2 o :
  update_edge g i st = Ok g2 -> (i < length (g_edges g))%nat -> In o (dd_imp_outs st) ->
  has_prod (g_edges g2) o = true.
Proof.
  unfold update_edge. intros H Hi Ho.
  destruct (add_outs _ i (dd_imp_outs st)) as [g3|] eqn:Ha; [|discriminate].
  injection H as <-. cbn [g_edges]. apply has_prod_update; [intros e He; exact He|].
  eapply add_outs_installs; eauto.
  destruct (dd_restat st); [rewrite set_restat_length|]; exact Hi.
Qed.

Lemma load_edges_installed g0 f stmts i st o : forall oe gc,
  has_prod (g_edges gc) o = true ->
  In i oe -> bound_to g0 f i = true -> find_stmt g0 stmts i = Some st -> In o (dd_imp_outs st) ->
  exists e, load_edges g0 f stmts oe gc = Err e.
Proof.
  induction oe as [|j oe IH]; intros gc Hp Hin Hb Hf Ho; [destruct Hin|].
  cbn [load_edges].
  destruct (Nat.eq_dec j i) as [->|Hne].
  - rewrite Hb, Hf. cbn [negb].
    destruct (update_edge gc i st) as [g1|] eqn:Hu; [|eauto].
    apply update_edge_fresh in Hu. destruct Hu as [Hfresh _]. rewrite (Hfresh o Ho) in Hp. discriminate.
  - destruct Hin as [->|Hin]; [congruence|].
    destruct (negb (bound_to g0 f j)); [now apply IH|].
    destruct (find_stmt g0 stmts j) as [sj|]; [|eauto].
    destruct (update_edge gc j sj) as [g1|] eqn:Hu; [|eauto].
    apply update_edge_fresh in Hu. destruct Hu as [_ Hm]. apply IH; auto.
Qed.

Lemma bound_to_lt g f i : bound_to g f i = true -> (i < length (g_edges g))%nat.
Proof.
  unfold bound_to. destruct (nth_error (g_edges g) i) eqn:Hn; [|discriminate].
  intros _. apply nth_error_Some. congruence.
Qed.

Lemma add_outs_length : forall outs g i g2,
  add_outs g i outs = Ok g2 -> length (g_edges g2) = length (g_edges g).
Proof.
  induction outs as [|o outs IHo]; intros g i g2; cbn [add_outs]; [now intros [= <-]|].
  destruct (producer g o); [discriminate|]. intros H. apply IHo in H. rewrite H. cbn [g_edges].
  apply update_nth_length.
Qed.

Lemma update_edge_length g j sj g1 :
  update_edge g j sj = Ok g1 -> length (g_edges g1) = length (g_edges g).
Proof.
  unfold update_edge. destruct (add_outs _ j _) as [g3|] eqn:Ha; [|discriminate]. intros [= <-].
  cbn [g_edges]. rewrite update_nth_length, (add_outs_length _ _ _ _ Ha).
  destruct (dd_restat sj); [apply set_restat_length|reflexivity].
Qed.

Lemma load_edges_twice g0 f stmts i1 i2 st1 st2 o : forall oe gc,
  length (g_edges gc) = length (g_edges g0) ->
  i1 <> i2 -> In i1 oe -> In i2 oe ->
  bound_to g0 f i1 = true -> bound_to g0 f i2 = true ->
  find_stmt g0 stmts i1 = Some st1 -> find_stmt g0 stmts i2 = Some st2 ->
  In o (dd_imp_outs st1) -> In o (dd_imp_outs st2) ->
  exists e, load_edges g0 f stmts oe gc = Err e.
Proof.
  induction oe as [|j oe IH]; intros gc Hlen Hne H1 H2 Hb1 Hb2 Hf1 Hf2 Ho1 Ho2; [destruct H1|].
  cbn [load_edges].
  destruct (Nat.eq_dec j i1) as [->|Hn1].
  - rewrite Hb1, Hf1. cbn [negb].
    destruct (update_edge gc i1 st1) as [g1|] eqn:Hu; [|eauto].
    apply (load_edges_installed g0 f stmts i2 st2 o); auto.
    + eapply update_edge_installs; eauto. rewrite Hlen. now apply (bound_to_lt g0 f).
    + destruct H2 as [->|H2]; [congruence|exact H2].
  - destruct (Nat.eq_dec j i2) as [->|Hn2].
    + rewrite Hb2, Hf2. cbn [negb].
      destruct (update_edge gc i2 st2) as [g1|] eqn:Hu; [|eauto].
      apply (load_edges_installed g0 f stmts i1 st1 o); auto.
      * eapply update_edge_installs; eauto. rewrite Hlen. now apply (bound_to_lt g0 f).
      * destruct H1 as [->|H1]; [congruence|exact H1].
    + destruct H1 as [->|H1]; [congruence|]. destruct H2 as [->|H2]; [congruence|].
      destruct (negb (bound_to g0 f j)); [now apply IH|].
      destruct (find_stmt g0 stmts j) as [sj|] eqn:Hfj; [|eauto].
      destruct (update_edge gc j sj) as [g1|] eqn:Hu; [|eauto].
      apply IH; auto. apply update_edge_length in Hu. congruence.
Qed.
