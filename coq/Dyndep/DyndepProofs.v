(* C11 (file-level part) / C13: theorems about the dyndep-file model of DyndepDefs.v.
   No axioms: stdlib List/NArith/ZArith/Lia/Bool only. *)
From NinjaV Require Import Base.Bytes Canon.CanonDefs Dyndep.DyndepDefs.
Local Open Scope N_scope.

(* ========================================================================================== *)
(** * Part 1: the loader *)

(* ---------- list helpers ---------- *)
Lemma update_nth_app {A} (f : A -> A) (pre : list A) (e : A) (post : list A) :
  update_nth (length pre) f (pre ++ e :: post) = pre ++ f e :: post.
Proof. induction pre as [|x pre IH]; cbn [update_nth length app]; [reflexivity|]. now rewrite IH. Qed.

Lemma nth_error_app_mid {A} (pre : list A) (e : A) (post : list A) :
  nth_error (pre ++ e :: post) (length pre) = Some e.
Proof. induction pre as [|x pre IH]; cbn [nth_error length app]; auto. Qed.

Lemma find_index_none {A} (p : A -> bool) (l : list A) :
  find_index p l = None <-> existsb p l = false.
Proof.
  induction l as [|x l IH]; cbn [find_index existsb]; [tauto|].
  destruct (p x); cbn [orb]; [split; discriminate|].
  destruct (find_index p l); cbn [option_map]; split; intro H; try discriminate; try (apply IH; exact H).
  apply IH in H. discriminate.
Qed.

Lemma find_index_some_lt {A} (p : A -> bool) (l : list A) i :
  find_index p l = Some i -> exists x, nth_error l i = Some x /\ p x = true.
Proof.
  revert i; induction l as [|x l IH]; intros i; cbn [find_index]; [discriminate|].
  destruct (p x) eqn:Hp.
  - intros [= <-]. exists x; auto.
  - destruct (find_index p l) as [j|]; cbn [option_map]; [|discriminate].
    intros [= <-]. destruct (IH j eq_refl) as [y Hy]. exists y; exact Hy.
Qed.

Lemma inline_edges_app g0 stmts k a b :
  inline_edges g0 stmts k (a ++ b) =
  inline_edges g0 stmts k a ++ inline_edges g0 stmts (k + length a) b.
Proof.
  revert k; induction a as [|e a IH]; intros k; cbn [inline_edges app length].
  - now rewrite Nat.add_0_r.
  - rewrite IH. now rewrite Nat.add_succ_r.
Qed.

Lemma inline_edges_length g0 stmts k a : length (inline_edges g0 stmts k a) = length a.
Proof. revert k; induction a as [|e a IH]; intros k; cbn [inline_edges length]; auto. Qed.

(* ---------- UpdateEdge on the edge at position [length pre] ---------- *)
Lemma add_outs_ok : forall outs pre e post fr g2,
  add_outs (mkGraph (pre ++ e :: post) fr) (length pre) outs = Ok g2 ->
  g2 = mkGraph (pre ++ mkEdge (e_outs e ++ outs) (e_nimp_out e + length outs)%nat (e_ins e)
                              (e_nimp e) (e_noo e) (e_dyndep e) (e_scope e) (e_rule_restat e)
                    :: post) fr.
Proof.
  induction outs as [|o outs IH]; intros pre e post fr g2; cbn [add_outs].
  - intros [= <-]. rewrite app_nil_r, Nat.add_0_r. now destruct e.
  - destruct (producer _ o); [discriminate|].
    cbn [g_edges g_file_restat]. rewrite update_nth_app. intros H.
    apply IH in H. rewrite H. unfold add_out; cbn [e_outs e_nimp_out e_ins e_nimp e_noo e_dyndep e_scope e_rule_restat length].
    rewrite <- app_assoc. cbn [app]. now rewrite Nat.add_succ_r.
Qed.

Lemma set_restat_at pre e post fr :
  set_restat (mkGraph (pre ++ e :: post) fr) (length pre) =
  mkGraph (pre ++ scope_restat e :: post) fr.
Proof. unfold set_restat. cbn [g_edges g_file_restat]. now rewrite update_nth_app. Qed.

Lemma update_edge_ok pre e post fr st g2 :
  update_edge (mkGraph (pre ++ e :: post) fr) (length pre) st = Ok g2 ->
  g2 = mkGraph (pre ++ apply_stmt e st :: post) fr.
Proof.
  unfold update_edge.
  destruct (dd_restat st) eqn:Hr.
  - rewrite (set_restat_at pre e post fr).
    destruct (add_outs _ _ _) as [g1|] eqn:Ha; [|discriminate].
    apply add_outs_ok in Ha. subst g1. intros [= <-].
    cbn [g_edges g_file_restat]. rewrite update_nth_app.
    unfold splice_ins, apply_stmt, scope_restat.
    cbn [e_outs e_nimp_out e_ins e_nimp e_noo e_dyndep e_scope e_rule_restat].
    now rewrite Hr.
  - destruct (add_outs _ _ _) as [g1|] eqn:Ha; [|discriminate].
    apply add_outs_ok in Ha. subst g1. intros [= <-].
    cbn [g_edges g_file_restat]. rewrite update_nth_app.
    unfold splice_ins, apply_stmt. cbn [e_outs e_nimp_out e_ins e_nimp e_noo e_dyndep e_scope e_rule_restat].
    now rewrite Hr.
Qed.

(* ---------- hypotheses of the metamorphic statement ---------- *)
(* the dyndep file is listed exactly once among the inputs of every edge bound to it (the manifest
   parser guarantees "at least once") *)
Definition listed_once (g : graph) (f : node) : Prop :=
  forall i e, nth_error (g_edges g) i = Some e -> opt_node_eqb (e_dyndep e) f = true ->
              count_bytes f (e_ins e) = 1%nat.
Lemma load_edges_skip g0 f stmts i n oe g :
  bound_to g0 f i = false ->
  load_edges g0 f stmts (repeat i n ++ oe) g = load_edges g0 f stmts oe g.
Proof.
  intros Hb. induction n as [|n IH]; cbn [repeat app load_edges]; [reflexivity|].
  now rewrite Hb.
Qed.

Lemma load_edges_inline g0 f stmts :
  listed_once g0 f ->
  (forall j st, find_stmt g0 stmts j = Some st -> bound_to g0 f j = true) ->
  forall es pre0 g',
    g_edges g0 = pre0 ++ es ->
    load_edges g0 f stmts (out_edges_from (length pre0) es f)
               (mkGraph (inline_edges g0 stmts 0 pre0 ++ es) (g_file_restat g0)) = Ok g' ->
    g' = mkGraph (inline_edges g0 stmts 0 (pre0 ++ es)) (g_file_restat g0).
Proof.
  intros Honce Hused.
  induction es as [|e es IH]; intros pre0 g' Hg.
  - cbn [out_edges_from load_edges]. intros [= <-]. now rewrite !app_nil_r.
  - cbn [out_edges_from].
    assert (Hnth : nth_error (g_edges g0) (length pre0) = Some e)
      by (rewrite Hg; apply nth_error_app_mid).
    assert (Hstep : forall g1,
      g1 = mkGraph (inline_edges g0 stmts 0 (pre0 ++ [e]) ++ es) (g_file_restat g0) ->
      load_edges g0 f stmts (out_edges_from (S (length pre0)) es f) g1 = Ok g' ->
      g' = mkGraph (inline_edges g0 stmts 0 (pre0 ++ e :: es)) (g_file_restat g0)).
    { intros g1 -> H.
      replace (pre0 ++ e :: es) with ((pre0 ++ [e]) ++ es) by (rewrite <- app_assoc; reflexivity).
      apply IH.
      - rewrite Hg, <- app_assoc. reflexivity.
      - rewrite app_length. cbn [length]. rewrite Nat.add_1_r. exact H. }
    destruct (bound_to g0 f (length pre0)) eqn:Hb.
    + assert (Hc : count_bytes f (e_ins e) = 1%nat).
      { apply (Honce (length pre0) e Hnth). unfold bound_to in Hb. now rewrite Hnth in Hb. }
      rewrite Hc. cbn [repeat app load_edges]. rewrite Hb. cbn [negb].
      destruct (find_stmt g0 stmts (length pre0)) as [st|] eqn:Hf; [|discriminate].
      destruct (update_edge _ _ st) as [g1|] eqn:Hu; [|discriminate].
      rewrite <- (inline_edges_length g0 stmts 0 pre0) in Hu.
      apply update_edge_ok in Hu.
      apply Hstep. subst g1. rewrite inline_edges_app. cbn [inline_edges].
      rewrite Nat.add_0_l, Hf. rewrite <- app_assoc. reflexivity.
    + rewrite load_edges_skip by exact Hb.
      apply Hstep. rewrite inline_edges_app. cbn [inline_edges]. rewrite Nat.add_0_l.
      destruct (find_stmt g0 stmts (length pre0)) as [st|] eqn:Hf.
      * apply Hused in Hf. congruence.
      * rewrite <- app_assoc. reflexivity.
Qed.

Lemma stmt_used_bound g f oe st i :
  stmt_used g f oe st = true -> stmt_key g st = Some i -> bound_to g f i = true.
Proof.
  unfold stmt_used. intros H Hk. rewrite Hk in H. apply andb_true_iff in H. tauto.
Qed.

Lemma find_stmt_some g stmts i st :
  find_stmt g stmts i = Some st -> In st stmts /\ stmt_key g st = Some i.
Proof.
  unfold find_stmt. intros H. apply find_some in H. destruct H as [Hin Hk]. split; [exact Hin|].
  unfold key_is in Hk. destruct (stmt_key g st) as [j|]; [|discriminate].
  apply Nat.eqb_eq in Hk. now subst.
Qed.

(** C11, graph level: loading the dyndep file = writing its information into the manifest.
    The graph record holds exactly what the engine observes (per edge: outputs with the implicit
    count, inputs with implicit / order-only counts, dyndep binding, the restat sources; producers
    and out-edges are functions of these), so the conclusion is plain equality. *)
Theorem C11_load_is_inline_proof : forall g f stmts g',
  listed_once g f ->
  load_dyndep g f stmts = Ok g' -> g' = inline_dyndep g stmts.
Proof.
  intros g f stmts g' Honce. unfold load_dyndep.
  destruct (check_stmts g [] stmts); [discriminate|].
  destruct (load_edges g f stmts (out_edges g f) g) as [g1|] eqn:Hl; [|discriminate].
  destruct (forallb _ stmts) eqn:Hu; [|discriminate]. intros [= <-].
  unfold inline_dyndep.
  assert (Hused : forall j st, find_stmt g stmts j = Some st -> bound_to g f j = true).
  { intros j st Hf. apply find_stmt_some in Hf. destruct Hf as [Hin Hk].
    rewrite forallb_forall in Hu. eapply stmt_used_bound; [apply Hu; exact Hin|exact Hk]. }
  pose proof (load_edges_inline g f stmts Honce Hused (g_edges g) [] g1 eq_refl) as H.
  cbn [length inline_edges app] in H. apply H.
  unfold out_edges in Hl. destruct g as [es fr]. exact Hl.
Qed.

(* ---------- the invalid classes the loader rejects ---------- *)
Lemma check_stmts_app g l1 : forall seen rest,
  check_stmts g seen (l1 ++ rest) = None -> check_stmts g (rev l1 ++ seen) rest = None.
Proof.
  induction l1 as [|st l1 IH]; intros seen rest; cbn [app rev check_stmts]; [auto|].
  destruct (graph_chk g seen (dd_out st)); [discriminate|].
  intros H. apply IH in H. now rewrite <- app_assoc.
Qed.

Lemma existsb_key_is g i seen st :
  In st seen -> stmt_key g st = Some i -> existsb (key_is g i) seen = true.
Proof.
  intros Hin Hk. apply existsb_exists. exists st. split; [exact Hin|].
  unfold key_is. rewrite Hk. apply Nat.eqb_refl.
Qed.

Lemma check_stmts_seen g st1 i : forall l1 seen st2 l3,
  In st1 seen -> stmt_key g st1 = Some i -> stmt_key g st2 = Some i ->
  check_stmts g seen (l1 ++ st2 :: l3) <> None.
Proof.
  induction l1 as [|st l1 IH]; intros seen st2 l3 Hin Hk1 Hk2; cbn [app check_stmts].
  - unfold graph_chk. unfold stmt_key in Hk2. rewrite Hk2.
    rewrite (existsb_key_is g i seen st1 Hin Hk1). discriminate.
  - destruct (graph_chk g seen (dd_out st)); [discriminate|].
    apply IH; auto. now right.
Qed.

Lemma check_stmts_known g : forall stmts seen st,
  check_stmts g seen stmts = None -> In st stmts -> stmt_key g st <> None.
Proof.
  induction stmts as [|s stmts IH]; intros seen st; cbn [check_stmts In]; [tauto|].
  unfold graph_chk at 1. intros H [->|Hin].
  - unfold stmt_key. destruct (producer g (dd_out st)); [discriminate|discriminate].
  - destruct (producer g (dd_out s)) as [i|]; [|discriminate].
    destruct (existsb (key_is g i) seen); [discriminate|]. eapply IH; eauto.
Qed.

(** a statement for an output that no build statement of the manifest produces *)
Theorem C11_rejects_unknown_output_proof : forall g f stmts st,
  In st stmts -> stmt_key g st = None -> exists e, load_dyndep g f stmts = Err e.
Proof.
  intros g f stmts st Hin Hk. unfold load_dyndep.
  destruct (check_stmts g [] stmts) as [e|] eqn:Hc; [eauto|].
  exfalso. exact (check_stmts_known g stmts [] st Hc Hin Hk).
Qed.

(** two statements for the same build statement (same or different output of it) *)
Theorem C11_rejects_duplicate_proof : forall g f l1 st1 l2 st2 l3 i,
  stmt_key g st1 = Some i -> stmt_key g st2 = Some i ->
  exists e, load_dyndep g f (l1 ++ st1 :: l2 ++ st2 :: l3) = Err e.
Proof.
  intros g f l1 st1 l2 st2 l3 i Hk1 Hk2. unfold load_dyndep.
  destruct (check_stmts g [] _) as [e|] eqn:Hc; [eauto|].
  exfalso. apply check_stmts_app in Hc. cbn [check_stmts] in Hc.
  destruct (graph_chk g _ (dd_out st1)); [discriminate|].
  revert Hc. apply (check_stmts_seen g st1 i l2 _ st2 l3); auto. now left.
Qed.

(** "adds a build statement": a statement for an edge that is not bound to this dyndep file *)
Theorem C11_rejects_unbound_proof : forall g f stmts st i,
  In st stmts -> stmt_key g st = Some i -> bound_to g f i = false ->
  exists e, load_dyndep g f stmts = Err e.
Proof.
  intros g f stmts st i Hin Hk Hb. unfold load_dyndep.
  destruct (check_stmts g [] stmts); [eauto|].
  destruct (load_edges _ _ _ _ _); [|eauto].
  destruct (forallb _ stmts) eqn:Hu; [|eauto].
  exfalso. rewrite forallb_forall in Hu. specialize (Hu st Hin).
  rewrite (stmt_used_bound _ _ _ _ _ Hu Hk) in Hb. discriminate.
Qed.

(** "omits a build statement": an edge bound to the file without a statement in it *)
Lemma load_edges_missing g0 f stmts i : forall oe g,
  In i oe -> bound_to g0 f i = true -> find_stmt g0 stmts i = None ->
  exists e, load_edges g0 f stmts oe g = Err e.
Proof.
  induction oe as [|j oe IH]; intros g Hin Hb Hf; [destruct Hin|].
  cbn [load_edges]. destruct Hin as [->|Hin].
  - rewrite Hb, Hf. cbn [negb]. eauto.
  - destruct (negb (bound_to g0 f j)); [now apply IH|].
    destruct (find_stmt g0 stmts j); [|eauto].
    destruct (update_edge g j d); [now apply IH|eauto].
Qed.

Theorem C11_rejects_omitted_proof : forall g f stmts i,
  In i (out_edges g f) -> bound_to g f i = true -> find_stmt g stmts i = None ->
  exists e, load_dyndep g f stmts = Err e.
Proof.
  intros g f stmts i Hin Hb Hf. unfold load_dyndep.
  destruct (check_stmts g [] stmts); [eauto|].
  destruct (load_edges_missing g f stmts i (out_edges g f) g Hin Hb Hf) as [e He].
  rewrite He. eauto.
Qed.

(* every edge bound to [f] that lists [f] among its inputs is in the loop *)
Lemma count_bytes_pos f l : mem_bytes f l = true -> (0 < count_bytes f l)%nat.
Proof.
  induction l as [|x l IH]; cbn [mem_bytes count_bytes]; [discriminate|].
  destruct (bytes_eqb f x); cbn [orb]; [lia|]. intros H. apply IH in H. lia.
Qed.

Lemma out_edges_from_in f : forall es k j e,
  nth_error es j = Some e -> mem_bytes f (e_ins e) = true -> In (k + j)%nat (out_edges_from k es f).
Proof.
  induction es as [|x es IH]; intros k j e; [destruct j; discriminate|].
  cbn [out_edges_from]. destruct j as [|j]; cbn [nth_error].
  - intros [= ->] Hm. apply in_or_app. left. apply count_bytes_pos in Hm.
    destruct (count_bytes f (e_ins e)); [lia|]. cbn [repeat]. left. lia.
  - intros Hn Hm. apply in_or_app. right. replace (k + S j)%nat with (S k + j)%nat by lia.
    eapply IH; eauto.
Qed.

Theorem C11_rejects_omitted_edge_proof : forall g f stmts i e,
  nth_error (g_edges g) i = Some e -> e_dyndep e = Some f -> mem_bytes f (e_ins e) = true ->
  find_stmt g stmts i = None ->
  exists err, load_dyndep g f stmts = Err err.
Proof.
  intros g f stmts i e Hn Hd Hm Hf.
  apply (C11_rejects_omitted_proof g f stmts i); auto.
  - unfold out_edges. apply (out_edges_from_in f (g_edges g) 0 i e Hn Hm).
  - unfold bound_to. rewrite Hn. unfold opt_node_eqb. rewrite Hd. apply bytes_eqb_refl.
Qed.

(** an implicit output that some build statement of the manifest already produces *)
Definition has_prod (es : list edge) (o : node) : bool :=
  existsb (fun e => mem_bytes o (e_outs e)) es.

Lemma producer_none g o : producer g o = None <-> has_prod (g_edges g) o = false.
Proof. unfold producer, has_prod. apply find_index_none. Qed.

Lemma has_prod_update f i o :
  (forall e, mem_bytes o (e_outs e) = true -> mem_bytes o (e_outs (f e)) = true) ->
  forall es, has_prod es o = true -> has_prod (update_nth i f es) o = true.
Proof.
  intros Hf es; revert i. unfold has_prod.
  induction es as [|e es IH]; intros i; cbn [existsb update_nth]; [discriminate|].
  intros H. apply orb_true_iff in H.
  destruct i as [|i]; cbn [existsb]; apply orb_true_iff; destruct H as [H|H]; auto.
Qed.

Lemma mem_bytes_app o a b : mem_bytes o (a ++ b) = mem_bytes o a || mem_bytes o b.
Proof. induction a as [|x a IH]; cbn [mem_bytes app]; [reflexivity|]. now rewrite IH, orb_assoc. Qed.

Lemma add_outs_fresh : forall outs g i g2,
  add_outs g i outs = Ok g2 ->
  (forall o, In o outs -> has_prod (g_edges g) o = false) /\
  (forall o, has_prod (g_edges g) o = true -> has_prod (g_edges g2) o = true).
Proof.
  induction outs as [|o outs IH]; intros g i g2; cbn [add_outs].
  - intros [= <-]. split; [intros o []|auto].
  - destruct (producer g o) eqn:Hp; [discriminate|]. intros H. apply IH in H.
    cbn [g_edges] in H. destruct H as [Hfresh Hmono].
    assert (Hstep : forall o', has_prod (g_edges g) o' = true ->
                               has_prod (update_nth i (fun e => add_out e o) (g_edges g)) o' = true).
    { intros o'. apply has_prod_update. intros e He. unfold add_out; cbn [e_outs].
      rewrite mem_bytes_app, He. reflexivity. }
    split.
    + intros o' [<-|Hin]; [now apply producer_none|].
      specialize (Hfresh o' Hin). destruct (has_prod (g_edges g) o') eqn:Hq; [|reflexivity].
      apply Hstep in Hq. congruence.
    + intros o' Hq. apply Hmono, Hstep, Hq.
Qed.

Lemma set_restat_prod g i o :
  has_prod (g_edges g) o = true -> has_prod (g_edges (set_restat g i)) o = true.
Proof. unfold set_restat. cbn [g_edges]. apply has_prod_update. intros e0 H. exact H. Qed.

Lemma update_edge_fresh g i st g2 :
  update_edge g i st = Ok g2 ->
  (forall o, In o (dd_imp_outs st) -> has_prod (g_edges g) o = false) /\
  (forall o, has_prod (g_edges g) o = true -> has_prod (g_edges g2) o = true).
Proof.
  unfold update_edge.
  set (g1 := if dd_restat st then set_restat g i else g).
  assert (H1 : forall o, has_prod (g_edges g) o = true -> has_prod (g_edges g1) o = true).
  { intros o. subst g1. destruct (dd_restat st); [apply set_restat_prod|auto]. }
  destruct (add_outs g1 i (dd_imp_outs st)) as [g3|] eqn:Ha; [|discriminate].
  intros [= <-]. apply add_outs_fresh in Ha. destruct Ha as [Hfresh Hmono]. cbn [g_edges]. split.
  - intros o Hin. specialize (Hfresh o Hin).
    destruct (has_prod (g_edges g) o) eqn:Hq; [|reflexivity]. apply H1 in Hq. congruence.
  - intros o Hq. apply has_prod_update; [intros e He; exact He|]. apply Hmono, H1, Hq.
Qed.

Lemma load_edges_claims g0 f stmts i st o : forall oe gc g',
  load_edges g0 f stmts oe gc = Ok g' ->
  In i oe -> bound_to g0 f i = true -> find_stmt g0 stmts i = Some st -> In o (dd_imp_outs st) ->
  (forall o', has_prod (g_edges g0) o' = true -> has_prod (g_edges gc) o' = true) ->
  has_prod (g_edges g0) o = false.
Proof.
  induction oe as [|j oe IH]; intros gc g' Hl Hin Hb Hf Ho Hmono; [destruct Hin|].
  cbn [load_edges] in Hl.
  destruct (Nat.eq_dec j i) as [->|Hne].
  - rewrite Hb, Hf in Hl. cbn [negb] in Hl.
    destruct (update_edge gc i st) as [g1|] eqn:Hu; [|discriminate].
    apply update_edge_fresh in Hu. destruct Hu as [Hfresh _].
    specialize (Hfresh o Ho). destruct (has_prod (g_edges g0) o) eqn:Hq; [|reflexivity].
    apply Hmono in Hq. congruence.
  - destruct Hin as [->|Hin]; [congruence|].
    destruct (negb (bound_to g0 f j)); [eapply IH; eauto|].
    destruct (find_stmt g0 stmts j) as [sj|]; [|discriminate].
    destruct (update_edge gc j sj) as [g1|] eqn:Hu; [|discriminate].
    apply update_edge_fresh in Hu. destruct Hu as [_ Hm2].
    eapply IH; eauto.
Qed.

Lemma existsb_eqb_in i l : existsb (Nat.eqb i) l = true -> In i l.
Proof.
  intros H. apply existsb_exists in H. destruct H as [j [Hin Hj]]. apply Nat.eqb_eq in Hj. now subst.
Qed.

Theorem C11_rejects_claimed_output_proof : forall g f stmts i st o,
  find_stmt g stmts i = Some st -> In o (dd_imp_outs st) -> producer g o <> None ->
  exists e, load_dyndep g f stmts = Err e.
Proof.
  intros g f stmts i st o Hf Ho Hp. unfold load_dyndep.
  destruct (check_stmts g [] stmts); [eauto|].
  destruct (load_edges g f stmts (out_edges g f) g) as [g1|] eqn:Hl; [|eauto].
  destruct (forallb _ stmts) eqn:Hu; [|eauto]. exfalso.
  destruct (find_stmt_some _ _ _ _ Hf) as [Hin Hk].
  rewrite forallb_forall in Hu. specialize (Hu st Hin).
  pose proof (stmt_used_bound _ _ _ _ _ Hu Hk) as Hb.
  unfold stmt_used in Hu. rewrite Hk in Hu. apply andb_true_iff in Hu. destruct Hu as [Hoe _].
  apply existsb_eqb_in in Hoe.
  apply Hp. apply producer_none.
  eapply (load_edges_claims g f stmts i st o); eauto.
Qed.

(** an implicit output that two statements of the file (or one statement twice) claim:
    the second claim meets the producer installed by the first *)
Lemma has_prod_nth es i e o :
  nth_error es i = Some e -> mem_bytes o (e_outs e) = true -> has_prod es o = true.
Proof.
  intros Hn Hm. unfold has_prod. apply existsb_exists. exists e. split; [|exact Hm].
  eapply nth_error_In; eauto.
Qed.

Lemma nth_error_update_nth {A} (f : A -> A) : forall l i x,
  nth_error l i = Some x -> nth_error (update_nth i f l) i = Some (f x).
Proof.
  induction l as [|y l IH]; intros i x; destruct i; cbn [nth_error update_nth]; try discriminate.
  - now intros [= ->].
  - apply IH.
Qed.

Lemma add_outs_installs : forall outs g i g2 o,
  add_outs g i outs = Ok g2 -> (i < length (g_edges g))%nat -> In o outs ->
  has_prod (g_edges g2) o = true.
Proof.
  induction outs as [|o1 outs IH]; intros g i g2 o; cbn [add_outs]; [intros _ _ []|].
  destruct (producer g o1); [discriminate|]. intros H Hi Hin.
  destruct Hin as [<-|Hin].
  - apply add_outs_fresh in H. destruct H as [_ Hm]. apply Hm. cbn [g_edges].
    destruct (nth_error (g_edges g) i) as [e|] eqn:Hn; [|apply nth_error_None in Hn; lia].
    eapply has_prod_nth; [apply nth_error_update_nth; exact Hn|].
    unfold add_out; cbn [e_outs]. rewrite mem_bytes_app. cbn [mem_bytes].
    rewrite bytes_eqb_refl. now rewrite orb_true_r.
  - eapply IH; eauto. cbn [g_edges].
    clear -Hi. revert i Hi. induction (g_edges g) as [|y l IHl]; intros i Hi; destruct i; cbn [update_nth length] in *; try lia.
    specialize (IHl i). lia.
Qed.

Lemma update_nth_length {A} (f : A -> A) : forall l i, length (update_nth i f l) = length l.
Proof. induction l as [|x l IH]; intros i; destruct i; cbn [update_nth length]; auto. Qed.

Lemma set_restat_length g i : length (g_edges (set_restat g i)) = length (g_edges g).
Proof. unfold set_restat. cbn [g_edges]. apply update_nth_length. Qed.

Lemma update_edge_installs g i st g2 o :
  update_edge g i st = Ok g2 -> (i < length (g_edges g))%nat -> In o (dd_imp_outs st) ->
  has_prod (g_edges g2) o = true.
Proof.
  unfold update_edge. intros H Hi Ho.
  destruct (add_outs _ i (dd_imp_outs st)) as [g3|] eqn:Ha; [|discriminate].
  injection H as <-. cbn [g_edges]. apply has_prod_update; [intros e He; exact He|].
  eapply add_outs_installs; eauto.
  destruct (dd_restat st); [rewrite set_restat_length|]; exact Hi.
Qed.

Lemma load_edges_installed g0 f stmts i st o : forall oe gc,
  has_prod (g_edges gc) o = true ->
  In i oe -> bound_to g0 f i = true -> find_stmt g0 stmts i = Some st -> In o (dd_imp_outs st) ->
  exists e, load_edges g0 f stmts oe gc = Err e.
Proof.
  induction oe as [|j oe IH]; intros gc Hp Hin Hb Hf Ho; [destruct Hin|].
  cbn [load_edges].
  destruct (Nat.eq_dec j i) as [->|Hne].
  - rewrite Hb, Hf. cbn [negb].
    destruct (update_edge gc i st) as [g1|] eqn:Hu; [|eauto].
    apply update_edge_fresh in Hu. destruct Hu as [Hfresh _]. rewrite (Hfresh o Ho) in Hp. discriminate.
  - destruct Hin as [->|Hin]; [congruence|].
    destruct (negb (bound_to g0 f j)); [now apply IH|].
    destruct (find_stmt g0 stmts j) as [sj|]; [|eauto].
    destruct (update_edge gc j sj) as [g1|] eqn:Hu; [|eauto].
    apply update_edge_fresh in Hu. destruct Hu as [_ Hm]. apply IH; auto.
Qed.

Lemma bound_to_lt g f i : bound_to g f i = true -> (i < length (g_edges g))%nat.
Proof.
  unfold bound_to. destruct (nth_error (g_edges g) i) eqn:Hn; [|discriminate].
  intros _. apply nth_error_Some. congruence.
Qed.

Lemma add_outs_length : forall outs g i g2,
  add_outs g i outs = Ok g2 -> length (g_edges g2) = length (g_edges g).
Proof.
  induction outs as [|o outs IHo]; intros g i g2; cbn [add_outs]; [now intros [= <-]|].
  destruct (producer g o); [discriminate|]. intros H. apply IHo in H. rewrite H. cbn [g_edges].
  apply update_nth_length.
Qed.

Lemma update_edge_length g j sj g1 :
  update_edge g j sj = Ok g1 -> length (g_edges g1) = length (g_edges g).
Proof.
  unfold update_edge. destruct (add_outs _ j _) as [g3|] eqn:Ha; [|discriminate]. intros [= <-].
  cbn [g_edges]. rewrite update_nth_length, (add_outs_length _ _ _ _ Ha).
  destruct (dd_restat sj); [apply set_restat_length|reflexivity].
Qed.

Lemma load_edges_twice g0 f stmts i1 i2 st1 st2 o : forall oe gc,
  length (g_edges gc) = length (g_edges g0) ->
  i1 <> i2 -> In i1 oe -> In i2 oe ->
  bound_to g0 f i1 = true -> bound_to g0 f i2 = true ->
  find_stmt g0 stmts i1 = Some st1 -> find_stmt g0 stmts i2 = Some st2 ->
  In o (dd_imp_outs st1) -> In o (dd_imp_outs st2) ->
  exists e, load_edges g0 f stmts oe gc = Err e.
Proof.
  induction oe as [|j oe IH]; intros gc Hlen Hne H1 H2 Hb1 Hb2 Hf1 Hf2 Ho1 Ho2; [destruct H1|].
  cbn [load_edges].
  destruct (Nat.eq_dec j i1) as [->|Hn1].
  - rewrite Hb1, Hf1. cbn [negb].
    destruct (update_edge gc i1 st1) as [g1|] eqn:Hu; [|eauto].
    apply (load_edges_installed g0 f stmts i2 st2 o); auto.
    + eapply update_edge_installs; eauto. rewrite Hlen. now apply (bound_to_lt g0 f).
    + destruct H2 as [->|H2]; [congruence|exact H2].
  - destruct (Nat.eq_dec j i2) as [->|Hn2].
    + rewrite Hb2, Hf2. cbn [negb].
      destruct (update_edge gc i2 st2) as [g1|] eqn:Hu; [|eauto].
      apply (load_edges_installed g0 f stmts i1 st1 o); auto.
      * eapply update_edge_installs; eauto. rewrite Hlen. now apply (bound_to_lt g0 f).
      * destruct H1 as [->|H1]; [congruence|exact H1].
    + destruct H1 as [->|H1]; [congruence|]. destruct H2 as [->|H2]; [congruence|].
      destruct (negb (bound_to g0 f j)); [now apply IH|].
      destruct (find_stmt g0 stmts j) as [sj|] eqn:Hfj; [|eauto].
      destruct (update_edge gc j sj) as [g1|] eqn:Hu; [|eauto].
      apply IH; auto. apply update_edge_length in Hu. congruence.
Qed.

Theorem C11_rejects_output_claimed_twice_proof : forall g f stmts i1 i2 st1 st2 o,
  i1 <> i2 -> find_stmt g stmts i1 = Some st1 -> find_stmt g stmts i2 = Some st2 ->
  In o (dd_imp_outs st1) -> In o (dd_imp_outs st2) ->
  exists e, load_dyndep g f stmts = Err e.
Proof.
  intros g f stmts i1 i2 st1 st2 o Hne Hf1 Hf2 Ho1 Ho2. unfold load_dyndep.
  destruct (check_stmts g [] stmts); [eauto|].
  destruct (load_edges g f stmts (out_edges g f) g) as [g1|] eqn:Hl; [|eauto].
  destruct (forallb _ stmts) eqn:Hu; [|eauto]. exfalso.
  rewrite forallb_forall in Hu.
  assert (Huse : forall i st, find_stmt g stmts i = Some st ->
                              In i (out_edges g f) /\ bound_to g f i = true).
  { intros i st Hf. destruct (find_stmt_some _ _ _ _ Hf) as [Hin Hk].
    specialize (Hu st Hin). split; [|eapply stmt_used_bound; eauto].
    unfold stmt_used in Hu. rewrite Hk in Hu. apply andb_true_iff in Hu.
    apply existsb_eqb_in. tauto. }
  destruct (Huse _ _ Hf1) as [Hi1 Hb1]. destruct (Huse _ _ Hf2) as [Hi2 Hb2].
  destruct (load_edges_twice g f stmts i1 i2 st1 st2 o (out_edges g f) g eq_refl Hne Hi1 Hi2 Hb1 Hb2 Hf1 Hf2 Ho1 Ho2) as [e He].
  congruence.
Qed.

(* ---------- the metamorphic statement WITHOUT its hypothesis is false of the real code ---------- *)
Definition C11_load_is_inline_full : Prop :=
  forall g f stmts g', load_dyndep g f stmts = Ok g' -> g' = inline_dyndep g stmts.

(* names: "out"=[111;117;116] "in"=[105;110] "dd"=[100;100] "other"=[111;116;104;101;114] "x"=[120] *)
Definition w_out : node := [111; 117; 116].
Definition w_in : node := [105; 110].
Definition w_dd : node := [100; 100].
Definition w_other : node := [111; 116; 104; 101; 114].
Definition w_x : node := [120].

(* witness 1 (restat leak of the OLD UpdateEdge, [load_dyndep_old]): "rule r {dyndep = dd};
   build out: r in | dd; build other: t" -- the bound edge has no scope of its own, "restat = 1" of
   the dyndep file landed in the file-level scope and the unrelated edge "other" became a restat
   edge.  Fixed in /repo ("fix: give an edge whose dyndep binding comes from its rule a scope of its own"). *)
Definition w_leak_graph : graph :=
  mkGraph [mkEdge [w_out] 0 [w_in; w_dd] 1 0 (Some w_dd) NoScope None;
           mkEdge [w_other] 0 [] 0 0 None NoScope None] None.
Definition w_leak_stmts : list dd_stmt := [mkStmt w_out [] [] true].

Lemma C11_old_load_refuted_restat_leak :
  exists g f stmts g', load_dyndep_old g f stmts = Ok g' /\ g' <> inline_dyndep g stmts /\
    (* observable: the restat flag of the edge the file does not mention *)
    exists e e', nth_error (g_edges g') 1 = Some e' /\ nth_error (g_edges (inline_dyndep g stmts)) 1 = Some e /\
                 edge_restat g' e' = true /\ edge_restat (inline_dyndep g stmts) e = false.
Proof.
  exists w_leak_graph, w_dd, w_leak_stmts.
  eexists. split; [vm_compute; reflexivity|]. split; [vm_compute; discriminate|].
  do 2 eexists. repeat split; vm_compute; reflexivity.
Qed.

(* the same scenario with the fixed code: the load is the inlined graph, "other" keeps restat = false *)
Lemma C11_restat_leak_fixed_on_witness :
  load_dyndep w_leak_graph w_dd w_leak_stmts = Ok (inline_dyndep w_leak_graph w_leak_stmts) /\
  exists e, nth_error (g_edges (inline_dyndep w_leak_graph w_leak_stmts)) 1 = Some e /\
            edge_restat (inline_dyndep w_leak_graph w_leak_stmts) e = false.
Proof. split; [vm_compute; reflexivity|]. eexists. split; vm_compute; reflexivity. Qed.

(* witness 2: the dyndep file listed twice among the inputs "build out: r dd dd": out_edges holds the
   edge twice, UpdateEdge runs twice, the implicit input is spliced in twice *)
Definition w_twice_graph : graph :=
  mkGraph [mkEdge [w_out] 0 [w_dd; w_dd] 0 0 (Some w_dd) (Scope None) None] None.
Definition w_twice_stmts : list dd_stmt := [mkStmt w_out [] [w_x] false].

Lemma C11_load_is_inline_refuted_listed_twice :
  exists g f stmts g', load_dyndep g f stmts = Ok g' /\ g' <> inline_dyndep g stmts.
Proof.
  exists w_twice_graph, w_dd, w_twice_stmts.
  eexists. split; [vm_compute; reflexivity|]. vm_compute; discriminate.
Qed.

(* ... and with an implicit OUTPUT the second run meets the producer set by the first: a file that
   is valid for the graph is rejected *)
Lemma C11_listed_twice_rejects_valid_file :
  load_dyndep w_twice_graph w_dd [mkStmt w_out [w_x] [] false] = Err E_multiple_rules.
Proof. vm_compute. reflexivity. Qed.

Theorem C11_load_is_inline_full_refuted : ~ C11_load_is_inline_full.
Proof.
  intros H. destruct C11_load_is_inline_refuted_listed_twice as [g [f [stmts [g' [Hl Hne]]]]].
  exact (Hne (H g f stmts g' Hl)).
Qed.

(** the fix, for all graphs and files: a load never touches the file-level scope (restat of the
    edges the file does not mention is what it was) *)
Lemma add_outs_file_restat : forall outs g i g2,
  add_outs g i outs = Ok g2 -> g_file_restat g2 = g_file_restat g.
Proof.
  induction outs as [|o outs IH]; intros g i g2; cbn [add_outs]; [now intros [= <-]|].
  destruct (producer g o); [discriminate|]. intros H. apply IH in H. exact H.
Qed.

Lemma update_edge_file_restat g i st g2 :
  update_edge g i st = Ok g2 -> g_file_restat g2 = g_file_restat g.
Proof.
  unfold update_edge. destruct (add_outs _ i _) as [g3|] eqn:Ha; [|discriminate]. intros [= <-].
  cbn [g_file_restat]. rewrite (add_outs_file_restat _ _ _ _ Ha). now destruct (dd_restat st).
Qed.

Lemma load_edges_file_restat g0 f stmts : forall oe g g',
  load_edges g0 f stmts oe g = Ok g' -> g_file_restat g' = g_file_restat g.
Proof.
  induction oe as [|j oe IH]; intros g g'; cbn [load_edges]; [now intros [= <-]|].
  destruct (negb (bound_to g0 f j)); [apply IH|].
  destruct (find_stmt g0 stmts j) as [sj|]; [|discriminate].
  destruct (update_edge g j sj) as [g1|] eqn:Hu; [|discriminate].
  intros H. apply IH in H. rewrite H. eapply update_edge_file_restat; eauto.
Qed.

Theorem C11_load_keeps_file_scope_proof : forall g f stmts g',
  load_dyndep g f stmts = Ok g' -> g_file_restat g' = g_file_restat g.
Proof.
  intros g f stmts g'. unfold load_dyndep. destruct (check_stmts g [] stmts); [discriminate|].
  destruct (load_edges g f stmts (out_edges g f) g) as [g1|] eqn:Hl; [|discriminate].
  destruct (forallb _ stmts); [|discriminate]. intros [= <-].
  eapply load_edges_file_restat; eauto.
Qed.

(* ========================================================================================== *)
(** * Part 2: the lexer never looks past the NUL sentinel, the parser loops never run out of
      fuel (C13), and every accepted file ends with a newline (C11 truncation) *)

Definition nonul (c : bytes) : Prop := ~ In 0 c.
Definition okerr (e : dd_err) : Prop := e <> E_overrun /\ e <> E_fuel.

(* [s = c ++ r]: the scanner consumed [c] (no NUL in it) and [P c] *)
Definition advP (P : bytes -> Prop) (s r : bytes) : Prop := exists c, s = c ++ r /\ nonul c /\ P c.
Definition p_any (c : bytes) : Prop := True.
Definition p_ne (c : bytes) : Prop := c <> [].
Definition p_nl (c : bytes) : Prop := exists c', c = c' ++ [10].
Definition p_bol (c : bytes) : Prop := c = [] \/ p_nl c.

Lemma nonul_app a b : nonul a -> nonul b -> nonul (a ++ b).
Proof. unfold nonul. intros Ha Hb H. apply in_app_or in H. tauto. Qed.

Lemma advP_comp (P Q R : bytes -> Prop) s m r :
  advP P s m -> advP Q m r -> (forall a b, P a -> Q b -> R (a ++ b)) -> advP R s r.
Proof.
  intros [a [-> [Ha HP]]] [b [-> [Hb HQ]]] H. exists (a ++ b).
  split; [now rewrite app_assoc|]. split; [now apply nonul_app|auto].
Qed.

Lemma advP_weaken (P Q : bytes -> Prop) s r : advP P s r -> (forall c, P c -> Q c) -> advP Q s r.
Proof. intros [c [-> [Hc HP]]] H. exists c; auto. Qed.

Lemma advP_refl (P : bytes -> Prop) s : P [] -> advP P s s.
Proof. intros H. exists []. split; [reflexivity|]. split; [intros []|exact H]. Qed.

Lemma advP_nul P s r : advP P s r -> In 0 s -> In 0 r.
Proof. intros [c [-> [Hc _]]] H. apply in_app_or in H. destruct H; [contradiction|assumption]. Qed.

Lemma advP_len P s r : advP P s r -> (length r <= length s)%nat.
Proof. intros [c [-> _]]. rewrite app_length. lia. Qed.

Lemma advP_len_ne s r : advP p_ne s r -> (length r < length s)%nat.
Proof. intros [c [-> [_ Hne]]]. rewrite app_length. destruct c; [congruence|cbn [length]; lia]. Qed.

Lemma p_nl_ne c : p_nl c -> p_ne c.
Proof. intros [c' ->] H. destruct c'; discriminate. Qed.
Lemma p_nl_app_r a b : p_nl b -> p_nl (a ++ b).
Proof. intros [c' ->]. exists (a ++ c'). now rewrite app_assoc. Qed.
Lemma p_ne_app_l a b : p_ne a -> p_ne (a ++ b).
Proof. unfold p_ne. intros H E. apply app_eq_nil in E. tauto. Qed.
Lemma p_ne_app_r a b : p_ne b -> p_ne (a ++ b).
Proof. unfold p_ne. intros H E. apply app_eq_nil in E. tauto. Qed.
Lemma p_nl_bol a b : p_nl a -> p_bol b -> p_nl (a ++ b).
Proof. intros Ha [->|Hb]; [now rewrite app_nil_r|now apply p_nl_app_r]. Qed.
Lemma p_bol_bol a b : p_bol a -> p_bol b -> p_bol (a ++ b).
Proof.
  intros [->|Ha] Hb; [exact Hb|]. right. now apply p_nl_bol.
Qed.

Lemma in_nul_tail (c : byte) s : In 0 (c :: s) -> c <> 0 -> In 0 s.
Proof. intros [H|H] Hc; [congruence|exact H]. Qed.

Lemma nonul_cons (c : byte) s : c <> 0 -> nonul s -> nonul (c :: s).
Proof. intros Hc Hs [H|H]; [congruence|contradiction]. Qed.
Lemma nonul_nil : nonul [].
Proof. intros []. Qed.

(* ---------- EatWhitespace ---------- *)
Lemma eat_ws_spec : forall s, In 0 s -> exists r, eat_ws s = Ok r /\ advP p_any s r.
Proof.
  intros s. induction s as [s IH] using (induction_ltof1 _ (@length byte)). unfold ltof in IH.
  intros Hn. destruct s as [|c s1]; [destruct Hn|]. cbn [eat_ws].
  destruct (N.eqb_spec c 32) as [->|H32].
  { destruct (IH s1) as [r [He Ha]]; [cbn [length]; lia|apply (in_nul_tail 32); [exact Hn|discriminate]|].
    exists r. split; [exact He|]. destruct Ha as [c0 [-> [Hc _]]]. exists (32 :: c0).
    split; [reflexivity|]. split; [apply nonul_cons; [discriminate|exact Hc]|exact I]. }
  destruct (N.eqb_spec c 36) as [->|H36]; [|exists (c :: s1); split; [reflexivity|apply advP_refl; exact I]].
  assert (Hn1 : In 0 s1) by (apply (in_nul_tail 36); [exact Hn|discriminate]).
  destruct s1 as [|d s2]; [destruct Hn1|].
  destruct (N.eqb_spec d 10) as [->|H10].
  { destruct (IH s2) as [r [He Ha]]; [cbn [length]; lia|apply (in_nul_tail 10); [exact Hn1|discriminate]|].
    exists r. split; [exact He|]. destruct Ha as [c0 [-> [Hc _]]]. exists (36 :: 10 :: c0).
    split; [reflexivity|]. split; [repeat apply nonul_cons; try discriminate; exact Hc|exact I]. }
  destruct (N.eqb_spec d 13) as [->|H13]; [|eexists; split; [reflexivity|apply advP_refl; exact I]].
  assert (Hn2 : In 0 s2) by (apply (in_nul_tail 13); [exact Hn1|discriminate]).
  destruct s2 as [|e s3]; [destruct Hn2|].
  destruct (N.eqb_spec e 10) as [->|He10]; [|eexists; split; [reflexivity|apply advP_refl; exact I]].
  destruct (IH s3) as [r [He Ha]]; [cbn [length]; lia|apply (in_nul_tail 10); [exact Hn2|discriminate]|].
  exists r. split; [exact He|]. destruct Ha as [c0 [-> [Hc _]]]. exists (36 :: 13 :: 10 :: c0).
  split; [reflexivity|]. split; [repeat apply nonul_cons; try discriminate; exact Hc|exact I].
Qed.

(* ---------- span_varname ---------- *)
Lemma varname_char_not_nul c : is_varname_char c = true -> c <> 0.
Proof. intros H ->. vm_compute in H. discriminate. Qed.
Lemma simple_varname_char_not_nul c : is_simple_varname_char c = true -> c <> 0.
Proof. intros H ->. vm_compute in H. discriminate. Qed.

Lemma span_varname_spec : forall s, In 0 s ->
  exists w r, span_varname s = Ok (w, r) /\ s = w ++ r /\ nonul w /\ In 0 r.
Proof.
  induction s as [|c s IH]; intros Hn; [destruct Hn|]. cbn [span_varname].
  destruct (is_varname_char c) eqn:Hv.
  - pose proof (varname_char_not_nul c Hv) as Hc.
    destruct (IH (in_nul_tail c s Hn Hc)) as [w [r [He [-> [Hw Hr]]]]]. rewrite He.
    exists (c :: w), r. repeat split; auto. now apply nonul_cons.
  - exists [], (c :: s). repeat split; auto. apply nonul_nil.
Qed.

(* ---------- ReadToken ---------- *)
Lemma keyword_or_ident_cases w :
  keyword_or_ident w <> T_TEOF /\ keyword_or_ident w <> T_NEWLINE /\ keyword_or_ident w <> T_ERROR /\
  keyword_or_ident w <> T_INDENT /\ keyword_or_ident w <> T_PIPE /\ keyword_or_ident w <> T_PIPE2 /\
  keyword_or_ident w <> T_COLON /\ keyword_or_ident w <> T_EQUALS /\ keyword_or_ident w <> T_PIPEAT.
Proof.
  unfold keyword_or_ident.
  destruct (bytes_eqb w s_build); [repeat split; discriminate|].
  destruct (bytes_eqb w s_pool); [repeat split; discriminate|].
  destruct (bytes_eqb w s_rule); [repeat split; discriminate|].
  destruct (bytes_eqb w s_default); [repeat split; discriminate|].
  destruct (bytes_eqb w s_include); [repeat split; discriminate|].
  destruct (bytes_eqb w s_subninja); repeat split; discriminate.
Qed.

Lemma advP_cons1 (c : byte) s : c <> 0 -> advP p_ne (c :: s) s.
Proof.
  intros Hc. exists [c]. split; [reflexivity|]. split; [apply nonul_cons; [exact Hc|apply nonul_nil]|discriminate].
Qed.

Lemma scan_plain_spec c s' : In 0 (c :: s') ->
  exists t r, scan_plain c s' = Ok (t, r) /\
    (t = T_TEOF -> c = 0 /\ r = s') /\ t <> T_NEWLINE /\
    (t <> T_TEOF -> advP p_ne (c :: s') r /\ In 0 r).
Proof.
  intros Hn. unfold scan_plain.
  destruct (is_varname_char c) eqn:Hv.
  { pose proof (varname_char_not_nul c Hv) as Hc.
    destruct (span_varname_spec s' (in_nul_tail c s' Hn Hc)) as [w [r [He [-> [Hw Hr]]]]].
    rewrite He. exists (keyword_or_ident (c :: w)), r.
    destruct (keyword_or_ident_cases (c :: w)) as [H1 [H2 _]].
    split; [reflexivity|]. split; [intros; contradiction|]. split; [exact H2|]. intros _. split; [|exact Hr].
    exists (c :: w). split; [reflexivity|]. split; [now apply nonul_cons|discriminate]. }
  destruct (N.eqb_spec c 61) as [->|H61].
  { exists T_EQUALS, s'. split; [reflexivity|]. split; [discriminate|]. split; [discriminate|].
    intros _. split; [apply advP_cons1; discriminate|apply (in_nul_tail 61); [exact Hn|discriminate]]. }
  destruct (N.eqb_spec c 58) as [->|H58].
  { exists T_COLON, s'. split; [reflexivity|]. split; [discriminate|]. split; [discriminate|].
    intros _. split; [apply advP_cons1; discriminate|apply (in_nul_tail 58); [exact Hn|discriminate]]. }
  destruct (N.eqb_spec c 124) as [->|H124].
  { assert (Hn1 : In 0 s') by (apply (in_nul_tail 124); [exact Hn|discriminate]).
    destruct s' as [|d s'']; [destruct Hn1|].
    destruct (N.eqb_spec d 64) as [->|H64].
    { exists T_PIPEAT, s''. split; [reflexivity|]. split; [discriminate|]. split; [discriminate|].
      intros _. split; [|apply (in_nul_tail 64); [exact Hn1|discriminate]].
      exists [124; 64]. split; [reflexivity|]. split; [repeat apply nonul_cons; try discriminate; apply nonul_nil|discriminate]. }
    destruct (N.eqb_spec d 124) as [->|Hd].
    { exists T_PIPE2, s''. split; [reflexivity|]. split; [discriminate|]. split; [discriminate|].
      intros _. split; [|apply (in_nul_tail 124); [exact Hn1|discriminate]].
      exists [124; 124]. split; [reflexivity|]. split; [repeat apply nonul_cons; try discriminate; apply nonul_nil|discriminate]. }
    exists T_PIPE, (d :: s''). split; [reflexivity|]. split; [discriminate|]. split; [discriminate|].
    intros _. split; [apply advP_cons1; discriminate|exact Hn1]. }
  destruct (N.eqb_spec c 0) as [->|H0].
  { exists T_TEOF, s'. split; [reflexivity|]. split; [auto|]. split; [discriminate|]. intros H; contradiction. }
  exists T_ERROR, s'. split; [reflexivity|]. split; [discriminate|]. split; [discriminate|].
  intros _. split; [apply advP_cons1; exact H0|apply (in_nul_tail c); assumption].
Qed.

Definition is_nil {A} (l : list A) : bool := match l with [] => true | _ => false end.
Definition spaces (q : bytes) : Prop := Forall (eq 32) q.

Lemma spaces_nonul q : spaces q -> nonul q.
Proof. intros H Hin. unfold spaces in H. rewrite Forall_forall in H. apply H in Hin. discriminate. Qed.

Definition tok_post (st : bytes) (t : token) (st' r : bytes) : Prop :=
  advP p_bol st st' /\ In 0 st' /\
  (t = T_TEOF -> st' = 0 :: r) /\
  (t = T_NEWLINE -> advP p_nl st' r) /\
  (t <> T_TEOF -> advP p_ne st' r /\ In 0 r).

Definition aux_inv (s st : bytes) (sp : bool) (m : rtmode) : Prop :=
  match m with
  | RT_spaces => exists q, st = q ++ s /\ spaces q /\ sp = negb (is_nil q)
  | RT_comment hr => exists q b, st = q ++ hr /\ spaces q /\ sp = negb (is_nil q) /\
                                 hr = 35 :: b ++ s /\ nonul b
  end.

Lemma tok_fallback c s' st q sp :
  In 0 (c :: s') -> st = q ++ c :: s' -> spaces q -> sp = negb (is_nil q) ->
  exists t st' r,
    (if sp then Ok (T_INDENT, st, c :: s')
     else match scan_plain c s' with Ok (t, r) => Ok (t, st, r) | Err e => Err e end) = Ok (t, st', r)
    /\ tok_post st t st' r.
Proof.
  intros Hn Hst Hq Hsp.
  assert (Hnst : In 0 st) by (rewrite Hst; apply in_or_app; now right).
  destruct q as [|x q]; cbn [is_nil negb] in Hsp; subst sp.
  - cbn [app] in Hst. subst st.
    destruct (scan_plain_spec c s' Hn) as [t [r [He [Ht [Hnl Hadv]]]]]. rewrite He.
    exists t, (c :: s'), r. split; [reflexivity|].
    split; [apply advP_refl; now left|]. split; [exact Hn|].
    split; [intros E; destruct (Ht E) as [-> ->]; reflexivity|].
    split; [intros E; contradiction|exact Hadv].
  - exists T_INDENT, st, (c :: s'). split; [reflexivity|].
    split; [apply advP_refl; now left|]. split; [exact Hnst|].
    split; [discriminate|]. split; [discriminate|]. intros _. split; [|exact Hn].
    exists (x :: q). split; [exact Hst|]. split; [now apply spaces_nonul|discriminate].
Qed.

Lemma read_token_aux_spec : forall s st sp m, In 0 s -> aux_inv s st sp m ->
  exists t st' r, read_token_aux s st sp m = Ok (t, st', r) /\ tok_post st t st' r.
Proof.
  induction s as [|c s' IH]; intros st sp m Hn Hinv; [destruct Hn|].
  destruct m as [|hr]; cbn [read_token_aux aux_inv] in *.
  - destruct Hinv as [q [Hst [Hq Hsp]]].
    destruct (N.eqb_spec c 32) as [->|H32].
    { apply IH; [apply (in_nul_tail 32); [exact Hn|discriminate]|].
      cbn [aux_inv]. exists (q ++ [32]). split; [rewrite Hst, <- app_assoc; reflexivity|].
      split; [apply Forall_app; split; [exact Hq|repeat constructor]|].
      destruct q; reflexivity. }
    destruct (N.eqb_spec c 35) as [->|H35].
    { apply IH; [apply (in_nul_tail 35); [exact Hn|discriminate]|].
      cbn [aux_inv]. exists q, []. repeat split; auto. apply nonul_nil. }
    destruct (N.eqb_spec c 10) as [->|H10].
    { exists T_NEWLINE, st, s'. split; [reflexivity|].
      assert (Hn' : In 0 s') by (apply (in_nul_tail 10); [exact Hn|discriminate]).
      assert (Ha : advP p_nl st s').
      { exists (q ++ [10]). split; [rewrite Hst, <- app_assoc; reflexivity|].
        split; [apply nonul_app; [now apply spaces_nonul|apply nonul_cons; [discriminate|apply nonul_nil]]|now exists q]. }
      split; [apply advP_refl; now left|]. split; [rewrite Hst; apply in_or_app; now right|].
      split; [discriminate|]. split; [intros _; exact Ha|].
      intros _. split; [eapply advP_weaken; [exact Ha|apply p_nl_ne]|exact Hn']. }
    destruct (N.eqb_spec c 13) as [->|H13]; [|now apply (tok_fallback c s' st q sp)].
    assert (Hn1 : In 0 s') by (apply (in_nul_tail 13); [exact Hn|discriminate]).
    destruct s' as [|d s'']; [destruct Hn1|].
    destruct (N.eqb_spec d 10) as [->|Hd]; [|now apply (tok_fallback 13 (d :: s'') st q sp)].
    exists T_NEWLINE, st, s''. split; [reflexivity|].
    assert (Hn' : In 0 s'') by (apply (in_nul_tail 10); [exact Hn1|discriminate]).
    assert (Ha : advP p_nl st s'').
    { exists (q ++ [13; 10]). split; [rewrite Hst, <- app_assoc; reflexivity|].
      split; [apply nonul_app; [now apply spaces_nonul|repeat apply nonul_cons; try discriminate; apply nonul_nil]|].
      exists (q ++ [13]). rewrite <- app_assoc. reflexivity. }
    split; [apply advP_refl; now left|]. split; [rewrite Hst; apply in_or_app; now right|].
    split; [discriminate|]. split; [intros _; exact Ha|].
    intros _. split; [eapply advP_weaken; [exact Ha|apply p_nl_ne]|exact Hn'].
  - destruct Hinv as [q [b [Hst [Hq [Hsp [Hhr Hb]]]]]].
    destruct (N.eqb_spec c 10) as [->|H10].
    { assert (Hn' : In 0 s') by (apply (in_nul_tail 10); [exact Hn|discriminate]).
      destruct (IH s' false RT_spaces Hn') as [t [st' [r [He Hp]]]].
      { cbn [aux_inv]. exists []. repeat split. constructor. }
      exists t, st', r. split; [exact He|].
      destruct Hp as [H1 [H2 [H3 [H4 H5]]]]. split; [|repeat split; auto; apply H5; auto].
      eapply advP_comp; [|exact H1|apply p_bol_bol].
      exists (q ++ 35 :: b ++ [10]). split.
      { rewrite Hst, Hhr. rewrite <- !app_assoc. cbn [app]. rewrite <- app_assoc. reflexivity. }
      split.
      { apply nonul_app; [now apply spaces_nonul|]. apply nonul_cons; [discriminate|].
        apply nonul_app; [exact Hb|apply nonul_cons; [discriminate|apply nonul_nil]]. }
      right. exists (q ++ 35 :: b). rewrite <- app_assoc. reflexivity. }
    destruct (N.eqb_spec c 0) as [->|H0].
    { assert (Hnhr : In 0 hr) by (rewrite Hhr; right; apply in_or_app; right; now left).
      assert (Hnst : In 0 st) by (rewrite Hst; apply in_or_app; now right).
      destruct q as [|x q]; cbn [is_nil negb] in Hsp; subst sp.
      - cbn [app] in Hst. subst st. exists T_ERROR, hr, (tl hr). split; [reflexivity|].
        split; [apply advP_refl; now left|]. split; [exact Hnhr|].
        split; [discriminate|]. split; [discriminate|]. intros _. rewrite Hhr. cbn [tl].
        split; [apply advP_cons1; discriminate|apply in_or_app; right; now left].
      - exists T_INDENT, st, hr. split; [reflexivity|].
        split; [apply advP_refl; now left|]. split; [exact Hnst|].
        split; [discriminate|]. split; [discriminate|]. intros _. split; [|exact Hnhr].
        exists (x :: q). split; [exact Hst|]. split; [now apply spaces_nonul|discriminate]. }
    apply IH; [apply (in_nul_tail c); assumption|].
    cbn [aux_inv]. exists q, (b ++ [c]). repeat split; auto.
    + rewrite Hhr, <- app_assoc. reflexivity.
    + apply nonul_app; [exact Hb|apply nonul_cons; [exact H0|apply nonul_nil]].
Qed.

Lemma read_token_spec s : In 0 s ->
  exists t st r, read_token s = Ok (t, st, r) /\ tok_post s t st r.
Proof.
  intros Hn. unfold read_token.
  destruct (read_token_aux_spec s s false RT_spaces Hn) as [t [st [r0 [He Hp]]]].
  { cbn [aux_inv]. exists []. repeat split. constructor. }
  rewrite He. destruct Hp as [H1 [H2 [H3 [H4 H5]]]].
  assert (Hdone : exists t' st' r', Ok (t, st, r0) = Ok (t', st', r') /\ tok_post s t' st' r').
  { exists t, st, r0. split; [reflexivity|]. repeat split; auto; apply H5; auto. }
  assert (Hws : t <> T_TEOF -> t <> T_NEWLINE ->
          exists t' st' r', match eat_ws r0 with Ok r' => Ok (t, st, r') | Err e => Err e end = Ok (t', st', r')
                            /\ tok_post s t' st' r').
  { intros Ht Hnl. destruct (H5 Ht) as [Ha Hr0].
    destruct (eat_ws_spec r0 Hr0) as [r [Hw Haw]]. rewrite Hw.
    exists t, st, r. split; [reflexivity|]. split; [exact H1|]. split; [exact H2|].
    split; [intros; contradiction|]. split; [intros; contradiction|]. intros _.
    split; [|eapply advP_nul; eauto].
    eapply advP_comp; [exact Ha|exact Haw|]. intros a b Hne _. now apply p_ne_app_l. }
  destruct t; try exact Hdone; apply Hws; discriminate.
Qed.

(* ---------- ReadEvalString ---------- *)
Lemma ckind_of_spec c :
  match ckind_of c with
  | K_dollar => c = 36 | K_space => c = 32 | K_colon => c = 58 | K_pipe => c = 124
  | K_cr => c = 13 | K_lf => c = 10 | K_nul => c = 0
  | K_text => c <> 36 /\ c <> 32 /\ c <> 58 /\ c <> 124 /\ c <> 13 /\ c <> 10 /\ c <> 0
  end.
Proof.
  unfold ckind_of.
  destruct (N.eqb_spec c 36) as [->|H1]; [reflexivity|].
  destruct (N.eqb_spec c 32) as [->|H2]; [reflexivity|].
  destruct (N.eqb_spec c 58) as [->|H3]; [reflexivity|].
  destruct (N.eqb_spec c 124) as [->|H4]; [reflexivity|].
  destruct (N.eqb_spec c 13) as [->|H5]; [reflexivity|].
  destruct (N.eqb_spec c 10) as [->|H6]; [reflexivity|].
  destruct (N.eqb_spec c 0) as [->|H7]; [reflexivity|].
  repeat split; assumption.
Qed.

Definition ev_res := result (bytes * bool * bytes).

(* the [normal] part of one step of read_eval, the recursive calls abstracted *)
Definition ev_normal (rec : bytes -> evmode -> bytes -> bool -> ev_res)
           (path : bool) (c : byte) (s' : bytes) (acc : bytes) (ne : bool) : ev_res :=
  match ckind_of c with
  | K_text => rec s' EM_normal (c :: acc) true
  | K_nul => Err E_unexpected_eof
  | K_cr =>
    match s' with
    | [] => Err E_overrun
    | d :: s'' => if N.eqb d 10 then Ok (rev acc, ne, if path then c :: s' else s'')
                  else Err E_lexing
    end
  | K_lf => Ok (rev acc, ne, if path then c :: s' else s')
  | K_space | K_colon | K_pipe =>
    if path then Ok (rev acc, ne, c :: s') else rec s' EM_normal (c :: acc) true
  | K_dollar =>
    match s' with
    | [] => Err E_overrun
    | d :: s'' =>
      if N.eqb d 36 then rec s'' EM_normal (36 :: acc) true
      else if N.eqb d 32 then rec s'' EM_normal (32 :: acc) true
      else if N.eqb d 58 then rec s'' EM_normal (58 :: acc) true
      else if N.eqb d 10 then rec s'' EM_skipsp acc ne
      else if N.eqb d 13 then
        match s'' with
        | [] => Err E_overrun
        | e :: s3 => if N.eqb e 10 then rec s3 EM_skipsp acc ne else Err E_bad_escape
        end
      else if N.eqb d 123 then rec s'' (EM_brace false) acc ne
      else if N.eqb d 94 then Err E_newline_version
      else if is_simple_varname_char d then rec s'' EM_simple acc true
      else Err E_bad_escape
    end
  end.

Lemma read_eval_unfold path c s' m acc ne :
  read_eval path (c :: s') m acc ne =
  match m with
  | EM_normal => ev_normal (read_eval path) path c s' acc ne
  | EM_skipsp => if N.eqb c 32 then read_eval path s' EM_skipsp acc ne
                 else ev_normal (read_eval path) path c s' acc ne
  | EM_simple => if is_simple_varname_char c then read_eval path s' EM_simple acc ne
                 else ev_normal (read_eval path) path c s' acc ne
  | EM_brace b =>
    if is_varname_char c then read_eval path s' (EM_brace true) acc ne
    else if N.eqb c 125 && b then read_eval path s' EM_normal acc true
    else Err E_bad_escape
  end.
Proof. destruct m; reflexivity. Qed.

Definition ev_post (path : bool) (s : bytes) (ne : bool) (res : ev_res) : Prop :=
  match res with
  | Err e => okerr e
  | Ok (t, ne', r) =>
    In 0 r /\ exists c, s = c ++ r /\ nonul c /\ (ne' = true -> ne = true \/ c <> []) /\
                        (path = false -> p_nl c)
  end.

Lemma ev_post_prepend path pre s2 ne ne2 res :
  nonul pre -> pre <> [] -> ev_post path s2 ne2 res -> ev_post path (pre ++ s2) ne res.
Proof.
  intros Hp Hne. destruct res as [[[t ne'] r]|e]; cbn [ev_post]; [|auto].
  intros [Hr [c [-> [Hc [_ Hnl]]]]]. split; [exact Hr|].
  exists (pre ++ c). split; [now rewrite app_assoc|]. split; [now apply nonul_app|].
  split; [intros _; right; intros E; apply app_eq_nil in E; tauto|].
  intros Hpf. apply p_nl_app_r. auto.
Qed.

Lemma okerr_simple e :
  match e with E_overrun | E_fuel => False | _ => True end -> okerr e.
Proof. intros H. split; intros ->; exact H. Qed.

Lemma ev_normal_spec path c s' acc ne :
  In 0 (c :: s') ->
  (forall s2 m2 acc2 ne2, (length s2 < length (c :: s'))%nat -> In 0 s2 ->
                          ev_post path s2 ne2 (read_eval path s2 m2 acc2 ne2)) ->
  ev_post path (c :: s') ne (ev_normal (read_eval path) path c s' acc ne).
Proof.
  intros Hn IH. unfold ev_normal.
  assert (Hstop : path = true -> ev_post path (c :: s') ne (Ok (rev acc, ne, c :: s'))).
  { intros Hp. cbn [ev_post]. split; [exact Hn|]. exists []. split; [reflexivity|]. split; [apply nonul_nil|].
    split; [intros ->; now left|congruence]. }
  assert (Hrec1 : forall m2 acc2 ne2, c <> 0 ->
             ev_post path (c :: s') ne (read_eval path s' m2 acc2 ne2)).
  { intros m2 acc2 ne2 Hc. apply (ev_post_prepend path [c] s' ne ne2).
    - apply nonul_cons; [exact Hc|apply nonul_nil].
    - discriminate.
    - apply IH; [cbn [length]; lia|apply (in_nul_tail c); assumption]. }
  pose proof (ckind_of_spec c) as Hk.
  destruct (ckind_of c).
  - (* text *) apply Hrec1. tauto.
  - (* dollar *) subst c.
    assert (Hn1 : In 0 s') by (apply (in_nul_tail 36); [exact Hn|discriminate]).
    destruct s' as [|d s'']; [destruct Hn1|].
    assert (Hrec2 : forall m2 acc2 ne2, d <> 0 ->
               ev_post path (36 :: d :: s'') ne (read_eval path s'' m2 acc2 ne2)).
    { intros m2 acc2 ne2 Hd. apply (ev_post_prepend path [36; d] s'' ne ne2).
      - repeat apply nonul_cons; try discriminate; [exact Hd|apply nonul_nil].
      - discriminate.
      - apply IH; [cbn [length]; lia|apply (in_nul_tail d); assumption]. }
    destruct (N.eqb_spec d 36) as [->|H1]; [apply Hrec2; discriminate|].
    destruct (N.eqb_spec d 32) as [->|H2]; [apply Hrec2; discriminate|].
    destruct (N.eqb_spec d 58) as [->|H3]; [apply Hrec2; discriminate|].
    destruct (N.eqb_spec d 10) as [->|H4]; [apply Hrec2; discriminate|].
    destruct (N.eqb_spec d 13) as [->|H5].
    { assert (Hn2 : In 0 s'') by (apply (in_nul_tail 13); [exact Hn1|discriminate]).
      destruct s'' as [|e s3]; [destruct Hn2|].
      destruct (N.eqb_spec e 10) as [->|H6]; [|apply okerr_simple; exact I].
      apply (ev_post_prepend path [36; 13; 10] s3 ne ne).
      - repeat apply nonul_cons; try discriminate; apply nonul_nil.
      - discriminate.
      - apply IH; [cbn [length]; lia|apply (in_nul_tail 10); [exact Hn2|discriminate]]. }
    destruct (N.eqb_spec d 123) as [->|H7]; [apply Hrec2; discriminate|].
    destruct (N.eqb_spec d 94) as [->|H8]; [apply okerr_simple; exact I|].
    destruct (is_simple_varname_char d) eqn:Hs; [|apply okerr_simple; exact I].
    apply Hrec2. now apply simple_varname_char_not_nul.
  - (* space *) subst c. destruct path; [apply Hstop; reflexivity|apply Hrec1; discriminate].
  - (* colon *) subst c. destruct path; [apply Hstop; reflexivity|apply Hrec1; discriminate].
  - (* pipe *) subst c. destruct path; [apply Hstop; reflexivity|apply Hrec1; discriminate].
  - (* cr *) subst c.
    assert (Hn1 : In 0 s') by (apply (in_nul_tail 13); [exact Hn|discriminate]).
    destruct s' as [|d s'']; [destruct Hn1|].
    destruct (N.eqb_spec d 10) as [->|Hd]; [|apply okerr_simple; exact I].
    destruct path; [apply Hstop; reflexivity|].
    cbn [ev_post]. split; [apply (in_nul_tail 10); [exact Hn1|discriminate]|].
    exists [13; 10]. split; [reflexivity|].
    split; [repeat apply nonul_cons; try discriminate; apply nonul_nil|].
    split; [intros _; right; discriminate|]. intros _. now exists [13].
  - (* lf *) subst c. destruct path; [apply Hstop; reflexivity|].
    cbn [ev_post]. split; [apply (in_nul_tail 10); [exact Hn|discriminate]|].
    exists [10]. split; [reflexivity|].
    split; [apply nonul_cons; [discriminate|apply nonul_nil]|].
    split; [intros _; right; discriminate|]. intros _. now exists [].
  - (* nul *) apply okerr_simple. exact I.
Qed.

Lemma read_eval_spec path : forall s m acc ne,
  In 0 s -> ev_post path s ne (read_eval path s m acc ne).
Proof.
  intros s. induction s as [s IH] using (induction_ltof1 _ (@length byte)). unfold ltof in IH.
  intros m acc ne Hn. destruct s as [|c s']; [destruct Hn|].
  assert (IH' : forall s2 m2 acc2 ne2, (length s2 < length (c :: s'))%nat -> In 0 s2 ->
                                       ev_post path s2 ne2 (read_eval path s2 m2 acc2 ne2)).
  { intros s2 m2 acc2 ne2 Hl Hn2. now apply IH. }
  pose proof (ev_normal_spec path c s' acc ne Hn IH') as Hnorm.
  assert (Hrec1 : forall m2 acc2 ne2, c <> 0 ->
             ev_post path (c :: s') ne (read_eval path s' m2 acc2 ne2)).
  { intros m2 acc2 ne2 Hc. apply (ev_post_prepend path [c] s' ne ne2).
    - apply nonul_cons; [exact Hc|apply nonul_nil].
    - discriminate.
    - apply IH'; [cbn [length]; apply Nat.lt_succ_diag_r|apply (in_nul_tail c); assumption]. }
  rewrite read_eval_unfold. destruct m as [| | |b].
  - exact Hnorm.
  - destruct (N.eqb_spec c 32) as [->|H]; [apply Hrec1; discriminate|exact Hnorm].
  - destruct (is_simple_varname_char c) eqn:Hs; [|exact Hnorm].
    apply Hrec1. now apply simple_varname_char_not_nul.
  - destruct (is_varname_char c) eqn:Hv; [apply Hrec1; now apply varname_char_not_nul|].
    destruct (N.eqb_spec c 125) as [->|H]; cbn [andb]; [|apply okerr_simple; exact I].
    destruct b; [apply Hrec1; discriminate|apply okerr_simple; exact I].
Qed.

(* ---------- the parser's building blocks ---------- *)
Definition res_post {A} (r : result A) (Q : A -> Prop) : Prop :=
  match r with Err e => okerr e | Ok a => Q a end.

Lemma token_eqb_eq a b : token_eqb a b = true -> a = b.
Proof. destruct a, b; cbn [token_eqb]; intros H; try discriminate; reflexivity. Qed.

Lemma any_comp (P Q : bytes -> Prop) s m r : advP P s m -> advP Q m r -> advP p_any s r.
Proof. intros H1 H2. eapply advP_comp; eauto. intros; exact I. Qed.

Lemma read_path_spec s : In 0 s ->
  res_post (read_path s) (fun '(t, ne, r) => In 0 r /\ advP (fun c => ne = true -> c <> []) s r).
Proof.
  intros Hn. unfold read_path.
  pose proof (read_eval_spec true s EM_normal [] false Hn) as H.
  destruct (read_eval true s EM_normal [] false) as [[[t ne] r0]|e]; [|exact H].
  cbn [ev_post] in H. destruct H as [Hr0 [c [-> [Hc [Hne _]]]]].
  destruct (eat_ws_spec r0 Hr0) as [r [Hw Ha]]. rewrite Hw. cbn [res_post].
  split; [eapply advP_nul; eauto|].
  destruct Ha as [c2 [-> [Hc2 _]]]. exists (c ++ c2).
  split; [now rewrite app_assoc|]. split; [now apply nonul_app|].
  intros E. destruct (Hne E) as [H|H]; [discriminate|]. intros E2. apply app_eq_nil in E2. tauto.
Qed.

Lemma read_var_value_spec s : In 0 s ->
  res_post (read_var_value s) (fun '(t, ne, r) => In 0 r /\ advP p_nl s r).
Proof.
  intros Hn. unfold read_var_value.
  pose proof (read_eval_spec false s EM_normal [] false Hn) as H.
  destruct (read_eval false s EM_normal [] false) as [[[t ne] r]|e]; [|exact H].
  cbn [ev_post res_post] in *. destruct H as [Hr [c [-> [Hc [_ Hnl]]]]].
  split; [exact Hr|]. exists c. auto.
Qed.

Lemma read_ident_spec s : In 0 s ->
  res_post (read_ident s) (fun o => match o with
                                    | None => True
                                    | Some (w, r) => In 0 r /\ advP p_ne s r
                                    end).
Proof.
  intros Hn. unfold read_ident. destruct s as [|c s']; [destruct Hn|].
  destruct (is_varname_char c) eqn:Hv; [|exact I].
  pose proof (varname_char_not_nul c Hv) as Hc.
  destruct (span_varname_spec s' (in_nul_tail c s' Hn Hc)) as [w [r0 [He [-> [Hw Hr0]]]]].
  rewrite He. destruct (eat_ws_spec r0 Hr0) as [r [Hws Ha]]. rewrite Hws. cbn [res_post].
  split; [eapply advP_nul; eauto|].
  eapply advP_comp; [|exact Ha|intros a b H _; apply p_ne_app_l; exact H].
  exists (c :: w). split; [reflexivity|]. split; [now apply nonul_cons|discriminate].
Qed.

Lemma expect_token_spec want s : want <> T_TEOF -> In 0 s ->
  res_post (expect_token want s)
           (fun r => In 0 r /\ advP p_ne s r /\ (want = T_NEWLINE -> advP p_nl s r)).
Proof.
  intros Hw Hn. unfold expect_token.
  destruct (read_token_spec s Hn) as [t [st [r [He Hp]]]]. rewrite He.
  destruct Hp as [H1 [H2 [H3 [H4 H5]]]].
  destruct (token_eqb t want) eqn:Ht; [|apply okerr_simple; exact I].
  apply token_eqb_eq in Ht. subst t. cbn [res_post].
  destruct (H5 Hw) as [Ha Hr]. split; [exact Hr|]. split.
  - eapply advP_comp; [exact H1|exact Ha|intros a b _ H; apply p_ne_app_r; exact H].
  - intros E. eapply advP_comp; [exact H1|exact (H4 E)|intros a b _ H; apply p_nl_app_r; exact H].
Qed.

Lemma peek_token_spec want s : want <> T_TEOF -> In 0 s ->
  res_post (peek_token want s)
           (fun '(b, r) => In 0 r /\ (b = true -> advP p_ne s r) /\ (b = false -> advP p_bol s r)).
Proof.
  intros Hw Hn. unfold peek_token.
  destruct (read_token_spec s Hn) as [t [st [r [He Hp]]]]. rewrite He.
  destruct Hp as [H1 [H2 [H3 [H4 H5]]]].
  destruct (token_eqb t want) eqn:Ht; cbn [res_post].
  - apply token_eqb_eq in Ht. subst t. destruct (H5 Hw) as [Ha Hr].
    split; [exact Hr|]. split; [|discriminate]. intros _.
    eapply advP_comp; [exact H1|exact Ha|intros a b _ H; apply p_ne_app_r; exact H].
  - split; [exact H2|]. split; [discriminate|]. intros _. exact H1.
Qed.

Lemma parse_let_spec s : In 0 s ->
  res_post (parse_let s) (fun '(k, v, r) => In 0 r /\ advP p_nl s r).
Proof.
  intros Hn. unfold parse_let.
  pose proof (read_ident_spec s Hn) as H1.
  destruct (read_ident s) as [[[key r1]|]|e]; [| apply okerr_simple; exact I | exact H1].
  cbn [res_post] in H1. destruct H1 as [Hn1 Ha1].
  pose proof (expect_token_spec T_EQUALS r1 ltac:(discriminate) Hn1) as H2.
  destruct (expect_token T_EQUALS r1) as [r2|e]; [|exact H2].
  cbn [res_post] in H2. destruct H2 as [Hn2 [Ha2 _]].
  pose proof (read_var_value_spec r2 Hn2) as H3.
  destruct (read_var_value r2) as [[[v ne] r3]|e]; [|exact H3].
  cbn [res_post] in *. destruct H3 as [Hn3 Ha3]. split; [exact Hn3|].
  eapply advP_comp; [eapply any_comp; [exact Ha1|exact Ha2]|exact Ha3|].
  intros a b _ H. now apply p_nl_app_r.
Qed.

Lemma parse_version_spec s : In 0 s ->
  res_post (parse_version s) (fun r => In 0 r /\ advP p_nl s r).
Proof.
  intros Hn. unfold parse_version.
  pose proof (parse_let_spec s Hn) as H.
  destruct (parse_let s) as [[[name [v ne]] r]|e]; [|exact H].
  cbn [res_post] in H.
  destruct (negb (bytes_eqb name s_version_var)); [apply okerr_simple; exact I|].
  destruct (version_ok v); [exact H|apply okerr_simple; exact I].
Qed.

Lemma read_paths_spec : forall fuel (s : bytes), In 0 s -> (length s < fuel)%nat ->
  res_post (read_paths fuel s) (fun '(l, r) => In 0 r /\ advP p_any s r).
Proof.
  induction fuel as [|f IH]; intros s Hn Hl; [lia|]. cbn [read_paths].
  pose proof (read_path_spec s Hn) as H1.
  destruct (read_path s) as [[[t ne] r]|e]; [|exact H1].
  cbn [res_post] in H1. destruct H1 as [Hr Ha].
  unfold ev_empty. destruct ne; cbn [negb].
  - assert (Hlt : (length r < length s)%nat).
    { apply advP_len_ne. eapply advP_weaken; [exact Ha|]. intros c Hc. now apply Hc. }
    pose proof (IH r Hr ltac:(lia)) as H2.
    destruct (read_paths f r) as [[l r']|e]; [|exact H2].
    cbn [res_post] in *. destruct H2 as [Hr' Ha']. split; [exact Hr'|]. eapply any_comp; eauto.
  - cbn [res_post]. split; [exact Hr|]. eapply advP_weaken; [exact Ha|intros; exact I].
Qed.

Lemma canon_paths_err l e : canon_paths l = Err e -> e = E_empty_path.
Proof.
  revert e; induction l as [|p l IH]; intros e; cbn [canon_paths]; [discriminate|].
  destruct p; [now intros [= <-]|].
  destruct (canon_paths l) as [r|e']; [discriminate|]. intros [= <-]. now apply IH.
Qed.

Definition chk_ok (chk : list dd_stmt -> bytes -> option dd_err) : Prop :=
  forall seen out e, chk seen out = Some e -> okerr e.

Lemma no_chk_ok : chk_ok no_chk.
Proof. intros seen out e H. discriminate. Qed.
Lemma graph_chk_ok g : chk_ok (graph_chk g).
Proof.
  intros seen out e. unfold graph_chk. destruct (producer g out) as [i|].
  - destruct (existsb _ seen); [intros [= <-]; apply okerr_simple; exact I|discriminate].
  - intros [= <-]. apply okerr_simple; exact I.
Qed.

Lemma parse_edge_spec fuel chk seen (s : bytes) : chk_ok chk -> In 0 s -> (length s < fuel)%nat ->
  res_post (parse_edge fuel chk seen s) (fun '(st, r) => In 0 r /\ advP p_nl s r).
Proof.
  intros Hchk Hn Hl. unfold parse_edge.
  pose proof (read_path_spec s Hn) as H1.
  destruct (read_path s) as [[[t0 ne0] r1]|e]; [|exact H1].
  cbn [res_post] in H1. destruct H1 as [Hn1 Ha1].
  destruct (ev_empty t0 ne0); [apply okerr_simple; exact I|].
  destruct (is_empty t0); [apply okerr_simple; exact I|]. cbv zeta.
  destruct (chk seen (canon t0)) as [e|] eqn:Hc; [exact (Hchk _ _ _ Hc)|].
  pose proof (read_path_spec r1 Hn1) as H2.
  destruct (read_path r1) as [[[t1 ne1] r2]|e]; [|exact H2].
  cbn [res_post] in H2. destruct H2 as [Hn2 Ha2].
  destruct (negb (ev_empty t1 ne1)); [apply okerr_simple; exact I|].
  pose proof (any_comp _ _ _ _ _ Ha1 Ha2) as A2.
  pose proof (peek_token_spec T_PIPE r2 ltac:(discriminate) Hn2) as H3.
  destruct (peek_token T_PIPE r2) as [[has_outs r3]|e]; [|exact H3].
  cbn [res_post] in H3. destruct H3 as [Hn3 [Ha3t Ha3f]].
  assert (A3 : advP p_any s r3).
  { destruct has_outs; [eapply any_comp; [exact A2|exact (Ha3t eq_refl)]
                       |eapply any_comp; [exact A2|exact (Ha3f eq_refl)]]. }
  assert (H4 : res_post (if has_outs then read_paths fuel r3 else Ok ([], r3))
                        (fun '(l, r) => In 0 r /\ advP p_any r3 r)).
  { destruct has_outs.
    - apply read_paths_spec; [exact Hn3|]. pose proof (advP_len _ _ _ A3). lia.
    - cbn [res_post]. split; [exact Hn3|apply advP_refl; exact I]. }
  destruct (if has_outs then read_paths fuel r3 else Ok ([], r3)) as [[outs r4]|e]; [|exact H4].
  cbn [res_post] in H4. destruct H4 as [Hn4 Ha4].
  pose proof (any_comp _ _ _ _ _ A3 Ha4) as A4.
  pose proof (expect_token_spec T_COLON r4 ltac:(discriminate) Hn4) as H5.
  destruct (expect_token T_COLON r4) as [r5|e]; [|exact H5].
  cbn [res_post] in H5. destruct H5 as [Hn5 [Ha5 _]].
  pose proof (any_comp _ _ _ _ _ A4 Ha5) as A5.
  pose proof (read_ident_spec r5 Hn5) as H6.
  destruct (read_ident r5) as [[[rule r6]|]|e]; [| apply okerr_simple; exact I | exact H6].
  cbn [res_post] in H6. destruct H6 as [Hn6 Ha6].
  pose proof (any_comp _ _ _ _ _ A5 Ha6) as A6.
  destruct (negb (bytes_eqb rule s_dyndep)); [apply okerr_simple; exact I|].
  pose proof (read_path_spec r6 Hn6) as H7.
  destruct (read_path r6) as [[[t2 ne2] r7]|e]; [|exact H7].
  cbn [res_post] in H7. destruct H7 as [Hn7 Ha7].
  pose proof (any_comp _ _ _ _ _ A6 Ha7) as A7.
  destruct (negb (ev_empty t2 ne2)); [apply okerr_simple; exact I|].
  pose proof (peek_token_spec T_PIPE r7 ltac:(discriminate) Hn7) as H8.
  destruct (peek_token T_PIPE r7) as [[has_ins r8]|e]; [|exact H8].
  cbn [res_post] in H8. destruct H8 as [Hn8 [Ha8t Ha8f]].
  assert (A8 : advP p_any s r8).
  { destruct has_ins; [eapply any_comp; [exact A7|exact (Ha8t eq_refl)]
                      |eapply any_comp; [exact A7|exact (Ha8f eq_refl)]]. }
  assert (H9 : res_post (if has_ins then read_paths fuel r8 else Ok ([], r8))
                        (fun '(l, r) => In 0 r /\ advP p_any r8 r)).
  { destruct has_ins.
    - apply read_paths_spec; [exact Hn8|]. pose proof (advP_len _ _ _ A8). lia.
    - cbn [res_post]. split; [exact Hn8|apply advP_refl; exact I]. }
  destruct (if has_ins then read_paths fuel r8 else Ok ([], r8)) as [[ins r9]|e]; [|exact H9].
  cbn [res_post] in H9. destruct H9 as [Hn9 Ha9].
  pose proof (any_comp _ _ _ _ _ A8 Ha9) as A9.
  pose proof (peek_token_spec T_PIPE2 r9 ltac:(discriminate) Hn9) as H10.
  destruct (peek_token T_PIPE2 r9) as [[[|] r10]|e]; [apply okerr_simple; exact I| |exact H10].
  cbn [res_post] in H10. destruct H10 as [Hn10 [_ Ha10]].
  pose proof (any_comp _ _ _ _ _ A9 (Ha10 eq_refl)) as A10.
  pose proof (expect_token_spec T_NEWLINE r10 ltac:(discriminate) Hn10) as H11.
  destruct (expect_token T_NEWLINE r10) as [r11|e]; [|exact H11].
  cbn [res_post] in H11. destruct H11 as [Hn11 [_ Ha11]]. specialize (Ha11 eq_refl).
  assert (A11 : advP p_nl s r11).
  { eapply advP_comp; [exact A10|exact Ha11|intros a b _ H; now apply p_nl_app_r]. }
  pose proof (peek_token_spec T_INDENT r11 ltac:(discriminate) Hn11) as H12.
  destruct (peek_token T_INDENT r11) as [[has_let r12]|e]; [|exact H12].
  cbn [res_post] in H12. destruct H12 as [Hn12 [Ha12t Ha12f]].
  assert (H13 : res_post
     (if has_let
      then match parse_let r12 with
           | Ok (key, (v, _), r13) =>
             if negb (bytes_eqb key s_restat) then Err E_binding_not_restat
             else Ok (negb (is_empty v), r13)
           | Err e => Err e
           end
      else Ok (false, r12))
     (fun '(b, r) => In 0 r /\ advP p_nl s r)).
  { destruct has_let.
    - pose proof (parse_let_spec r12 Hn12) as HL.
      destruct (parse_let r12) as [[[key [v ne]] r13]|e]; [|exact HL].
      cbn [res_post] in HL. destruct HL as [Hn13 Ha13].
      destruct (negb (bytes_eqb key s_restat)); [apply okerr_simple; exact I|].
      cbn [res_post]. split; [exact Hn13|].
      eapply advP_comp; [eapply any_comp; [exact A11|exact (Ha12t eq_refl)]|exact Ha13|].
      intros a b _ H. now apply p_nl_app_r.
    - cbn [res_post]. split; [exact Hn12|].
      eapply advP_comp; [exact A11|exact (Ha12f eq_refl)|apply p_nl_bol]. }
  match goal with
  | |- res_post (match ?X with Ok _ => _ | Err _ => _ end) _ =>
    destruct X as [[restat r14]|e]; [|exact H13]
  end.
  cbn [res_post] in H13.
  destruct (canon_paths ins) as [cins|e] eqn:Hci;
    [|apply canon_paths_err in Hci; subst e; apply okerr_simple; exact I].
  destruct (canon_paths outs) as [couts|e] eqn:Hco;
    [|apply canon_paths_err in Hco; subst e; apply okerr_simple; exact I].
  exact H13.
Qed.

(* ---------- DyndepParser::Parse ---------- *)
Definition loop_inv (have : bool) (c : bytes) : Prop := if have then p_nl c else p_bol c.

Lemma parse_loop_spec fuel0 chk buf : chk_ok chk -> forall fuel (s : bytes) have acc,
  In 0 s -> (length s < fuel)%nat -> (length s < fuel0)%nat ->
  advP (loop_inv have) buf s ->
  res_post (parse_loop fuel fuel0 chk s have acc)
           (fun _ => exists c rest, buf = c ++ 0 :: rest /\ nonul c /\ p_nl c).
Proof.
  intros Hchk. induction fuel as [|f IH]; intros s have acc Hn Hl Hl0 Hinv; [lia|].
  cbn [parse_loop].
  destruct (read_token_spec s Hn) as [t [st [r [He Hp]]]]. rewrite He.
  destruct Hp as [H1 [H2 [H3 [H4 H5]]]].
  assert (Hst : advP (loop_inv have) buf st).
  { eapply advP_comp; [exact Hinv|exact H1|]. intros a b Ha Hb. unfold loop_inv in *.
    destruct have; [now apply p_nl_bol|now apply p_bol_bol]. }
  assert (Hlst : (length st <= length s)%nat) by (eapply advP_len; eauto).
  destruct t; try (apply okerr_simple; exact I).
  - (* BUILD *)
    destruct have; cbn [negb]; [|apply okerr_simple; exact I].
    destruct (H5 ltac:(discriminate)) as [Ha Hr].
    pose proof (advP_len_ne _ _ Ha) as Hlr.
    pose proof (parse_edge_spec fuel0 chk acc r Hchk Hr ltac:(lia)) as HE.
    destruct (parse_edge fuel0 chk acc r) as [[stmt r']|e]; [|exact HE].
    cbn [res_post] in HE. destruct HE as [Hr' Ha'].
    pose proof (advP_len _ _ _ Ha') as Hlr'.
    apply IH; [exact Hr'|lia|lia|].
    eapply advP_comp; [eapply any_comp; [exact Hst|exact Ha]|exact Ha'|].
    intros a b _ Hb. cbn [loop_inv]. now apply p_nl_app_r.
  - (* IDENT *)
    destruct have; [apply okerr_simple; exact I|].
    pose proof (parse_version_spec st H2) as HV.
    destruct (parse_version st) as [r'|e]; [|exact HV].
    cbn [res_post] in HV. destruct HV as [Hr' Ha'].
    pose proof (advP_len_ne _ _ (advP_weaken _ _ _ _ Ha' p_nl_ne)) as Hlr'.
    apply IH; [exact Hr'|lia|lia|].
    eapply advP_comp; [exact Hst|exact Ha'|]. intros a b _ Hb. cbn [loop_inv]. now apply p_nl_app_r.
  - (* NEWLINE *)
    destruct (H5 ltac:(discriminate)) as [Ha Hr].
    pose proof (advP_len_ne _ _ Ha) as Hlr.
    apply IH; [exact Hr|lia|lia|].
    eapply advP_comp; [exact Hst|exact (H4 eq_refl)|].
    intros a b _ Hb. unfold loop_inv. destruct have; [now apply p_nl_app_r|right; now apply p_nl_app_r].
  - (* TEOF *)
    destruct have; [|apply okerr_simple; exact I].
    cbn [res_post]. destruct Hst as [c [-> [Hc Hnl]]]. rewrite (H3 eq_refl).
    exists c, r. auto.
Qed.

Lemma first_nul_unique : forall (a b x y : bytes),
  a ++ 0 :: x = b ++ 0 :: y -> nonul a -> nonul b -> a = b.
Proof.
  induction a as [|p a IH]; intros b x y E Ha Hb.
  - destruct b as [|q b]; [reflexivity|]. cbn [app] in E. injection E as E1 E2.
    exfalso. apply Hb. left. auto.
  - destruct b as [|q b]; cbn [app] in E; injection E as E1 E2.
    + exfalso. apply Ha. left. auto.
    + subst q. f_equal. apply (IH b x y E2).
      * intros H. apply Ha. now right.
      * intros H. apply Hb. now right.
Qed.

Lemma parse_raw_spec chk (buf : bytes) : chk_ok chk -> In 0 buf ->
  res_post (parse_raw chk buf) (fun _ => exists c rest, buf = c ++ 0 :: rest /\ nonul c /\ p_nl c).
Proof.
  intros Hchk Hn. unfold parse_raw.
  apply (parse_loop_spec (S (length buf)) chk buf Hchk); auto.
  apply advP_refl. cbn [loop_inv]. now left.
Qed.

Lemma parse_gen_spec chk (content : bytes) : chk_ok chk ->
  res_post (parse_gen chk content)
           (fun _ => exists c rest, content ++ [0] = c ++ 0 :: rest /\ nonul c /\ p_nl c).
Proof.
  intros Hchk. unfold parse_gen. apply parse_raw_spec; [exact Hchk|].
  apply in_or_app. right. now left.
Qed.

(** C13: for every buffer that contains the NUL sentinel, no scanner of the model ever looks past
    the end of the buffer and no loop of the parser runs out of its fuel: the parser is total and
    the result is a genuine answer of DyndepParser::Parse. *)
Theorem C13_dyndep_total_raw_proof : forall chk buf,
  chk_ok chk -> In 0 buf ->
  parse_raw chk buf <> Err E_overrun /\ parse_raw chk buf <> Err E_fuel.
Proof.
  intros chk buf Hchk Hn. pose proof (parse_raw_spec chk buf Hchk Hn) as H.
  destruct (parse_raw chk buf) as [l|e]; [split; discriminate|].
  cbn [res_post] in H. destruct H as [H1 H2]. split; intros [= ->]; congruence.
Qed.

Theorem C13_dyndep_total_proof : forall chk content,
  chk_ok chk ->
  parse_gen chk content <> Err E_overrun /\ parse_gen chk content <> Err E_fuel.
Proof.
  intros chk content Hchk. unfold parse_gen. apply C13_dyndep_total_raw_proof; [exact Hchk|].
  apply in_or_app. right. now left.
Qed.

(** C11 truncation, the strong form: EVERY file the parser accepts ends with a newline (so no
    proper prefix of a valid file that ends inside a line is accepted, whatever the file). *)
Theorem C11_accepted_ends_with_newline_proof : forall chk content stmts,
  chk_ok chk -> ~ In 0 content -> parse_gen chk content = Ok stmts ->
  exists c', content = c' ++ [10].
Proof.
  intros chk content stmts Hchk Hnn Hp.
  pose proof (parse_gen_spec chk content Hchk) as H.
  rewrite Hp in H. cbn [res_post] in H. destruct H as [c [rest [E [Hc Hnl]]]].
  assert (content = c) by (eapply first_nul_unique; eauto). subst c. exact Hnl.
Qed.

(* with a NUL inside the content the lexer stops there: the part before it ends with a newline *)
Theorem C11_accepted_ends_with_newline_nul_proof : forall chk content stmts,
  chk_ok chk -> parse_gen chk content = Ok stmts ->
  exists c' rest, content ++ [0] = (c' ++ [10]) ++ 0 :: rest /\ nonul c'.
Proof.
  intros chk content stmts Hchk Hp.
  pose proof (parse_gen_spec chk content Hchk) as H.
  rewrite Hp in H. cbn [res_post] in H. destruct H as [c [rest [E [Hc [c' ->]]]]].
  exists c', rest. split; [exact E|]. intros Hin. apply Hc. apply in_or_app. now left.
Qed.

(** the defect the fix removes: a file that ends right after '|' (or after "| ") *)
Theorem C11_truncation_after_pipe_proof : forall chk pre,
  chk_ok chk -> ~ In 0 pre ->
  (exists e, parse_gen chk (pre ++ [124]) = Err e) /\
  (exists e, parse_gen chk (pre ++ [124; 32]) = Err e).
Proof.
  intros chk pre Hchk Hpre.
  assert (H : forall t' x, x <> 10 -> ~ In 0 (t' ++ [x]) ->
                           exists e, parse_gen chk (pre ++ t' ++ [x]) = Err e).
  { intros t' x Hx Ht. destruct (parse_gen chk (pre ++ t' ++ [x])) as [l|e] eqn:Hp; [|eauto]. exfalso.
    apply C11_accepted_ends_with_newline_proof in Hp; [|exact Hchk|].
    - destruct Hp as [c' E]. rewrite app_assoc in E.
      apply app_inj_tail in E. destruct E as [_ E]. exact (Hx E).
    - intros Hin. apply in_app_or in Hin. tauto. }
  split.
  - apply (H [] 124); [discriminate|]. intros [H0|[]]. discriminate.
  - apply (H [124] 32); [discriminate|]. intros [H0|[H0|[]]]; discriminate.
Qed.

(* ========================================================================================== *)
(** * Part 3: printing then parsing *)

Lemma name_char_ok_spec c : name_char_ok c = true -> c <> 0 /\ c <> 10 /\ c <> 13 /\ c <> 124.
Proof.
  unfold name_char_ok. intros H. apply negb_true_iff in H.
  apply orb_false_iff in H. destruct H as [H H4]. apply orb_false_iff in H. destruct H as [H H3].
  apply orb_false_iff in H. destruct H as [H1 H2].
  repeat split; apply N.eqb_neq; assumption.
Qed.

Lemma wf_name_spec p : wf_name p = true -> p <> [] /\ forallb name_char_ok p = true /\ canon p = p.
Proof.
  unfold wf_name. destruct p as [|c p]; [discriminate|]. intros H. apply andb_true_iff in H.
  destruct H as [H1 H2]. split; [discriminate|]. split; [exact H1|]. now apply bytes_eqb_eq.
Qed.

Lemma ckind_text c :
  c <> 36 -> c <> 32 -> c <> 58 -> c <> 124 -> c <> 13 -> c <> 10 -> c <> 0 -> ckind_of c = K_text.
Proof.
  intros H1 H2 H3 H4 H5 H6 H7. unfold ckind_of.
  apply N.eqb_neq in H1, H2, H3, H4, H5, H6, H7. now rewrite H1, H2, H3, H4, H5, H6, H7.
Qed.

Definition delim (d : byte) : Prop := d = 32 \/ d = 58 \/ d = 10.

(* reading an escaped name up to a delimiter *)
Lemma read_eval_esc : forall p acc ne d rest,
  forallb name_char_ok p = true -> delim d ->
  read_eval true (esc_path p ++ d :: rest) EM_normal acc ne =
  Ok (rev acc ++ p, ne || negb (is_nil p), d :: rest).
Proof.
  induction p as [|c p IH]; intros acc ne d rest Hok Hd.
  - cbn [esc_path flat_map app is_nil negb]. rewrite orb_false_r, app_nil_r.
    rewrite read_eval_unfold. unfold ev_normal.
    destruct Hd as [-> | [-> | ->]]; reflexivity.
  - cbn [forallb] in Hok. apply andb_true_iff in Hok. destruct Hok as [Hc Hok].
    destruct (name_char_ok_spec c Hc) as [H0 [H10 [H13 H124]]].
    cbn [esc_path flat_map is_nil negb]. fold (esc_path p). rewrite orb_true_r.
    unfold esc_char.
    destruct (N.eqb_spec c 36) as [->|H36]; cbn [orb].
    { cbn [app]. rewrite read_eval_unfold. unfold ev_normal. cbn [ckind_of N.eqb Pos.eqb].
      rewrite IH by assumption. cbn [rev]. rewrite <- app_assoc. cbn [app orb]. reflexivity. }
    destruct (N.eqb_spec c 32) as [->|H32]; cbn [orb].
    { cbn [app]. rewrite read_eval_unfold. unfold ev_normal. cbn [ckind_of N.eqb Pos.eqb].
      rewrite IH by assumption. cbn [rev]. rewrite <- app_assoc. cbn [app orb]. reflexivity. }
    destruct (N.eqb_spec c 58) as [->|H58]; cbn [orb].
    { cbn [app]. rewrite read_eval_unfold. unfold ev_normal. cbn [ckind_of N.eqb Pos.eqb].
      rewrite IH by assumption. cbn [rev]. rewrite <- app_assoc. cbn [app orb]. reflexivity. }
    cbn [app]. rewrite read_eval_unfold. unfold ev_normal.
    rewrite (ckind_text c) by assumption.
    rewrite IH by assumption. cbn [rev]. rewrite <- app_assoc. cbn [app orb]. reflexivity.
Qed.

Lemma eat_ws_stop c s : c <> 32 -> c <> 36 -> eat_ws (c :: s) = Ok (c :: s).
Proof.
  intros H1 H2. cbn [eat_ws]. apply N.eqb_neq in H1, H2. now rewrite H1, H2.
Qed.

(* an escaped non-empty name does not start with blank or a line continuation *)
Lemma eat_ws_esc p X : p <> [] -> forallb name_char_ok p = true ->
  eat_ws (esc_path p ++ X) = Ok (esc_path p ++ X).
Proof.
  destruct p as [|c p]; [congruence|]. intros _ Hok.
  cbn [forallb] in Hok. apply andb_true_iff in Hok. destruct Hok as [Hc _].
  destruct (name_char_ok_spec c Hc) as [H0 [H10 [H13 H124]]].
  cbn [esc_path flat_map]. unfold esc_char.
  destruct (N.eqb_spec c 36) as [->|H36]; cbn [orb]; [reflexivity|].
  destruct (N.eqb_spec c 32) as [->|H32]; cbn [orb]; [reflexivity|].
  destruct (N.eqb_spec c 58) as [->|H58]; cbn [orb]; [reflexivity|].
  cbn [app]. now apply eat_ws_stop.
Qed.

Lemma read_path_esc p d rest : wf_name p = true -> delim d ->
  read_path (esc_path p ++ d :: rest) =
  match eat_ws (d :: rest) with Ok r => Ok (p, true, r) | Err e => Err e end.
Proof.
  intros Hwf Hd. destruct (wf_name_spec p Hwf) as [Hne [Hok _]].
  unfold read_path. rewrite read_eval_esc by assumption. cbn [rev app orb].
  destruct p; [congruence|]. reflexivity.
Qed.

Lemma read_path_at_colon rest : read_path (58 :: rest) = Ok ([], false, 58 :: rest).
Proof. reflexivity. Qed.
Lemma read_path_at_nl rest : read_path (10 :: rest) = Ok ([], false, 10 :: rest).
Proof. reflexivity. Qed.
Lemma read_path_at_pipe rest : read_path (124 :: rest) = Ok ([], false, 124 :: rest).
Proof. reflexivity. Qed.

(* ---------- tokens of the printed text (closed computations with a symbolic tail) ---------- *)
Lemma read_token_pipe_sp x : read_token (124 :: 32 :: x) =
  match eat_ws x with Ok r => Ok (T_PIPE, 124 :: 32 :: x, r) | Err e => Err e end.
Proof. reflexivity. Qed.
Lemma read_token_colon_sp x : read_token (58 :: 32 :: x) =
  match eat_ws x with Ok r => Ok (T_COLON, 58 :: 32 :: x, r) | Err e => Err e end.
Proof. reflexivity. Qed.
Lemma read_token_nl x : read_token (10 :: x) = Ok (T_NEWLINE, 10 :: x, x).
Proof. reflexivity. Qed.
Lemma read_token_nul x : read_token (0 :: x) = Ok (T_TEOF, 0 :: x, x).
Proof. reflexivity. Qed.
Lemma read_token_build x : read_token (s_build ++ 32 :: x) =
  match eat_ws x with Ok r => Ok (T_BUILD, s_build ++ 32 :: x, r) | Err e => Err e end.
Proof. reflexivity. Qed.
Lemma read_token_indent_restat x : read_token (32 :: 32 :: s_restat ++ x) =
  Ok (T_INDENT, 32 :: 32 :: s_restat ++ x, s_restat ++ x).
Proof. reflexivity. Qed.

Definition plist_items (l : list bytes) : bytes := flat_map (fun p => 32 :: esc_path p) l.

Lemma print_list_items l : print_list l = match l with [] => [] | _ => 32 :: 124 :: plist_items l end.
Proof. destruct l; reflexivity. Qed.

Lemma plist_items_cons p l X :
  plist_items (p :: l) ++ X = 32 :: esc_path p ++ plist_items l ++ X.
Proof. unfold plist_items. cbn [flat_map app]. now rewrite <- app_assoc. Qed.

Lemma forallb_wf_cons p l : forallb wf_name (p :: l) = true -> wf_name p = true /\ forallb wf_name l = true.
Proof. cbn [forallb]. intros H. now apply andb_true_iff in H. Qed.

Lemma eat_ws_items l d Z : forallb wf_name l = true -> d = 58 \/ d = 10 ->
  eat_ws (plist_items l ++ d :: Z) =
  Ok (match l with [] => d :: Z | p :: l' => esc_path p ++ plist_items l' ++ d :: Z end).
Proof.
  intros Hwf Hd. destruct l as [|p l'].
  - cbn [plist_items flat_map app]. apply eat_ws_stop; destruct Hd as [-> | ->]; discriminate.
  - apply forallb_wf_cons in Hwf. destruct Hwf as [Hp _].
    destruct (wf_name_spec p Hp) as [Hne [Hok _]].
    rewrite plist_items_cons. cbn [eat_ws N.eqb Pos.eqb].
    now apply eat_ws_esc.
Qed.

Lemma delim_items_head l d Z : d = 58 \/ d = 10 ->
  exists d' rest, plist_items l ++ d :: Z = d' :: rest /\ delim d'.
Proof.
  intros Hd. destruct l as [|p l'].
  - exists d, Z. split; [reflexivity|]. destruct Hd as [-> | ->]; [right; now left|right; now right].
  - rewrite plist_items_cons. eexists _, _. split; [reflexivity|now left].
Qed.

Lemma read_paths_list : forall l fuel d Z,
  forallb wf_name l = true -> d = 58 \/ d = 10 -> (length l < fuel)%nat ->
  read_paths fuel (match l with [] => d :: Z | p :: l' => esc_path p ++ plist_items l' ++ d :: Z end)
  = Ok (l, d :: Z).
Proof.
  induction l as [|p l IH]; intros fuel d Z Hwf Hd Hl; (destruct fuel as [|f]; [cbn [length] in Hl; lia|]);
    cbn [read_paths].
  - destruct Hd as [-> | ->]; reflexivity.
  - apply forallb_wf_cons in Hwf. destruct Hwf as [Hp Hwf].
    destruct (delim_items_head l d Z Hd) as [d' [rest [E Hd']]]. rewrite E.
    rewrite (read_path_esc p d' rest Hp Hd'). rewrite <- E.
    rewrite (eat_ws_items l d Z Hwf Hd). unfold ev_empty. cbn [negb].
    rewrite IH; [reflexivity|assumption|assumption|cbn [length] in Hl; lia].
Qed.

(* the "| a b c" section up to its terminator [d] (':' for outputs, newline for inputs) *)
Lemma list_section l d Z fuel :
  forallb wf_name l = true -> d = 58 \/ d = 10 -> (length l < fuel)%nat ->
  peek_token T_PIPE (d :: Z) = Ok (false, d :: Z) ->
  exists r2, eat_ws (print_list l ++ d :: Z) = Ok r2 /\
             read_path r2 = Ok ([], false, r2) /\
             exists b r3, peek_token T_PIPE r2 = Ok (b, r3) /\
                          (if b then read_paths fuel r3 else Ok ([], r3)) = Ok (l, d :: Z).
Proof.
  intros Hwf Hd Hl Hpeek. rewrite print_list_items. destruct l as [|p l'].
  - cbn [app]. exists (d :: Z).
    split; [apply eat_ws_stop; destruct Hd as [-> | ->]; discriminate|].
    split; [destruct Hd as [-> | ->]; reflexivity|].
    exists false, (d :: Z). split; [exact Hpeek|reflexivity].
  - set (l := p :: l') in *.
    exists (124 :: plist_items l ++ d :: Z).
    split; [reflexivity|]. split; [reflexivity|].
    exists true, (esc_path p ++ plist_items l' ++ d :: Z). split.
    + unfold peek_token. subst l. rewrite plist_items_cons. rewrite read_token_pipe_sp.
      apply forallb_wf_cons in Hwf. destruct Hwf as [Hp _].
      destruct (wf_name_spec p Hp) as [Hne [Hok _]].
      rewrite eat_ws_esc by assumption. reflexivity.
    + apply (read_paths_list l fuel d Z Hwf Hd Hl).
Qed.

(* ---------- one printed statement ---------- *)
(* the text after the escaped output name, followed by [NEXT] *)
Definition stmt_tail (st : dd_stmt) (NEXT : bytes) : bytes :=
  print_list (dd_imp_outs st) ++ 58 :: 32 :: s_dyndep ++ print_list (dd_imp_ins st) ++
  10 :: (if dd_restat st then s_restat_line else []) ++ NEXT.

Lemma print_stmt_shape st NEXT :
  print_stmt st ++ NEXT = s_build ++ 32 :: esc_path (dd_out st) ++ stmt_tail st NEXT.
Proof.
  unfold print_stmt, stmt_tail. rewrite <- !app_assoc. cbn [app]. rewrite <- !app_assoc. cbn [app].
  rewrite <- !app_assoc. reflexivity.
Qed.

Lemma delim_list_head l d Z : d = 58 \/ d = 10 ->
  exists d' rest, print_list l ++ d :: Z = d' :: rest /\ delim d'.
Proof.
  intros Hd. destruct l as [|p l'].
  - exists d, Z. split; [reflexivity|]. destruct Hd as [-> | ->]; [right; now left|right; now right].
  - cbn [print_list app]. eexists _, _. split; [reflexivity|now left].
Qed.

Lemma read_ident_dyndep B d rest : B = d :: rest -> d = 32 \/ d = 10 ->
  read_ident (s_dyndep ++ B) =
  match eat_ws B with Ok r => Ok (Some (s_dyndep, r)) | Err e => Err e end.
Proof. intros -> [-> | ->]; reflexivity. Qed.

Lemma canon_paths_wf l : forallb wf_name l = true -> canon_paths l = Ok l.
Proof.
  induction l as [|p l IH]; intros Hwf; [reflexivity|].
  apply forallb_wf_cons in Hwf. destruct Hwf as [Hp Hwf].
  destruct (wf_name_spec p Hp) as [Hne [_ Hc]].
  cbn [canon_paths]. destruct p; [congruence|]. rewrite IH by assumption. now rewrite Hc.
Qed.

Lemma wf_stmt_spec st : wf_stmt st = true ->
  wf_name (dd_out st) = true /\ forallb wf_name (dd_imp_outs st) = true /\
  forallb wf_name (dd_imp_ins st) = true.
Proof.
  unfold wf_stmt. intros H. apply andb_true_iff in H. destruct H as [H H3].
  apply andb_true_iff in H. tauto.
Qed.

Lemma parse_edge_print fuel chk seen st NEXT :
  wf_stmt st = true -> chk seen (dd_out st) = None ->
  (length (dd_imp_outs st) < fuel)%nat -> (length (dd_imp_ins st) < fuel)%nat ->
  peek_token T_INDENT NEXT = Ok (false, NEXT) ->
  parse_edge fuel chk seen (esc_path (dd_out st) ++ stmt_tail st NEXT) = Ok (st, NEXT).
Proof.
  intros Hwf Hchk Hlo Hli Hnext.
  destruct (wf_stmt_spec st Hwf) as [Hout [Houts Hins]].
  destruct (wf_name_spec _ Hout) as [Hne [Hok Hcanon]].
  set (TAIL := (if dd_restat st then s_restat_line else []) ++ NEXT).
  set (B := print_list (dd_imp_ins st) ++ 10 :: TAIL).
  set (A := print_list (dd_imp_outs st) ++ 58 :: 32 :: s_dyndep ++ B).
  assert (EA : stmt_tail st NEXT = A) by reflexivity. rewrite EA.
  (* the two list sections *)
  destruct (list_section (dd_imp_outs st) 58 (32 :: s_dyndep ++ B) fuel Houts (or_introl eq_refl) Hlo eq_refl)
    as [r2 [Hws1 [Hrp1 [b1 [r3 [Hpk1 Hrd1]]]]]].
  destruct (list_section (dd_imp_ins st) 10 TAIL fuel Hins (or_intror eq_refl) Hli eq_refl)
    as [q2 [Hws2 [Hrp2 [b2 [q3 [Hpk2 Hrd2]]]]]].
  fold B in Hws2. fold A in Hws1.
  unfold parse_edge.
  (* 1: the output *)
  destruct (delim_list_head (dd_imp_outs st) 58 (32 :: s_dyndep ++ B) (or_introl eq_refl)) as [d1 [rest1 [E1 Hd1]]].
  fold A in E1. rewrite E1. rewrite (read_path_esc _ d1 rest1 Hout Hd1). rewrite <- E1. rewrite Hws1.
  cbv beta iota. unfold ev_empty at 1. cbn [negb].
  replace (is_empty (dd_out st)) with false by (destruct (dd_out st); [congruence|reflexivity]).
  cbv zeta. rewrite Hcanon, Hchk.
  (* 2: no explicit outputs; implicit outputs *)
  rewrite Hrp1. cbv beta iota. unfold ev_empty at 1. cbn [negb].
  rewrite Hpk1. cbv beta iota. rewrite Hrd1. cbv beta iota.
  (* 3: ": dyndep" *)
  replace (expect_token T_COLON (58 :: 32 :: s_dyndep ++ B)) with (Ok (s_dyndep ++ B)) by reflexivity.
  cbv beta iota.
  destruct (delim_list_head (dd_imp_ins st) 10 TAIL (or_intror eq_refl)) as [d2 [rest2 [E2 Hd2]]].
  fold B in E2.
  assert (Hd2' : d2 = 32 \/ d2 = 10).
  { clear -E2. subst B. destruct (dd_imp_ins st); cbn [print_list app] in E2; injection E2 as <- _; auto. }
  rewrite (read_ident_dyndep B d2 rest2 E2 Hd2'). rewrite Hws2. cbv beta iota.
  rewrite bytes_eqb_refl. cbn [negb].
  (* 4: no explicit inputs; implicit inputs; no order-only; newline *)
  rewrite Hrp2. cbv beta iota. unfold ev_empty at 1. cbn [negb].
  rewrite Hpk2. cbv beta iota. rewrite Hrd2. cbv beta iota.
  replace (peek_token T_PIPE2 (10 :: TAIL)) with (Ok (false, 10 :: TAIL)) by reflexivity.
  cbv beta iota.
  replace (expect_token T_NEWLINE (10 :: TAIL)) with (Ok TAIL) by reflexivity.
  cbv beta iota.
  (* 5: the restat binding *)
  rewrite (canon_paths_wf _ Hins), (canon_paths_wf _ Houts).
  subst TAIL. destruct st as [out outs ins restat]. cbn [dd_restat dd_out dd_imp_outs dd_imp_ins] in *.
  destruct restat.
  - replace (peek_token T_INDENT (s_restat_line ++ NEXT))
      with (Ok (true, s_restat ++ 32 :: 61 :: 32 :: 49 :: 10 :: NEXT)) by reflexivity.
    cbv beta iota.
    replace (parse_let (s_restat ++ 32 :: 61 :: 32 :: 49 :: 10 :: NEXT))
      with (Ok (s_restat, ([49], true), NEXT)) by reflexivity.
    cbv beta iota. rewrite bytes_eqb_refl. reflexivity.
  - cbn [app]. rewrite Hnext. reflexivity.
Qed.

(* ---------- the whole file ---------- *)
(* the checks against the State pass for every statement (trivial for [no_chk]) *)
Fixpoint chk_passes (chk : list dd_stmt -> bytes -> option dd_err) (seen : list dd_stmt)
         (stmts : list dd_stmt) : Prop :=
  match stmts with
  | [] => True
  | st :: l => chk seen (dd_out st) = None /\ chk_passes chk (st :: seen) l
  end.

Lemma peek_indent_body l :
  Forall (fun st => wf_stmt st = true) l ->
  peek_token T_INDENT (print_body l ++ [0]) = Ok (false, print_body l ++ [0]).
Proof.
  intros Hwf. destruct l as [|st l]; [reflexivity|].
  unfold print_body. cbn [flat_map]. fold (print_body l). rewrite <- app_assoc.
  rewrite print_stmt_shape. unfold peek_token. rewrite read_token_build.
  inversion Hwf as [|? ? Hst _]; subst.
  destruct (wf_stmt_spec st Hst) as [Hout _]. destruct (wf_name_spec _ Hout) as [Hne [Hok _]].
  rewrite eat_ws_esc by assumption. reflexivity.
Qed.

Lemma parse_loop_print chk fuel0 : forall stmts fuel acc,
  Forall (fun st => wf_stmt st = true) stmts -> chk_passes chk acc stmts ->
  (length stmts < fuel)%nat ->
  Forall (fun st => (length (dd_imp_outs st) < fuel0)%nat /\ (length (dd_imp_ins st) < fuel0)%nat) stmts ->
  parse_loop fuel fuel0 chk (print_body stmts ++ [0]) true acc = Ok (rev acc ++ stmts).
Proof.
  induction stmts as [|st l IH]; intros fuel acc Hwf Hchk Hl Hf0;
    (destruct fuel as [|f]; [cbn [length] in Hl; lia|]).
  - cbn [print_body flat_map app parse_loop]. rewrite read_token_nul. now rewrite app_nil_r.
  - inversion Hwf as [|? ? Hst Hwfl]; subst. inversion Hf0 as [|? ? [Hfo Hfi] Hf0l]; subst.
    destruct Hchk as [Hc Hchk].
    cbn [parse_loop]. unfold print_body. cbn [flat_map]. fold (print_body l). rewrite <- app_assoc.
    rewrite print_stmt_shape. rewrite read_token_build.
    destruct (wf_stmt_spec st Hst) as [Hout _]. destruct (wf_name_spec _ Hout) as [Hne [Hok _]].
    rewrite eat_ws_esc by assumption. cbv beta iota. cbn [negb].
    rewrite (parse_edge_print fuel0 chk acc st (print_body l ++ [0]) Hst Hc Hfo Hfi (peek_indent_body l Hwfl)).
    rewrite IH; auto; [|cbn [length] in Hl; lia].
    cbn [rev]. rewrite <- app_assoc. reflexivity.
Qed.

Lemma print_list_length l : (length l <= length (print_list l))%nat.
Proof.
  rewrite print_list_items. destruct l as [|p l]; [cbn [length]; lia|].
  cbn [length]. assert (H : forall l, (length l <= length (plist_items l))%nat).
  { clear. induction l as [|p l IH]; [cbn [length]; lia|].
    unfold plist_items. cbn [flat_map]. fold (plist_items l). rewrite app_length. cbn [length].
    unfold byte in *. lia. }
  specialize (H (p :: l)). cbn [length] in H. unfold byte in *. lia.
Qed.

Lemma print_stmt_length st :
  (length (dd_imp_outs st) < length (print_stmt st))%nat /\
  (length (dd_imp_ins st) < length (print_stmt st))%nat.
Proof.
  unfold print_stmt. rewrite !app_length. cbn [length]. rewrite !app_length. cbn [length].
  rewrite !app_length. cbn [length].
  pose proof (print_list_length (dd_imp_outs st)). pose proof (print_list_length (dd_imp_ins st)). lia.
Qed.

Lemma print_body_length stmts :
  (length stmts <= length (print_body stmts))%nat /\
  Forall (fun st => (length (dd_imp_outs st) <= length (print_body stmts))%nat /\
                    (length (dd_imp_ins st) <= length (print_body stmts))%nat) stmts.
Proof.
  induction stmts as [|st l [IH1 IH2]]; [split; [cbn [length]; lia|constructor]|].
  unfold print_body. cbn [flat_map]. fold (print_body l). rewrite app_length. cbn [length].
  destruct (print_stmt_length st) as [H1 H2]. split; [lia|]. constructor; [lia|].
  eapply Forall_impl; [|exact IH2]. cbv beta. intros a [Ha Hb]. lia.
Qed.

Lemma parse_loop_S f fuel0 chk s have acc :
  parse_loop (S f) fuel0 chk s have acc =
  match read_token s with
  | Err e => Err e
  | Ok (t, st, r) =>
    match t with
    | T_BUILD =>
      if negb have then Err E_version_expected_build
      else match parse_edge fuel0 chk acc r with
           | Err e => Err e
           | Ok (stmt, r') => parse_loop f fuel0 chk r' have (stmt :: acc)
           end
    | T_IDENT =>
      if have then Err (E_unexpected T_IDENT)
      else match parse_version st with
           | Err e => Err e
           | Ok r' => parse_loop f fuel0 chk r' true acc
           end
    | T_ERROR => Err (E_lex_token (match st with c :: _ => N.eqb c 9 | [] => false end))
    | T_TEOF => if have then Ok (rev acc) else Err E_version_expected_eof
    | T_NEWLINE => parse_loop f fuel0 chk r have acc
    | _ => Err (E_unexpected t)
    end
  end.
Proof. reflexivity. Qed.

Lemma read_token_version_line X :
  read_token (s_version_line ++ X) = Ok (T_IDENT, s_version_line ++ X, 61 :: 32 :: 49 :: 10 :: X).
Proof. vm_compute. reflexivity. Qed.
Lemma parse_version_line X : parse_version (s_version_line ++ X) = Ok X.
Proof. vm_compute. reflexivity. Qed.

(** printing a well-formed statement list and parsing it back gives the list *)
Theorem C11_parse_print_gen_proof : forall chk stmts,
  Forall (fun st => wf_stmt st = true) stmts -> chk_passes chk [] stmts ->
  parse_gen chk (print_dyndep stmts) = Ok stmts.
Proof.
  intros chk stmts Hwf Hchk. unfold parse_gen, parse_raw, print_dyndep.
  rewrite <- app_assoc.
  destruct (print_body_length stmts) as [L1 L2].
  remember (length (s_version_line ++ print_body stmts ++ [0])) as n eqn:En.
  assert (Hlen : (length (print_body stmts) < n)%nat).
  { subst n. rewrite !app_length. cbn [length]. lia. }
  clear En.
  rewrite parse_loop_S.
  rewrite read_token_version_line. cbv beta iota.
  rewrite parse_version_line. cbv beta iota.
  rewrite (parse_loop_print chk (S n) stmts n [] Hwf Hchk); [reflexivity|lia|].
  eapply Forall_impl; [|exact L2]. cbv beta. intros a [Ha Hb]. split; lia.
Qed.

Lemma chk_passes_no_chk seen stmts : chk_passes no_chk seen stmts.
Proof. revert seen; induction stmts as [|st l IH]; intros seen; cbn [chk_passes]; auto. Qed.

Theorem C11_parse_print_proof : forall stmts,
  Forall (fun st => wf_stmt st = true) stmts -> parse_dyndep (print_dyndep stmts) = Ok stmts.
Proof.
  intros stmts Hwf. unfold parse_dyndep. apply C11_parse_print_gen_proof; [exact Hwf|].
  apply chk_passes_no_chk.
Qed.

(* ========================================================================================== *)
(** * Part 4: consequences for printed files: truncation, and what the parser rejects *)

(* the checks against the State only ADD errors: what the faithful parser accepts, the pure syntax
   accepts with the same statements *)
Lemma parse_edge_no_chk fuel chk seen seen' s x :
  parse_edge fuel chk seen s = Ok x -> parse_edge fuel no_chk seen' s = Ok x.
Proof.
  unfold parse_edge.
  destruct (read_path s) as [[[t0 ne0] r1]|e]; [|discriminate].
  destruct (ev_empty t0 ne0); [discriminate|].
  destruct (is_empty t0); [discriminate|]. cbv zeta.
  destruct (chk seen (canon t0)); [discriminate|]. unfold no_chk. intros H. exact H.
Qed.

Lemma parse_loop_no_chk fuel0 chk : forall fuel s have acc acc' l,
  parse_loop fuel fuel0 chk s have acc = Ok l ->
  exists l', parse_loop fuel fuel0 no_chk s have acc' = Ok l' /\
             (forall t, l = rev acc ++ t -> l' = rev acc' ++ t) /\ exists t, l = rev acc ++ t.
Proof.
  induction fuel as [|f IH]; intros s have acc acc' l; [discriminate|].
  rewrite !parse_loop_S.
  destruct (read_token s) as [[[t st] r]|e]; [|discriminate].
  destruct t; try discriminate.
  - destruct (negb have); [discriminate|].
    destruct (parse_edge fuel0 chk acc r) as [[stmt r']|e] eqn:He; [|discriminate].
    rewrite (parse_edge_no_chk _ _ _ acc' _ _ He). intros H.
    destruct (IH _ _ _ (stmt :: acc') _ H) as [l' [H1 [H2 [t Ht]]]].
    exists l'. split; [exact H1|]. cbn [rev] in *. split.
    + intros t0 E. rewrite (H2 t Ht). rewrite Ht in E. rewrite <- app_assoc in E.
      apply app_inv_head in E. subst t0. rewrite <- app_assoc. reflexivity.
    + exists (stmt :: t). rewrite Ht, <- app_assoc. reflexivity.
  - destruct have; [discriminate|].
    destruct (parse_version st) as [r'|e]; [|discriminate]. apply IH.
  - apply IH.
  - destruct have; [|discriminate]. intros [= <-]. exists (rev acc'). split; [reflexivity|].
    split; [|exists []; now rewrite app_nil_r].
    intros t E. rewrite <- (app_nil_r (rev acc)) in E at 1. apply app_inv_head in E. subst t.
    now rewrite app_nil_r.
Qed.

Theorem parse_gen_ok_syntax_proof : forall chk c l,
  parse_gen chk c = Ok l -> parse_dyndep c = Ok l.
Proof.
  intros chk c l H. unfold parse_dyndep, parse_gen, parse_raw in *.
  destruct (parse_loop_no_chk _ chk _ _ _ [] [] _ H) as [l' [H1 [H2 _]]].
  rewrite H1. f_equal. apply (H2 l). reflexivity.
Qed.

(* ---------- no NUL in printed files ---------- *)
Lemma esc_path_nonul p : forallb name_char_ok p = true -> nonul (esc_path p).
Proof.
  induction p as [|c p IH]; intros H; [apply nonul_nil|].
  cbn [forallb] in H. apply andb_true_iff in H. destruct H as [Hc Hp].
  destruct (name_char_ok_spec c Hc) as [H0 _].
  cbn [esc_path flat_map]. apply nonul_app; [|now apply IH].
  unfold esc_char. destruct (N.eqb c 36 || N.eqb c 32 || N.eqb c 58).
  - repeat apply nonul_cons; try discriminate; [exact H0|apply nonul_nil].
  - apply nonul_cons; [exact H0|apply nonul_nil].
Qed.

Lemma plist_items_nonul l : forallb wf_name l = true -> nonul (plist_items l).
Proof.
  induction l as [|p l IH]; intros H; [apply nonul_nil|].
  apply forallb_wf_cons in H. destruct H as [Hp Hl].
  destruct (wf_name_spec p Hp) as [_ [Hok _]].
  unfold plist_items. cbn [flat_map]. fold (plist_items l). apply nonul_app; [|now apply IH].
  apply nonul_cons; [discriminate|now apply esc_path_nonul].
Qed.

Lemma print_list_nonul l : forallb wf_name l = true -> nonul (print_list l).
Proof.
  intros H. rewrite print_list_items. destruct l as [|p0 l0]; [apply nonul_nil|].
  apply nonul_cons; [discriminate|]. apply nonul_cons; [discriminate|].
  now apply plist_items_nonul.
Qed.

Lemma const_nonul (c : bytes) : forallb (fun x => negb (N.eqb x 0)) c = true -> nonul c.
Proof.
  intros H Hin. rewrite forallb_forall in H. specialize (H 0 Hin). discriminate.
Qed.

Lemma print_stmt_nonul st : wf_stmt st = true -> nonul (print_stmt st).
Proof.
  intros H. destruct (wf_stmt_spec st H) as [Ho [Hos His]].
  destruct (wf_name_spec _ Ho) as [_ [Hok _]].
  unfold print_stmt.
  apply nonul_app; [apply const_nonul; reflexivity|].
  apply nonul_cons; [discriminate|].
  apply nonul_app; [now apply esc_path_nonul|].
  apply nonul_app; [now apply print_list_nonul|].
  apply nonul_cons; [discriminate|]. apply nonul_cons; [discriminate|].
  apply nonul_app; [apply const_nonul; reflexivity|].
  apply nonul_app; [now apply print_list_nonul|].
  apply nonul_app; [apply const_nonul; reflexivity|].
  destruct (dd_restat st); [apply const_nonul; reflexivity|apply nonul_nil].
Qed.

Lemma print_dyndep_nonul stmts :
  Forall (fun st => wf_stmt st = true) stmts -> nonul (print_dyndep stmts).
Proof.
  intros H. unfold print_dyndep. apply nonul_app; [apply const_nonul; reflexivity|].
  induction H as [|st l Hst _ IH]; [apply nonul_nil|].
  unfold print_body. cbn [flat_map]. apply nonul_app; [now apply print_stmt_nonul|exact IH].
Qed.

Lemma firstn_nonul k (c : bytes) : nonul c -> nonul (firstn k c).
Proof.
  intros H Hin. apply H. rewrite <- (firstn_skipn k c). apply in_or_app. now left.
Qed.

(** C11 truncation: no proper prefix of a rendered file that stops inside a line is accepted *)
Theorem C11_truncation_proof : forall chk stmts k,
  chk_ok chk -> Forall (fun st => wf_stmt st = true) stmts ->
  (forall c', firstn k (print_dyndep stmts) <> c' ++ [10]) ->
  exists e, parse_gen chk (firstn k (print_dyndep stmts)) = Err e.
Proof.
  intros chk stmts k Hchk Hwf Hnl.
  destruct (parse_gen chk (firstn k (print_dyndep stmts))) as [l|e] eqn:Hp; [|eauto]. exfalso.
  apply C11_accepted_ends_with_newline_proof in Hp; [|exact Hchk|].
  - destruct Hp as [c' E]. exact (Hnl c' E).
  - apply firstn_nonul. now apply print_dyndep_nonul.
Qed.

(** ... and a prefix that stops at a line boundary but lost the statement of an edge bound to the
    file is rejected by the loader ("not mentioned in its dyndep file") *)
Theorem C11_truncation_drops_statement_proof : forall g f stmts i e,
  Forall (fun st => wf_stmt st = true) stmts ->
  nth_error (g_edges g) i = Some e -> e_dyndep e = Some f -> mem_bytes f (e_ins e) = true ->
  find_stmt g stmts i = None ->
  exists err, dyndep_load g f (Some (print_dyndep stmts)) = Err err.
Proof.
  intros g f stmts i e Hwf Hn Hd Hm Hf. unfold dyndep_load.
  destruct (parse_gen (graph_chk g) (print_dyndep stmts)) as [l|err] eqn:Hp; [|eauto].
  apply parse_gen_ok_syntax_proof in Hp. rewrite (C11_parse_print_proof stmts Hwf) in Hp.
  injection Hp as <-. eapply C11_rejects_omitted_edge_proof; eauto.
Qed.

(* The one truncation nobody can detect: cutting exactly before the "  restat = 1" line of the
   LAST statement leaves the rendering of the same list with that restat flag cleared. *)
Lemma print_stmt_restat_line out outs ins :
  print_stmt (mkStmt out outs ins true) = print_stmt (mkStmt out outs ins false) ++ s_restat_line.
Proof.
  unfold print_stmt. cbn [dd_restat dd_out dd_imp_outs dd_imp_ins].
  rewrite <- !app_assoc. cbn [app]. rewrite <- !app_assoc. cbn [app]. rewrite <- !app_assoc.
  reflexivity.
Qed.

Lemma C11_truncation_restat_line_is_a_rendering : forall l out outs ins,
  print_dyndep (l ++ [mkStmt out outs ins true]) =
  print_dyndep (l ++ [mkStmt out outs ins false]) ++ s_restat_line.
Proof.
  intros l out outs ins. unfold print_dyndep, print_body. rewrite !flat_map_app. cbn [flat_map].
  rewrite print_stmt_restat_line. rewrite <- !app_assoc. reflexivity.
Qed.


(** what is rejected before anything is applied *)
Theorem C11_rejects_syntax_error_proof : forall g f c e,
  parse_gen (graph_chk g) c = Err e -> dyndep_load g f (Some c) = Err e.
Proof. intros g f c e H. unfold dyndep_load. now rewrite H. Qed.

Theorem C11_rejects_missing_file_proof : forall g f, dyndep_load g f None = Err E_loading.
Proof. reflexivity. Qed.

(** missing version line: the rendering without its first line *)
Theorem C11_rejects_missing_version_proof : forall chk stmts,
  Forall (fun st => wf_stmt st = true) stmts ->
  parse_gen chk (print_body stmts) = Err E_version_expected_build \/
  parse_gen chk (print_body stmts) = Err E_version_expected_eof.
Proof.
  intros chk stmts Hwf. unfold parse_gen, parse_raw. rewrite parse_loop_S.
  destruct stmts as [|st l].
  - right. reflexivity.
  - left. unfold print_body. cbn [flat_map]. fold (print_body l). rewrite <- app_assoc.
    rewrite print_stmt_shape. rewrite read_token_build.
    inversion Hwf as [|? ? Hst _]; subst.
    destruct (wf_stmt_spec st Hst) as [Hout _]. destruct (wf_name_spec _ Hout) as [Hne [Hok _]].
    rewrite eat_ws_esc by assumption. reflexivity.
Qed.

(* ---------- a valid prefix of statements followed by anything ---------- *)
Lemma peek_indent_body_next l NEXT :
  Forall (fun st => wf_stmt st = true) l ->
  peek_token T_INDENT NEXT = Ok (false, NEXT) ->
  peek_token T_INDENT (print_body l ++ NEXT) = Ok (false, print_body l ++ NEXT).
Proof.
  intros Hwf Hn. destruct l as [|st l]; [exact Hn|].
  unfold print_body. cbn [flat_map]. fold (print_body l). rewrite <- app_assoc.
  rewrite print_stmt_shape. unfold peek_token. rewrite read_token_build.
  inversion Hwf as [|? ? Hst _]; subst.
  destruct (wf_stmt_spec st Hst) as [Hout _]. destruct (wf_name_spec _ Hout) as [Hne [Hok _]].
  rewrite eat_ws_esc by assumption. reflexivity.
Qed.

Lemma parse_loop_print_prefix chk fuel0 NEXT :
  peek_token T_INDENT NEXT = Ok (false, NEXT) ->
  forall stmts fuel acc,
  Forall (fun st => wf_stmt st = true) stmts -> chk_passes chk acc stmts ->
  Forall (fun st => (length (dd_imp_outs st) < fuel0)%nat /\ (length (dd_imp_ins st) < fuel0)%nat) stmts ->
  parse_loop (length stmts + fuel) fuel0 chk (print_body stmts ++ NEXT) true acc =
  parse_loop fuel fuel0 chk NEXT true (rev stmts ++ acc).
Proof.
  intros Hnext. induction stmts as [|st l IH]; intros fuel acc Hwf Hchk Hf0; [reflexivity|].
  inversion Hwf as [|? ? Hst Hwfl]; subst. inversion Hf0 as [|? ? [Hfo Hfi] Hf0l]; subst.
  destruct Hchk as [Hc Hchk].
  cbn [length Nat.add]. rewrite parse_loop_S.
  unfold print_body. cbn [flat_map]. fold (print_body l). rewrite <- app_assoc.
  rewrite print_stmt_shape. rewrite read_token_build.
  destruct (wf_stmt_spec st Hst) as [Hout _]. destruct (wf_name_spec _ Hout) as [Hne [Hok _]].
  rewrite eat_ws_esc by assumption. cbv beta iota. cbn [negb].
  rewrite (parse_edge_print fuel0 chk acc st (print_body l ++ NEXT) Hst Hc Hfo Hfi
                            (peek_indent_body_next l NEXT Hwfl Hnext)).
  rewrite IH by assumption. cbn [rev]. rewrite <- app_assoc. reflexivity.
Qed.

Lemma parse_gen_prefix chk pre (tail : bytes) :
  Forall (fun st => wf_stmt st = true) pre -> chk_passes chk [] pre ->
  peek_token T_INDENT (tail ++ [0]) = Ok (false, tail ++ [0]) ->
  exists fuel fuel0, (length tail < fuel0)%nat /\
    parse_gen chk (print_dyndep pre ++ tail) = parse_loop (S fuel) fuel0 chk (tail ++ [0]) true (rev pre).
Proof.
  intros Hwf Hchk Hnext. unfold parse_gen, parse_raw, print_dyndep.
  rewrite <- !app_assoc.
  destruct (print_body_length pre) as [L1 L2].
  remember (length (s_version_line ++ print_body pre ++ tail ++ [0])) as n eqn:En.
  assert (Hlen : (length (print_body pre) + length tail < n)%nat).
  { subst n. rewrite !app_length. cbn [length]. lia. }
  clear En.
  rewrite parse_loop_S. rewrite read_token_version_line. cbv beta iota.
  rewrite parse_version_line. cbv beta iota.
  exists (n - length pre - 1)%nat, (S n). split; [lia|].
  replace n with (length pre + S (n - length pre - 1))%nat at 1 by lia.
  rewrite (parse_loop_print_prefix chk (S n) (tail ++ [0]) Hnext pre _ [] Hwf Hchk).
  - now rewrite app_nil_r.
  - eapply Forall_impl; [|exact L2]. cbv beta. intros a [Ha Hb]. split; lia.
Qed.

Lemma peek_indent_build x : (exists r, eat_ws x = Ok r) ->
  peek_token T_INDENT (s_build ++ 32 :: x) = Ok (false, s_build ++ 32 :: x).
Proof. intros [r Hr]. unfold peek_token. rewrite read_token_build, Hr. reflexivity. Qed.

Lemma in_nul_end (x : bytes) : In 0 (x ++ [0]).
Proof. apply in_or_app. right. now left. Qed.

(* a bad statement: "build <out>" followed by [X]; what parse_edge answers is decided by [X] *)
Section BadStatement.
  Variable chk : list dd_stmt -> bytes -> option dd_err.
  Variable pre : list dd_stmt.
  Variable out : bytes.
  Hypothesis Hpre : Forall (fun st => wf_stmt st = true) pre.
  Hypothesis Hchk : chk_passes chk [] pre.
  Hypothesis Hout : wf_name out = true.
  Hypothesis Hchk_out : chk (rev pre) out = None.

  (* the file: a valid rendering of [pre], then "build out" ++ X *)
  Definition bad_file (X : bytes) : bytes := print_dyndep pre ++ s_build ++ 32 :: esc_path out ++ X.

  Lemma bad_file_parse X :
    exists fuel fuel0,
      parse_gen chk (bad_file X) =
      match parse_edge fuel0 chk (rev pre) (esc_path out ++ X ++ [0]) with
      | Err e => Err e
      | Ok (stmt, r') => parse_loop fuel fuel0 chk r' true (stmt :: rev pre)
      end.
  Proof.
    destruct (wf_name_spec _ Hout) as [Hne [Hok _]].
    destruct (parse_gen_prefix chk pre (s_build ++ 32 :: esc_path out ++ X) Hpre Hchk) as [fuel [fuel0 [_ E]]].
    { rewrite <- app_assoc. cbn [app]. rewrite <- app_assoc. apply peek_indent_build.
      rewrite eat_ws_esc by assumption. eauto. }
    exists fuel, fuel0. unfold bad_file. rewrite E. rewrite parse_loop_S.
    rewrite <- app_assoc. cbn [app]. rewrite <- app_assoc. rewrite read_token_build.
    rewrite eat_ws_esc by assumption. reflexivity.
  Qed.

End BadStatement.

(* the stages of ParseEdge after the rule name / after the ':' (copies of the tail of
   [parse_edge]; [parse_edge_colon] below checks the copy against the definition) *)
Definition edge_after_rule (fuel : nat) (out : bytes) (outs : list bytes) (r6 : bytes)
  : result (dd_stmt * bytes) :=
  match read_path r6 with
  | Err e => Err e
  | Ok (t2, ne2, r7) =>
    if negb (ev_empty t2 ne2) then Err E_explicit_ins
    else
    match peek_token T_PIPE r7 with
    | Err e => Err e
    | Ok (has_ins, r8) =>
      match (if has_ins then read_paths fuel r8 else Ok ([], r8)) with
      | Err e => Err e
      | Ok (ins, r9) =>
        match peek_token T_PIPE2 r9 with
        | Err e => Err e
        | Ok (true, _) => Err E_order_only
        | Ok (false, r10) =>
          match expect_token T_NEWLINE r10 with
          | Err e => Err e
          | Ok r11 =>
            match peek_token T_INDENT r11 with
            | Err e => Err e
            | Ok (has_let, r12) =>
              match (if has_let then
                       match parse_let r12 with
                       | Err e => Err e
                       | Ok (key, (v, _), r13) =>
                         if negb (bytes_eqb key s_restat) then Err E_binding_not_restat
                         else Ok (negb (is_empty v), r13)
                       end
                     else Ok (false, r12)) with
              | Err e => Err e
              | Ok (restat, r14) =>
                match canon_paths ins with
                | Err e => Err e
                | Ok cins =>
                  match canon_paths outs with
                  | Err e => Err e
                  | Ok couts => Ok (mkStmt out couts cins restat, r14)
                  end
                end
              end
            end
          end
        end
      end
    end
  end.

Definition edge_after_colon (fuel : nat) (out : bytes) (outs : list bytes) (r5 : bytes)
  : result (dd_stmt * bytes) :=
  match read_ident r5 with
  | Err e => Err e
  | Ok None => Err E_expected_dyndep
  | Ok (Some (rule, r6)) =>
    if negb (bytes_eqb rule s_dyndep) then Err E_expected_dyndep
    else edge_after_rule fuel out outs r6
  end.

(* "build out: X" without implicit outputs *)
(* [byte] is a constant equal to [N]: a term written with literals is elaborated with [@cons N],
   an instantiated lemma may carry [@cons byte]; [rewrite] matches syntactically.  [rw L] rewrites
   with [L] after unfolding [byte]/[bytes] on both sides. *)
Ltac nb := unfold bytes in *; unfold byte in *.
Ltac norm_app := cbn [app]; rewrite <- ?app_assoc; cbn [app]; rewrite <- ?app_assoc; cbn [app].
Ltac rw L := let H := fresh "Hrw" in pose proof L as H; unfold bytes in H; unfold byte in H; rewrite H; clear H.

Lemma parse_edge_colon fuel chk seen (out : bytes) (Y : bytes) :
  wf_name out = true -> chk seen out = None ->
  parse_edge fuel chk seen (esc_path out ++ 58 :: 32 :: Y) =
  match eat_ws Y with Err e => Err e | Ok r5 => edge_after_colon fuel out [] r5 end.
Proof.
  intros Hout Hchk. destruct (wf_name_spec _ Hout) as [Hne [Hok Hcanon]].
  unfold parse_edge. nb.
  rw (read_path_esc out 58 (32 :: Y) Hout (or_intror (or_introl eq_refl))).
  assert (E1 : eat_ws (58 :: 32 :: Y) = Ok (58 :: 32 :: Y)) by reflexivity. rw E1.
  cbv beta iota. unfold ev_empty at 1. cbn [negb].
  replace (is_empty out) with false by (destruct out; [congruence|reflexivity]).
  cbv zeta. rewrite Hcanon, Hchk. rw (read_path_at_colon (32 :: Y)). cbv beta iota.
  unfold ev_empty at 1. cbn [negb].
  unfold peek_token at 1. rw (read_token_colon_sp Y).
  destruct (eat_ws Y) as [r5|e] eqn:EY; [|reflexivity]. cbn [token_eqb]. cbv beta iota.
  unfold expect_token at 1. rw (read_token_colon_sp Y). rewrite EY. reflexivity.
Qed.

Lemma varname_char_facts c : is_varname_char c = true ->
  c <> 32 /\ c <> 35 /\ c <> 10 /\ c <> 13 /\ c <> 36 /\ c <> 0.
Proof. intros H. repeat split; intros ->; vm_compute in H; discriminate. Qed.

Lemma span_varname_app : forall (w : bytes) (d : byte) (Y : bytes),
  forallb is_varname_char w = true -> is_varname_char d = false ->
  span_varname (w ++ d :: Y) = Ok (w, d :: Y).
Proof.
  induction w as [|c w IH]; intros d Y Hw Hd; cbn [app span_varname].
  - now rewrite Hd.
  - cbn [forallb] in Hw. apply andb_true_iff in Hw. destruct Hw as [Hc Hw].
    rewrite Hc, IH by assumption. reflexivity.
Qed.

Lemma read_ident_word (w : bytes) (d : byte) (Y : bytes) :
  w <> [] -> forallb is_varname_char w = true -> is_varname_char d = false ->
  read_ident (w ++ d :: Y) =
  match eat_ws (d :: Y) with Ok r => Ok (Some (w, r)) | Err e => Err e end.
Proof.
  intros Hne Hw Hd. destruct w as [|c w]; [congruence|].
  cbn [forallb] in Hw. apply andb_true_iff in Hw. destruct Hw as [Hc Hw].
  cbn [app read_ident]. rewrite Hc, span_varname_app by assumption. reflexivity.
Qed.

Lemma eat_ws_word (w : bytes) (Y : bytes) :
  w <> [] -> forallb is_varname_char w = true -> eat_ws (w ++ Y) = Ok (w ++ Y).
Proof.
  intros Hne Hw. destruct w as [|c w]; [congruence|].
  cbn [forallb] in Hw. apply andb_true_iff in Hw. destruct Hw as [Hc _].
  destruct (varname_char_facts c Hc) as [H32 [_ [_ [_ [H36 _]]]]].
  cbn [app]. now apply eat_ws_stop.
Qed.

Lemma read_token_pipe2 (R : bytes) : read_token (124 :: 124 :: R) =
  match eat_ws R with Ok r => Ok (T_PIPE2, 124 :: 124 :: R, r) | Err e => Err e end.
Proof. reflexivity. Qed.

Lemma read_token_indent2 (c : byte) (y : bytes) : is_varname_char c = true ->
  read_token (32 :: 32 :: c :: y) = Ok (T_INDENT, 32 :: 32 :: c :: y, c :: y).
Proof.
  intros Hc. destruct (varname_char_facts c Hc) as [H32 [H35 [H10 [H13 [H36 _]]]]].
  unfold read_token. cbn [read_token_aux N.eqb Pos.eqb].
  apply N.eqb_neq in H32, H35, H10, H13, H36.
  rewrite H32, H35, H10, H13. cbn [eat_ws]. now rewrite H32, H36.
Qed.

(** explicit output: "build out x ..." *)
Theorem C11_rejects_explicit_output_proof : forall chk pre out x d rest,
  Forall (fun st => wf_stmt st = true) pre -> chk_passes chk [] pre ->
  wf_name out = true -> chk (rev pre) out = None -> wf_name x = true -> delim d ->
  parse_gen chk (bad_file pre out (32 :: esc_path x ++ d :: rest)) = Err E_explicit_outs.
Proof.
  intros chk pre out x d rest Hpre Hchk Hout Hco Hx Hd.
  destruct (bad_file_parse chk pre out Hpre Hchk Hout (32 :: esc_path x ++ d :: rest)) as [fuel [fuel0 E]].
  rewrite E. clear E.
  destruct (wf_name_spec _ Hout) as [Hne [Hok Hcanon]].
  destruct (wf_name_spec _ Hx) as [Hxne [Hxok _]].
  norm_app.
  unfold parse_edge. nb.
  rw (read_path_esc out 32 (esc_path x ++ d :: rest ++ [0]) Hout (or_introl eq_refl)).
  cbn [eat_ws N.eqb Pos.eqb]. rw (eat_ws_esc x (d :: rest ++ [0]) Hxne Hxok).
  cbv beta iota. unfold ev_empty at 1. cbn [negb].
  replace (is_empty out) with false by (destruct out; [congruence|reflexivity]).
  cbv zeta. rewrite Hcanon, Hco.
  rw (read_path_esc x d (rest ++ [0]) Hx Hd).
  destruct (eat_ws_spec (d :: rest ++ [0])) as [r [Hr _]]; [right; apply in_nul_end|].
  nb. rewrite Hr. reflexivity.
Qed.

(** explicit input: "build out: dyndep x ..." *)
Theorem C11_rejects_explicit_input_proof : forall chk pre out x d rest,
  Forall (fun st => wf_stmt st = true) pre -> chk_passes chk [] pre ->
  wf_name out = true -> chk (rev pre) out = None -> wf_name x = true -> delim d ->
  parse_gen chk (bad_file pre out (58 :: 32 :: s_dyndep ++ 32 :: esc_path x ++ d :: rest))
  = Err E_explicit_ins.
Proof.
  intros chk pre out x d rest Hpre Hchk Hout Hco Hx Hd.
  destruct (bad_file_parse chk pre out Hpre Hchk Hout
              (58 :: 32 :: s_dyndep ++ 32 :: esc_path x ++ d :: rest)) as [fuel [fuel0 E]].
  rewrite E. clear E.
  destruct (wf_name_spec _ Hx) as [Hxne [Hxok _]].
  norm_app.
  nb. rw (parse_edge_colon fuel0 chk (rev pre) out (s_dyndep ++ 32 :: esc_path x ++ d :: rest ++ [0]) Hout Hco).
  assert (E1 : eat_ws (s_dyndep ++ 32 :: esc_path x ++ d :: rest ++ [0])
               = Ok (s_dyndep ++ 32 :: esc_path x ++ d :: rest ++ [0])) by reflexivity.
  nb. rewrite E1. unfold edge_after_colon.
  rw (read_ident_dyndep (32 :: esc_path x ++ d :: rest ++ [0]) 32 (esc_path x ++ d :: rest ++ [0]) eq_refl (or_introl eq_refl)).
  cbn [eat_ws N.eqb Pos.eqb]. rw (eat_ws_esc x (d :: rest ++ [0]) Hxne Hxok).
  cbv beta iota. rewrite bytes_eqb_refl. cbn [negb]. unfold edge_after_rule.
  rw (read_path_esc x d (rest ++ [0]) Hx Hd).
  destruct (eat_ws_spec (d :: rest ++ [0])) as [r [Hr _]]; [right; apply in_nul_end|].
  nb. rewrite Hr. reflexivity.
Qed.

(** order-only inputs: "build out: dyndep || ..." *)
Theorem C11_rejects_order_only_proof : forall chk pre out rest,
  Forall (fun st => wf_stmt st = true) pre -> chk_passes chk [] pre ->
  wf_name out = true -> chk (rev pre) out = None ->
  parse_gen chk (bad_file pre out (58 :: 32 :: s_dyndep ++ 32 :: 124 :: 124 :: rest))
  = Err E_order_only.
Proof.
  intros chk pre out rest Hpre Hchk Hout Hco.
  destruct (bad_file_parse chk pre out Hpre Hchk Hout
              (58 :: 32 :: s_dyndep ++ 32 :: 124 :: 124 :: rest)) as [fuel [fuel0 E]].
  rewrite E. clear E.
  norm_app.
  nb. rw (parse_edge_colon fuel0 chk (rev pre) out (s_dyndep ++ 32 :: 124 :: 124 :: rest ++ [0]) Hout Hco).
  assert (E1 : eat_ws (s_dyndep ++ 32 :: 124 :: 124 :: rest ++ [0])
               = Ok (s_dyndep ++ 32 :: 124 :: 124 :: rest ++ [0])) by reflexivity.
  nb. rewrite E1. unfold edge_after_colon.
  rw (read_ident_dyndep (32 :: 124 :: 124 :: rest ++ [0]) 32 (124 :: 124 :: rest ++ [0]) eq_refl (or_introl eq_refl)).
  assert (E2 : eat_ws (32 :: 124 :: 124 :: rest ++ [0]) = Ok (124 :: 124 :: rest ++ [0])) by reflexivity.
  nb. rewrite E2. cbv beta iota. rewrite bytes_eqb_refl. cbn [negb]. unfold edge_after_rule.
  rw (read_path_at_pipe (124 :: rest ++ [0])). cbv beta iota. unfold ev_empty at 1. cbn [negb].
  unfold peek_token. rw (read_token_pipe2 (rest ++ [0])).
  destruct (eat_ws_spec (rest ++ [0])) as [r [Hr _]]; [apply in_nul_end|].
  nb. rewrite Hr. cbn [token_eqb]. cbv beta iota.
  rw (read_token_pipe2 (rest ++ [0])). rewrite Hr. reflexivity.
Qed.

(** a binding other than restat: "build out: dyndep\n  key = 1\n..." *)
Theorem C11_rejects_other_binding_proof : forall chk pre out key rest,
  Forall (fun st => wf_stmt st = true) pre -> chk_passes chk [] pre ->
  wf_name out = true -> chk (rev pre) out = None ->
  key <> [] -> forallb is_varname_char key = true -> bytes_eqb key s_restat = false ->
  parse_gen chk (bad_file pre out
     (58 :: 32 :: s_dyndep ++ 10 :: 32 :: 32 :: key ++ 32 :: 61 :: 32 :: 49 :: 10 :: rest))
  = Err E_binding_not_restat.
Proof.
  intros chk pre out key rest Hpre Hchk Hout Hco Hkne Hkey Hk.
  destruct (bad_file_parse chk pre out Hpre Hchk Hout
     (58 :: 32 :: s_dyndep ++ 10 :: 32 :: 32 :: key ++ 32 :: 61 :: 32 :: 49 :: 10 :: rest)) as [fuel [fuel0 E]].
  rewrite E. clear E.
  norm_app.
  nb. match goal with |- context [s_dyndep ++ 10 :: 32 :: 32 :: ?X] => set (R := X) end.
  rw (parse_edge_colon fuel0 chk (rev pre) out (s_dyndep ++ 10 :: 32 :: 32 :: R) Hout Hco).
  assert (E1 : eat_ws (s_dyndep ++ 10 :: 32 :: 32 :: R) = Ok (s_dyndep ++ 10 :: 32 :: 32 :: R)) by reflexivity.
  nb. rewrite E1. unfold edge_after_colon.
  rw (read_ident_dyndep (10 :: 32 :: 32 :: R) 10 (32 :: 32 :: R) eq_refl (or_intror eq_refl)).
  assert (E2 : eat_ws (10 :: 32 :: 32 :: R) = Ok (10 :: 32 :: 32 :: R)) by reflexivity.
  nb. rewrite E2. cbv beta iota. rewrite bytes_eqb_refl. cbn [negb]. unfold edge_after_rule.
  rw (read_path_at_nl (32 :: 32 :: R)). cbv beta iota. unfold ev_empty at 1. cbn [negb].
  assert (E3 : peek_token T_PIPE (10 :: 32 :: 32 :: R) = Ok (false, 10 :: 32 :: 32 :: R)) by reflexivity.
  assert (E4 : peek_token T_PIPE2 (10 :: 32 :: 32 :: R) = Ok (false, 10 :: 32 :: 32 :: R)) by reflexivity.
  assert (E5 : expect_token T_NEWLINE (10 :: 32 :: 32 :: R) = Ok (32 :: 32 :: R)) by reflexivity.
  nb. rewrite E3. cbv beta iota. rewrite E4. cbv beta iota. rewrite E5. cbv beta iota.
  destruct key as [|c key']; [congruence|].
  cbn [forallb] in Hkey. apply andb_true_iff in Hkey. destruct Hkey as [Hc Hkey'].
  assert (E6 : peek_token T_INDENT (32 :: 32 :: R) = Ok (true, R)).
  { subst R. cbn [app]. unfold peek_token. rw (read_token_indent2 c (key' ++ 32 :: 61 :: 32 :: 49 :: 10 :: rest ++ [0]) Hc).
    reflexivity. }
  rewrite E6. cbv beta iota.
  assert (E7 : parse_let R = Ok (c :: key', ([49], true), rest ++ [0])).
  { subst R. unfold parse_let.
    assert (Hk1 : c :: key' <> []) by discriminate.
    assert (Hk2 : forallb is_varname_char (c :: key') = true)
      by (cbn [forallb]; apply andb_true_iff; split; assumption).
    rw (read_ident_word (c :: key') 32 (61 :: 32 :: 49 :: 10 :: rest ++ [0]) Hk1 Hk2 eq_refl).
    reflexivity. }
  rewrite E7. cbv beta iota. rewrite Hk. reflexivity.
Qed.

(** a rule name other than "dyndep": "build out: rule ..." *)
Theorem C11_rejects_wrong_rule_proof : forall chk pre out rule d rest,
  Forall (fun st => wf_stmt st = true) pre -> chk_passes chk [] pre ->
  wf_name out = true -> chk (rev pre) out = None ->
  rule <> [] -> forallb is_varname_char rule = true -> bytes_eqb rule s_dyndep = false ->
  d = 32 \/ d = 10 ->
  parse_gen chk (bad_file pre out (58 :: 32 :: rule ++ d :: rest)) = Err E_expected_dyndep.
Proof.
  intros chk pre out rule d rest Hpre Hchk Hout Hco Hrne Hrule Hr Hd.
  destruct (bad_file_parse chk pre out Hpre Hchk Hout (58 :: 32 :: rule ++ d :: rest)) as [fuel [fuel0 E]].
  rewrite E. clear E.
  norm_app.
  nb. rw (parse_edge_colon fuel0 chk (rev pre) out (rule ++ d :: rest ++ [0]) Hout Hco).
  rw (eat_ws_word rule (d :: rest ++ [0]) Hrne Hrule). unfold edge_after_colon.
  assert (Hdv : is_varname_char d = false) by (destruct Hd as [-> | ->]; reflexivity).
  rw (read_ident_word rule d (rest ++ [0]) Hrne Hrule Hdv).
  destruct (eat_ws_spec (d :: rest ++ [0])) as [r [Hr' _]]; [right; apply in_nul_end|].
  nb. rewrite Hr'. cbv beta iota. rewrite Hr. reflexivity.
Qed.

(* ========================================================================================== *)
(** * Part 5: file level statements *)

Lemma load_ok_found_bound g f stmts g' :
  load_dyndep g f stmts = Ok g' ->
  forall i st, find_stmt g stmts i = Some st -> bound_to g f i = true.
Proof.
  unfold load_dyndep. destruct (check_stmts g [] stmts); [discriminate|].
  destruct (load_edges _ _ _ _ _); [|discriminate].
  destruct (forallb _ stmts) eqn:Hu; [|discriminate]. intros _ i st Hf.
  apply find_stmt_some in Hf. destruct Hf as [Hin Hk].
  rewrite forallb_forall in Hu. eapply stmt_used_bound; [apply Hu; exact Hin|exact Hk].
Qed.

(** C11 at file level: when the real loader accepts a dyndep file, the graph it leaves is the
    graph of the manifest with the file's information written into the build statements *)
Theorem C11_file_load_is_inline_proof : forall g f c g',
  listed_once g f ->
  dyndep_load g f (Some c) = Ok g' ->
  exists stmts, parse_dyndep c = Ok stmts /\ g' = inline_dyndep g stmts.
Proof.
  intros g f c g' Honce. unfold dyndep_load.
  destruct (parse_gen (graph_chk g) c) as [stmts|e] eqn:Hp; [|discriminate]. intros Hl.
  exists stmts. split; [eapply parse_gen_ok_syntax_proof; eauto|].
  exact (C11_load_is_inline_proof g f stmts g' Honce Hl).
Qed.

Lemma check_stmts_passes g : forall stmts seen,
  check_stmts g seen stmts = None -> chk_passes (graph_chk g) seen stmts.
Proof.
  induction stmts as [|st l IH]; intros seen; cbn [check_stmts chk_passes]; [auto|].
  destruct (graph_chk g seen (dd_out st)); [discriminate|]. intros H. split; [reflexivity|now apply IH].
Qed.

(** loading the rendering of a statement list = applying the list *)
Theorem C11_load_print_proof : forall g f stmts,
  Forall (fun st => wf_stmt st = true) stmts -> check_stmts g [] stmts = None ->
  dyndep_load g f (Some (print_dyndep stmts)) = load_dyndep g f stmts.
Proof.
  intros g f stmts Hwf Hc. unfold dyndep_load.
  rewrite (C11_parse_print_gen_proof (graph_chk g) stmts Hwf (check_stmts_passes g stmts [] Hc)).
  reflexivity.
Qed.
