
type nat =
| O
| S of nat

(** val fst : ('a1 * 'a2) -> 'a1 **)

let fst = function
| (x, _) -> x

(** val snd : ('a1 * 'a2) -> 'a2 **)

let snd = function
| (_, y) -> y

(** val length : 'a1 list -> nat **)

let rec length = function
| [] -> O
| _ :: l' -> S (length l')

(** val app : 'a1 list -> 'a1 list -> 'a1 list **)

let rec app l m =
  match l with
  | [] -> m
  | a :: l1 -> a :: (app l1 m)

type comparison =
| Eq
| Lt
| Gt

(** val compOpp : comparison -> comparison **)

let compOpp = function
| Eq -> Eq
| Lt -> Gt
| Gt -> Lt

module Coq__1 = struct
 (** val add : nat -> nat -> nat **)
 let rec add n0 m =
   match n0 with
   | O -> m
   | S p -> S (add p m)
end
include Coq__1

(** val sub : nat -> nat -> nat **)

let rec sub n0 m =
  match n0 with
  | O -> n0
  | S k -> (match m with
            | O -> n0
            | S l -> sub k l)

(** val last : 'a1 list -> 'a1 -> 'a1 **)

let rec last l d =
  match l with
  | [] -> d
  | a :: l0 -> (match l0 with
                | [] -> a
                | _ :: _ -> last l0 d)

(** val rev : 'a1 list -> 'a1 list **)

let rec rev = function
| [] -> []
| x :: l' -> app (rev l') (x :: [])

(** val concat : 'a1 list list -> 'a1 list **)

let rec concat = function
| [] -> []
| x :: l0 -> app x (concat l0)

(** val map : ('a1 -> 'a2) -> 'a1 list -> 'a2 list **)

let rec map f = function
| [] -> []
| a :: t -> (f a) :: (map f t)

(** val fold_left : ('a1 -> 'a2 -> 'a1) -> 'a2 list -> 'a1 -> 'a1 **)

let rec fold_left f l a0 =
  match l with
  | [] -> a0
  | b :: t -> fold_left f t (f a0 b)

(** val filter : ('a1 -> bool) -> 'a1 list -> 'a1 list **)

let rec filter f = function
| [] -> []
| x :: l0 -> if f x then x :: (filter f l0) else filter f l0

(** val firstn : nat -> 'a1 list -> 'a1 list **)

let rec firstn n0 l =
  match n0 with
  | O -> []
  | S n1 -> (match l with
             | [] -> []
             | a :: l0 -> a :: (firstn n1 l0))

(** val skipn : nat -> 'a1 list -> 'a1 list **)

let rec skipn n0 l =
  match n0 with
  | O -> l
  | S n1 -> (match l with
             | [] -> []
             | _ :: l0 -> skipn n1 l0)

type positive =
| XI of positive
| XO of positive
| XH

type n =
| N0
| Npos of positive

type z =
| Z0
| Zpos of positive
| Zneg of positive

module Pos =
 struct
  type mask =
  | IsNul
  | IsPos of positive
  | IsNeg
 end

module Coq_Pos =
 struct
  (** val succ : positive -> positive **)

  let rec succ = function
  | XI p -> XO (succ p)
  | XO p -> XI p
  | XH -> XO XH

  (** val add : positive -> positive -> positive **)

  let rec add x y =
    match x with
    | XI p ->
      (match y with
       | XI q -> XO (add_carry p q)
       | XO q -> XI (add p q)
       | XH -> XO (succ p))
    | XO p ->
      (match y with
       | XI q -> XI (add p q)
       | XO q -> XO (add p q)
       | XH -> XI p)
    | XH -> (match y with
             | XI q -> XO (succ q)
             | XO q -> XI q
             | XH -> XO XH)

  (** val add_carry : positive -> positive -> positive **)

  and add_carry x y =
    match x with
    | XI p ->
      (match y with
       | XI q -> XI (add_carry p q)
       | XO q -> XO (add_carry p q)
       | XH -> XI (succ p))
    | XO p ->
      (match y with
       | XI q -> XO (add_carry p q)
       | XO q -> XI (add p q)
       | XH -> XO (succ p))
    | XH ->
      (match y with
       | XI q -> XI (succ q)
       | XO q -> XO (succ q)
       | XH -> XI XH)

  (** val pred_double : positive -> positive **)

  let rec pred_double = function
  | XI p -> XI (XO p)
  | XO p -> XI (pred_double p)
  | XH -> XH

  type mask = Pos.mask =
  | IsNul
  | IsPos of positive
  | IsNeg

  (** val succ_double_mask : mask -> mask **)

  let succ_double_mask = function
  | IsNul -> IsPos XH
  | IsPos p -> IsPos (XI p)
  | IsNeg -> IsNeg

  (** val double_mask : mask -> mask **)

  let double_mask = function
  | IsPos p -> IsPos (XO p)
  | x0 -> x0

  (** val double_pred_mask : positive -> mask **)

  let double_pred_mask = function
  | XI p -> IsPos (XO (XO p))
  | XO p -> IsPos (XO (pred_double p))
  | XH -> IsNul

  (** val sub_mask : positive -> positive -> mask **)

  let rec sub_mask x y =
    match x with
    | XI p ->
      (match y with
       | XI q -> double_mask (sub_mask p q)
       | XO q -> succ_double_mask (sub_mask p q)
       | XH -> IsPos (XO p))
    | XO p ->
      (match y with
       | XI q -> succ_double_mask (sub_mask_carry p q)
       | XO q -> double_mask (sub_mask p q)
       | XH -> IsPos (pred_double p))
    | XH -> (match y with
             | XH -> IsNul
             | _ -> IsNeg)

  (** val sub_mask_carry : positive -> positive -> mask **)

  and sub_mask_carry x y =
    match x with
    | XI p ->
      (match y with
       | XI q -> succ_double_mask (sub_mask_carry p q)
       | XO q -> double_mask (sub_mask p q)
       | XH -> IsPos (pred_double p))
    | XO p ->
      (match y with
       | XI q -> double_mask (sub_mask_carry p q)
       | XO q -> succ_double_mask (sub_mask_carry p q)
       | XH -> double_pred_mask p)
    | XH -> IsNeg

  (** val mul : positive -> positive -> positive **)

  let rec mul x y =
    match x with
    | XI p -> add y (XO (mul p y))
    | XO p -> XO (mul p y)
    | XH -> y

  (** val size_nat : positive -> nat **)

  let rec size_nat = function
  | XI p0 -> S (size_nat p0)
  | XO p0 -> S (size_nat p0)
  | XH -> S O

  (** val compare_cont : comparison -> positive -> positive -> comparison **)

  let rec compare_cont r x y =
    match x with
    | XI p ->
      (match y with
       | XI q -> compare_cont r p q
       | XO q -> compare_cont Gt p q
       | XH -> Gt)
    | XO p ->
      (match y with
       | XI q -> compare_cont Lt p q
       | XO q -> compare_cont r p q
       | XH -> Gt)
    | XH -> (match y with
             | XH -> r
             | _ -> Lt)

  (** val compare : positive -> positive -> comparison **)

  let compare =
    compare_cont Eq

  (** val eqb : positive -> positive -> bool **)

  let rec eqb p q =
    match p with
    | XI p0 -> (match q with
                | XI q0 -> eqb p0 q0
                | _ -> false)
    | XO p0 -> (match q with
                | XO q0 -> eqb p0 q0
                | _ -> false)
    | XH -> (match q with
             | XH -> true
             | _ -> false)

  (** val iter_op : ('a1 -> 'a1 -> 'a1) -> positive -> 'a1 -> 'a1 **)

  let rec iter_op op p a =
    match p with
    | XI p0 -> op a (iter_op op p0 (op a a))
    | XO p0 -> iter_op op p0 (op a a)
    | XH -> a

  (** val to_nat : positive -> nat **)

  let to_nat x =
    iter_op Coq__1.add x (S O)
 end

module N =
 struct
  (** val succ_double : n -> n **)

  let succ_double = function
  | N0 -> Npos XH
  | Npos p -> Npos (XI p)

  (** val double : n -> n **)

  let double = function
  | N0 -> N0
  | Npos p -> Npos (XO p)

  (** val add : n -> n -> n **)

  let add n0 m =
    match n0 with
    | N0 -> m
    | Npos p -> (match m with
                 | N0 -> n0
                 | Npos q -> Npos (Coq_Pos.add p q))

  (** val sub : n -> n -> n **)

  let sub n0 m =
    match n0 with
    | N0 -> N0
    | Npos n' ->
      (match m with
       | N0 -> n0
       | Npos m' ->
         (match Coq_Pos.sub_mask n' m' with
          | Coq_Pos.IsPos p -> Npos p
          | _ -> N0))

  (** val mul : n -> n -> n **)

  let mul n0 m =
    match n0 with
    | N0 -> N0
    | Npos p -> (match m with
                 | N0 -> N0
                 | Npos q -> Npos (Coq_Pos.mul p q))

  (** val compare : n -> n -> comparison **)

  let compare n0 m =
    match n0 with
    | N0 -> (match m with
             | N0 -> Eq
             | Npos _ -> Lt)
    | Npos n' -> (match m with
                  | N0 -> Gt
                  | Npos m' -> Coq_Pos.compare n' m')

  (** val eqb : n -> n -> bool **)

  let eqb n0 m =
    match n0 with
    | N0 -> (match m with
             | N0 -> true
             | Npos _ -> false)
    | Npos p -> (match m with
                 | N0 -> false
                 | Npos q -> Coq_Pos.eqb p q)

  (** val leb : n -> n -> bool **)

  let leb x y =
    match compare x y with
    | Gt -> false
    | _ -> true

  (** val ltb : n -> n -> bool **)

  let ltb x y =
    match compare x y with
    | Lt -> true
    | _ -> false

  (** val size_nat : n -> nat **)

  let size_nat = function
  | N0 -> O
  | Npos p -> Coq_Pos.size_nat p

  (** val pos_div_eucl : positive -> n -> n * n **)

  let rec pos_div_eucl a b =
    match a with
    | XI a' ->
      let (q, r) = pos_div_eucl a' b in
      let r' = succ_double r in
      if leb b r' then ((succ_double q), (sub r' b)) else ((double q), r')
    | XO a' ->
      let (q, r) = pos_div_eucl a' b in
      let r' = double r in
      if leb b r' then ((succ_double q), (sub r' b)) else ((double q), r')
    | XH ->
      (match b with
       | N0 -> (N0, (Npos XH))
       | Npos p -> (match p with
                    | XH -> ((Npos XH), N0)
                    | _ -> (N0, (Npos XH))))

  (** val div_eucl : n -> n -> n * n **)

  let div_eucl a b =
    match a with
    | N0 -> (N0, N0)
    | Npos na -> (match b with
                  | N0 -> (N0, a)
                  | Npos _ -> pos_div_eucl na b)

  (** val div : n -> n -> n **)

  let div a b =
    fst (div_eucl a b)

  (** val modulo : n -> n -> n **)

  let modulo a b =
    snd (div_eucl a b)

  (** val to_nat : n -> nat **)

  let to_nat = function
  | N0 -> O
  | Npos p -> Coq_Pos.to_nat p
 end

module Z =
 struct
  (** val double : z -> z **)

  let double = function
  | Z0 -> Z0
  | Zpos p -> Zpos (XO p)
  | Zneg p -> Zneg (XO p)

  (** val succ_double : z -> z **)

  let succ_double = function
  | Z0 -> Zpos XH
  | Zpos p -> Zpos (XI p)
  | Zneg p -> Zneg (Coq_Pos.pred_double p)

  (** val pred_double : z -> z **)

  let pred_double = function
  | Z0 -> Zneg XH
  | Zpos p -> Zpos (Coq_Pos.pred_double p)
  | Zneg p -> Zneg (XI p)

  (** val pos_sub : positive -> positive -> z **)

  let rec pos_sub x y =
    match x with
    | XI p ->
      (match y with
       | XI q -> double (pos_sub p q)
       | XO q -> succ_double (pos_sub p q)
       | XH -> Zpos (XO p))
    | XO p ->
      (match y with
       | XI q -> pred_double (pos_sub p q)
       | XO q -> double (pos_sub p q)
       | XH -> Zpos (Coq_Pos.pred_double p))
    | XH ->
      (match y with
       | XI q -> Zneg (XO q)
       | XO q -> Zneg (Coq_Pos.pred_double q)
       | XH -> Z0)

  (** val add : z -> z -> z **)

  let add x y =
    match x with
    | Z0 -> y
    | Zpos x' ->
      (match y with
       | Z0 -> x
       | Zpos y' -> Zpos (Coq_Pos.add x' y')
       | Zneg y' -> pos_sub x' y')
    | Zneg x' ->
      (match y with
       | Z0 -> x
       | Zpos y' -> pos_sub y' x'
       | Zneg y' -> Zneg (Coq_Pos.add x' y'))

  (** val opp : z -> z **)

  let opp = function
  | Z0 -> Z0
  | Zpos x0 -> Zneg x0
  | Zneg x0 -> Zpos x0

  (** val sub : z -> z -> z **)

  let sub m n0 =
    add m (opp n0)

  (** val mul : z -> z -> z **)

  let mul x y =
    match x with
    | Z0 -> Z0
    | Zpos x' ->
      (match y with
       | Z0 -> Z0
       | Zpos y' -> Zpos (Coq_Pos.mul x' y')
       | Zneg y' -> Zneg (Coq_Pos.mul x' y'))
    | Zneg x' ->
      (match y with
       | Z0 -> Z0
       | Zpos y' -> Zneg (Coq_Pos.mul x' y')
       | Zneg y' -> Zpos (Coq_Pos.mul x' y'))

  (** val compare : z -> z -> comparison **)

  let compare x y =
    match x with
    | Z0 -> (match y with
             | Z0 -> Eq
             | Zpos _ -> Lt
             | Zneg _ -> Gt)
    | Zpos x' -> (match y with
                  | Zpos y' -> Coq_Pos.compare x' y'
                  | _ -> Gt)
    | Zneg x' ->
      (match y with
       | Zneg y' -> compOpp (Coq_Pos.compare x' y')
       | _ -> Lt)

  (** val leb : z -> z -> bool **)

  let leb x y =
    match compare x y with
    | Gt -> false
    | _ -> true

  (** val ltb : z -> z -> bool **)

  let ltb x y =
    match compare x y with
    | Lt -> true
    | _ -> false

  (** val eqb : z -> z -> bool **)

  let eqb x y =
    match x with
    | Z0 -> (match y with
             | Z0 -> true
             | _ -> false)
    | Zpos p -> (match y with
                 | Zpos q -> Coq_Pos.eqb p q
                 | _ -> false)
    | Zneg p -> (match y with
                 | Zneg q -> Coq_Pos.eqb p q
                 | _ -> false)

  (** val abs_N : z -> n **)

  let abs_N = function
  | Z0 -> N0
  | Zpos p -> Npos p
  | Zneg p -> Npos p

  (** val to_N : z -> n **)

  let to_N = function
  | Zpos p -> Npos p
  | _ -> N0

  (** val of_N : n -> z **)

  let of_N = function
  | N0 -> Z0
  | Npos p -> Zpos p

  (** val pos_div_eucl : positive -> z -> z * z **)

  let rec pos_div_eucl a b =
    match a with
    | XI a' ->
      let (q, r) = pos_div_eucl a' b in
      let r' = add (mul (Zpos (XO XH)) r) (Zpos XH) in
      if ltb r' b
      then ((mul (Zpos (XO XH)) q), r')
      else ((add (mul (Zpos (XO XH)) q) (Zpos XH)), (sub r' b))
    | XO a' ->
      let (q, r) = pos_div_eucl a' b in
      let r' = mul (Zpos (XO XH)) r in
      if ltb r' b
      then ((mul (Zpos (XO XH)) q), r')
      else ((add (mul (Zpos (XO XH)) q) (Zpos XH)), (sub r' b))
    | XH -> if leb (Zpos (XO XH)) b then (Z0, (Zpos XH)) else ((Zpos XH), Z0)

  (** val div_eucl : z -> z -> z * z **)

  let div_eucl a b =
    match a with
    | Z0 -> (Z0, Z0)
    | Zpos a' ->
      (match b with
       | Z0 -> (Z0, a)
       | Zpos _ -> pos_div_eucl a' b
       | Zneg b' ->
         let (q, r) = pos_div_eucl a' (Zpos b') in
         (match r with
          | Z0 -> ((opp q), Z0)
          | _ -> ((opp (add q (Zpos XH))), (add b r))))
    | Zneg a' ->
      (match b with
       | Z0 -> (Z0, a)
       | Zpos _ ->
         let (q, r) = pos_div_eucl a' b in
         (match r with
          | Z0 -> ((opp q), Z0)
          | _ -> ((opp (add q (Zpos XH))), (sub b r)))
       | Zneg b' -> let (q, r) = pos_div_eucl a' (Zpos b') in (q, (opp r)))

  (** val modulo : z -> z -> z **)

  let modulo a b =
    let (_, r) = div_eucl a b in r
 end

type byte = n

type bytes = byte list

(** val bytes_eqb : bytes -> bytes -> bool **)

let rec bytes_eqb a b =
  match a with
  | [] -> (match b with
           | [] -> true
           | _ :: _ -> false)
  | x :: a' ->
    (match b with
     | [] -> false
     | y :: b' -> (&&) (N.eqb x y) (bytes_eqb a' b'))

type entry = { e_out : bytes; e_start : z; e_end : z; e_mtime : z; e_hash : n }

(** val digits_le : n -> nat -> n -> n list **)

let rec digits_le base fuel n0 =
  match fuel with
  | O -> []
  | S f ->
    (N.modulo n0 base) :: (if N.eqb (N.div n0 base) N0
                           then []
                           else digits_le base f (N.div n0 base))

(** val digit_char : n -> byte **)

let digit_char d =
  if N.ltb d (Npos (XO (XI (XO XH))))
  then N.add (Npos (XO (XO (XO (XO (XI XH)))))) d
  else N.add (Npos (XI (XI (XI (XO (XI (XO XH))))))) d

(** val print_N_base : n -> n -> bytes **)

let print_N_base base n0 =
  rev (map digit_char (digits_le base (S (N.size_nat n0)) n0))

(** val print_dec_N : n -> bytes **)

let print_dec_N =
  print_N_base (Npos (XO (XI (XO XH))))

(** val print_hex_N : n -> bytes **)

let print_hex_N =
  print_N_base (Npos (XO (XO (XO (XO XH)))))

(** val print_dec_Z : z -> bytes **)

let print_dec_Z z0 =
  if Z.ltb z0 Z0
  then (Npos (XI (XO (XI (XI (XO XH)))))) :: (print_dec_N (Z.abs_N z0))
  else print_dec_N (Z.to_N z0)

(** val digit_val : n -> byte -> n option **)

let digit_val base c =
  let v =
    if (&&) (N.leb (Npos (XO (XO (XO (XO (XI XH)))))) c)
         (N.leb c (Npos (XI (XO (XO (XI (XI XH)))))))
    then Some (N.sub c (Npos (XO (XO (XO (XO (XI XH)))))))
    else if (&&) (N.leb (Npos (XI (XO (XO (XO (XO (XI XH))))))) c)
              (N.leb c (Npos (XO (XI (XO (XI (XI (XI XH))))))))
         then Some (N.sub c (Npos (XI (XI (XI (XO (XI (XO XH))))))))
         else if (&&) (N.leb (Npos (XI (XO (XO (XO (XO (XO XH))))))) c)
                   (N.leb c (Npos (XO (XI (XO (XI (XI (XO XH))))))))
              then Some (N.sub c (Npos (XI (XI (XI (XO (XI XH)))))))
              else None
  in
  (match v with
   | Some d -> if N.ltb d base then Some d else None
   | None -> None)

(** val parse_digits : n -> n -> bytes -> n **)

let rec parse_digits base acc = function
| [] -> acc
| c :: s' ->
  (match digit_val base c with
   | Some d -> parse_digits base (N.add (N.mul acc base) d) s'
   | None -> acc)

(** val is_space : byte -> bool **)

let is_space c =
  (||)
    ((&&) (N.leb (Npos (XI (XO (XO XH)))) c)
      (N.leb c (Npos (XI (XO (XI XH))))))
    (N.eqb c (Npos (XO (XO (XO (XO (XO XH)))))))

(** val skip_ws : bytes -> bytes **)

let rec skip_ws s = match s with
| [] -> []
| c :: s' -> if is_space c then skip_ws s' else s

(** val split_sign : bytes -> bool * bytes **)

let split_sign s = match s with
| [] -> (false, [])
| c :: s' ->
  if N.eqb c (Npos (XI (XO (XI (XI (XO XH))))))
  then (true, s')
  else if N.eqb c (Npos (XI (XI (XO (XI (XO XH))))))
       then (false, s')
       else (false, s)

(** val clamp64 : z -> z **)

let clamp64 z0 =
  if Z.ltb z0 (Zneg (XO (XO (XO (XO (XO (XO (XO (XO (XO (XO (XO (XO (XO (XO
       (XO (XO (XO (XO (XO (XO (XO (XO (XO (XO (XO (XO (XO (XO (XO (XO (XO
       (XO (XO (XO (XO (XO (XO (XO (XO (XO (XO (XO (XO (XO (XO (XO (XO (XO
       (XO (XO (XO (XO (XO (XO (XO (XO (XO (XO (XO (XO (XO (XO (XO
       XH))))))))))))))))))))))))))))))))))))))))))))))))))))))))))))))))
  then Zneg (XO (XO (XO (XO (XO (XO (XO (XO (XO (XO (XO (XO (XO (XO (XO (XO
         (XO (XO (XO (XO (XO (XO (XO (XO (XO (XO (XO (XO (XO (XO (XO (XO (XO
         (XO (XO (XO (XO (XO (XO (XO (XO (XO (XO (XO (XO (XO (XO (XO (XO (XO
         (XO (XO (XO (XO (XO (XO (XO (XO (XO (XO (XO (XO (XO
         XH)))))))))))))))))))))))))))))))))))))))))))))))))))))))))))))))
  else if Z.ltb (Zpos (XI (XI (XI (XI (XI (XI (XI (XI (XI (XI (XI (XI (XI (XI
            (XI (XI (XI (XI (XI (XI (XI (XI (XI (XI (XI (XI (XI (XI (XI (XI
            (XI (XI (XI (XI (XI (XI (XI (XI (XI (XI (XI (XI (XI (XI (XI (XI
            (XI (XI (XI (XI (XI (XI (XI (XI (XI (XI (XI (XI (XI (XI (XI (XI
            XH)))))))))))))))))))))))))))))))))))))))))))))))))))))))))))))))
            z0
       then Zpos (XI (XI (XI (XI (XI (XI (XI (XI (XI (XI (XI (XI (XI (XI (XI
              (XI (XI (XI (XI (XI (XI (XI (XI (XI (XI (XI (XI (XI (XI (XI (XI
              (XI (XI (XI (XI (XI (XI (XI (XI (XI (XI (XI (XI (XI (XI (XI (XI
              (XI (XI (XI (XI (XI (XI (XI (XI (XI (XI (XI (XI (XI (XI (XI
              XH))))))))))))))))))))))))))))))))))))))))))))))))))))))))))))))
       else z0

(** val wrap32 : z -> z **)

let wrap32 z0 =
  let m =
    Z.modulo z0 (Zpos (XO (XO (XO (XO (XO (XO (XO (XO (XO (XO (XO (XO (XO (XO
      (XO (XO (XO (XO (XO (XO (XO (XO (XO (XO (XO (XO (XO (XO (XO (XO (XO (XO
      XH)))))))))))))))))))))))))))))))))
  in
  if Z.leb (Zpos (XO (XO (XO (XO (XO (XO (XO (XO (XO (XO (XO (XO (XO (XO (XO
       (XO (XO (XO (XO (XO (XO (XO (XO (XO (XO (XO (XO (XO (XO (XO (XO
       XH)))))))))))))))))))))))))))))))) m
  then Z.sub m (Zpos (XO (XO (XO (XO (XO (XO (XO (XO (XO (XO (XO (XO (XO (XO
         (XO (XO (XO (XO (XO (XO (XO (XO (XO (XO (XO (XO (XO (XO (XO (XO (XO
         (XO XH)))))))))))))))))))))))))))))))))
  else m

(** val c_strtoll : bytes -> z **)

let c_strtoll s =
  let (neg, s2) = split_sign (skip_ws s) in
  let v = Z.of_N (parse_digits (Npos (XO (XI (XO XH)))) N0 s2) in
  clamp64 (if neg then Z.opp v else v)

(** val c_atoi : bytes -> z **)

let c_atoi s =
  wrap32 (c_strtoll s)

(** val skip_0x : bytes -> bytes **)

let skip_0x s = match s with
| [] -> s
| c0 :: l ->
  (match l with
   | [] -> s
   | c1 :: s' ->
     if (&&) (N.eqb c0 (Npos (XO (XO (XO (XO (XI XH)))))))
          ((||) (N.eqb c1 (Npos (XO (XO (XO (XI (XI (XI XH))))))))
            (N.eqb c1 (Npos (XO (XO (XO (XI (XI (XO XH)))))))))
     then s'
     else s)

(** val c_strtoull16 : bytes -> n **)

let c_strtoull16 s =
  let (neg, s2) = split_sign (skip_ws s) in
  let v = parse_digits (Npos (XO (XO (XO (XO XH))))) N0 (skip_0x s2) in
  if N.leb (Npos (XO (XO (XO (XO (XO (XO (XO (XO (XO (XO (XO (XO (XO (XO (XO
       (XO (XO (XO (XO (XO (XO (XO (XO (XO (XO (XO (XO (XO (XO (XO (XO (XO
       (XO (XO (XO (XO (XO (XO (XO (XO (XO (XO (XO (XO (XO (XO (XO (XO (XO
       (XO (XO (XO (XO (XO (XO (XO (XO (XO (XO (XO (XO (XO (XO (XO
       XH))))))))))))))))))))))))))))))))))))))))))))))))))))))))))))))))) v
  then Npos (XI (XI (XI (XI (XI (XI (XI (XI (XI (XI (XI (XI (XI (XI (XI (XI
         (XI (XI (XI (XI (XI (XI (XI (XI (XI (XI (XI (XI (XI (XI (XI (XI (XI
         (XI (XI (XI (XI (XI (XI (XI (XI (XI (XI (XI (XI (XI (XI (XI (XI (XI
         (XI (XI (XI (XI (XI (XI (XI (XI (XI (XI (XI (XI (XI
         XH)))))))))))))))))))))))))))))))))))))))))))))))))))))))))))))))
  else if neg
       then N.modulo
              (N.sub (Npos (XO (XO (XO (XO (XO (XO (XO (XO (XO (XO (XO (XO
                (XO (XO (XO (XO (XO (XO (XO (XO (XO (XO (XO (XO (XO (XO (XO
                (XO (XO (XO (XO (XO (XO (XO (XO (XO (XO (XO (XO (XO (XO (XO
                (XO (XO (XO (XO (XO (XO (XO (XO (XO (XO (XO (XO (XO (XO (XO
                (XO (XO (XO (XO (XO (XO (XO
                XH)))))))))))))))))))))))))))))))))))))))))))))))))))))))))))))))))
                v) (Npos (XO (XO (XO (XO (XO (XO (XO (XO (XO (XO (XO (XO (XO
              (XO (XO (XO (XO (XO (XO (XO (XO (XO (XO (XO (XO (XO (XO (XO (XO
              (XO (XO (XO (XO (XO (XO (XO (XO (XO (XO (XO (XO (XO (XO (XO (XO
              (XO (XO (XO (XO (XO (XO (XO (XO (XO (XO (XO (XO (XO (XO (XO (XO
              (XO (XO (XO
              XH)))))))))))))))))))))))))))))))))))))))))))))))))))))))))))))))))
       else v

(** val lit : byte -> bytes -> bytes option **)

let lit c = function
| [] -> None
| c' :: s' -> if N.eqb c' c then Some s' else None

(** val lits : bytes -> bytes -> bytes option **)

let rec lits cs s =
  match cs with
  | [] -> Some s
  | c :: cs' -> (match lit c s with
                 | Some s' -> lits cs' s'
                 | None -> None)

(** val starts_with_digit : bytes -> bool **)

let starts_with_digit = function
| [] -> false
| c :: _ ->
  (match digit_val (Npos (XO (XI (XO XH)))) c with
   | Some _ -> true
   | None -> false)

(** val scan_int : bytes -> z option **)

let scan_int s =
  let (neg, s2) = split_sign (skip_ws s) in
  if starts_with_digit s2
  then let v = Z.of_N (parse_digits (Npos (XO (XI (XO XH)))) N0 s2) in
       Some (wrap32 (clamp64 (if neg then Z.opp v else v)))
  else None

(** val scan_signature : bytes -> z **)

let scan_signature s =
  match lit (Npos (XI (XI (XO (XO (XO XH)))))) s with
  | Some s1 ->
    (match lits ((Npos (XO (XI (XI (XI (XO (XI XH))))))) :: ((Npos (XI (XO
             (XO (XI (XO (XI XH))))))) :: ((Npos (XO (XI (XI (XI (XO (XI
             XH))))))) :: ((Npos (XO (XI (XO (XI (XO (XI XH))))))) :: ((Npos
             (XI (XO (XO (XO (XO (XI XH))))))) :: []))))) (skip_ws s1) with
     | Some s2 ->
       (match lits ((Npos (XO (XO (XI (XI (XO (XI XH))))))) :: ((Npos (XI (XI
                (XI (XI (XO (XI XH))))))) :: ((Npos (XI (XI (XI (XO (XO (XI
                XH))))))) :: []))) (skip_ws s2) with
        | Some s3 ->
          (match lit (Npos (XO (XI (XI (XO (XI (XI XH))))))) (skip_ws s3) with
           | Some s4 -> (match scan_int s4 with
                         | Some v -> v
                         | None -> Z0)
           | None -> Z0)
        | None -> Z0)
     | None -> Z0)
  | None -> Z0

(** val oldest_supported_version : z **)

let oldest_supported_version =
  Zpos (XI (XI XH))

(** val current_version : z **)

let current_version =
  Zpos (XI (XI XH))

(** val log_header : bytes **)

let log_header =
  app ((Npos (XI (XI (XO (XO (XO XH)))))) :: ((Npos (XO (XO (XO (XO (XO
    XH)))))) :: ((Npos (XO (XI (XI (XI (XO (XI XH))))))) :: ((Npos (XI (XO
    (XO (XI (XO (XI XH))))))) :: ((Npos (XO (XI (XI (XI (XO (XI
    XH))))))) :: ((Npos (XO (XI (XO (XI (XO (XI XH))))))) :: ((Npos (XI (XO
    (XO (XO (XO (XI XH))))))) :: ((Npos (XO (XO (XO (XO (XO
    XH)))))) :: ((Npos (XO (XO (XI (XI (XO (XI XH))))))) :: ((Npos (XI (XI
    (XI (XI (XO (XI XH))))))) :: ((Npos (XI (XI (XI (XO (XO (XI
    XH))))))) :: ((Npos (XO (XO (XO (XO (XO XH)))))) :: ((Npos (XO (XI (XI
    (XO (XI (XI XH))))))) :: [])))))))))))))
    (app (print_dec_Z current_version) ((Npos (XO (XI (XO XH)))) :: []))

(** val c_str : bytes -> bytes **)

let rec c_str = function
| [] -> []
| c :: s' -> if N.eqb c N0 then [] else c :: (c_str s')

(** val render_body : entry -> bytes **)

let render_body e =
  app (print_dec_Z e.e_start) ((Npos (XI (XO (XO
    XH)))) :: (app (print_dec_Z e.e_end) ((Npos (XI (XO (XO
                XH)))) :: (app (print_dec_Z e.e_mtime) ((Npos (XI (XO (XO
                            XH)))) :: (app (c_str e.e_out) ((Npos (XI (XO (XO
                                        XH)))) :: (print_hex_N e.e_hash))))))))

(** val render_entry : entry -> bytes **)

let render_entry e =
  app (render_body e) ((Npos (XO (XI (XO XH)))) :: [])

(** val find_byte : byte -> bytes -> nat option **)

let rec find_byte b = function
| [] -> None
| c :: s' ->
  if N.eqb c b
  then Some O
  else (match find_byte b s' with
        | Some i -> Some (S i)
        | None -> None)

type lr_state = { lr_cur : bytes; lr_le : nat option; lr_rest : bytes }

(** val lr_init : bytes -> lr_state **)

let lr_init file =
  { lr_cur = []; lr_le = None; lr_rest = file }

(** val read_line : nat -> lr_state -> lr_state option **)

let read_line b st =
  let first =
    match st.lr_cur with
    | [] ->
      (match firstn b st.lr_rest with
       | [] -> None
       | b0 :: l -> Some ((b0 :: l), (skipn b st.lr_rest)))
    | _ :: _ ->
      (match st.lr_le with
       | Some i -> Some ((skipn (S i) st.lr_cur), st.lr_rest)
       | None ->
         (match firstn b st.lr_rest with
          | [] -> None
          | b0 :: l -> Some ((b0 :: l), (skipn b st.lr_rest))))
  in
  (match first with
   | Some p ->
     let (cur, rest) = p in
     (match find_byte (Npos (XO (XI (XO XH)))) cur with
      | Some i -> Some { lr_cur = cur; lr_le = (Some i); lr_rest = rest }
      | None ->
        let room = sub b (length cur) in
        let cur' = app cur (firstn room rest) in
        Some { lr_cur = cur'; lr_le =
        (find_byte (Npos (XO (XI (XO XH)))) cur'); lr_rest =
        (skipn room rest) })
   | None -> None)

type load_res =
| LDiscard of bool * bool
| LOk of entry list * bool
| LFuel

(** val split_tab : bytes -> (bytes * bytes) option **)

let rec split_tab = function
| [] -> None
| c :: s' ->
  if N.eqb c (Npos (XI (XO (XO XH))))
  then Some ([], s')
  else (match split_tab s' with
        | Some p -> let (a, b) = p in Some ((c :: a), b)
        | None -> None)

(** val parse_line : bytes -> entry option **)

let parse_line line =
  match split_tab line with
  | Some p ->
    let (f1, r1) = p in
    (match split_tab r1 with
     | Some p0 ->
       let (f2, r2) = p0 in
       (match split_tab r2 with
        | Some p1 ->
          let (f3, r3) = p1 in
          (match split_tab r3 with
           | Some p2 ->
             let (f4, r4) = p2 in
             Some { e_out = f4; e_start = (c_atoi f1); e_end = (c_atoi f2);
             e_mtime = (c_strtoll f3); e_hash = (c_strtoull16 r4) }
           | None -> None)
        | None -> None)
     | None -> None)
  | None -> None

(** val has_out : bytes -> entry list -> bool **)

let rec has_out name = function
| [] -> false
| x :: l' -> (||) (bytes_eqb x.e_out name) (has_out name l')

(** val replace_out : entry -> entry list -> entry list **)

let rec replace_out e = function
| [] -> []
| x :: l' ->
  if bytes_eqb x.e_out e.e_out then e :: l' else x :: (replace_out e l')

(** val upsert : entry -> entry list -> entry list **)

let upsert e l =
  if has_out e.e_out l then replace_out e l else app l (e :: [])

(** val needs_recompaction_of : n -> n -> bool **)

let needs_recompaction_of unique total =
  (&&) (N.ltb (Npos (XO (XO (XI (XO (XO (XI XH))))))) total)
    (N.ltb (N.mul unique (Npos (XI XH))) total)

type load_acc = { la_entries : entry list; la_unique : n; la_total : n }

(** val la_empty : load_acc **)

let la_empty =
  { la_entries = []; la_unique = N0; la_total = N0 }

(** val load_step : load_acc -> bytes -> load_acc **)

let load_step acc line =
  match parse_line line with
  | Some e ->
    { la_entries = (upsert e acc.la_entries); la_unique =
      (if has_out e.e_out acc.la_entries
       then acc.la_unique
       else N.add acc.la_unique (Npos XH)); la_total =
      (N.add acc.la_total (Npos XH)) }
  | None -> acc

(** val load_finish : bool -> z -> load_acc -> load_res **)

let load_finish seen_line ver acc =
  if seen_line
  then LOk (acc.la_entries,
         ((||) (Z.ltb ver current_version)
           (needs_recompaction_of acc.la_unique acc.la_total)))
  else LOk (acc.la_entries, false)

(** val load_loop :
    nat -> nat -> bool -> z -> lr_state -> load_acc -> load_res **)

let rec load_loop b fuel seen ver st acc =
  match fuel with
  | O -> LFuel
  | S fuel' ->
    (match read_line b st with
     | Some st' ->
       let ver' = if Z.eqb ver Z0 then scan_signature st'.lr_cur else ver in
       if (&&) (Z.eqb ver Z0) (Z.ltb ver' oldest_supported_version)
       then LDiscard (true, true)
       else if (&&) (Z.eqb ver Z0) (Z.ltb current_version ver')
            then LDiscard (false, true)
            else (match st'.lr_le with
                  | Some i ->
                    load_loop b fuel' true ver' st'
                      (load_step acc (firstn i st'.lr_cur))
                  | None -> load_loop b fuel' true ver' st' acc)
     | None -> load_finish seen ver acc)

(** val load_log_buf : nat -> bytes -> load_res **)

let load_log_buf b file =
  load_loop b (S (S (length file))) false Z0 (lr_init file) la_empty

(** val load_buf_size : nat **)

let load_buf_size =
  N.to_nat (Npos (XO (XO (XO (XO (XO (XO (XO (XO (XO (XO (XO (XO (XO (XO (XO
    (XO (XO (XO XH)))))))))))))))))))

(** val load_log : bytes -> load_res **)

let load_log =
  load_log_buf load_buf_size

(** val record_append : bytes -> entry list -> bytes **)

let record_append file es =
  app file
    (app
      (match file with
       | [] -> log_header
       | _ :: _ ->
         if N.eqb (last file N0) (Npos (XO (XI (XO XH))))
         then []
         else (Npos (XO (XI (XO XH)))) :: []) (concat (map render_entry es)))

(** val recompact : (bytes -> bool) -> entry list -> bytes **)

let recompact live entries =
  app log_header
    (concat (map render_entry (filter (fun e -> live e.e_out) entries)))

(** val restat_entry : (bytes -> z option) -> entry -> entry **)

let restat_entry pick e =
  match pick e.e_out with
  | Some m ->
    { e_out = e.e_out; e_start = e.e_start; e_end = e.e_end; e_mtime = m;
      e_hash = e.e_hash }
  | None -> e

(** val restat_log : (bytes -> z option) -> entry list -> entry list **)

let restat_log pick entries =
  map (restat_entry pick) entries

(** val restat_file : (bytes -> z option) -> entry list -> bytes **)

let restat_file pick entries =
  app log_header (concat (map render_entry (restat_log pick entries)))

(** val session : (bytes -> bool) -> bytes -> entry list -> bytes **)

let session live file es =
  match load_log file with
  | LDiscard (_, _) -> record_append [] es
  | LOk (ents, needs_recompaction) ->
    if needs_recompaction
    then record_append (recompact live ents) es
    else record_append file es
  | LFuel -> file

(** val last_wins : entry list -> entry list **)

let last_wins es =
  fold_left (fun acc e -> upsert e acc) es []
