
val negb : bool -> bool

type nat =
| O
| S of nat

val option_map : ('a1 -> 'a2) -> 'a1 option -> 'a2 option

val length : 'a1 list -> nat

val app : 'a1 list -> 'a1 list -> 'a1 list

type comparison =
| Eq
| Lt
| Gt

val compOpp : comparison -> comparison

val add : nat -> nat -> nat

val sub : nat -> nat -> nat

module Nat :
 sig
  val eqb : nat -> nat -> bool

  val leb : nat -> nat -> bool

  val ltb : nat -> nat -> bool
 end

val tl : 'a1 list -> 'a1 list

val nth_error : 'a1 list -> nat -> 'a1 option

val last : 'a1 list -> 'a1 -> 'a1

val removelast : 'a1 list -> 'a1 list

val rev : 'a1 list -> 'a1 list

val flat_map : ('a1 -> 'a2 list) -> 'a1 list -> 'a2 list

val fold_left : ('a1 -> 'a2 -> 'a1) -> 'a2 list -> 'a1 -> 'a1

val existsb : ('a1 -> bool) -> 'a1 list -> bool

val forallb : ('a1 -> bool) -> 'a1 list -> bool

val find : ('a1 -> bool) -> 'a1 list -> 'a1 option

val firstn : nat -> 'a1 list -> 'a1 list

val skipn : nat -> 'a1 list -> 'a1 list

val repeat : 'a1 -> nat -> 'a1 list

type positive =
| XI of positive
| XO of positive
| XH

type n =
| N0
| Npos of positive

type z =
| Z0
| Zpos of positive
| Zneg of positive

module Pos :
 sig
  type mask =
  | IsNul
  | IsPos of positive
  | IsNeg
 end

module Coq_Pos :
 sig
  val succ : positive -> positive

  val add : positive -> positive -> positive

  val add_carry : positive -> positive -> positive

  val pred_double : positive -> positive

  type mask = Pos.mask =
  | IsNul
  | IsPos of positive
  | IsNeg

  val succ_double_mask : mask -> mask

  val double_mask : mask -> mask

  val double_pred_mask : positive -> mask

  val sub_mask : positive -> positive -> mask

  val sub_mask_carry : positive -> positive -> mask

  val mul : positive -> positive -> positive

  val compare_cont : comparison -> positive -> positive -> comparison

  val compare : positive -> positive -> comparison

  val eqb : positive -> positive -> bool
 end

module N :
 sig
  val sub : n -> n -> n

  val compare : n -> n -> comparison

  val eqb : n -> n -> bool

  val leb : n -> n -> bool
 end

module Z :
 sig
  val double : z -> z

  val succ_double : z -> z

  val pred_double : z -> z

  val pos_sub : positive -> positive -> z

  val add : z -> z -> z

  val opp : z -> z

  val sub : z -> z -> z

  val mul : z -> z -> z

  val compare : z -> z -> comparison

  val leb : z -> z -> bool

  val ltb : z -> z -> bool

  val eqb : z -> z -> bool

  val max : z -> z -> z

  val min : z -> z -> z

  val of_N : n -> z

  val pos_div_eucl : positive -> z -> z * z

  val div_eucl : z -> z -> z * z

  val modulo : z -> z -> z
 end

type byte = n

type bytes = byte list

val bytes_eqb : bytes -> bytes -> bool

val mem_bytes : bytes -> bytes list -> bool

val b_slash : byte

val b_dot : byte

val split_slash_aux : bytes -> bytes -> bytes list

val split_slash : bytes -> bytes list

val is_dot : bytes -> bool

val is_dotdot : bytes -> bool

val is_empty : bytes -> bool

val backup_loop : nat -> bytes -> bytes

val backup : nat -> bytes -> bytes

val strip_dotdot_run : nat -> bytes -> nat * bytes

val dotdot_prefix_rev : nat -> bytes

val mid_step : nat -> (nat * bytes) -> bytes -> nat * bytes

val last_step : nat -> (nat * bytes) -> bytes -> bytes

val canon : bytes -> bytes

type token =
| T_ERROR
| T_BUILD
| T_COLON
| T_DEFAULT
| T_EQUALS
| T_IDENT
| T_INCLUDE
| T_INDENT
| T_NEWLINE
| T_PIPE
| T_PIPE2
| T_PIPEAT
| T_POOL
| T_RULE
| T_SUBNINJA
| T_TEOF

val token_eqb : token -> token -> bool

type dd_err =
| E_loading
| E_version_expected_build
| E_version_expected_eof
| E_version_expected_name
| E_unexpected of token
| E_lex_token of bool
| E_unsupported_version
| E_expected_var_name
| E_expected of token * token
| E_expected_path
| E_empty_path
| E_no_build_stmt
| E_multiple_stmts
| E_explicit_outs
| E_expected_dyndep
| E_explicit_ins
| E_order_only
| E_binding_not_restat
| E_bad_escape
| E_unexpected_eof
| E_lexing
| E_newline_version
| E_not_mentioned
| E_not_bound
| E_multiple_rules
| E_overrun
| E_fuel

type 'a result =
| Ok of 'a
| Err of dd_err

val s_build : bytes

val s_pool : bytes

val s_rule : bytes

val s_default : bytes

val s_include : bytes

val s_subninja : bytes

val s_dyndep : bytes

val s_restat : bytes

val s_version_var : bytes

val in_range : byte -> byte -> byte -> bool

val is_alnum : byte -> bool

val is_simple_varname_char : byte -> bool

val is_varname_char : byte -> bool

val eat_ws : bytes -> bytes result

val span_varname : bytes -> (bytes * bytes) result

val keyword_or_ident : bytes -> token

val scan_plain : byte -> bytes -> (token * bytes) result

type rtmode =
| RT_spaces
| RT_comment of bytes

val read_token_aux :
  bytes -> bytes -> bool -> rtmode -> ((token * bytes) * bytes) result

val read_token : bytes -> ((token * bytes) * bytes) result

val peek_token : token -> bytes -> (bool * bytes) result

val expect_token : token -> bytes -> bytes result

val read_ident : bytes -> (bytes * bytes) option result

type ckind =
| K_text
| K_dollar
| K_space
| K_colon
| K_pipe
| K_cr
| K_lf
| K_nul

val ckind_of : byte -> ckind

type evmode =
| EM_normal
| EM_skipsp
| EM_simple
| EM_brace of bool

val read_eval :
  bool -> bytes -> evmode -> bytes -> bool -> ((bytes * bool) * bytes) result

val read_path : bytes -> ((bytes * bool) * bytes) result

val read_var_value : bytes -> ((bytes * bool) * bytes) result

val ev_empty : bytes -> bool -> bool

val is_cspace : byte -> bool

val skip_cspaces : bytes -> bytes

val digits_val : bytes -> z -> z

val strtol10 : bytes -> z

val wrap_int32 : z -> z

val c_atoi : bytes -> z

val after_dot : bytes -> bytes option

val version_ok : bytes -> bool

type dd_stmt = { dd_out : bytes; dd_imp_outs : bytes list;
                 dd_imp_ins : bytes list; dd_restat : bool }

val parse_let : bytes -> ((bytes * (bytes * bool)) * bytes) result

val parse_version : bytes -> bytes result

val read_paths : nat -> bytes -> (bytes list * bytes) result

val canon_paths : bytes list -> bytes list result

val parse_edge :
  nat -> (dd_stmt list -> bytes -> dd_err option) -> dd_stmt list -> bytes ->
  (dd_stmt * bytes) result

val parse_loop :
  nat -> nat -> (dd_stmt list -> bytes -> dd_err option) -> bytes -> bool ->
  dd_stmt list -> dd_stmt list result

val parse_raw :
  (dd_stmt list -> bytes -> dd_err option) -> bytes -> dd_stmt list result

val parse_gen :
  (dd_stmt list -> bytes -> dd_err option) -> bytes -> dd_stmt list result

val no_chk : dd_stmt list -> bytes -> dd_err option

val parse_dyndep : bytes -> dd_stmt list result

type node = bytes

type scope =
| NoScope
| Scope of bool option

type edge = { e_outs : node list; e_nimp_out : nat; e_ins : node list;
              e_nimp : nat; e_noo : nat; e_dyndep : node option;
              e_scope : scope; e_rule_restat : bool option }

type graph = { g_edges : edge list; g_file_restat : bool option }

val or_else : bool option -> bool option -> bool option

val edge_restat : graph -> edge -> bool

val find_index : ('a1 -> bool) -> 'a1 list -> nat option

val producer : graph -> node -> nat option

val count_bytes : node -> node list -> nat

val out_edges_from : nat -> edge list -> node -> nat list

val out_edges : graph -> node -> nat list

val update_nth : nat -> ('a1 -> 'a1) -> 'a1 list -> 'a1 list

val opt_node_eqb : node option -> node -> bool

val scope_restat : edge -> edge

val set_restat : graph -> nat -> graph

val set_restat_old : graph -> nat -> graph

val add_out : edge -> node -> edge

val add_outs : graph -> nat -> node list -> graph result

val splice_ins : edge -> node list -> edge

val update_edge : graph -> nat -> dd_stmt -> graph result

val stmt_key : graph -> dd_stmt -> nat option

val key_is : graph -> nat -> dd_stmt -> bool

val find_stmt : graph -> dd_stmt list -> nat -> dd_stmt option

val graph_chk : graph -> dd_stmt list -> bytes -> dd_err option

val check_stmts : graph -> dd_stmt list -> dd_stmt list -> dd_err option

val bound_to : graph -> node -> nat -> bool

val load_edges :
  graph -> node -> dd_stmt list -> nat list -> graph -> graph result

val stmt_used : graph -> node -> nat list -> dd_stmt -> bool

val load_dyndep : graph -> node -> dd_stmt list -> graph result

val update_edge_old : graph -> nat -> dd_stmt -> graph result

val load_edges_old :
  graph -> node -> dd_stmt list -> nat list -> graph -> graph result

val load_dyndep_old : graph -> node -> dd_stmt list -> graph result

val dyndep_load : graph -> node -> bytes option -> graph result

val apply_stmt : edge -> dd_stmt -> edge

val inline_edges : graph -> dd_stmt list -> nat -> edge list -> edge list

val inline_dyndep : graph -> dd_stmt list -> graph

val esc_char : byte -> bytes

val esc_path : bytes -> bytes

val print_list : bytes list -> bytes

val s_restat_line : bytes

val print_stmt : dd_stmt -> bytes

val s_version_line : bytes

val print_body : dd_stmt list -> bytes

val print_dyndep : dd_stmt list -> bytes

val name_char_ok : byte -> bool

val wf_name : bytes -> bool

val wf_stmt : dd_stmt -> bool
