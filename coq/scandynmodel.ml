
(** val negb : bool -> bool **)

let negb = function
| true -> false
| false -> true

type nat =
| O
| S of nat

(** val fst : ('a1 * 'a2) -> 'a1 **)

let fst = function
| (x, _) -> x

(** val length : 'a1 list -> nat **)

let rec length = function
| [] -> O
| _ :: l' -> S (length l')

(** val app : 'a1 list -> 'a1 list -> 'a1 list **)

let rec app l m =
  match l with
  | [] -> m
  | a :: l1 -> a :: (app l1 m)

type comparison =
| Eq
| Lt
| Gt

(** val compOpp : comparison -> comparison **)

let compOpp = function
| Eq -> Eq
| Lt -> Gt
| Gt -> Lt

(** val add : nat -> nat -> nat **)

let rec add n0 m =
  match n0 with
  | O -> m
  | S p -> S (add p m)

(** val sub : nat -> nat -> nat **)

let rec sub n0 m =
  match n0 with
  | O -> n0
  | S k -> (match m with
            | O -> n0
            | S l -> sub k l)

module Nat =
 struct
  (** val add : nat -> nat -> nat **)

  let rec add n0 m =
    match n0 with
    | O -> m
    | S p -> S (add p m)

  (** val eqb : nat -> nat -> bool **)

  let rec eqb n0 m =
    match n0 with
    | O -> (match m with
            | O -> true
            | S _ -> false)
    | S n' -> (match m with
               | O -> false
               | S m' -> eqb n' m')

  (** val leb : nat -> nat -> bool **)

  let rec leb n0 m =
    match n0 with
    | O -> true
    | S n' -> (match m with
               | O -> false
               | S m' -> leb n' m')

  (** val ltb : nat -> nat -> bool **)

  let ltb n0 m =
    leb (S n0) m
 end

(** val fold_left : ('a1 -> 'a2 -> 'a1) -> 'a2 list -> 'a1 -> 'a1 **)

let rec fold_left f l a0 =
  match l with
  | [] -> a0
  | b :: t -> fold_left f t (f a0 b)

(** val existsb : ('a1 -> bool) -> 'a1 list -> bool **)

let rec existsb f = function
| [] -> false
| a :: l0 -> (||) (f a) (existsb f l0)

(** val forallb : ('a1 -> bool) -> 'a1 list -> bool **)

let rec forallb f = function
| [] -> true
| a :: l0 -> (&&) (f a) (forallb f l0)

(** val find : ('a1 -> bool) -> 'a1 list -> 'a1 option **)

let rec find f = function
| [] -> None
| x :: tl -> if f x then Some x else find f tl

(** val firstn : nat -> 'a1 list -> 'a1 list **)

let rec firstn n0 l =
  match n0 with
  | O -> []
  | S n1 -> (match l with
             | [] -> []
             | a :: l0 -> a :: (firstn n1 l0))

(** val skipn : nat -> 'a1 list -> 'a1 list **)

let rec skipn n0 l =
  match n0 with
  | O -> l
  | S n1 -> (match l with
             | [] -> []
             | _ :: l0 -> skipn n1 l0)

(** val seq : nat -> nat -> nat list **)

let rec seq start = function
| O -> []
| S len0 -> start :: (seq (S start) len0)

type positive =
| XI of positive
| XO of positive
| XH

type n =
| N0
| Npos of positive

type z =
| Z0
| Zpos of positive
| Zneg of positive

module Pos =
 struct
  (** val succ : positive -> positive **)

  let rec succ = function
  | XI p -> XO (succ p)
  | XO p -> XI p
  | XH -> XO XH

  (** val add : positive -> positive -> positive **)

  let rec add x y =
    match x with
    | XI p ->
      (match y with
       | XI q -> XO (add_carry p q)
       | XO q -> XI (add p q)
       | XH -> XO (succ p))
    | XO p ->
      (match y with
       | XI q -> XI (add p q)
       | XO q -> XO (add p q)
       | XH -> XI p)
    | XH -> (match y with
             | XI q -> XO (succ q)
             | XO q -> XI q
             | XH -> XO XH)

  (** val add_carry : positive -> positive -> positive **)

  and add_carry x y =
    match x with
    | XI p ->
      (match y with
       | XI q -> XI (add_carry p q)
       | XO q -> XO (add_carry p q)
       | XH -> XI (succ p))
    | XO p ->
      (match y with
       | XI q -> XO (add_carry p q)
       | XO q -> XI (add p q)
       | XH -> XO (succ p))
    | XH ->
      (match y with
       | XI q -> XI (succ q)
       | XO q -> XO (succ q)
       | XH -> XI XH)

  (** val pred_double : positive -> positive **)

  let rec pred_double = function
  | XI p -> XI (XO p)
  | XO p -> XI (pred_double p)
  | XH -> XH

  (** val compare_cont : comparison -> positive -> positive -> comparison **)

  let rec compare_cont r x y =
    match x with
    | XI p ->
      (match y with
       | XI q -> compare_cont r p q
       | XO q -> compare_cont Gt p q
       | XH -> Gt)
    | XO p ->
      (match y with
       | XI q -> compare_cont Lt p q
       | XO q -> compare_cont r p q
       | XH -> Gt)
    | XH -> (match y with
             | XH -> r
             | _ -> Lt)

  (** val compare : positive -> positive -> comparison **)

  let compare =
    compare_cont Eq

  (** val eqb : positive -> positive -> bool **)

  let rec eqb p q =
    match p with
    | XI p0 -> (match q with
                | XI q0 -> eqb p0 q0
                | _ -> false)
    | XO p0 -> (match q with
                | XO q0 -> eqb p0 q0
                | _ -> false)
    | XH -> (match q with
             | XH -> true
             | _ -> false)
 end

module N =
 struct
  (** val add : n -> n -> n **)

  let add n0 m =
    match n0 with
    | N0 -> m
    | Npos p -> (match m with
                 | N0 -> n0
                 | Npos q -> Npos (Pos.add p q))

  (** val eqb : n -> n -> bool **)

  let eqb n0 m =
    match n0 with
    | N0 -> (match m with
             | N0 -> true
             | Npos _ -> false)
    | Npos p -> (match m with
                 | N0 -> false
                 | Npos q -> Pos.eqb p q)
 end

module Z =
 struct
  (** val double : z -> z **)

  let double = function
  | Z0 -> Z0
  | Zpos p -> Zpos (XO p)
  | Zneg p -> Zneg (XO p)

  (** val succ_double : z -> z **)

  let succ_double = function
  | Z0 -> Zpos XH
  | Zpos p -> Zpos (XI p)
  | Zneg p -> Zneg (Pos.pred_double p)

  (** val pred_double : z -> z **)

  let pred_double = function
  | Z0 -> Zneg XH
  | Zpos p -> Zpos (Pos.pred_double p)
  | Zneg p -> Zneg (XI p)

  (** val pos_sub : positive -> positive -> z **)

  let rec pos_sub x y =
    match x with
    | XI p ->
      (match y with
       | XI q -> double (pos_sub p q)
       | XO q -> succ_double (pos_sub p q)
       | XH -> Zpos (XO p))
    | XO p ->
      (match y with
       | XI q -> pred_double (pos_sub p q)
       | XO q -> double (pos_sub p q)
       | XH -> Zpos (Pos.pred_double p))
    | XH ->
      (match y with
       | XI q -> Zneg (XO q)
       | XO q -> Zneg (Pos.pred_double q)
       | XH -> Z0)

  (** val add : z -> z -> z **)

  let add x y =
    match x with
    | Z0 -> y
    | Zpos x' ->
      (match y with
       | Z0 -> x
       | Zpos y' -> Zpos (Pos.add x' y')
       | Zneg y' -> pos_sub x' y')
    | Zneg x' ->
      (match y with
       | Z0 -> x
       | Zpos y' -> pos_sub y' x'
       | Zneg y' -> Zneg (Pos.add x' y'))

  (** val compare : z -> z -> comparison **)

  let compare x y =
    match x with
    | Z0 -> (match y with
             | Z0 -> Eq
             | Zpos _ -> Lt
             | Zneg _ -> Gt)
    | Zpos x' -> (match y with
                  | Zpos y' -> Pos.compare x' y'
                  | _ -> Gt)
    | Zneg x' ->
      (match y with
       | Zneg y' -> compOpp (Pos.compare x' y')
       | _ -> Lt)

  (** val ltb : z -> z -> bool **)

  let ltb x y =
    match compare x y with
    | Lt -> true
    | _ -> false

  (** val gtb : z -> z -> bool **)

  let gtb x y =
    match compare x y with
    | Gt -> true
    | _ -> false

  (** val eqb : z -> z -> bool **)

  let eqb x y =
    match x with
    | Z0 -> (match y with
             | Z0 -> true
             | _ -> false)
    | Zpos p -> (match y with
                 | Zpos q -> Pos.eqb p q
                 | _ -> false)
    | Zneg p -> (match y with
                 | Zneg q -> Pos.eqb p q
                 | _ -> false)

  (** val max : z -> z -> z **)

  let max n0 m =
    match compare n0 m with
    | Lt -> m
    | _ -> n0
 end

type node = nat

type edge = nat

type deps_kind =
| DepsNone
| DepsDepfile
| DepsLog

type edge_info = { ei_ins : node list; ei_nimp : nat; ei_noo : nat;
                   ei_outs : node list; ei_vals : node list; ei_phony : 
                   bool; ei_restat : bool; ei_generator : bool;
                   ei_deps : deps_kind; ei_hash : n }

type graph = { g_nedges : nat; g_edge : (edge -> edge_info);
               g_producer : (node -> edge option); g_byloader : (node -> bool) }

type depfile_state =
| DfMissing
| DfEmpty
| DfUnparsable
| DfParsed of node list * node list

type world = { w_mtime : (node -> z); w_blog : (node -> (n * z) option);
               w_dlog : (node -> (z * node list) option);
               w_depfile : (edge -> depfile_state) }

type exist_status =
| ExUnknown
| ExMissing
| ExExists

type nstate = { ns_dirty : bool; ns_mtime : z; ns_exists : exist_status }

type mark =
| VisitNone
| VisitInStack
| VisitDone

type estate = { es_mark : mark; es_ready : bool; es_deps_loaded : bool;
                es_deps_missing : bool; es_ins : node list; es_nimp : 
                nat }

type sstate = { st_node : (node -> nstate); st_edge : (edge -> estate) }

(** val init_nstate : nstate **)

let init_nstate =
  { ns_dirty = false; ns_mtime = (Zneg XH); ns_exists = ExUnknown }

(** val init_estate : edge_info -> estate **)

let init_estate ei =
  { es_mark = VisitNone; es_ready = false; es_deps_loaded = false;
    es_deps_missing = false; es_ins = ei.ei_ins; es_nimp = ei.ei_nimp }

(** val init_state : graph -> sstate **)

let init_state g =
  { st_node = (fun _ -> init_nstate); st_edge = (fun e ->
    init_estate (g.g_edge e)) }

(** val upd_node : sstate -> node -> nstate -> sstate **)

let upd_node s n0 v =
  { st_node = (fun n' -> if Nat.eqb n' n0 then v else s.st_node n');
    st_edge = s.st_edge }

(** val upd_edge : sstate -> edge -> estate -> sstate **)

let upd_edge s e v =
  { st_node = s.st_node; st_edge = (fun e' ->
    if Nat.eqb e' e then v else s.st_edge e') }

(** val n_known : nstate -> bool **)

let n_known ns =
  match ns.ns_exists with
  | ExUnknown -> false
  | _ -> true

(** val n_exists : nstate -> bool **)

let n_exists ns =
  match ns.ns_exists with
  | ExExists -> true
  | _ -> false

(** val stat_if_necessary : world -> sstate -> node -> sstate **)

let stat_if_necessary w s n0 =
  let ns = s.st_node n0 in
  if n_known ns
  then s
  else let m = w.w_mtime n0 in
       upd_node s n0 { ns_dirty = ns.ns_dirty; ns_mtime = m; ns_exists =
         (if Z.eqb m Z0 then ExMissing else ExExists) }

(** val update_phony_mtime : sstate -> node -> z -> sstate **)

let update_phony_mtime s n0 m =
  let ns = s.st_node n0 in
  if n_exists ns
  then s
  else upd_node s n0 { ns_dirty = ns.ns_dirty; ns_mtime =
         (Z.max ns.ns_mtime m); ns_exists = ns.ns_exists }

(** val set_dirty : sstate -> node -> bool -> sstate **)

let set_dirty s n0 d =
  let ns = s.st_node n0 in
  upd_node s n0 { ns_dirty = d; ns_mtime = ns.ns_mtime; ns_exists =
    ns.ns_exists }

(** val set_mark : sstate -> edge -> mark -> sstate **)

let set_mark s e m =
  let es = s.st_edge e in
  upd_edge s e { es_mark = m; es_ready = es.es_ready; es_deps_loaded =
    es.es_deps_loaded; es_deps_missing = es.es_deps_missing; es_ins =
    es.es_ins; es_nimp = es.es_nimp }

(** val set_ready : sstate -> edge -> bool -> sstate **)

let set_ready s e r =
  let es = s.st_edge e in
  upd_edge s e { es_mark = es.es_mark; es_ready = r; es_deps_loaded =
    es.es_deps_loaded; es_deps_missing = es.es_deps_missing; es_ins =
    es.es_ins; es_nimp = es.es_nimp }

(** val set_deps_missing : sstate -> edge -> bool -> sstate **)

let set_deps_missing s e b =
  let es = s.st_edge e in
  upd_edge s e { es_mark = es.es_mark; es_ready = es.es_ready;
    es_deps_loaded = es.es_deps_loaded; es_deps_missing = b; es_ins =
    es.es_ins; es_nimp = es.es_nimp }

(** val set_ins : sstate -> edge -> node list -> nat -> sstate **)

let set_ins s e ins nimp =
  let es = s.st_edge e in
  upd_edge s e { es_mark = es.es_mark; es_ready = es.es_ready;
    es_deps_loaded = es.es_deps_loaded; es_deps_missing = es.es_deps_missing;
    es_ins = ins; es_nimp = nimp }

type 'a sres =
| SOk of 'a
| SCycle of node list
| SLoadErr of edge
| SOutOfFuel

(** val visit_all :
    (node -> 'a1 -> 'a1 sres) -> node list -> 'a1 -> 'a1 sres **)

let rec visit_all visit l a =
  match l with
  | [] -> SOk a
  | n0 :: l' ->
    (match visit n0 a with
     | SOk a' -> visit_all visit l' a'
     | x -> x)

(** val edge_outs : graph -> edge -> node list **)

let edge_outs g e =
  (g.g_edge e).ei_outs

(** val is_order_only : nat -> nat -> nat -> bool **)

let is_order_only len noo idx =
  if Nat.ltb len noo then false else Nat.leb (sub len noo) idx

(** val drop_until_edge : graph -> edge -> node list -> node list **)

let rec drop_until_edge g e stack = match stack with
| [] -> []
| x :: rest ->
  (match g.g_producer x with
   | Some e' -> if Nat.eqb e' e then stack else drop_until_edge g e rest
   | None -> drop_until_edge g e rest)

(** val cycle_path : graph -> node list -> node -> edge -> node list **)

let cycle_path g stack n0 e =
  match drop_until_edge g e stack with
  | [] -> n0 :: (n0 :: [])
  | _ :: rest -> n0 :: (app rest (n0 :: []))

(** val newer : sstate -> node -> node option -> node option **)

let newer s i mri = match mri with
| Some m ->
  if Z.gtb (s.st_node i).ns_mtime (s.st_node m).ns_mtime then Some i else mri
| None -> Some i

(** val eval_inputs :
    graph -> edge -> node list -> nat -> sstate -> node option -> bool ->
    (sstate * node option) * bool **)

let rec eval_inputs g e l idx s mri dirty =
  match l with
  | [] -> ((s, mri), dirty)
  | i :: l' ->
    let s1 =
      match g.g_producer i with
      | Some ie -> if (s.st_edge ie).es_ready then s else set_ready s e false
      | None -> s
    in
    if is_order_only (length (s1.st_edge e).es_ins) (g.g_edge e).ei_noo idx
    then eval_inputs g e l' (S idx) s1 mri dirty
    else if (s1.st_node i).ns_dirty
         then eval_inputs g e l' (S idx) s1 mri true
         else eval_inputs g e l' (S idx) s1 (newer s1 i mri) dirty

(** val mri_mtime : sstate -> node option -> z option **)

let mri_mtime s = function
| Some m -> Some (s.st_node m).ns_mtime
| None -> None

(** val phony_output_dirty :
    graph -> edge -> node -> node option -> sstate -> bool * sstate **)

let phony_output_dirty g e o mri s =
  if (&&)
       ((&&) (match (s.st_edge e).es_ins with
              | [] -> true
              | _ :: _ -> false)
         (match (g.g_edge e).ei_vals with
          | [] -> true
          | _ :: _ -> false)) (negb (n_exists (s.st_node o)))
  then (true, s)
  else (match mri with
        | Some m -> (false, (update_phony_mtime s o (s.st_node m).ns_mtime))
        | None -> (false, s))

(** val output_dirty_first :
    graph -> world -> edge -> node -> z option -> sstate -> bool **)

let output_dirty_first g w e o mri s =
  let ei = g.g_edge e in
  let ns = s.st_node o in
  if negb (n_exists ns)
  then true
  else let entry = w.w_blog o in
       let used_restat =
         (&&) ei.ei_restat (match entry with
                            | Some _ -> true
                            | None -> false)
       in
       if (&&) (negb used_restat)
            (match mri with
             | Some m -> Z.ltb ns.ns_mtime m
             | None -> false)
       then true
       else (match entry with
             | Some p ->
               let (h, lm) = p in
               if (&&) (negb ei.ei_generator) (negb (N.eqb ei.ei_hash h))
               then true
               else (match mri with
                     | Some m -> Z.ltb lm m
                     | None -> false)
             | None -> negb ei.ei_generator)

(** val output_dirty_again :
    graph -> world -> edge -> node -> z option -> sstate -> bool **)

let output_dirty_again g w e o mri s =
  let ei = g.g_edge e in
  let ns = s.st_node o in
  let entry = w.w_blog o in
  let used_restat =
    (&&) ei.ei_restat (match entry with
                       | Some _ -> true
                       | None -> false)
  in
  if (&&) (negb used_restat)
       (match mri with
        | Some m -> Z.ltb ns.ns_mtime m
        | None -> false)
  then true
  else (match entry with
        | Some p ->
          let (_, lm) = p in
          (match mri with
           | Some m -> Z.ltb lm m
           | None -> false)
        | None -> false)

(** val outputs_dirty_all :
    graph -> world -> edge -> node list -> node option -> sstate ->
    bool * sstate **)

let rec outputs_dirty_all g w e outs mri s =
  match outs with
  | [] -> (false, s)
  | o :: outs' ->
    if (g.g_edge e).ei_phony
    then let (d, s1) = phony_output_dirty g e o mri s in
         if d then (true, s1) else outputs_dirty_all g w e outs' mri s1
    else if output_dirty_first g w e o (mri_mtime s mri) s
         then (true, s)
         else outputs_dirty_all g w e outs' mri s

(** val outputs_dirty_depfile :
    graph -> world -> edge -> node option -> sstate -> bool **)

let outputs_dirty_depfile g w e mri s =
  existsb (fun o -> output_dirty_again g w e o (mri_mtime s mri) s)
    (edge_outs g e)

type load_res =
| LdFail
| LdErr
| LdOk of node list

(** val mem_node : node -> node list -> bool **)

let mem_node n0 l =
  existsb (Nat.eqb n0) l

(** val load_deps : graph -> world -> sstate -> edge -> load_res **)

let load_deps g w s e =
  match (g.g_edge e).ei_deps with
  | DepsNone -> LdOk []
  | DepsDepfile ->
    (match edge_outs g e with
     | [] -> LdErr
     | o0 :: _ ->
       (match w.w_depfile e with
        | DfUnparsable -> LdErr
        | DfParsed (outs, dins) ->
          (match outs with
           | [] -> LdErr
           | p :: douts ->
             if negb (Nat.eqb p o0)
             then LdFail
             else if forallb (fun o -> mem_node o (edge_outs g e))
                       (p :: douts)
                  then LdOk dins
                  else LdErr)
        | _ -> LdFail))
  | DepsLog ->
    (match edge_outs g e with
     | [] -> LdErr
     | o0 :: _ ->
       (match w.w_dlog o0 with
        | Some p ->
          let (dm, nodes) = p in
          if Z.gtb (s.st_node o0).ns_mtime dm then LdFail else LdOk nodes
        | None -> LdFail))

(** val load_deps_try : graph -> world -> sstate -> edge -> bool **)

let load_deps_try g w s e =
  match (g.g_edge e).ei_deps with
  | DepsNone -> true
  | DepsDepfile -> (match w.w_depfile e with
                    | DfMissing -> false
                    | _ -> true)
  | DepsLog ->
    (match edge_outs g e with
     | [] -> false
     | o0 :: _ ->
       (match w.w_dlog o0 with
        | Some p -> let (dm, _) = p in negb (Z.gtb (s.st_node o0).ns_mtime dm)
        | None -> false))

(** val splice : node list -> nat -> node list -> node list **)

let splice ins noo new_ins =
  let k = sub (length ins) noo in
  app (firstn k ins) (app new_ins (skipn k ins))

(** val splice_deps : graph -> sstate -> edge -> node list -> sstate **)

let splice_deps g s e new_ins =
  let es = s.st_edge e in
  set_ins s e (splice es.es_ins (g.g_edge e).ei_noo new_ins)
    (add es.es_nimp (length new_ins))

(** val mark_outputs_dirty : sstate -> node list -> sstate **)

let mark_outputs_dirty s outs =
  fold_left (fun s0 o -> set_dirty s0 o true) outs s

(** val stat_outputs : world -> sstate -> node list -> sstate **)

let stat_outputs w s outs =
  fold_left (stat_if_necessary w) outs s

(** val enter_edge : sstate -> edge -> sstate **)

let enter_edge s e =
  let es = s.st_edge e in
  upd_edge s e { es_mark = VisitInStack; es_ready = true; es_deps_loaded =
    true; es_deps_missing = false; es_ins = es.es_ins; es_nimp = es.es_nimp }

(** val opt_node_eqb : node option -> node option -> bool **)

let opt_node_eqb a b =
  match a with
  | Some x -> (match b with
               | Some y -> Nat.eqb x y
               | None -> false)
  | None -> (match b with
             | Some _ -> false
             | None -> true)

(** val finish_edge : graph -> sstate -> edge -> bool -> sstate **)

let finish_edge g s e dirty =
  let s1 = if dirty then mark_outputs_dirty s (edge_outs g e) else s in
  let s2 =
    if (&&) dirty
         (negb
           ((&&) (g.g_edge e).ei_phony
             (match (s1.st_edge e).es_ins with
              | [] -> true
              | _ :: _ -> false)))
    then set_ready s1 e false
    else s1
  in
  set_mark s2 e VisitDone

type sv = sstate * node list

(** val after_inputs :
    graph -> world -> (node -> sv -> sv sres) -> edge -> bool -> bool -> bool
    -> sstate -> node list -> sv sres **)

let after_inputs g w visit e was_loaded rev_missing rev_dirty s3 vs =
  let ins0 = (s3.st_edge e).es_ins in
  let (p, dirty) = eval_inputs g e ins0 O s3 None false in
  let (s4, mri) = p in
  let (dirty1, s5) =
    if dirty
    then (true, s4)
    else outputs_dirty_all g w e (edge_outs g e) mri s4
  in
  if was_loaded
  then SOk
         ((finish_edge g
            (if rev_missing then set_deps_missing s5 e true else s5) e
            ((||) ((||) dirty1 rev_dirty) rev_missing)), vs)
  else if dirty1
       then if load_deps_try g w s5 e
            then SOk ((finish_edge g s5 e true), vs)
            else SOk ((finish_edge g (set_deps_missing s5 e true) e true), vs)
       else (match load_deps g w s5 e with
             | LdFail ->
               SOk ((finish_edge g (set_deps_missing s5 e true) e true), vs)
             | LdErr -> SLoadErr e
             | LdOk new_ins ->
               let first_idx =
                 sub (length (s5.st_edge e).es_ins) (g.g_edge e).ei_noo
               in
               let s6 = splice_deps g s5 e new_ins in
               (match visit_all visit new_ins (s6, vs) with
                | SOk a ->
                  let (s7, vs7) = a in
                  let (p0, dirty2) =
                    eval_inputs g e new_ins first_idx s7 mri false
                  in
                  let (s8, mri2) = p0 in
                  let dirty3 =
                    if (&&) (negb dirty2) (negb (opt_node_eqb mri mri2))
                    then outputs_dirty_depfile g w e mri2 s8
                    else dirty2
                  in
                  SOk ((finish_edge g s8 e dirty3), vs7)
                | x -> x))

(** val recompute_node_dirty :
    graph -> world -> nat -> node list -> node -> sv -> sv sres **)

let rec recompute_node_dirty g w fuel stack n0 x =
  match fuel with
  | O -> SOutOfFuel
  | S fuel' ->
    let (s, vs) = x in
    (match g.g_producer n0 with
     | Some e ->
       (match (s.st_edge e).es_mark with
        | VisitNone ->
          let vs1 = app vs (g.g_edge e).ei_vals in
          let was_loaded = (s.st_edge e).es_deps_loaded in
          let rev_missing = (&&) was_loaded (s.st_edge e).es_deps_missing in
          let rev_dirty =
            (&&) was_loaded
              (existsb (fun o -> (s.st_node o).ns_dirty) (edge_outs g e))
          in
          let s1 = enter_edge s e in
          let stack1 = app stack (n0 :: []) in
          let s2 = stat_outputs w s1 (edge_outs g e) in
          let visit = recompute_node_dirty g w fuel' stack1 in
          (match visit_all visit (s2.st_edge e).es_ins (s2, vs1) with
           | SOk a ->
             let (s3, vs3) = a in
             after_inputs g w visit e was_loaded rev_missing rev_dirty s3 vs3
           | x0 -> x0)
        | VisitInStack -> SCycle (cycle_path g stack n0 e)
        | VisitDone -> SOk x)
     | None ->
       if n_known (s.st_node n0)
       then SOk x
       else let s1 = stat_if_necessary w s n0 in
            SOk ((set_dirty s1 n0 (negb (n_exists (s1.st_node n0)))), vs))

(** val scan_fuel : graph -> nat **)

let scan_fuel g =
  add g.g_nedges (S (S O))

(** val recompute_dirty_loop :
    graph -> world -> nat -> node list -> sstate -> node list -> sv sres **)

let rec recompute_dirty_loop g w qfuel queue s found =
  match queue with
  | [] -> SOk (s, found)
  | n0 :: queue' ->
    (match qfuel with
     | O -> SOutOfFuel
     | S qfuel' ->
       (match recompute_node_dirty g w (scan_fuel g) [] n0 (s, []) with
        | SOk a ->
          let (s', newv) = a in
          recompute_dirty_loop g w qfuel' (app queue' newv) s'
            (app found newv)
        | x -> x))

(** val total_vals : graph -> nat -> nat **)

let rec total_vals g = function
| O -> O
| S k' -> add (total_vals g k') (length (g.g_edge k').ei_vals)

(** val queue_fuel : graph -> nat **)

let queue_fuel g =
  S (total_vals g g.g_nedges)

(** val recompute_dirty : graph -> world -> sstate -> node -> sv sres **)

let recompute_dirty g w s n0 =
  recompute_dirty_loop g w (queue_fuel g) (n0 :: []) s []

type want =
| WantNothing
| WantToStart
| WantToFinish

type plan = { p_want : (edge -> want option); p_wanted : nat; p_commands : nat }

(** val init_plan : plan **)

let init_plan =
  { p_want = (fun _ -> None); p_wanted = O; p_commands = O }

(** val set_want : plan -> edge -> want -> plan **)

let set_want p e v =
  { p_want = (fun e' -> if Nat.eqb e' e then Some v else p.p_want e');
    p_wanted = p.p_wanted; p_commands = p.p_commands }

(** val edge_wanted : graph -> plan -> edge -> plan **)

let edge_wanted g p e =
  { p_want = p.p_want; p_wanted = (S p.p_wanted); p_commands =
    (if (g.g_edge e).ei_phony then p.p_commands else S p.p_commands) }

type missing_err = node * node option

type ast_res = ((bool * missing_err option) * plan) option

(** val ast_loop :
    (node -> plan -> ast_res) -> node list -> plan -> ast_res **)

let rec ast_loop visit ins p =
  match ins with
  | [] -> Some ((true, None), p)
  | i :: ins' ->
    (match visit i p with
     | Some p0 ->
       let (p1, p') = p0 in
       let (b, o) = p1 in
       if b
       then ast_loop visit ins' p'
       else (match o with
             | Some err -> Some ((false, (Some err)), p')
             | None -> ast_loop visit ins' p')
     | None -> None)

(** val add_sub_target :
    graph -> nat -> sstate -> node option -> node -> plan -> ast_res **)

let rec add_sub_target g fuel s dependent n0 p =
  match fuel with
  | O -> None
  | S fuel' ->
    (match g.g_producer n0 with
     | Some e ->
       if (s.st_edge e).es_ready
       then Some ((false, None), p)
       else let inserted =
              match p.p_want e with
              | Some _ -> false
              | None -> true
            in
            let w0 = match p.p_want e with
                     | Some v -> v
                     | None -> WantNothing
            in
            let p1 = set_want p e w0 in
            let p2 =
              if (&&) (s.st_node n0).ns_dirty
                   (match w0 with
                    | WantNothing -> true
                    | _ -> false)
              then edge_wanted g (set_want p1 e WantToStart) e
              else p1
            in
            if negb inserted
            then Some ((true, None), p2)
            else ast_loop (add_sub_target g fuel' s (Some n0))
                   (s.st_edge e).es_ins p2
     | None ->
       if (&&) (s.st_node n0).ns_dirty (negb (g.g_byloader n0))
       then Some ((false, (Some (n0, dependent))), p)
       else Some ((false, None), p))

(** val plan_fuel : graph -> nat **)

let plan_fuel g =
  add g.g_nedges (S (S O))

(** val plan_add_target : graph -> sstate -> node -> plan -> ast_res **)

let plan_add_target g s n0 p =
  add_sub_target g (plan_fuel g) s None n0 p

type scan_result =
| ScanCycle of node list
| ScanMissing of node * node option
| ScanLoadErr of edge
| ScanOutOfFuel
| ScanOk of sstate * plan

(** val add_validation_targets :
    graph -> sstate -> node list -> plan -> scan_result **)

let rec add_validation_targets g s vnodes p =
  match vnodes with
  | [] -> ScanOk (s, p)
  | v :: vnodes' ->
    (match g.g_producer v with
     | Some ve ->
       if (s.st_edge ve).es_ready
       then add_validation_targets g s vnodes' p
       else (match plan_add_target g s v p with
             | Some p0 ->
               let (p1, p') = p0 in
               let (b, o) = p1 in
               if b
               then add_validation_targets g s vnodes' p'
               else (match o with
                     | Some m0 -> let (m, d) = m0 in ScanMissing (m, d)
                     | None -> ScanOk (s, p'))
             | None -> ScanOutOfFuel)
     | None -> add_validation_targets g s vnodes' p)

(** val builder_add_target :
    graph -> world -> sstate -> plan -> node -> scan_result **)

let builder_add_target g w s p t =
  match recompute_dirty g w s t with
  | SOk a ->
    let (s', vnodes) = a in
    let need =
      match g.g_producer t with
      | Some e -> negb (s'.st_edge e).es_ready
      | None -> true
    in
    if need
    then (match plan_add_target g s' t p with
          | Some p0 ->
            let (p1, p') = p0 in
            let (b, o) = p1 in
            if b
            then add_validation_targets g s' vnodes p'
            else (match o with
                  | Some m0 -> let (m, d) = m0 in ScanMissing (m, d)
                  | None -> ScanOk (s', p'))
          | None -> ScanOutOfFuel)
    else add_validation_targets g s' vnodes p
  | SCycle c -> ScanCycle c
  | SLoadErr e -> ScanLoadErr e
  | SOutOfFuel -> ScanOutOfFuel

(** val add_targets :
    graph -> world -> sstate -> plan -> node list -> scan_result **)

let rec add_targets g w s p = function
| [] -> ScanOk (s, p)
| t :: targets' ->
  (match builder_add_target g w s p t with
   | ScanOk (s', p') -> add_targets g w s' p' targets'
   | x -> x)

(** val scan : graph -> world -> node list -> scan_result **)

let scan g w targets =
  add_targets g w (init_state g) init_plan targets

type dyn_entry = { de_edge : edge; de_outs : node list; de_ins : node list;
                   de_restat : bool }

type dd_state =
| DdMissing
| DdBad
| DdParsed of dyn_entry list

type dyn_info = { di_dyndep : (edge -> node option);
                  di_outedges : (node -> edge list);
                  di_file : (node -> dd_state) }

(** val no_dyndep : dyn_info **)

let no_dyndep =
  { di_dyndep = (fun _ -> None); di_outedges = (fun _ -> []); di_file =
    (fun _ -> DdMissing) }

type dstate = { d_g : graph; d_s : sstate; d_pending : (node -> bool) }

(** val with_s : dstate -> sstate -> dstate **)

let with_s d s =
  { d_g = d.d_g; d_s = s; d_pending = d.d_pending }

type dyn_err =
| DeLoad of node
| DeNotMentioned of edge * node
| DeExtra of node * edge
| DeMultiple of node

type 'a dres =
| DOk of 'a
| DCycle of node list
| DLoadErr of edge
| DOutOfFuel
| DDyn of dyn_err

(** val g_set_edge : graph -> edge -> edge_info -> graph **)

let g_set_edge g e ei =
  { g_nedges = g.g_nedges; g_edge = (fun e' ->
    if Nat.eqb e' e then ei else g.g_edge e'); g_producer = g.g_producer;
    g_byloader = g.g_byloader }

(** val g_set_producer : graph -> node -> edge -> graph **)

let g_set_producer g n0 e =
  { g_nedges = g.g_nedges; g_edge = g.g_edge; g_producer = (fun n' ->
    if Nat.eqb n' n0 then Some e else g.g_producer n'); g_byloader =
    g.g_byloader }

(** val set_in_edges : edge -> node list -> graph -> graph dres **)

let rec set_in_edges e outs g =
  match outs with
  | [] -> DOk g
  | n0 :: outs' ->
    (match g.g_producer n0 with
     | Some _ -> DDyn (DeMultiple n0)
     | None -> set_in_edges e outs' (g_set_producer g n0 e))

(** val update_edge : dstate -> dyn_entry -> dstate dres **)

let update_edge d en =
  let e = en.de_edge in
  let g = d.d_g in
  let ei = g.g_edge e in
  let ei' = { ei_ins = ei.ei_ins; ei_nimp = ei.ei_nimp; ei_noo = ei.ei_noo;
    ei_outs = (app ei.ei_outs en.de_outs); ei_vals = ei.ei_vals; ei_phony =
    ei.ei_phony; ei_restat = ((||) ei.ei_restat en.de_restat); ei_generator =
    ei.ei_generator; ei_deps = ei.ei_deps; ei_hash = ei.ei_hash }
  in
  (match set_in_edges e en.de_outs (g_set_edge g e ei') with
   | DOk g2 ->
     DOk { d_g = g2; d_s = (splice_deps g2 d.d_s e en.de_ins); d_pending =
       d.d_pending }
   | DCycle p -> DCycle p
   | DLoadErr e' -> DLoadErr e'
   | DOutOfFuel -> DOutOfFuel
   | DDyn err -> DDyn err)

(** val find_entry : edge -> dyn_entry list -> dyn_entry option **)

let find_entry e entries =
  find (fun en -> Nat.eqb en.de_edge e) entries

(** val opt_is : node option -> node -> bool **)

let opt_is o n0 =
  match o with
  | Some x -> Nat.eqb x n0
  | None -> false

(** val update_edges :
    dyn_info -> node -> dyn_entry list -> edge list -> dstate -> edge list ->
    (dstate * edge list) dres **)

let rec update_edges di dd entries oes d used =
  match oes with
  | [] -> DOk (d, used)
  | e :: oes' ->
    if negb (opt_is (di.di_dyndep e) dd)
    then update_edges di dd entries oes' d used
    else (match find_entry e entries with
          | Some en ->
            (match update_edge d en with
             | DOk d' -> update_edges di dd entries oes' d' (e :: used)
             | DCycle p -> DCycle p
             | DLoadErr e' -> DLoadErr e'
             | DOutOfFuel -> DOutOfFuel
             | DDyn err -> DDyn err)
          | None -> DDyn (DeNotMentioned (e, dd)))

(** val load_dyndeps : dyn_info -> node -> dstate -> dstate dres **)

let load_dyndeps di dd d =
  let d0 = { d_g = d.d_g; d_s = d.d_s; d_pending = (fun n0 ->
    if Nat.eqb n0 dd then false else d.d_pending n0) }
  in
  (match di.di_file dd with
   | DdParsed entries ->
     (match update_edges di dd entries (di.di_outedges dd) d0 [] with
      | DOk a ->
        let (d1, used) = a in
        (match find (fun en -> negb (mem_node en.de_edge used)) entries with
         | Some en -> DDyn (DeExtra (dd, en.de_edge))
         | None -> DOk d1)
      | DCycle p -> DCycle p
      | DLoadErr e' -> DLoadErr e'
      | DOutOfFuel -> DOutOfFuel
      | DDyn err -> DDyn err)
   | _ -> DDyn (DeLoad dd))

type dv = dstate * node list

(** val dvisit_all : (node -> dv -> dv dres) -> node list -> dv -> dv dres **)

let rec dvisit_all visit l a =
  match l with
  | [] -> DOk a
  | n0 :: l' ->
    (match visit n0 a with
     | DOk a' -> dvisit_all visit l' a'
     | x -> x)

(** val dyndep_step :
    dyn_info -> (node -> dv -> dv dres) -> edge -> bool -> dv -> dv dres **)

let dyndep_step di visit e was_loaded x =
  if was_loaded
  then DOk x
  else (match di.di_dyndep e with
        | Some dd ->
          if (fst x).d_pending dd
          then (match visit dd x with
                | DOk a ->
                  let (d1, vs1) = a in
                  let ready =
                    match d1.d_g.g_producer dd with
                    | Some pe -> (d1.d_s.st_edge pe).es_ready
                    | None -> true
                  in
                  if ready
                  then (match load_dyndeps di dd d1 with
                        | DOk d2 -> DOk (d2, vs1)
                        | DCycle p -> DCycle p
                        | DLoadErr e' -> DLoadErr e'
                        | DOutOfFuel -> DOutOfFuel
                        | DDyn err -> DDyn err)
                  else DOk (d1, vs1)
                | x0 -> x0)
          else DOk x
        | None -> DOk x)

(** val after_inputs_dyn :
    world -> (node -> dv -> dv dres) -> edge -> bool -> bool -> bool ->
    dstate -> node list -> dv dres **)

let after_inputs_dyn w visit e was_loaded rev_missing rev_dirty d3 vs =
  let g = d3.d_g in
  let s3 = d3.d_s in
  let ins0 = (s3.st_edge e).es_ins in
  let (p, dirty) = eval_inputs g e ins0 O s3 None false in
  let (s4, mri) = p in
  let (dirty1, s5) =
    if dirty
    then (true, s4)
    else outputs_dirty_all g w e (edge_outs g e) mri s4
  in
  if was_loaded
  then DOk
         ((with_s d3
            (finish_edge g
              (if rev_missing then set_deps_missing s5 e true else s5) e
              ((||) ((||) dirty1 rev_dirty) rev_missing))), vs)
  else if dirty1
       then if load_deps_try g w s5 e
            then DOk ((with_s d3 (finish_edge g s5 e true)), vs)
            else DOk
                   ((with_s d3
                      (finish_edge g (set_deps_missing s5 e true) e true)),
                   vs)
       else (match load_deps g w s5 e with
             | LdFail ->
               DOk
                 ((with_s d3
                    (finish_edge g (set_deps_missing s5 e true) e true)), vs)
             | LdErr -> DLoadErr e
             | LdOk new_ins ->
               let first_idx =
                 sub (length (s5.st_edge e).es_ins) (g.g_edge e).ei_noo
               in
               let s6 = splice_deps g s5 e new_ins in
               (match dvisit_all visit new_ins ((with_s d3 s6), vs) with
                | DOk a ->
                  let (d7, vs7) = a in
                  let g7 = d7.d_g in
                  let (p0, dirty2) =
                    eval_inputs g7 e new_ins first_idx d7.d_s mri false
                  in
                  let (s8, mri2) = p0 in
                  let dirty3 =
                    if (&&) (negb dirty2) (negb (opt_node_eqb mri mri2))
                    then outputs_dirty_depfile g7 w e mri2 s8
                    else dirty2
                  in
                  DOk ((with_s d7 (finish_edge g7 s8 e dirty3)), vs7)
                | x -> x))

(** val recompute_node_dirty_dyn :
    dyn_info -> world -> nat -> node list -> node -> dv -> dv dres **)

let rec recompute_node_dirty_dyn di w fuel stack n0 x =
  match fuel with
  | O -> DOutOfFuel
  | S fuel' ->
    let (d, vs) = x in
    let g = d.d_g in
    let s = d.d_s in
    (match g.g_producer n0 with
     | Some e ->
       (match (s.st_edge e).es_mark with
        | VisitNone ->
          let vs1 = app vs (g.g_edge e).ei_vals in
          let was_loaded = (s.st_edge e).es_deps_loaded in
          let rev_missing = (&&) was_loaded (s.st_edge e).es_deps_missing in
          let rev_dirty =
            (&&) was_loaded
              (existsb (fun o -> (s.st_node o).ns_dirty) (edge_outs g e))
          in
          let s1 = enter_edge s e in
          let stack1 = app stack (n0 :: []) in
          let visit = recompute_node_dirty_dyn di w fuel' stack1 in
          (match dyndep_step di visit e was_loaded ((with_s d s1), vs1) with
           | DOk a ->
             let (d2, vs2) = a in
             let s2 = stat_outputs w d2.d_s (edge_outs d2.d_g e) in
             (match dvisit_all visit (s2.st_edge e).es_ins ((with_s d2 s2),
                      vs2) with
              | DOk a0 ->
                let (d3, vs3) = a0 in
                after_inputs_dyn w visit e was_loaded rev_missing rev_dirty
                  d3 vs3
              | x0 -> x0)
           | x0 -> x0)
        | VisitInStack -> DCycle (cycle_path g stack n0 e)
        | VisitDone -> DOk x)
     | None ->
       if n_known (s.st_node n0)
       then DOk x
       else let s1 = stat_if_necessary w s n0 in
            DOk
            ((with_s d (set_dirty s1 n0 (negb (n_exists (s1.st_node n0))))),
            vs))

(** val recompute_dirty_loop_dyn :
    dyn_info -> world -> nat -> node list -> dstate -> node list -> dv dres **)

let rec recompute_dirty_loop_dyn di w qfuel queue d found =
  match queue with
  | [] -> DOk (d, found)
  | n0 :: queue' ->
    (match qfuel with
     | O -> DOutOfFuel
     | S qfuel' ->
       (match recompute_node_dirty_dyn di w (scan_fuel d.d_g) [] n0 (d, []) with
        | DOk a ->
          let (d', newv) = a in
          recompute_dirty_loop_dyn di w qfuel' (app queue' newv) d'
            (app found newv)
        | x -> x))

(** val recompute_dirty_dyn :
    dyn_info -> world -> dstate -> node -> dv dres **)

let recompute_dirty_dyn di w d n0 =
  recompute_dirty_loop_dyn di w (queue_fuel d.d_g) (n0 :: []) d []

type scan_dyn_result =
| SdCycle of node list
| SdMissing of node * node option
| SdLoadErr of edge
| SdOutOfFuel
| SdDyn of dyn_err
| SdOk of dstate * plan

(** val add_validation_targets_dyn :
    dstate -> node list -> plan -> scan_dyn_result **)

let rec add_validation_targets_dyn d vnodes p =
  match vnodes with
  | [] -> SdOk (d, p)
  | v :: vnodes' ->
    (match d.d_g.g_producer v with
     | Some ve ->
       if (d.d_s.st_edge ve).es_ready
       then add_validation_targets_dyn d vnodes' p
       else (match plan_add_target d.d_g d.d_s v p with
             | Some p0 ->
               let (p1, p') = p0 in
               let (b, o) = p1 in
               if b
               then add_validation_targets_dyn d vnodes' p'
               else (match o with
                     | Some m0 -> let (m, dep) = m0 in SdMissing (m, dep)
                     | None -> SdOk (d, p'))
             | None -> SdOutOfFuel)
     | None -> add_validation_targets_dyn d vnodes' p)

(** val builder_add_target_dyn :
    dyn_info -> world -> dstate -> plan -> node -> scan_dyn_result **)

let builder_add_target_dyn di w d p t =
  match recompute_dirty_dyn di w d t with
  | DOk a ->
    let (d', vnodes) = a in
    let need =
      match d'.d_g.g_producer t with
      | Some e -> negb (d'.d_s.st_edge e).es_ready
      | None -> true
    in
    if need
    then (match plan_add_target d'.d_g d'.d_s t p with
          | Some p0 ->
            let (p1, p') = p0 in
            let (b, o) = p1 in
            if b
            then add_validation_targets_dyn d' vnodes p'
            else (match o with
                  | Some m0 -> let (m, dep) = m0 in SdMissing (m, dep)
                  | None -> SdOk (d', p'))
          | None -> SdOutOfFuel)
    else add_validation_targets_dyn d' vnodes p
  | DCycle c -> SdCycle c
  | DLoadErr e -> SdLoadErr e
  | DOutOfFuel -> SdOutOfFuel
  | DDyn err -> SdDyn err

(** val add_targets_dyn :
    dyn_info -> world -> dstate -> plan -> node list -> scan_dyn_result **)

let rec add_targets_dyn di w d p = function
| [] -> SdOk (d, p)
| t :: targets' ->
  (match builder_add_target_dyn di w d p t with
   | SdOk (d', p') -> add_targets_dyn di w d' p' targets'
   | x -> x)

(** val init_pending : dyn_info -> graph -> node -> bool **)

let init_pending di g n0 =
  existsb (fun e -> opt_is (di.di_dyndep e) n0) (seq O g.g_nedges)

(** val init_dstate : dyn_info -> graph -> dstate **)

let init_dstate di g =
  { d_g = g; d_s = (init_state g); d_pending = (init_pending di g) }

(** val scan_dyn :
    dyn_info -> graph -> world -> node list -> scan_dyn_result **)

let scan_dyn di g w targets =
  add_targets_dyn di w (init_dstate di g) init_plan targets

(** val inline_entry : graph -> dyn_entry -> graph **)

let inline_entry g en =
  let e = en.de_edge in
  let ei = g.g_edge e in
  let ei' = { ei_ins = (splice ei.ei_ins ei.ei_noo en.de_ins); ei_nimp =
    (add ei.ei_nimp (length en.de_ins)); ei_noo = ei.ei_noo; ei_outs =
    (app ei.ei_outs en.de_outs); ei_vals = ei.ei_vals; ei_phony =
    ei.ei_phony; ei_restat = ((||) ei.ei_restat en.de_restat); ei_generator =
    ei.ei_generator; ei_deps = ei.ei_deps; ei_hash = ei.ei_hash }
  in
  fold_left (fun g' o -> g_set_producer g' o e) en.de_outs
    (g_set_edge g e ei')

(** val dd_files : dyn_info -> nat -> node list **)

let rec dd_files di = function
| O -> []
| S k' ->
  let l = dd_files di k' in
  (match di.di_dyndep k' with
   | Some dd -> if mem_node dd l then l else app l (dd :: [])
   | None -> l)

(** val inline_file : dyn_info -> graph -> node -> graph **)

let inline_file di g dd =
  match di.di_file dd with
  | DdParsed entries -> fold_left inline_entry entries g
  | _ -> g

(** val inline : dyn_info -> graph -> graph **)

let inline di g =
  fold_left (inline_file di) (dd_files di g.g_nedges) g
