(* C12: data structures of the manifest model: error classes, the parser's result type, the
   BindingEnv store, rules, edges, pools, and the late (edge-scope) variable lookup of
   EdgeEnv::LookupVariable / BindingEnv::LookupWithFallback.  Definitions only. *)
From NinjaV Require Import Base.Bytes Canon.CanonDefs Manifest.LexDefs.
Local Open Scope N_scope.

(* ---------- error classes (message families of the C++; texts are not compared) ---------- *)
Inductive perr :=
| E_lexing                       (* "lexing error" *)
| E_tabs                         (* "tabs are not allowed, use spaces" *)
| E_unexpected (t : token)       (* "unexpected <token>" at statement level *)
| E_expected (want got : token)  (* ExpectToken: "expected <want>, got <got>" *)
| E_expected_pool_name | E_dup_pool | E_bad_depth | E_unexpected_var | E_expected_depth
| E_expected_rule_name | E_dup_rule | E_rspfile | E_expected_command
| E_expected_var_name | E_expected_target | E_empty_path | E_unknown_target
| E_expected_path | E_expected_rule_ref | E_unknown_rule | E_unknown_pool
| E_multiple_rules | E_output_twice | E_dyndep_not_input
| E_bad_escape | E_unexpected_eof | E_newline_version
| E_loading                      (* "loading '<f>': ..." (missing file) *)
| E_include_depth                (* "include nesting too deep (include cycle?)" : include_depth_ >= 200 *)
| E_fatal_cycle                  (* Fatal("cycle in rule variables: ...") : process exit *)
| E_fatal_version                (* Fatal("ninja version ... incompatible ...") : process exit *)
(* artefacts of the totalisation; never produced for real inputs (see README) *)
| E_include_fuel                 (* recursion fuel of [load] exhausted: impossible with fuel >= 201,
                                    because the code's own depth limit (200) stops first *)
| E_overrun                      (* a scanner looked past the NUL sentinel *)
| E_loop_fuel                    (* a parser loop ran out of its (length-of-input) fuel *)
| E_lookup_fuel.                 (* rule-variable expansion deeper than #rule-bindings + 3 *)

Inductive pres (A : Type) :=
| P_ok (a : A)
| P_err (file : bytes) (line : nat) (c : perr).
Arguments P_ok {A} a.
Arguments P_err {A} file line c.

Notation "'do' x <- m ; k" :=
  (match m with P_ok x => k | P_err f l c => P_err f l c end)
  (at level 200, x pattern, m at level 100, k at level 200).

(* Lexer::Error(msg): file and line of last_token_ *)
Definition lex_error {A} (lx : lexer) (c : perr) : pres A := P_err (lx_file lx) (lx_line lx) c.
Definition overrun {A} (lx : lexer) : pres A := P_err (lx_file lx) O E_overrun.

Definition lexerr_class (e : lexerr) : perr :=
  match e with
  | LE_bad_escape => E_bad_escape
  | LE_unexpected_eof => E_unexpected_eof
  | LE_lexing => E_lexing
  | LE_newline_version => E_newline_version
  end.

(* ---------- association lists (std::map with operator[]= modelled by shadowing cons) ------- *)
Fixpoint assoc_get {V} (k : bytes) (l : list (bytes * V)) : option V :=
  match l with
  | [] => None
  | (k', v) :: l' => if bytes_eqb k k' then Some v else assoc_get k l'
  end.

(* ---------- rules and scopes ---------- *)
Record rule := mkRule {
  r_name : bytes;
  r_bindings : list (bytes * evalstring);   (* Rule::bindings_, newest first *)
  r_phony : bool                            (* phony_ : only the built-in rule *)
}.
Definition phony_rule : rule := mkRule s_phony [] true.

Record scope := mkScope {
  sc_bindings : list (bytes * bytes);   (* BindingEnv::bindings_, newest first *)
  sc_rules : list (bytes * rule)        (* BindingEnv::rules_ *)
}.
Definition empty_scope : scope := mkScope [] [].

(* A BindingEnv* is represented by its chain of scope ids: itself first, then parent_, ...;
   the store maps ids to the (mutable) contents. *)
Definition env := list nat.
Definition store := list scope.

Definition scope_at (st : store) (id : nat) : scope := nth id st empty_scope.

Fixpoint store_update (st : store) (id : nat) (f : scope -> scope) : store :=
  match st, id with
  | [], _ => []
  | s :: st', O => f s :: st'
  | s :: st', S n => s :: store_update st' n f
  end.

Definition env_id (e : env) : nat := hd O e.

(* BindingEnv::AddBinding on the scope [e] points to *)
Definition add_binding (st : store) (e : env) (k v : bytes) : store :=
  store_update st (env_id e) (fun s => mkScope ((k, v) :: sc_bindings s) (sc_rules s)).
Definition add_rule (st : store) (e : env) (r : rule) : store :=
  store_update st (env_id e) (fun s => mkScope (sc_bindings s) ((r_name r, r) :: sc_rules s)).

(* BindingEnv::LookupVariable *)
Fixpoint lookup_var (st : store) (e : env) (v : bytes) : bytes :=
  match e with
  | [] => []
  | id :: parents =>
    match assoc_get v (sc_bindings (scope_at st id)) with
    | Some x => x
    | None => lookup_var st parents v
    end
  end.

(* BindingEnv::LookupRule / LookupRuleCurrentScope *)
Fixpoint lookup_rule (st : store) (e : env) (n : bytes) : option rule :=
  match e with
  | [] => None
  | id :: parents =>
    match assoc_get n (sc_rules (scope_at st id)) with
    | Some r => Some r
    | None => lookup_rule st parents n
    end
  end.
Definition lookup_rule_current (st : store) (e : env) (n : bytes) : option rule :=
  assoc_get n (sc_rules (scope_at st (env_id e))).

(* EvalString::Evaluate with a total lookup function *)
Fixpoint eval_es (look : bytes -> bytes) (es : evalstring) : bytes :=
  match es with
  | [] => []
  | ET_raw t :: es' => t ++ eval_es look es'
  | ET_special v :: es' => look v ++ eval_es look es'
  end.
Definition eval_in (st : store) (e : env) (es : evalstring) : bytes := eval_es (lookup_var st e) es.

(* Rule::IsReservedBinding *)
Definition reserved_names : list bytes :=
  [s_command; s_depfile; s_dyndep; s_description; s_deps; s_generator;
   s_pool; s_restat; s_rspfile; s_rspfile_content; s_msvc_deps_prefix].
Definition is_reserved_binding (v : bytes) : bool := mem_bytes v reserved_names.

(* ---------- GetShellEscapedString (util.cc) ---------- *)
Definition is_shell_safe (c : byte) : bool :=
  is_alnum c || N.eqb c 95 || N.eqb c 43 || N.eqb c 45 || N.eqb c 46 || N.eqb c 47.
Fixpoint quote_body (s : bytes) : bytes :=
  match s with
  | [] => []
  | c :: s' => if N.eqb c 39 then 39 :: 92 :: 39 :: 39 :: quote_body s' else c :: quote_body s'
  end.
Definition shell_escape (s : bytes) : bytes :=
  if forallb is_shell_safe s then s else 39 :: quote_body s ++ [39].

(* ---------- pools ---------- *)
Record pool := mkPool { p_name : bytes; p_depth : Z }.
Definition default_pool : pool := mkPool [] 0%Z.
Definition console_pool : pool := mkPool s_console 1%Z.

(* std::map<string,...> order: lexicographic on unsigned bytes *)
Fixpoint bytes_ltb (a b : bytes) : bool :=
  match a, b with
  | [], [] => false
  | [], _ :: _ => true
  | _ :: _, [] => false
  | x :: a', y :: b' => if N.ltb x y then true else if N.ltb y x then false else bytes_ltb a' b'
  end.
Fixpoint pool_insert (p : pool) (l : list pool) : list pool :=
  match l with
  | [] => [p]
  | q :: l' => if bytes_ltb (p_name p) (p_name q) then p :: l else q :: pool_insert p l'
  end.
Fixpoint lookup_pool (n : bytes) (l : list pool) : option pool :=
  match l with
  | [] => None
  | q :: l' => if bytes_eqb n (p_name q) then Some q else lookup_pool n l'
  end.

(* ---------- edges ---------- *)
Record edge := mkEdge {
  e_rule : rule;
  e_env : env;                 (* edge->env_ *)
  e_pool : pool;               (* edge->pool_ (resolved while parsing) *)
  e_outs : list bytes;         (* outputs_ *)
  e_implicit_outs : nat;
  e_ins : list bytes;          (* inputs_ (after the phony self-reference filter) *)
  e_implicit_deps : nat;
  e_order_only_deps : nat;
  e_validations : list bytes;
  e_dyndep : bytes             (* path of edge->dyndep_, [] when NULL *)
}.

(* EdgeEnv::MakePathList *)
Definition path_list (esc : bool) (sep : byte) (paths : list bytes) : bytes :=
  fold_left (fun acc p =>
               (match acc with [] => [] | _ => acc ++ [sep] end)
                 ++ (if esc then shell_escape p else p)) paths [].

(* outcome of a late lookup *)
Inductive lres :=
| L_ok (v : bytes)
| L_cycle        (* Fatal("cycle in rule variables ...") *)
| L_fuel.

Fixpoint eval_es_l (look : bytes -> lres) (es : evalstring) : lres :=
  match es with
  | [] => L_ok []
  | ET_raw t :: es' =>
    match eval_es_l look es' with L_ok r => L_ok (t ++ r) | x => x end
  | ET_special v :: es' =>
    match look v with
    | L_ok a => match eval_es_l look es' with L_ok r => L_ok (a ++ r) | x => x end
    | x => x
    end
  end.

(* EdgeEnv::LookupVariable.  [lookups] is lookups_ (oldest first), [recursive] is recursive_.
   The C++ evaluates the tokens of an EvalString left to right and exits the process at the
   first cycle; as the only observable is "exit", the order in which [eval_es_l] finds a cycle
   is irrelevant.
   $in/$in_newline: the first inputs_.size() - implicit - order_only inputs.  The C++ does
   this subtraction in int; it can be negative only for the built-in phony rule after the
   self-reference filter, and that rule has no bindings in which $in could occur, so the
   truncated subtraction here is never observed. *)
Fixpoint edge_lookup (fuel : nat) (st : store) (e : edge) (esc : bool)
         (lookups : list bytes) (recursive : bool) (var : bytes) : lres :=
  match fuel with
  | O => L_fuel
  | S f =>
    if bytes_eqb var s_in || bytes_eqb var s_in_newline then
      let n := (length (e_ins e) - e_implicit_deps e - e_order_only_deps e)%nat in
      L_ok (path_list esc (if bytes_eqb var s_in then 32 else 10) (firstn n (e_ins e)))
    else if bytes_eqb var s_out then
      let n := (length (e_outs e) - e_implicit_outs e)%nat in
      L_ok (path_list esc 32 (firstn n (e_outs e)))
    else if recursive && mem_bytes var lookups then L_cycle
    else
      let ev := assoc_get var (r_bindings (e_rule e)) in
      let lookups' :=
        match ev with
        | Some _ => if recursive then lookups ++ [var] else lookups
        | None => lookups
        end in
      (* BindingEnv::LookupWithFallback on edge->env_ *)
      match assoc_get var (sc_bindings (scope_at st (env_id (e_env e)))) with
      | Some x => L_ok x
      | None =>
        match ev with
        | Some es => eval_es_l (edge_lookup f st e esc lookups' true) es
        | None => L_ok (lookup_var st (tl (e_env e)) var)
        end
      end
  end.

Definition lookup_fuel (e : edge) : nat := (length (r_bindings (e_rule e)) + 3)%nat.

(* Edge::GetBinding (escaped $in/$out) and GetUnescaped* *)
Definition get_binding (st : store) (e : edge) (k : bytes) : lres :=
  edge_lookup (lookup_fuel e) st e true [] false k.
Definition get_unescaped (st : store) (e : edge) (k : bytes) : lres :=
  edge_lookup (lookup_fuel e) st e false [] false k.

(* ---------- std::from_chars(begin, end, int) as used for "depth" ----------
   optional '-', then at least one digit, the whole string, value within int; then depth >= 0 *)
Definition is_digit (c : byte) : bool := in_range 48 57 c.
Fixpoint digits_value (acc : Z) (s : bytes) : Z :=
  match s with
  | [] => acc
  | c :: s' => digits_value (acc * 10 + Z.of_N (c - 48))%Z s'
  end.
Definition parse_depth (s : bytes) : option Z :=
  let (neg, d) := match s with
                  | c :: s' => if N.eqb c 45 then (true, s') else (false, s)
                  | [] => (false, s)
                  end in
  match d with
  | [] => None
  | _ =>
    if forallb is_digit d then
      let v := digits_value 0%Z d in
      let v' := if neg then (- v)%Z else v in
      if (Z.leb (-2147483648) v' && Z.leb v' 2147483647 && Z.leb 0 v')%bool then Some v' else None
    else None
  end.

(* ---------- atoi (glibc: strtol clamped to long, truncated to int) and ParseVersion ------- *)
Definition is_c_space (c : byte) : bool := in_range 9 13 c || N.eqb c 32.
Fixpoint skip_c_space (s : bytes) : bytes :=
  match s with
  | c :: s' => if is_c_space c then skip_c_space s' else s
  | [] => []
  end.
Fixpoint take_digits (s : bytes) : bytes :=
  match s with
  | c :: s' => if is_digit c then c :: take_digits s' else []
  | [] => []
  end.
Definition wrap_int32 (z : Z) : Z :=
  let m := (z mod 4294967296)%Z in
  if Z.ltb m 2147483648 then m else (m - 4294967296)%Z.
Definition atoi (s : bytes) : Z :=
  let s1 := skip_c_space s in
  let (neg, s2) := match s1 with
                   | c :: s' => if N.eqb c 45 then (true, s')
                                else if N.eqb c 43 then (false, s') else (false, s1)
                   | [] => (false, s1)
                   end in
  let v := digits_value 0%Z (take_digits s2) in
  let v' := if neg then (- v)%Z else v in
  let clamped := Z.max (-9223372036854775808) (Z.min 9223372036854775807 v') in
  wrap_int32 clamped.

Fixpoint split_at_dot (s : bytes) : bytes * option bytes :=
  match s with
  | [] => ([], None)
  | c :: s' => if N.eqb c 46 then ([], Some s')
               else let (a, b) := split_at_dot s' in (c :: a, b)
  end.
(* ParseVersion: minor = atoi of what follows the first '.', which stops at the next '.' *)
Definition parse_version (s : bytes) : Z * Z :=
  let (a, b) := split_at_dot s in
  (atoi a, match b with Some r => atoi r | None => 0%Z end).

(* CheckNinjaVersion against kNinjaVersion = "1.14.0.git": true = Fatal *)
Definition version_fatal (major minor : Z) : bool :=
  if Z.ltb major 1 then false
  else (Z.eqb major 1 && Z.ltb 14 minor) || Z.ltb 1 major.
