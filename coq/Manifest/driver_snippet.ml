(* OCaml printer for the extracted [eval_manifest] and [spec_manifest] (C12).  Paste into the model driver after
   the helpers int_of_n / int_of_nat / int_of_z / nat_of_int / bytes_of_hex / hex_of_bytes /
   split_ws of extract/model_run.ml; component name "manifest".
   Input line : <root-name-hex> <n> <name1-hex> <content1-hex> ...
   Output line: the format documented in harness/run_manifest.cc. *)

let tok_name = function
  | T_ERROR -> "error" | T_BUILD -> "build" | T_COLON -> "colon" | T_DEFAULT -> "default"
  | T_EQUALS -> "equals" | T_IDENT -> "ident" | T_INCLUDE -> "include" | T_INDENT -> "indent"
  | T_NEWLINE -> "newline" | T_PIPE -> "pipe" | T_PIPE2 -> "pipe2" | T_PIPEAT -> "pipeat"
  | T_POOL -> "pool" | T_RULE -> "rule" | T_SUBNINJA -> "subninja" | T_TEOF -> "eof"

let perr_name = function
  | E_lexing -> "lexing" | E_tabs -> "tabs"
  | E_unexpected t -> "unexpected:" ^ tok_name t
  | E_expected (w, g) -> "expected:" ^ tok_name w ^ ":" ^ tok_name g
  | E_expected_pool_name -> "expected_pool_name" | E_dup_pool -> "dup_pool"
  | E_bad_depth -> "bad_depth" | E_unexpected_var -> "unexpected_var"
  | E_expected_depth -> "expected_depth" | E_expected_rule_name -> "expected_rule_name"
  | E_dup_rule -> "dup_rule" | E_rspfile -> "rspfile" | E_expected_command -> "expected_command"
  | E_expected_var_name -> "expected_var_name" | E_expected_target -> "expected_target"
  | E_empty_path -> "empty_path" | E_unknown_target -> "unknown_target"
  | E_expected_path -> "expected_path" | E_expected_rule_ref -> "expected_rule_ref"
  | E_unknown_rule -> "unknown_rule" | E_unknown_pool -> "unknown_pool"
  | E_multiple_rules -> "multiple_rules" | E_output_twice -> "output_twice"
  | E_dyndep_not_input -> "dyndep_not_input" | E_bad_escape -> "bad_escape"
  | E_unexpected_eof -> "unexpected_eof" | E_newline_version -> "newline_version"
  | E_loading -> "loading" | E_include_depth -> "include_depth" | E_fatal_cycle -> "cycle" | E_fatal_version -> "version"
  | E_include_fuel -> "include_fuel" | E_overrun -> "overrun" | E_loop_fuel -> "loop_fuel"
  | E_lookup_fuel -> "lookup_fuel"

let manifest_file_map (w : string list) : (n list -> n list option) =
  let rec pairs = function
    | a :: b :: r -> (bytes_of_hex a, bytes_of_hex b) :: pairs r
    | _ -> [] in
  let tbl = pairs w in
  (* later entries of the same name win, like std::map::operator[]= in the harness *)
  fun name -> List.fold_left (fun acc (k, v) -> if k = name then Some v else acc) None tbl

let manifest_paths (l : n list list) : string =
  String.concat "" (string_of_int (List.length l) :: List.map (fun p -> " " ^ hex_of_bytes p) l)

let manifest_line_with evalf (include_fuel : int) (l : string) : string =
  match split_ws l with
  | root :: _n :: rest ->
    (match evalf (manifest_file_map rest) (nat_of_int include_fuel) (bytes_of_hex root) with
     | Err (_, _, E_fatal_cycle) -> "FATAL cycle"
     | Err (_, _, E_fatal_version) -> "FATAL version"
     | Err (_, _, (E_include_fuel | E_overrun | E_loop_fuel | E_lookup_fuel as c)) ->
       "MODEL " ^ perr_name c
     | Err (f, line, c) ->
       Printf.sprintf "ERR %s %d %s" (hex_of_bytes f) (int_of_nat line) (perr_name c)
     | Ok g ->
       let b = Buffer.create 256 in
       Buffer.add_string b (Printf.sprintf "OK P %d" (List.length g.g_pools));
       List.iter (fun (nm, d) ->
           Buffer.add_string b (Printf.sprintf " %s %d" (hex_of_bytes nm) (int_of_z d))) g.g_pools;
       Buffer.add_string b (" D " ^ manifest_paths g.g_defaults);
       Buffer.add_string b (Printf.sprintf " E %d" (List.length g.g_edges));
       List.iter (fun e ->
           Buffer.add_string b (" R " ^ hex_of_bytes e.d_rule);
           Buffer.add_string b (Printf.sprintf " O %s %d" (manifest_paths e.d_outs)
                                  (int_of_nat e.d_implicit_outs));
           Buffer.add_string b (Printf.sprintf " I %s %d %d" (manifest_paths e.d_ins)
                                  (int_of_nat e.d_implicit_deps) (int_of_nat e.d_order_only_deps));
           Buffer.add_string b (" V " ^ manifest_paths e.d_validations);
           Buffer.add_string b (Printf.sprintf " Q %s %d" (hex_of_bytes e.d_pool)
                                  (int_of_z e.d_pool_depth));
           Buffer.add_string b (" Y " ^ hex_of_bytes e.d_dyndep_node);
           Buffer.add_string b " B";
           List.iter (fun v -> Buffer.add_string b (" " ^ hex_of_bytes v)) e.d_bindings)
         g.g_edges;
       Buffer.contents b)
  | _ -> "BADLINE"

(* component "manifest": the model of the code; component "manifest_spec": the reference
   evaluator written from the manual (same line format) *)
let manifest_line = manifest_line_with eval_manifest
let manifest_spec_line = manifest_line_with spec_manifest
