(* C12/C13: theorems about the manifest model (EvalModel.v) and its relation to the reference
   evaluator (EvalSpec.v).  No axioms.

   (a) lookup order of the code's edge-variable lookup, stated over the environment
       structure, and its agreement with the documented order ([spec_lookup]):
       full agreement when the edge has its own scope, agreement under an excluding
       hypothesis when it has not, and a refutation without that hypothesis;
   (b) refutations by concrete manifests (vm_compute): file-level binding shadows the rule's,
       late re-binding, phantom rspfile bindings, pool evaluated before $out is known, version
       fields of the sub-parser; and the POSITIVE theorem for the (fixed) phony self-reference
       filter, with the old filter's defect kept as documentation;
   (c) C13: the self-including manifest is rejected by the code's depth limit (200);
   (d) rejection theorems for every documented constraint. *)
From Coq Require Import String Ascii.
From NinjaV Require Import Base.Bytes Canon.CanonDefs Manifest.LexDefs Manifest.ParseDefs
  Manifest.EvalModel Manifest.EvalSpec Manifest.LexProofs.
Local Open Scope N_scope.

(* ================= (a) lookup order ================= *)

Definition own_bindings (st : store) (e : edge) : list (bytes * bytes) :=
  sc_bindings (scope_at st (env_id (e_env e))).
Definition is_builtin (var : bytes) : bool :=
  bytes_eqb var s_in || bytes_eqb var s_in_newline || bytes_eqb var s_out.
Definition explicit_ins (e : edge) : list bytes :=
  firstn (length (e_ins e) - e_implicit_deps e - e_order_only_deps e) (e_ins e).
Definition explicit_outs (e : edge) : list bytes :=
  firstn (length (e_outs e) - e_implicit_outs e) (e_outs e).

Lemma edge_lookup_S f st e esc lk rc var :
  edge_lookup (S f) st e esc lk rc var =
  if bytes_eqb var s_in || bytes_eqb var s_in_newline then
    L_ok (path_list esc (if bytes_eqb var s_in then 32 else 10) (explicit_ins e))
  else if bytes_eqb var s_out then L_ok (path_list esc 32 (explicit_outs e))
  else if rc && mem_bytes var lk then L_cycle
  else
    let ev := assoc_get var (r_bindings (e_rule e)) in
    let lk' := match ev with
               | Some _ => if rc then lk ++ [var] else lk
               | None => lk
               end in
    match assoc_get var (own_bindings st e) with
    | Some x => L_ok x
    | None =>
      match ev with
      | Some es => eval_es_l (edge_lookup f st e esc lk' true) es
      | None => L_ok (lookup_var st (tl (e_env e)) var)
      end
    end.
Proof. reflexivity. Qed.

Lemma is_builtin_false var :
  is_builtin var = false ->
  bytes_eqb var s_in = false /\ bytes_eqb var s_in_newline = false /\ bytes_eqb var s_out = false.
Proof.
  unfold is_builtin. intros H.
  apply orb_false_iff in H as [H Ho]. apply orb_false_iff in H as [Hi Hn]. auto.
Qed.

(* 1. $in / $out come first, whatever the scopes contain *)
Theorem C12_lookup_builtin_first st e :
  get_binding st e s_in = L_ok (path_list true 32 (explicit_ins e)) /\
  get_binding st e s_out = L_ok (path_list true 32 (explicit_outs e)) /\
  get_unescaped st e s_in_newline = L_ok (path_list false 10 (explicit_ins e)).
Proof.
  unfold get_binding, get_unescaped, lookup_fuel.
  replace (length (r_bindings (e_rule e)) + 3)%nat with (S (length (r_bindings (e_rule e)) + 2)) by lia.
  rewrite !edge_lookup_S. repeat split.
Qed.

(* 2. a binding in the edge's scope (edge->env_) shadows the rule's and everything else *)
Theorem C12_lookup_build_shadows_rule st e var v :
  is_builtin var = false ->
  assoc_get var (own_bindings st e) = Some v ->
  get_binding st e var = L_ok v.
Proof.
  intros Hb Ho. apply is_builtin_false in Hb as (Hi & Hn & Hout).
  unfold get_binding, lookup_fuel.
  replace (length (r_bindings (e_rule e)) + 3)%nat with (S (length (r_bindings (e_rule e)) + 2)) by lia.
  rewrite edge_lookup_S, Hi, Hn, Hout. cbn [orb andb]. rewrite Ho. reflexivity.
Qed.

(* 3. otherwise the rule's binding, expanded late in the edge's scope ... *)
Theorem C12_lookup_rule_before_enclosing st e var es :
  is_builtin var = false ->
  assoc_get var (own_bindings st e) = None ->
  assoc_get var (r_bindings (e_rule e)) = Some es ->
  get_binding st e var =
  eval_es_l (edge_lookup (length (r_bindings (e_rule e)) + 2) st e true [] true) es.
Proof.
  intros Hb Ho Hr. apply is_builtin_false in Hb as (Hi & Hn & Hout).
  unfold get_binding, lookup_fuel.
  replace (length (r_bindings (e_rule e)) + 3)%nat with (S (length (r_bindings (e_rule e)) + 2)) by lia.
  rewrite edge_lookup_S, Hi, Hn, Hout. cbn [orb andb]. rewrite Ho, Hr. reflexivity.
Qed.

(* 4. ... and only then the scopes enclosing edge->env_ *)
Theorem C12_lookup_enclosing_last st e var :
  is_builtin var = false ->
  assoc_get var (own_bindings st e) = None ->
  assoc_get var (r_bindings (e_rule e)) = None ->
  get_binding st e var = L_ok (lookup_var st (tl (e_env e)) var).
Proof.
  intros Hb Ho Hr. apply is_builtin_false in Hb as (Hi & Hn & Hout).
  unfold get_binding, lookup_fuel.
  replace (length (r_bindings (e_rule e)) + 3)%nat with (S (length (r_bindings (e_rule e)) + 2)) by lia.
  rewrite edge_lookup_S, Hi, Hn, Hout. cbn [orb andb]. rewrite Ho, Hr. reflexivity.
Qed.

(* ----- relation with the documented order ----- *)
Definition frames_of (st : store) (ch : env) : frames :=
  map (fun id => sc_bindings (scope_at st id)) ch.

Lemma lookup_var_frames st ch v : lookup_var st ch v = lookup_frames (frames_of st ch) v.
Proof.
  induction ch as [|id ch IH]; [reflexivity|].
  cbn [lookup_var frames_of map lookup_frames].
  destruct (assoc_get v (sc_bindings (scope_at st id))); [reflexivity|exact IH].
Qed.

Lemma eval_es_l_o (l1 : bytes -> lres) (l2 : bytes -> option bytes) es :
  (forall v x, l1 v = L_ok x -> l2 v = Some x) ->
  forall r, eval_es_l l1 es = L_ok r -> eval_es_o l2 es = Some r.
Proof.
  intros H. induction es as [|t es IH]; intros r Hr.
  - cbn [eval_es_l eval_es_o] in *. injection Hr as <-. reflexivity.
  - destruct t as [t|v]; cbn [eval_es_l eval_es_o] in *.
    + destruct (eval_es_l l1 es) as [r'| |] eqn:E; try discriminate.
      rewrite (IH r' eq_refl). injection Hr as <-. reflexivity.
    + destruct (l1 v) as [a| |] eqn:Ea; try discriminate.
      destruct (eval_es_l l1 es) as [r'| |] eqn:E; try discriminate.
      rewrite (H v a Ea), (IH r' eq_refl). injection Hr as <-. reflexivity.
Qed.

(* The two lookups differ in one place only: what the first frame consulted is.  [block] is
   that frame as the SPEC sees it, [file] the file-level frames as the spec sees them. *)
Lemma lookup_agrees_gen (block : list (bytes * bytes)) (file : frames) st e esc :
  (forall var,
      match assoc_get var (own_bindings st e) with
      | Some x => (assoc_get var block = Some x) \/
                  (assoc_get var block = None /\ assoc_get var (r_bindings (e_rule e)) = None /\
                   lookup_frames file var = x)
      | None => assoc_get var block = None /\
                lookup_frames file var = lookup_var st (tl (e_env e)) var
      end) ->
  forall fuel lk rc var v,
    edge_lookup fuel st e esc lk rc var = L_ok v ->
    spec_lookup fuel block (r_bindings (e_rule e)) file (explicit_ins e) (explicit_outs e) esc var
    = Some v.
Proof.
  intros Hrel. induction fuel as [|f IH]; intros lk rc var v Hl; [discriminate Hl|].
  rewrite edge_lookup_S in Hl. cbn [spec_lookup].
  destruct (bytes_eqb var s_in) eqn:Ei.
  { cbn [orb] in Hl. congruence. }
  destruct (bytes_eqb var s_in_newline) eqn:En.
  { cbn [orb] in Hl. congruence. }
  cbn [orb] in Hl.
  destruct (bytes_eqb var s_out) eqn:Eo; [congruence|].
  destruct (rc && mem_bytes var lk); [discriminate Hl|].
  cbv zeta in Hl. specialize (Hrel var).
  destruct (assoc_get var (own_bindings st e)) as [x|] eqn:Eown.
  - injection Hl as <-.
    destruct Hrel as [Hb|(Hb & Hr & Hf)].
    + rewrite Hb. reflexivity.
    + rewrite Hb, Hr, Hf. reflexivity.
  - destruct Hrel as (Hb & Hf). rewrite Hb.
    destruct (assoc_get var (r_bindings (e_rule e))) as [es|] eqn:Er.
    + eapply eval_es_l_o; [|exact Hl]. intros v0 x0 H0. eapply IH. exact H0.
    + injection Hl as <-. rewrite Hf. reflexivity.
Qed.

(* An edge WITH its own scope (the build block had bindings): whenever the code produces a
   value it is the documented one -- block, then rule (late), then file, then includers. *)
Theorem C12_lookup_agrees_block st e esc fuel lk rc var v :
  edge_lookup fuel st e esc lk rc var = L_ok v ->
  spec_lookup fuel (own_bindings st e) (r_bindings (e_rule e)) (frames_of st (tl (e_env e)))
              (explicit_ins e) (explicit_outs e) esc var = Some v.
Proof.
  apply lookup_agrees_gen. intros var0.
  destruct (assoc_get var0 (own_bindings st e)) as [x|]; [left; reflexivity|].
  split; [reflexivity|]. symmetry. apply lookup_var_frames.
Qed.

(* An edge WITHOUT its own scope (edge->env_ is the file scope): the documented order has an
   empty build level and the file scope AFTER the rule.  The code agrees provided no name is
   bound both by the rule and in the file scope itself. *)
Definition no_file_rule_clash (st : store) (e : edge) : Prop :=
  forall k, assoc_get k (r_bindings (e_rule e)) <> None -> assoc_get k (own_bindings st e) = None.

Theorem C12_lookup_partial_noblock st e esc fuel lk rc var v :
  e_env e <> [] ->
  no_file_rule_clash st e ->
  edge_lookup fuel st e esc lk rc var = L_ok v ->
  spec_lookup fuel [] (r_bindings (e_rule e)) (frames_of st (e_env e))
              (explicit_ins e) (explicit_outs e) esc var = Some v.
Proof.
  intros Hne Hclash. apply lookup_agrees_gen. intros var0.
  destruct (e_env e) as [|id parents] eqn:Eenv; [congruence|].
  assert (Hown : own_bindings st e = sc_bindings (scope_at st id)).
  { unfold own_bindings. rewrite Eenv. reflexivity. }
  cbn [frames_of map lookup_frames tl]. fold (frames_of st parents).
  destruct (assoc_get var0 (own_bindings st e)) as [x|] eqn:Eown.
  - right. split; [reflexivity|]. split.
    + destruct (assoc_get var0 (r_bindings (e_rule e))) eqn:Er; [|reflexivity].
      assert (Hc : assoc_get var0 (own_bindings st e) = None) by (apply Hclash; congruence).
      congruence.
    + rewrite <- Hown, Eown. reflexivity.
  - split; [reflexivity|]. rewrite <- Hown, Eown. symmetry. apply lookup_var_frames.
Qed.

(* Without the hypothesis the agreement fails: a file-level "description" wins over the
   rule's.  Store: scope 0 = file scope binding description=F; rule binds description=R. *)
Definition wit_rule : rule := mkRule [114] [(s_description, [ET_raw [82]]); (s_command, [ET_raw [99]])] false.
Definition wit_store : store := [mkScope [(s_description, [70])] []].
Definition wit_edge : edge := mkEdge wit_rule [O] default_pool [[111]] O [] O O [] [].

Theorem C12_lookup_refuted_file_shadows_rule :
  exists st e var v v',
    e_env e <> [] /\
    get_binding st e var = L_ok v /\
    spec_lookup (lookup_fuel e) [] (r_bindings (e_rule e)) (frames_of st (e_env e))
                (explicit_ins e) (explicit_outs e) true var = Some v' /\
    v <> v'.
Proof.
  exists wit_store, wit_edge, s_description, [70], [82].
  split; [discriminate|]. split; [reflexivity|]. split; [reflexivity|discriminate].
Qed.

Example no_file_rule_clash_nonvacuous :
  no_file_rule_clash [mkScope [([120], [49])] []] wit_edge /\ e_env wit_edge <> [].
Proof.
  split; [|discriminate]. intros k Hk. unfold own_bindings. cbn.
  destruct (bytes_eqb_spec k [120]) as [->|Hne]; [|reflexivity].
  exfalso. apply Hk. reflexivity.
Qed.

(* ================= manifests used as witnesses ================= *)
Definition single (name text : bytes) : bytes -> option bytes :=
  fun n => if bytes_eqb n name then Some text else None.
Definition two (n1 t1 n2 t2 : bytes) : bytes -> option bytes :=
  fun n => if bytes_eqb n n1 then Some t1 else if bytes_eqb n n2 then Some t2 else None.
Definition root : bytes := bs "build.ninja".

Definition dump_binding (key_index : nat) (edge_index : nat) (r : result) : option bytes :=
  match r with
  | Ok g => match nth_error (g_edges g) edge_index with
            | Some d => nth_error (d_bindings d) key_index
            | None => None
            end
  | Err _ _ _ => None
  end.
Definition dump_edge_field {A} (f : edge_dump -> A) (edge_index : nat) (r : result) : option A :=
  match r with
  | Ok g => option_map f (nth_error (g_edges g) edge_index)
  | Err _ _ _ => None
  end.
(* indices in [dump_keys] *)
Definition k_command := 0%nat.
Definition k_description := 1%nat.
Definition k_rspfile := 4%nat.
Definition k_pool := 10%nat.

(* ================= (b) refutations on whole manifests ================= *)

(* (b1) the documented order "rule before file" is violated for a build statement without
   bindings; with a (dummy) binding the same statement follows the documentation. *)
Definition m_file_shadows_rule : bytes := bs
"description = FILEDESC
rule r
  command = c
  description = RULEDESC
build a: r
build b: r
  x = 1
".

Theorem C12_eval_refuted_file_shadows_rule :
  exists fm,
    dump_binding k_description 0 (eval_manifest fm 4 root) = Some (bs "FILEDESC") /\
    dump_binding k_description 0 (spec_manifest fm 4 root) = Some (bs "RULEDESC") /\
    dump_binding k_description 1 (eval_manifest fm 4 root) = Some (bs "RULEDESC") /\
    dump_binding k_description 1 (spec_manifest fm 4 root) = Some (bs "RULEDESC").
Proof. exists (single root m_file_shadows_rule). vm_compute. repeat split. Qed.

(* (b2) phony self-reference filter: "build p: phony c || p" -- c was written as an EXPLICIT
   input and stays one; "build s: phony || s" ends with no input and no order-only count.
   (Before the fix of the filter the counter was left alone: see
   [phony_filter_legacy_corrupts_kinds] below.) *)
Definition m_phony_selfref : bytes := bs
"build p: phony c || p
build s: phony || s
build t: phony t a || b t c ./t
".

Theorem C12_phony_selfref_kinds :
  eval_manifest (single root m_phony_selfref) 4 root = spec_manifest (single root m_phony_selfref) 4 root /\
  dump_edge_field (fun d => (d_ins d, d_implicit_deps d, d_order_only_deps d)) 0
                  (eval_manifest (single root m_phony_selfref) 4 root) = Some ([bs "c"], O, O) /\
  dump_edge_field (fun d => (d_ins d, d_implicit_deps d, d_order_only_deps d)) 1
                  (eval_manifest (single root m_phony_selfref) 4 root) = Some ([], O, O) /\
  dump_edge_field (fun d => (d_ins d, d_implicit_deps d, d_order_only_deps d)) 2
                  (eval_manifest (single root m_phony_selfref) 4 root)
    = Some ([bs "a"; bs "b"; bs "c"], O, 2%nat).
Proof. vm_compute. repeat split. Qed.

(* In general: the filter erases the output from the explicit part and from the order-only
   part separately, and the new counter is the length of what is left of the order-only part:
   no input changes its kind. *)
Lemma remove_bytes_app x l1 l2 : remove_bytes x (l1 ++ l2) = remove_bytes x l1 ++ remove_bytes x l2.
Proof.
  induction l1 as [|y l1 IH]; [reflexivity|]. cbn [app remove_bytes].
  destruct (bytes_eqb y x); [exact IH|]. cbn [app]. rewrite IH. reflexivity.
Qed.

Lemma length_remove_bytes x l : (length (remove_bytes x l) + count_bytes x l = length l)%nat.
Proof.
  induction l as [|y l IH]; [reflexivity|]. cbn [remove_bytes count_bytes].
  destruct (bytes_eqb y x); cbn [length]; lia.
Qed.

Theorem C12_phony_filter_keeps_kinds out ins oo :
  (oo <= length ins)%nat ->
  let k := (length ins - oo)%nat in
  phony_filter out ins oo =
  (remove_bytes out (firstn k ins) ++ remove_bytes out (skipn k ins),
   length (remove_bytes out (skipn k ins))).
Proof.
  intros Hle k. unfold phony_filter. fold k. f_equal.
  - rewrite <- remove_bytes_app, firstn_skipn. reflexivity.
  - pose proof (length_remove_bytes out (skipn k ins)) as H.
    rewrite skipn_length in H. unfold k in *. lia.
Qed.

(* the filter before the fix: "build p: phony c || p" left inputs [c] with order_only_deps_ = 1
   (c became order-only) and "build s: phony || s" left no input with order_only_deps_ = 1
   (explicit count -1) *)
Theorem phony_filter_legacy_corrupts_kinds :
  phony_filter_legacy (bs "p") [bs "c"; bs "p"] 1 = ([bs "c"], 1%nat) /\
  phony_filter (bs "p") [bs "c"; bs "p"] 1 = ([bs "c"], O) /\
  phony_filter_legacy (bs "s") [bs "s"] 1 = ([], 1%nat) /\
  phony_filter (bs "s") [bs "s"] 1 = ([], O).
Proof. vm_compute. repeat split. Qed.

(* The filter itself (dropping the self-reference) agrees with the reference when no kind
   information is at stake. *)
Definition m_phony_selfref_plain : bytes := bs
"build q: phony q a ./q
".
Theorem C12_phony_selfref_plain_agrees :
  eval_manifest (single root m_phony_selfref_plain) 4 root =
  spec_manifest (single root m_phony_selfref_plain) 4 root /\
  dump_edge_field d_ins 0 (eval_manifest (single root m_phony_selfref_plain) 4 root) = Some [bs "a"].
Proof. vm_compute. split; reflexivity. Qed.

(* (b3) "a given variable cannot be changed, only shadowed" / "expanded when the rule is
   used": a re-binding AFTER a build statement changes that statement's command. *)
Definition m_late_rebinding : bytes := bs
"rule r
  command = echo $x
x = 1
build a: r
x = 2
build b: r
".
Theorem C12_eval_refuted_late_rebinding :
  exists fm,
    dump_binding k_command 0 (eval_manifest fm 4 root) = Some (bs "echo 2") /\
    dump_binding k_command 0 (spec_manifest fm 4 root) = Some (bs "echo 1") /\
    dump_binding k_command 1 (eval_manifest fm 4 root) = Some (bs "echo 2") /\
    dump_binding k_command 1 (spec_manifest fm 4 root) = Some (bs "echo 2").
Proof. exists (single root m_late_rebinding). vm_compute. repeat split. Qed.

(* (b4) ParseRule touches rule->bindings_["rspfile"/"rspfile_content"/"command"]: a rule
   that does not mention rspfile still shadows a file-level rspfile -- but only for build
   statements that have their own scope. *)
Definition m_phantom_rspfile : bytes := bs
"rspfile = F
rspfile_content = C
rule r
  command = c
build a: r
build b: r
  z = 1
".
Theorem C12_eval_refuted_phantom_rspfile :
  exists fm,
    dump_binding k_rspfile 0 (eval_manifest fm 4 root) = Some (bs "F") /\
    dump_binding k_rspfile 1 (eval_manifest fm 4 root) = Some [] /\
    dump_binding k_rspfile 0 (spec_manifest fm 4 root) = Some (bs "F") /\
    dump_binding k_rspfile 1 (spec_manifest fm 4 root) = Some (bs "F").
Proof. exists (single root m_phantom_rspfile). vm_compute. repeat split. Qed.

(* (b5) the pool is resolved before the outputs exist: "pool = $out" silently selects the
   default pool although the edge's pool variable evaluates to the (unknown) pool "o". *)
Definition m_pool_out : bytes := bs
"rule r
  command = c
  pool = $out
build o: r
".
Theorem C12_eval_refuted_pool_before_outputs :
  exists fm,
    dump_edge_field d_pool 0 (eval_manifest fm 4 root) = Some [] /\
    dump_binding k_pool 0 (eval_manifest fm 4 root) = Some (bs "o") /\
    spec_manifest fm 4 root = Err root 4 E_unknown_pool.
Proof. exists (single root m_pool_out). vm_compute. repeat split. Qed.

(* (b6) "$^" needs ninja_required_version >= 1.14 "in the build file", but the version lives
   in the Lexer of each parser object: the root's declaration does not reach an included
   file, while the declaration of one included file leaks into the next one. *)
Definition m_caret_root : bytes := bs
"ninja_required_version = 1.14
include b.ninja
".
Definition m_caret_b : bytes := bs "y = c$^d
".
Definition m_caret_root2 : bytes := bs
"include a.ninja
include b.ninja
".
Definition m_caret_a : bytes := bs "ninja_required_version = 1.14
".
Theorem C12_caret_version_scope_quirk :
  eval_manifest (two root m_caret_root (bs "b.ninja") m_caret_b) 4 root
    = Err (bs "b.ninja") 1 E_newline_version /\
  (exists g, eval_manifest
               (fun n => if bytes_eqb n root then Some m_caret_root2
                         else if bytes_eqb n (bs "a.ninja") then Some m_caret_a
                         else if bytes_eqb n (bs "b.ninja") then Some m_caret_b else None) 4 root
             = Ok g).
Proof. split; [vm_compute; reflexivity|]. eexists. vm_compute. reflexivity. Qed.

(* (b7) right-hand sides of build-block bindings are expanded in the FILE scope (choice C1 of
   the reference, fixed to what the code does) *)
Definition m_block_rhs : bytes := bs
"a = FILE
rule r
  command = $b
build out: r
  a = BUILD
  b = $a
".
Theorem C12_block_rhs_in_file_scope :
  dump_binding k_command 0 (eval_manifest (single root m_block_rhs) 4 root) = Some (bs "FILE") /\
  eval_manifest (single root m_block_rhs) 4 root = spec_manifest (single root m_block_rhs) 4 root.
Proof. vm_compute. split; reflexivity. Qed.

(* A manifest exercising every statement form on which code and reference agree. *)
Definition m_agree_root : bytes := bs
"cflags = -Wall
pool link
  depth = 4
rule cc
  command = gcc $cflags -c $in -o $out
  description = CC $out
  depfile = $out.d
build foo.o: cc foo.c | a.h || gen $
   gen2 |@ val
build ./x/../bar$ baz.o | imp.out: cc b$:ar.c
  cflags = -O2 $cflags
  pool = link
build all: phony foo.o bar$ baz.o
default all
subninja sub.ninja
include inc.ninja
build t: cc $from_inc
".
Definition m_agree_sub : bytes := bs
"cflags = -Os
rule cc
  command = subcc $cflags $in
build s.o: cc s.c
".
Definition m_agree_inc : bytes := bs
"from_inc = i.c
".
Definition fm_agree : bytes -> option bytes :=
  fun n => if bytes_eqb n root then Some m_agree_root
           else if bytes_eqb n (bs "sub.ninja") then Some m_agree_sub
           else if bytes_eqb n (bs "inc.ninja") then Some m_agree_inc else None.

Theorem C12_eval_agrees_example :
  eval_manifest fm_agree 4 root = spec_manifest fm_agree 4 root /\
  dump_binding k_command 3 (eval_manifest fm_agree 4 root) = Some (bs "subcc -Os s.c") /\
  dump_binding k_command 4 (eval_manifest fm_agree 4 root) = Some (bs "gcc -Wall -c i.c -o t") /\
  dump_binding k_command 1 (eval_manifest fm_agree 4 root)
    = Some (bs "gcc -O2 -Wall -c 'b:ar.c' -o 'bar baz.o'").
Proof. vm_compute. repeat split. Qed.

(* ================= (c) C13: include of the file itself ================= *)
Definition m_selfinc : bytes := bs "include build.ninja
".
Definition fm_selfinc := single root m_selfinc.

Lemma parse_loop_S f total incl depth e lx ps :
  parse_loop (S f) total incl depth e lx ps =
  do (tok, lx1) <- p_read_token lx;
  match tok with
  | T_POOL => do (lx2, ps2) <- parse_pool total e lx1 ps; parse_loop f total incl depth e lx2 ps2
  | T_BUILD => do (lx2, ps2) <- parse_edge total e lx1 ps; parse_loop f total incl depth e lx2 ps2
  | T_RULE => do (lx2, ps2) <- parse_rule total e lx1 ps; parse_loop f total incl depth e lx2 ps2
  | T_DEFAULT => do (lx2, ps2) <- parse_default total e lx1 ps; parse_loop f total incl depth e lx2 ps2
  | T_IDENT =>
    do (name, val, lx2) <- parse_let (lex_unread lx1);
    let value := eval_in (ps_store ps) e val in
    if bytes_eqb name s_ninja_required_version then
      let (major, minor) := parse_version value in
      if version_fatal major minor then P_err [] O E_fatal_version
      else parse_loop f total incl depth e (lx_set_version lx2 major minor)
                      (ps_with_store ps (add_binding (ps_store ps) e name value))
    else parse_loop f total incl depth e lx2 (ps_with_store ps (add_binding (ps_store ps) e name value))
  | T_INCLUDE =>
    do (lx2, ps2) <- parse_include incl depth false e lx1 ps; parse_loop f total incl depth e lx2 ps2
  | T_SUBNINJA =>
    do (lx2, ps2) <- parse_include incl depth true e lx1 ps; parse_loop f total incl depth e lx2 ps2
  | T_ERROR => lex_error lx1 (if lx_last_is_tab lx1 then E_tabs else E_lexing)
  | T_TEOF => P_ok (lx1, ps)
  | T_NEWLINE => parse_loop f total incl depth e lx1 ps
  | T_COLON | T_EQUALS | T_INDENT | T_PIPE | T_PIPE2 | T_PIPEAT => lex_error lx1 (E_unexpected tok)
  end.
Proof. reflexivity. Qed.

Definition selfinc_input : bytes := m_selfinc ++ [0].

Lemma selfinc_first_token major minor checked :
  p_read_token (lex_start root m_selfinc major minor checked) =
  P_ok (T_INCLUDE, mkLexer root selfinc_input 8 0 major minor checked).
Proof. vm_compute. reflexivity. Qed.

Lemma selfinc_read_path major minor checked :
  p_read_eval true (mkLexer root selfinc_input 8 0 major minor checked) =
  P_ok ([ET_raw root], mkLexer root selfinc_input 19 19 major minor checked).
Proof. vm_compute. reflexivity. Qed.

(* the include statement of the self-including file, in the parser at depth [depth] *)
Lemma selfinc_include (incl : loader) depth e ps major minor checked :
  parse_include incl depth false e (mkLexer root selfinc_input 8 0 major minor checked) ps =
  if Nat.leb max_include_depth depth then P_err root 1 E_include_depth
  else do ps2 <- incl (mkLexer root selfinc_input 19 19 major minor checked) root e ps;
       P_ok (mkLexer root selfinc_input 20 19 major minor checked, ps2).
Proof.
  unfold parse_include. rewrite selfinc_read_path. cbv beta iota zeta.
  destruct (Nat.leb max_include_depth depth); [vm_compute; reflexivity|].
  vm_compute. destruct (incl _ _ _ _); reflexivity.
Qed.

Lemma selfinc_step (incl : loader) n total depth e ps major minor checked :
  (Nat.leb max_include_depth depth = false ->
   forall plx e' ps', incl plx root e' ps' = P_err root 1 E_include_depth) ->
  parse_loop (S n) total incl depth e (lex_start root m_selfinc major minor checked) ps =
  P_err root 1 E_include_depth.
Proof.
  intros Hincl. rewrite parse_loop_S, selfinc_first_token. cbv iota beta.
  rewrite selfinc_include.
  destruct (Nat.leb max_include_depth depth); [reflexivity|].
  rewrite (Hincl eq_refl). reflexivity.
Qed.

(* [k] = number of levels left before the limit *)
Lemma load_selfinc : forall k f depth parent e ps,
  (depth + k = max_include_depth)%nat -> (k < f)%nat ->
  load f fm_selfinc depth parent root e ps = P_err root 1 E_include_depth.
Proof.
  induction k as [|k IH]; intros f depth parent e ps Hd Hf;
    (destruct f as [|f]; [lia|]); cbn [load];
    change (fm_selfinc root) with (Some m_selfinc);
    destruct (nth depth (ps_subflags ps) default_flags) as [[major minor] checked];
    (rewrite selfinc_step; [reflexivity|]); intros Hleb.
  - apply Nat.leb_gt in Hleb. lia.
  - intros plx e' ps'. apply IH; lia.
Qed.

(* The self-including manifest is now a parse error of the file at nesting depth 200, reported
   at its include statement; the recursion fuel of the model plays no part as soon as it is
   at least 201. *)
Theorem C13_include_self_rejected :
  forall fuel, eval_manifest fm_selfinc (201 + fuel) root = Err root 1 E_include_depth.
Proof.
  intros fuel. unfold eval_manifest.
  rewrite (load_selfinc 200); [reflexivity|reflexivity|lia].
Qed.

(* ... and the reference rejects it as well, for every fuel (choice C8) *)
Theorem C13_include_self_rejected_spec_example :
  spec_manifest fm_selfinc 8 root = Err root 1 E_include_depth.
Proof. vm_compute. reflexivity. Qed.

(* with less fuel than the code's own limit the fuel can be what stops the model (artefact;
   the driver uses 202): a non-recursive include needs fuel = nesting depth + 1 and no more *)
Example include_fuel_sufficient_example :
  (exists g, eval_manifest fm_agree 2 root = Ok g) /\
  eval_manifest fm_agree 1 root = Err root 15 E_include_fuel.
Proof. split; [eexists|]; vm_compute; reflexivity. Qed.

(* ================= (d) rejections ================= *)
Definition rejects (text : bytes) (line : nat) (c : perr) : Prop :=
  eval_manifest (single root text) 4 root = Err root line c /\
  (exists l' c', spec_manifest (single root text) 4 root = Err root l' c').

Ltac reject := split; [vm_compute; reflexivity | eexists; eexists; vm_compute; reflexivity].
Ltac rejall :=
  match goal with
  | |- rejects _ _ _ /\ _ => split; [reject | rejall]
  | |- rejects _ _ _ => reject
  end.

Definition pre : string := "rule r
  command = c
".

Theorem C12_rejects_duplicate_output :
  rejects (bs (pre ++ "build a: r
build a: r
")) 5 E_multiple_rules /\
  rejects (bs (pre ++ "build a ./a: r
")) 4 E_output_twice /\
  (* also through canonicalisation *)
  rejects (bs (pre ++ "build d/../a: r
build ./a: r
")) 5 E_multiple_rules.
Proof. rejall. Qed.

Theorem C12_rejects_unknown_rule : rejects (bs "build a: nosuch b
") 1 E_unknown_rule.
Proof. rejall. Qed.

Theorem C12_rejects_unknown_pool :
  rejects (bs (pre ++ "build a: r
  pool = nosuch
")) 5 E_unknown_pool.
Proof. rejall. Qed.

Theorem C12_rejects_duplicate_rule : rejects (bs (pre ++ pre)) 3 E_dup_rule.
Proof. rejall. Qed.

Theorem C12_rejects_duplicate_pool :
  rejects (bs "pool p
  depth = 1
pool p
  depth = 2
") 3 E_dup_pool /\
  rejects (bs "pool console
  depth = 2
") 1 E_dup_pool.
Proof. rejall. Qed.

Theorem C12_rejects_missing_command :
  rejects (bs "rule r
  description = d
build a: r
") 3 E_expected_command /\
  rejects (bs "rule r
  command =
") 3 E_expected_command.
Proof. rejall. Qed.

Theorem C12_rejects_nonreserved_rule_variable :
  rejects (bs "rule r
  command = c
  cflags = x
") 3 E_unexpected_var.
Proof. rejall. Qed.

Theorem C12_rejects_rspfile_without_content :
  rejects (bs "rule r
  command = c
  rspfile = f
") 4 E_rspfile /\
  rejects (bs "rule r
  command = c
  rspfile_content = f
") 4 E_rspfile.
Proof. rejall. Qed.

Theorem C12_rejects_bad_escape :
  rejects (bs "x = a$!b
") 1 E_bad_escape /\
  rejects (bs "x = ${a
") 1 E_bad_escape /\
  rejects (bs "build a$|b: phony
") 1 E_bad_escape.
Proof. rejall. Qed.

(* a tab-indented binding of a build statement is diagnosed as such; in a rule block the
   same mistake is still rejected, but as a rule without command *)
Theorem C12_rejects_tab_indentation :
  rejects (bs ("build a: phony
" ++ String (ascii_of_nat 9) "x = 1
")) 2 E_tabs /\
  rejects (bs ("rule r
" ++ String (ascii_of_nat 9) "command = c
")) 2 E_expected_command /\
  rejects (bs (String (ascii_of_nat 9) "x = 1
")) 1 E_tabs.
Proof. rejall. Qed.

Theorem C12_rejects_dyndep_not_input :
  rejects (bs (pre ++ "build a: r b
  dyndep = dd
")) 5 E_dyndep_not_input.
Proof. rejall. Qed.

Theorem C12_accepts_dyndep_input :
  exists g, eval_manifest (single root (bs (pre ++ "build a: r b || ./x/../dd
  dyndep = dd
"))) 4 root = Ok g /\ option_map d_dyndep_node (nth_error (g_edges g) 0) = Some (bs "dd").
Proof. eexists. vm_compute. split; reflexivity. Qed.

Theorem C12_rejects_empty_path :
  rejects (bs (pre ++ "build a: r $undefined
")) 4 E_empty_path /\
  rejects (bs (pre ++ "build $undefined: r
")) 4 E_empty_path.
Proof. rejall. Qed.

Theorem C12_rejects_bad_depth :
  rejects (bs "pool p
  depth = -1
") 2 E_bad_depth /\
  rejects (bs "pool p
  depth = four
") 2 E_bad_depth /\
  rejects (bs "pool p
  depth = 2147483648
") 2 E_bad_depth /\
  rejects (bs "pool p
") 2 E_expected_depth.
Proof. rejall. Qed.

Theorem C12_rejects_unknown_default_target :
  rejects (bs (pre ++ "build a: r
default b
")) 4 E_unknown_target.
Proof. rejall. Qed.

Theorem C12_rejects_missing_include :
  rejects (bs "include nosuch.ninja
") 1 E_loading.
Proof. rejall. Qed.

(* The diagnostics of semantic errors in a build statement carry the line of the token that
   FOLLOWS the statement (Lexer::Error uses last_token_, which PeekToken(INDENT) has already
   moved): the duplicate is on line 5, the message says line 8. *)
Theorem C12_error_line_is_next_token :
  eval_manifest (single root (bs (pre ++ "build a: r
# comment
build a: r
# comment
# comment
rule x
"))) 4 root = Err root 8 E_multiple_rules.
Proof. vm_compute. reflexivity. Qed.

(* ---- schematic rejections with ARBITRARY identifiers, at the level of the statement
   evaluator: they do not depend on the text of the names ---- *)

(* a second rule of the same name in the same scope is rejected whatever the name is *)
Theorem C12_rejects_duplicate_rule_any_name : forall name r0 st lx1 lx2 fuel ps,
  p_read_ident lx1 E_expected_rule_name = P_ok (name, lx2) ->
  lookup_rule_current (ps_store ps) [O] name = Some r0 ->
  ps_store ps = st ->
  forall lx3, expect_token lx2 T_NEWLINE = P_ok lx3 ->
  parse_rule fuel [O] lx1 ps = lex_error lx3 E_dup_rule.
Proof.
  intros name r0 st lx1 lx2 fuel ps Hid Hl _ lx3 Hnl.
  unfold parse_rule. rewrite Hid, Hnl, Hl. reflexivity.
Qed.

(* an output that already has a producer is rejected whatever the path is *)
Theorem C12_rejects_duplicate_output_any_path : forall lx st e global es l acc,
  b_empty (eval_in st e es) = false ->
  mem_bytes (canon (eval_in st e es)) acc = false ->
  mem_bytes (canon (eval_in st e es)) global = true ->
  add_outs lx st e global (es :: l) acc = lex_error lx E_multiple_rules.
Proof.
  intros lx st e global es l acc He Ha Hg. cbn [add_outs]. rewrite He, Ha, Hg. reflexivity.
Qed.

(* ================= the fuel of the late lookup is never exhausted ================= *)
From Coq Require Import Permutation.

Lemma assoc_get_In {V} k (l : list (bytes * V)) v : assoc_get k l = Some v -> In k (map fst l).
Proof.
  induction l as [|[k' v'] l IH]; intros H; [discriminate H|].
  cbn [assoc_get] in H. cbn [map fst In].
  destruct (bytes_eqb_spec k k') as [->|Hne]; [left; reflexivity|right; apply IH; exact H].
Qed.

Lemma eval_es_l_no_fuel (look : bytes -> lres) es :
  (forall v, look v <> L_fuel) -> eval_es_l look es <> L_fuel.
Proof.
  intros H. induction es as [|t es IH]; [discriminate|].
  destruct t as [t|v]; cbn [eval_es_l].
  - destruct (eval_es_l look es); congruence.
  - specialize (H v). destruct (look v); try congruence.
    destruct (eval_es_l look es); congruence.
Qed.

Lemma edge_lookup_fuel_rec st e esc : forall fuel lk var,
  NoDup lk -> incl lk (map fst (r_bindings (e_rule e))) ->
  (length (r_bindings (e_rule e)) + 1 <= fuel + length lk)%nat ->
  edge_lookup fuel st e esc lk true var <> L_fuel.
Proof.
  induction fuel as [|f IH]; intros lk var Hnd Hincl Hlen.
  - exfalso. pose proof (NoDup_incl_length Hnd Hincl) as Hl. rewrite map_length in Hl. lia.
  - rewrite edge_lookup_S.
    destruct (bytes_eqb var s_in || bytes_eqb var s_in_newline); [discriminate|].
    destruct (bytes_eqb var s_out); [discriminate|].
    cbn [andb]. destruct (mem_bytes var lk) eqn:Hmem; [discriminate|].
    cbv zeta.
    destruct (assoc_get var (own_bindings st e)); [discriminate|].
    destruct (assoc_get var (r_bindings (e_rule e))) as [es|] eqn:Er; [|discriminate].
    apply eval_es_l_no_fuel. intros v.
    assert (Hnotin : ~ In var lk).
    { intros Hin. apply mem_bytes_In in Hin. congruence. }
    apply IH.
    + apply (Permutation_NoDup (l := var :: lk)); [apply Permutation_cons_append|].
      constructor; assumption.
    + intros x Hx. apply in_app_or in Hx as [Hx|[<-|[]]]; [apply Hincl; exact Hx|].
      eapply assoc_get_In. exact Er.
    + rewrite app_length. cbn [length]. lia.
Qed.

Theorem C12_lookup_fuel_sufficient st e esc var :
  edge_lookup (lookup_fuel e) st e esc [] false var <> L_fuel.
Proof.
  unfold lookup_fuel.
  replace (length (r_bindings (e_rule e)) + 3)%nat with (S (length (r_bindings (e_rule e)) + 2)) by lia.
  rewrite edge_lookup_S.
  destruct (bytes_eqb var s_in || bytes_eqb var s_in_newline); [discriminate|].
  destruct (bytes_eqb var s_out); [discriminate|].
  cbn [andb]. cbv zeta.
  destruct (assoc_get var (own_bindings st e)); [discriminate|].
  destruct (assoc_get var (r_bindings (e_rule e))) as [es|] eqn:Er; [|discriminate].
  apply eval_es_l_no_fuel. intros v. apply edge_lookup_fuel_rec.
  - constructor.
  - intros x [].
  - cbn [length]. lia.
Qed.

(* ================= the full agreement statement is false ================= *)
(* "whenever the code accepts a manifest, the graph it builds is the documented one" *)
Definition C12_eval_agrees_full : Prop :=
  forall fm fuel r g, eval_manifest fm fuel r = Ok g -> spec_manifest fm fuel r = Ok g.

Theorem C12_eval_agrees_refuted : ~ C12_eval_agrees_full.
Proof.
  intros H.
  destruct (eval_manifest (single root m_file_shadows_rule) 4 root) as [g|f l c] eqn:E;
    [|vm_compute in E; discriminate E].
  pose proof (H _ _ _ _ E) as Hs.
  assert (Hd : dump_binding k_description 0 (eval_manifest (single root m_file_shadows_rule) 4 root)
               = dump_binding k_description 0 (spec_manifest (single root m_file_shadows_rule) 4 root)).
  { rewrite E, Hs. reflexivity. }
  vm_compute in Hd. discriminate Hd.
Qed.
