(* C12/C13: theorems about the lexer model (LexDefs.v).
   - the numeric string constants are the intended words;
   - $-escape table: reading the escaped form of ANY byte string without NUL / LF / CR gives
     back that string as a literal (value context; path context additionally excludes '|',
     which has no escape);
   - C13: no scanner ever looks past the first NUL of its input (the "overrun" outcome is
     impossible when the remaining input contains a NUL), and the end offset it reports is
     within the input.
   No axioms. *)
From Coq Require Import String Ascii.
From NinjaV Require Import Base.Bytes Manifest.LexDefs.
Local Open Scope N_scope.

(* ---------- constants ---------- *)
Definition bs (s : string) : bytes := map N_of_ascii (list_ascii_of_string s).

Lemma constants_ok :
  s_build = bs "build" /\ s_pool = bs "pool" /\ s_rule = bs "rule" /\ s_default = bs "default" /\
  s_include = bs "include" /\ s_subninja = bs "subninja" /\ s_phony = bs "phony" /\
  s_command = bs "command" /\ s_depfile = bs "depfile" /\ s_dyndep = bs "dyndep" /\
  s_description = bs "description" /\ s_deps = bs "deps" /\ s_generator = bs "generator" /\
  s_restat = bs "restat" /\ s_rspfile = bs "rspfile" /\ s_rspfile_content = bs "rspfile_content" /\
  s_msvc_deps_prefix = bs "msvc_deps_prefix" /\ s_in = bs "in" /\ s_in_newline = bs "in_newline" /\
  s_out = bs "out" /\ s_depth = bs "depth" /\
  s_ninja_required_version = bs "ninja_required_version" /\ s_console = bs "console".
Proof. repeat split; reflexivity. Qed.

(* ---------- unfolding equations ---------- *)
Lemma read_eval_aux_nil path ok pos m es caret :
  read_eval_aux path ok [] pos m es caret = EV_overrun.
Proof. reflexivity. Qed.

(* ---------- add_text ---------- *)
Definition literal (s : bytes) : evalstring := match s with [] => [] | _ => [ET_raw s] end.

Lemma add_text_raw r t : add_text [ET_raw r] t = [ET_raw (r ++ t)].
Proof. reflexivity. Qed.

Lemma add_text_literal s c : add_text (literal s) [c] = literal (s ++ [c]).
Proof.
  destruct s as [|x s]; cbn [literal app]; [reflexivity|].
  rewrite add_text_raw. reflexivity.
Qed.

(* ---------- the escape printer ---------- *)
Definition escape_byte (c : byte) : bytes :=
  if N.eqb c 36 then [36; 36]
  else if N.eqb c 32 then [36; 32]
  else if N.eqb c 58 then [36; 58]
  else [c].
Definition escape_text (s : bytes) : bytes := flat_map escape_byte s.

(* bytes that can be written literally (after escaping) in a value *)
Definition value_byte (c : byte) : bool := negb (N.eqb c 0 || N.eqb c 10 || N.eqb c 13).
(* ... and in a path *)
Definition path_byte (c : byte) : bool := value_byte c && negb (N.eqb c 124).

Lemma escape_step (path ok : bool) c rest pos s caret :
  value_byte c = true -> (path = true -> N.eqb c 124 = false) ->
  read_eval_aux path ok (escape_byte c ++ rest) pos EM_normal (literal s) caret =
  read_eval_aux path ok rest (pos + length (escape_byte c)) EM_normal (literal (s ++ [c])) caret.
Proof.
  unfold value_byte, escape_byte. intros Hv Hp.
  destruct (N.eqb_spec c 36) as [->|H36].
  { cbn [app length read_eval_aux N.eqb Pos.eqb]. rewrite add_text_literal.
    f_equal. lia. }
  destruct (N.eqb_spec c 32) as [->|H32].
  { cbn [app length read_eval_aux N.eqb Pos.eqb]. rewrite add_text_literal.
    f_equal. lia. }
  destruct (N.eqb_spec c 58) as [->|H58].
  { cbn [app length read_eval_aux N.eqb Pos.eqb]. rewrite add_text_literal.
    f_equal. lia. }
  destruct (N.eqb_spec c 0) as [->|H0]; [discriminate Hv|].
  destruct (N.eqb_spec c 10) as [->|H10]; [discriminate Hv|].
  destruct (N.eqb_spec c 13) as [->|H13]; [discriminate Hv|].
  cbn [app length read_eval_aux].
  destruct (N.eqb_spec c 36) as [E|_]; [contradiction|].
  destruct (N.eqb_spec c 13) as [E|_]; [contradiction|].
  destruct (N.eqb_spec c 0) as [E|_]; [contradiction|].
  destruct (N.eqb_spec c 32) as [E|_]; [contradiction|].
  destruct (N.eqb_spec c 58) as [E|_]; [contradiction|].
  destruct (N.eqb_spec c 10) as [E|_]; [contradiction|].
  cbn [orb].
  rewrite add_text_literal.
  replace (pos + 1)%nat with (S pos) by lia.
  destruct (N.eqb c 124) eqn:E124.
  - destruct path; [specialize (Hp eq_refl); discriminate Hp|]. reflexivity.
  - reflexivity.
Qed.

Lemma escape_run (path ok : bool) t : forall rest pos s caret,
  forallb value_byte t = true -> (path = true -> forallb (fun c => negb (N.eqb c 124)) t = true) ->
  read_eval_aux path ok (escape_text t ++ rest) pos EM_normal (literal s) caret =
  read_eval_aux path ok rest (pos + length (escape_text t)) EM_normal (literal (s ++ t)) caret.
Proof.
  induction t as [|c t IH]; intros rest pos s caret Hv Hp.
  - cbn [escape_text flat_map app length]. rewrite app_nil_r. f_equal. lia.
  - cbn [forallb] in Hv. apply andb_true_iff in Hv as [Hc Ht].
    cbn [escape_text flat_map]. rewrite <- app_assoc.
    rewrite escape_step; [|exact Hc|].
    + fold (escape_text t). rewrite IH; [|exact Ht|].
      * rewrite app_length, <- app_assoc. cbn [app]. f_equal. lia.
      * intros E. specialize (Hp E). cbn [forallb] in Hp.
        apply andb_true_iff in Hp as [_ Hp]. exact Hp.
    + intros E. specialize (Hp E). cbn [forallb] in Hp.
      apply andb_true_iff in Hp as [Hp _]. apply negb_true_iff in Hp. exact Hp.
Qed.

(* Value context: "<escaped s>\n" reads as the literal s, stops after the newline,
   last_token_ on the newline. *)
Theorem escape_value_roundtrip ok t rest pos :
  forallb value_byte t = true ->
  read_eval_aux false ok (escape_text t ++ 10 :: rest) pos EM_normal [] false =
  EV_ok (literal t) (S (pos + length (escape_text t))) (pos + length (escape_text t)) false.
Proof.
  intros Hv.
  change (@nil evtok) with (literal []).
  rewrite escape_run; [|exact Hv|discriminate].
  reflexivity.
Qed.

(* Path context: "<escaped s>" followed by any of the four delimiters reads as the literal s
   and stops ON the delimiter. *)
Theorem escape_path_roundtrip ok t d rest pos :
  forallb path_byte t = true ->
  (d = 32 \/ d = 58 \/ d = 124 \/ d = 10) ->
  read_eval_aux true ok (escape_text t ++ d :: rest) pos EM_normal [] false =
  EV_ok (literal t) (pos + length (escape_text t)) (pos + length (escape_text t)) false.
Proof.
  intros Hv Hd.
  assert (Hv1 : forallb value_byte t = true).
  { rewrite forallb_forall in *. intros x Hx. specialize (Hv x Hx). unfold path_byte in Hv.
    apply andb_true_iff in Hv. tauto. }
  assert (Hv2 : forallb (fun c => negb (N.eqb c 124)) t = true).
  { rewrite forallb_forall in *. intros x Hx. specialize (Hv x Hx). unfold path_byte in Hv.
    apply andb_true_iff in Hv. tauto. }
  change (@nil evtok) with (literal []).
  rewrite escape_run; [|exact Hv1|intros _; exact Hv2].
  destruct Hd as [ -> | [ -> | [ -> | -> ] ] ]; reflexivity.
Qed.

Example escape_roundtrip_nonvacuous :
  forallb path_byte [97; 36; 32; 58; 255; 9; 35] = true.
Proof. reflexivity. Qed.

(* A variable reference is read back as a reference. *)
Lemma varname_chars_simple : forall c, is_simple_varname_char c = true -> is_varname_char c = true.
Proof. intros c H. unfold is_varname_char. rewrite H. reflexivity. Qed.

(* ---------- C13: no scanner reads past the first NUL ---------- *)
Lemma In_0_cons c s : In 0 (c :: s) -> c <> 0 -> In 0 s.
Proof. intros [H|H] Hc; [congruence|exact H]. Qed.

Lemma eat_ws_no_overrun_len : forall n s, (length s <= n)%nat -> In 0 s -> eat_ws s <> None.
Proof.
  induction n as [|n IH]; intros s Hl H0.
  - destruct s; [destruct H0|cbn in Hl; lia].
  - destruct s as [|c s1]; [destruct H0|].
    cbn [eat_ws]. cbn [length] in Hl.
    destruct (N.eqb_spec c 32) as [->|H32].
    + assert (H1 : In 0 s1) by (apply (In_0_cons 32); [exact H0|discriminate]).
      specialize (IH s1 ltac:(lia) H1). destruct (eat_ws s1); [discriminate|congruence].
    + destruct (N.eqb_spec c 36) as [->|H36]; [|discriminate].
      assert (H1 : In 0 s1) by (apply (In_0_cons 36); [exact H0|discriminate]).
      destruct s1 as [|d s2]; [destruct H1|]. cbn [length] in Hl.
      destruct (N.eqb_spec d 10) as [->|H10].
      * assert (H2 : In 0 s2) by (apply (In_0_cons 10); [exact H1|discriminate]).
        specialize (IH s2 ltac:(lia) H2). destruct (eat_ws s2); [discriminate|congruence].
      * destruct (N.eqb_spec d 13) as [->|H13]; [|discriminate].
        assert (H2 : In 0 s2) by (apply (In_0_cons 13); [exact H1|discriminate]).
        destruct s2 as [|e s3]; [destruct H2|]. cbn [length] in Hl.
        destruct (N.eqb_spec e 10) as [->|He]; [|discriminate].
        assert (H3 : In 0 s3) by (apply (In_0_cons 10); [exact H2|discriminate]).
        specialize (IH s3 ltac:(lia) H3). destruct (eat_ws s3); [discriminate|congruence].
Qed.

Theorem C13_eat_ws_no_overrun s : In 0 s -> eat_ws s <> None.
Proof. apply (eat_ws_no_overrun_len (length s)). lia. Qed.

Lemma is_varname_char_0 : is_varname_char 0 = false.
Proof. reflexivity. Qed.

Lemma span_varname_no_overrun s : In 0 s -> span_varname s <> None.
Proof.
  induction s as [|c s IH]; intros H0; [destruct H0|].
  cbn [span_varname].
  destruct (is_varname_char c) eqn:Hv; [|discriminate].
  assert (Hc : c <> 0) by (intros ->; rewrite is_varname_char_0 in Hv; discriminate).
  specialize (IH (In_0_cons c s H0 Hc)).
  destruct (span_varname s) as [[w r]|]; [discriminate|congruence].
Qed.

Lemma scan_plain_no_overrun c s : In 0 (c :: s) -> scan_plain c s <> None.
Proof.
  intros H0. unfold scan_plain.
  destruct (is_varname_char c) eqn:Hv.
  - assert (Hc : c <> 0) by (intros ->; rewrite is_varname_char_0 in Hv; discriminate).
    pose proof (span_varname_no_overrun s (In_0_cons c s H0 Hc)) as Hs.
    destruct (span_varname s) as [[w r]|]; [discriminate|congruence].
  - destruct (N.eqb c 61); [discriminate|].
    destruct (N.eqb c 58); [discriminate|].
    destruct (N.eqb_spec c 124) as [->|H124].
    + assert (H1 : In 0 s) by (apply (In_0_cons 124); [exact H0|discriminate]).
      destruct s as [|d s']; [destruct H1|].
      destruct (N.eqb d 64); [discriminate|]. destruct (N.eqb d 124); discriminate.
    + destruct (N.eqb c 0); discriminate.
Qed.

Theorem C13_read_token_no_overrun : forall s start pos m,
  In 0 s -> read_token_aux s start pos m <> TR_overrun.
Proof.
  induction s as [|c s IH]; intros start pos m H0; [destruct H0|].
  cbn [read_token_aux]. destruct m as [|hp].
  - destruct (N.eqb_spec c 32) as [->|H32].
    { apply IH. apply (In_0_cons 32); [exact H0|discriminate]. }
    destruct (N.eqb_spec c 35) as [->|H35].
    { apply IH. apply (In_0_cons 35); [exact H0|discriminate]. }
    destruct (N.eqb c 10); [discriminate|].
    assert (Hfb : (if Nat.ltb start pos then TR T_INDENT start pos
                   else match scan_plain c s with
                        | Some (t, n) => TR t start (start + n)
                        | None => TR_overrun
                        end) <> TR_overrun).
    { destruct (Nat.ltb start pos); [discriminate|].
      pose proof (scan_plain_no_overrun c s H0) as Hs.
      destruct (scan_plain c s) as [[t n]|]; [discriminate|congruence]. }
    destruct (N.eqb_spec c 13) as [->|H13]; [|exact Hfb].
    assert (H1 : In 0 s) by (apply (In_0_cons 13); [exact H0|discriminate]).
    destruct s as [|d s']; [destruct H1|].
    destruct (N.eqb d 10); [discriminate|exact Hfb].
  - destruct (N.eqb_spec c 10) as [->|H10].
    { apply IH. apply (In_0_cons 10); [exact H0|discriminate]. }
    destruct (N.eqb_spec c 0) as [->|Hc0].
    { destruct (Nat.ltb start hp); discriminate. }
    apply IH. apply (In_0_cons c); assumption.
Qed.

Theorem C13_scan_ident_no_overrun s : In 0 s -> scan_ident s <> None.
Proof.
  intros H0. destruct s as [|c s]; [destruct H0|]. cbn [scan_ident].
  destruct (is_varname_char c) eqn:Hv; [|discriminate].
  assert (Hc : c <> 0) by (intros ->; rewrite is_varname_char_0 in Hv; discriminate).
  pose proof (span_varname_no_overrun s (In_0_cons c s H0 Hc)) as Hs.
  destruct (span_varname s) as [[w r]|]; [discriminate|congruence].
Qed.

Lemma is_simple_varname_char_0 : is_simple_varname_char 0 = false.
Proof. reflexivity. Qed.

Theorem C13_read_eval_no_overrun path ok : forall s pos m es caret,
  In 0 s -> read_eval_aux path ok s pos m es caret <> EV_overrun.
Proof.
  induction s as [|c s IH]; intros pos m es caret H0; [destruct H0|].
  (* the main-loop step on byte c never overruns *)
  assert (Hnormal : forall es0,
    (if N.eqb c 36 then read_eval_aux path ok s (S pos) (EM_dollar pos) es0 caret
     else if N.eqb c 13 then read_eval_aux path ok s (S pos) (EM_cr pos) es0 caret
     else if N.eqb c 0 then EV_err LE_unexpected_eof (Some pos)
     else if N.eqb c 32 || N.eqb c 58 || N.eqb c 124 || N.eqb c 10 then
       if path then EV_ok es0 pos pos caret
       else if N.eqb c 10 then EV_ok es0 (S pos) pos caret
       else read_eval_aux path ok s (S pos) EM_normal (add_text es0 [c]) caret
     else read_eval_aux path ok s (S pos) EM_normal (add_text es0 [c]) caret) <> EV_overrun).
  { intros es0.
    destruct (N.eqb_spec c 36) as [->|H36].
    { apply IH. apply (In_0_cons 36); [exact H0|discriminate]. }
    destruct (N.eqb_spec c 13) as [->|H13].
    { apply IH. apply (In_0_cons 13); [exact H0|discriminate]. }
    destruct (N.eqb_spec c 0) as [->|Hc0]; [discriminate|].
    assert (H1 : In 0 s) by (apply (In_0_cons c); assumption).
    destruct (N.eqb c 32 || N.eqb c 58 || N.eqb c 124 || N.eqb c 10).
    - destruct path; [discriminate|]. destruct (N.eqb c 10); [discriminate|]. apply IH; exact H1.
    - apply IH; exact H1. }
  cbn [read_eval_aux].
  destruct m as [|dp|dp| |v|dp v|cp].
  - apply Hnormal.
  - (* EM_dollar *)
    destruct (N.eqb_spec c 0) as [->|Hc0]; [cbn; discriminate|].
    assert (H1 : In 0 s) by (apply (In_0_cons c); assumption).
    destruct (N.eqb c 36); [apply IH; exact H1|].
    destruct (N.eqb c 32); [apply IH; exact H1|].
    destruct (N.eqb c 58); [apply IH; exact H1|].
    destruct (N.eqb c 94). { destruct ok; [apply IH; exact H1|discriminate]. }
    destruct (N.eqb c 10); [apply IH; exact H1|].
    destruct (N.eqb c 13); [apply IH; exact H1|].
    destruct (N.eqb c 123); [apply IH; exact H1|].
    destruct (is_simple_varname_char c); [apply IH; exact H1|discriminate].
  - (* EM_dollar_cr *)
    destruct (N.eqb_spec c 10) as [->|H10]; [|discriminate].
    apply IH. apply (In_0_cons 10); [exact H0|discriminate].
  - (* EM_cont *)
    destruct (N.eqb_spec c 32) as [->|H32]; [|apply Hnormal].
    apply IH. apply (In_0_cons 32); [exact H0|discriminate].
  - (* EM_var *)
    destruct (is_simple_varname_char c) eqn:Hv; [|apply Hnormal].
    assert (Hc : c <> 0) by (intros ->; rewrite is_simple_varname_char_0 in Hv; discriminate).
    apply IH. apply (In_0_cons c); assumption.
  - (* EM_brace *)
    destruct (is_varname_char c) eqn:Hv.
    { assert (Hc : c <> 0) by (intros ->; rewrite is_varname_char_0 in Hv; discriminate).
      apply IH. apply (In_0_cons c); assumption. }
    destruct (N.eqb_spec c 125) as [->|H125]; [|cbn [andb]; discriminate].
    cbn [andb]. destruct (negb match v with [] => true | _ :: _ => false end); [|discriminate].
    apply IH. apply (In_0_cons 125); [exact H0|discriminate].
  - (* EM_cr *)
    destruct (N.eqb c 10); [destruct path; discriminate|discriminate].
Qed.

(* The buffer the lexer runs on always ends in the sentinel. *)
Lemma lex_start_has_nul file contents major minor checked :
  In 0 (lx_input (lex_start file contents major minor checked)).
Proof. cbn. apply in_or_app. right. left. reflexivity. Qed.

(* ---------- C13: the offsets reported by the scanners stay inside the buffer ---------- *)
Lemma eat_ws_bound_len : forall n s k, (length s <= n)%nat -> eat_ws s = Some k -> (k <= length s)%nat.
Proof.
  induction n as [|n IH]; intros s k Hl Hk.
  - destruct s; [discriminate Hk|cbn in Hl; lia].
  - destruct s as [|c s1]; [discriminate Hk|]. cbn [eat_ws] in Hk. cbn [length] in *.
    destruct (N.eqb c 32).
    { destruct (eat_ws s1) as [k1|] eqn:E; [|discriminate Hk]. injection Hk as <-.
      specialize (IH s1 k1 ltac:(lia) E). lia. }
    destruct (N.eqb c 36); [|injection Hk as <-; lia].
    destruct s1 as [|d s2]; [discriminate Hk|]. cbn [length] in *.
    destruct (N.eqb d 10).
    { destruct (eat_ws s2) as [k1|] eqn:E; [|discriminate Hk]. injection Hk as <-.
      specialize (IH s2 k1 ltac:(lia) E). lia. }
    destruct (N.eqb d 13); [|injection Hk as <-; lia].
    destruct s2 as [|e s3]; [discriminate Hk|]. cbn [length] in *.
    destruct (N.eqb e 10); [|injection Hk as <-; lia].
    destruct (eat_ws s3) as [k1|] eqn:E; [|discriminate Hk]. injection Hk as <-.
    specialize (IH s3 k1 ltac:(lia) E). lia.
Qed.

Theorem C13_eat_ws_bound s k : eat_ws s = Some k -> (k <= length s)%nat.
Proof. apply (eat_ws_bound_len (length s)). lia. Qed.

Lemma span_varname_bound : forall s w r, span_varname s = Some (w, r) -> (length w <= length s)%nat.
Proof.
  induction s as [|c s IH]; intros w r H; [discriminate H|].
  cbn [span_varname] in H. destruct (is_varname_char c).
  - destruct (span_varname s) as [[w' r']|] eqn:E; [|discriminate H].
    injection H as <- <-. specialize (IH w' r' eq_refl). cbn [length]. lia.
  - injection H as <- <-. cbn [length]. lia.
Qed.

Lemma scan_plain_bound c s t n : scan_plain c s = Some (t, n) -> (1 <= n <= S (length s))%nat.
Proof.
  unfold scan_plain. intros H.
  destruct (is_varname_char c).
  { destruct (span_varname s) as [[w r]|] eqn:E; [|discriminate H]. injection H as <- <-.
    pose proof (span_varname_bound s w r E). lia. }
  destruct (N.eqb c 61); [injection H as <- <-; lia|].
  destruct (N.eqb c 58); [injection H as <- <-; lia|].
  destruct (N.eqb c 124).
  { destruct s as [|d s']; [discriminate H|]. cbn [length].
    destruct (N.eqb d 64); [injection H as <- <-; lia|].
    destruct (N.eqb d 124); injection H as <- <-; lia. }
  destruct (N.eqb c 0); injection H as <- <-; lia.
Qed.

Definition rtmode_wf (m : rtmode) (start pos : nat) : Prop :=
  (start <= pos)%nat /\ match m with RT_spaces => True | RT_comment hp => (start <= hp < pos)%nat end.

Theorem C13_read_token_bounds : forall s start pos m t a b,
  rtmode_wf m start pos ->
  read_token_aux s start pos m = TR t a b ->
  (a < b <= pos + length s)%nat.
Proof.
  induction s as [|c s IH]; intros start pos m t a b Hwf H; [discriminate H|].
  cbn [read_token_aux] in H. cbn [length]. destruct Hwf as [Hsp Hm]. destruct m as [|hp].
  - destruct (N.eqb c 32).
    { apply IH in H; [lia|]. split; [lia|exact I]. }
    destruct (N.eqb c 35).
    { apply IH in H; [lia|]. split; [lia|]. cbn. lia. }
    destruct (N.eqb c 10); [injection H as <- <- <-; lia|].
    assert (Hfb : forall r,
      (if Nat.ltb start pos then TR T_INDENT start pos
       else match scan_plain c s with
            | Some (t0, n) => TR t0 start (start + n)
            | None => TR_overrun
            end) = r -> r = TR t a b -> (a < b <= pos + S (length s))%nat).
    { intros r Hr Hrt. subst r. destruct (Nat.ltb_spec start pos) as [Hlt|Hge].
      - injection Hrt as <- <- <-. lia.
      - destruct (scan_plain c s) as [[t0 n]|] eqn:E; [|discriminate Hrt].
        injection Hrt as <- <- <-. pose proof (scan_plain_bound c s t0 n E). lia. }
    destruct (N.eqb c 13).
    + destruct s as [|d s']; [discriminate H|]. cbn [length] in *.
      destruct (N.eqb d 10); [injection H as <- <- <-; lia|].
      eapply Hfb; [reflexivity|exact H].
    + eapply Hfb; [reflexivity|exact H].
  - destruct (N.eqb c 10).
    { apply IH in H; [lia|]. split; [lia|exact I]. }
    destruct (N.eqb c 0).
    { destruct (Nat.ltb_spec start hp) as [Hlt|Hge]; injection H as <- <- <-; lia. }
    apply IH in H; [lia|]. split; [lia|]. cbn. lia.
Qed.

Definition evmode_wf (m : evmode) (pos : nat) : Prop :=
  match m with EM_cr cp => (cp < pos)%nat | _ => True end.

Theorem C13_read_eval_bounds path ok : forall s pos m es caret es' stop last caret',
  evmode_wf m pos ->
  read_eval_aux path ok s pos m es caret = EV_ok es' stop last caret' ->
  (last <= stop <= pos + length s)%nat.
Proof.
  induction s as [|c s IH]; intros pos m es caret es' stop last caret' Hwf H; [discriminate H|].
  cbn [length].
  assert (Hnormal : forall es0,
    (if N.eqb c 36 then read_eval_aux path ok s (S pos) (EM_dollar pos) es0 caret
     else if N.eqb c 13 then read_eval_aux path ok s (S pos) (EM_cr pos) es0 caret
     else if N.eqb c 0 then EV_err LE_unexpected_eof (Some pos)
     else if N.eqb c 32 || N.eqb c 58 || N.eqb c 124 || N.eqb c 10 then
       if path then EV_ok es0 pos pos caret
       else if N.eqb c 10 then EV_ok es0 (S pos) pos caret
       else read_eval_aux path ok s (S pos) EM_normal (add_text es0 [c]) caret
     else read_eval_aux path ok s (S pos) EM_normal (add_text es0 [c]) caret)
    = EV_ok es' stop last caret' -> (last <= stop <= pos + S (length s))%nat).
  { intros es0 H0.
    destruct (N.eqb c 36). { apply IH in H0; [lia|exact I]. }
    destruct (N.eqb c 13). { apply IH in H0; [lia|cbn; lia]. }
    destruct (N.eqb c 0); [discriminate H0|].
    destruct (N.eqb c 32 || N.eqb c 58 || N.eqb c 124 || N.eqb c 10).
    - destruct path; [injection H0 as _ <- <- _; lia|].
      destruct (N.eqb c 10); [injection H0 as _ <- <- _; lia|]. apply IH in H0; [lia|exact I].
    - apply IH in H0; [lia|exact I]. }
  cbn [read_eval_aux] in H.
  destruct m as [|dp|dp| |v|dp v|cp].
  - apply (Hnormal es H).
  - destruct (N.eqb c 36). { apply IH in H; [lia|exact I]. }
    destruct (N.eqb c 32). { apply IH in H; [lia|exact I]. }
    destruct (N.eqb c 58). { apply IH in H; [lia|exact I]. }
    destruct (N.eqb c 94). { destruct ok; [apply IH in H; [lia|exact I]|discriminate H]. }
    destruct (N.eqb c 10). { apply IH in H; [lia|exact I]. }
    destruct (N.eqb c 13). { apply IH in H; [lia|exact I]. }
    destruct (N.eqb c 123). { apply IH in H; [lia|exact I]. }
    destruct (is_simple_varname_char c); [apply IH in H; [lia|exact I]|discriminate H].
  - destruct (N.eqb c 10); [apply IH in H; [lia|exact I]|discriminate H].
  - destruct (N.eqb c 32); [apply IH in H; [lia|exact I]|apply (Hnormal es H)].
  - destruct (is_simple_varname_char c); [apply IH in H; [lia|exact I]|apply (Hnormal _ H)].
  - destruct (is_varname_char c). { apply IH in H; [lia|exact I]. }
    destruct (N.eqb c 125 && negb match v with [] => true | _ :: _ => false end);
      [apply IH in H; [lia|exact I]|discriminate H].
  - cbn in Hwf. destruct (N.eqb c 10); [|discriminate H].
    destruct path; injection H as _ <- <- _; lia.
Qed.
