(* C12/C13: model of ninja's manifest lexer (src/lexer.in.cc; the compiled scanner is the
   generated src/lexer.cc).  Definitions only.

   The three re2c scanners (ReadToken, ReadIdent, ReadEvalString) and EatWhitespace are written
   as direct structural recursion over the byte list of the remaining input; "longest match,
   first rule wins" is resolved by hand.  The C++ scans a NUL-terminated buffer: the model is
   run on [contents ++ [0]].  Every scanner has a DISTINCT outcome ("overrun") for the case
   where it would have to look at a byte after the end of the list; LexProofs shows that this
   outcome is impossible as soon as the remaining input contains a NUL.

   Positions are byte offsets ([nat]) from the start of the file buffer; [lx_last] is the
   C++ [last_token_] (NULL is represented by offset 0: both give line 1 in Lexer::Error). *)
From NinjaV Require Import Base.Bytes.
Local Open Scope N_scope.

(* ---------- byte-string constants (numeric, so that extraction does not pull in Coq's
   [string] type, which would shadow OCaml's in the driver); checked against the readable
   literals in LexProofs.v ---------- *)
Definition s_build : bytes := [98; 117; 105; 108; 100].
Definition s_pool : bytes := [112; 111; 111; 108].
Definition s_rule : bytes := [114; 117; 108; 101].
Definition s_default : bytes := [100; 101; 102; 97; 117; 108; 116].
Definition s_include : bytes := [105; 110; 99; 108; 117; 100; 101].
Definition s_subninja : bytes := [115; 117; 98; 110; 105; 110; 106; 97].
Definition s_phony : bytes := [112; 104; 111; 110; 121].
Definition s_command : bytes := [99; 111; 109; 109; 97; 110; 100].
Definition s_depfile : bytes := [100; 101; 112; 102; 105; 108; 101].
Definition s_dyndep : bytes := [100; 121; 110; 100; 101; 112].
Definition s_description : bytes := [100; 101; 115; 99; 114; 105; 112; 116; 105; 111; 110].
Definition s_deps : bytes := [100; 101; 112; 115].
Definition s_generator : bytes := [103; 101; 110; 101; 114; 97; 116; 111; 114].
Definition s_restat : bytes := [114; 101; 115; 116; 97; 116].
Definition s_rspfile : bytes := [114; 115; 112; 102; 105; 108; 101].
Definition s_rspfile_content : bytes := [114; 115; 112; 102; 105; 108; 101; 95; 99; 111; 110; 116; 101; 110; 116].
Definition s_msvc_deps_prefix : bytes := [109; 115; 118; 99; 95; 100; 101; 112; 115; 95; 112; 114; 101; 102; 105; 120].
Definition s_in : bytes := [105; 110].
Definition s_in_newline : bytes := [105; 110; 95; 110; 101; 119; 108; 105; 110; 101].
Definition s_out : bytes := [111; 117; 116].
Definition s_depth : bytes := [100; 101; 112; 116; 104].
Definition s_ninja_required_version : bytes := [110; 105; 110; 106; 97; 95; 114; 101; 113; 117; 105; 114; 101; 100; 95; 118; 101; 114; 115; 105; 111; 110].
Definition s_console : bytes := [99; 111; 110; 115; 111; 108; 101].

(* ---------- character classes ---------- *)
Definition in_range (lo hi c : byte) : bool := N.leb lo c && N.leb c hi.
Definition is_alnum (c : byte) : bool :=
  in_range 97 122 c || in_range 65 90 c || in_range 48 57 c.
(* simple_varname = [a-zA-Z0-9_-]+ ; varname = [a-zA-Z0-9_.-]+ *)
Definition is_simple_varname_char (c : byte) : bool :=
  is_alnum c || N.eqb c 95 || N.eqb c 45.
Definition is_varname_char (c : byte) : bool :=
  is_simple_varname_char c || N.eqb c 46.

(* ---------- tokens (Lexer::Token) ---------- *)
Inductive token :=
| T_ERROR | T_BUILD | T_COLON | T_DEFAULT | T_EQUALS | T_IDENT | T_INCLUDE | T_INDENT
| T_NEWLINE | T_PIPE | T_PIPE2 | T_PIPEAT | T_POOL | T_RULE | T_SUBNINJA | T_TEOF.

Definition token_eqb (a b : token) : bool :=
  match a, b with
  | T_ERROR, T_ERROR | T_BUILD, T_BUILD | T_COLON, T_COLON | T_DEFAULT, T_DEFAULT
  | T_EQUALS, T_EQUALS | T_IDENT, T_IDENT | T_INCLUDE, T_INCLUDE | T_INDENT, T_INDENT
  | T_NEWLINE, T_NEWLINE | T_PIPE, T_PIPE | T_PIPE2, T_PIPE2 | T_PIPEAT, T_PIPEAT
  | T_POOL, T_POOL | T_RULE, T_RULE | T_SUBNINJA, T_SUBNINJA | T_TEOF, T_TEOF => true
  | _, _ => false
  end.

(* ---------- EatWhitespace ----------
     [ ]+ | "$\r\n" | "$\n"  -> continue ;  nul | [^] -> break (ofs_ not advanced)
   Returns the number of bytes skipped; [None] = overrun. *)
Fixpoint eat_ws (s : bytes) : option nat :=
  match s with
  | [] => None
  | c :: s1 =>
    if N.eqb c 32 then option_map S (eat_ws s1)
    else if N.eqb c 36 then
      match s1 with
      | [] => None
      | d :: s2 =>
        if N.eqb d 10 then option_map (fun n => S (S n)) (eat_ws s2)
        else if N.eqb d 13 then
          match s2 with
          | [] => None
          | e :: s3 => if N.eqb e 10 then option_map (fun n => S (S (S n))) (eat_ws s3)
                       else Some O
          end
        else Some O
      end
    else Some O
  end.

(* ---------- ReadToken ---------- *)
(* maximal run of varname characters; [None] if the run reaches the end of the list *)
Fixpoint span_varname (s : bytes) : option (bytes * bytes) :=
  match s with
  | [] => None
  | c :: s' =>
    if is_varname_char c then
      match span_varname s' with
      | Some (w, r) => Some (c :: w, r)
      | None => None
      end
    else Some ([], s)
  end.

Definition keyword_or_ident (w : bytes) : token :=
  if bytes_eqb w s_build then T_BUILD
  else if bytes_eqb w s_pool then T_POOL
  else if bytes_eqb w s_rule then T_RULE
  else if bytes_eqb w s_default then T_DEFAULT
  else if bytes_eqb w s_include then T_INCLUDE
  else if bytes_eqb w s_subninja then T_SUBNINJA
  else T_IDENT.

(* token starting at a byte that is neither a space nor the start of a comment / newline
   rule; result: token and its length *)
Definition scan_plain (c : byte) (s' : bytes) : option (token * nat) :=
  if is_varname_char c then
    match span_varname s' with
    | Some (w, _) => Some (keyword_or_ident (c :: w), S (length w))
    | None => None
    end
  else if N.eqb c 61 then Some (T_EQUALS, 1%nat)
  else if N.eqb c 58 then Some (T_COLON, 1%nat)
  else if N.eqb c 124 then
    match s' with
    | [] => None
    | d :: _ => if N.eqb d 64 then Some (T_PIPEAT, 2%nat)
                else if N.eqb d 124 then Some (T_PIPE2, 2%nat)
                else Some (T_PIPE, 1%nat)
    end
  else if N.eqb c 0 then Some (T_TEOF, 1%nat)
  else Some (T_ERROR, 1%nat).

Inductive tokres :=
| TR (t : token) (start stop : nat)   (* last_token_ = start, p = stop (before EatWhitespace) *)
| TR_overrun.

Inductive rtmode :=
| RT_spaces                 (* in the leading run of spaces of a candidate token *)
| RT_comment (hash : nat).  (* after [ ]*"#", scanning [^\000\n]*; [hash] = offset of '#' *)

(* [start] = offset of the current candidate token, [pos] = offset of the head of [s].
   A terminated comment restarts the loop ([continue]); an unterminated one falls back to the
   longest other match: INDENT if there were spaces, else the one-byte [^] rule. *)
Fixpoint read_token_aux (s : bytes) (start pos : nat) (m : rtmode) : tokres :=
  match s with
  | [] => TR_overrun
  | c :: s' =>
    match m with
    | RT_comment hp =>
      if N.eqb c 10 then read_token_aux s' (S pos) (S pos) RT_spaces
      else if N.eqb c 0 then
        (if Nat.ltb start hp then TR T_INDENT start hp else TR T_ERROR start (S start))
      else read_token_aux s' start (S pos) (RT_comment hp)
    | RT_spaces =>
      if N.eqb c 32 then read_token_aux s' start (S pos) RT_spaces
      else if N.eqb c 35 then read_token_aux s' start (S pos) (RT_comment pos)
      else if N.eqb c 10 then TR T_NEWLINE start (S pos)
      else
        let fallback :=
          if Nat.ltb start pos then TR T_INDENT start pos
          else match scan_plain c s' with
               | Some (t, n) => TR t start (start + n)
               | None => TR_overrun
               end in
        if N.eqb c 13 then
          match s' with
          | [] => TR_overrun
          | d :: _ => if N.eqb d 10 then TR T_NEWLINE start (S (S pos)) else fallback
          end
        else fallback
    end
  end.

(* ---------- ReadIdent ---------- *)
(* [Some (Some w)] : identifier w read; [Some None] : the [^] rule (failure); [None] overrun *)
Definition scan_ident (s : bytes) : option (option bytes) :=
  match s with
  | [] => None
  | c :: s' =>
    if is_varname_char c then
      match span_varname s' with
      | Some (w, _) => Some (Some (c :: w))
      | None => None
      end
    else Some None
  end.

(* ---------- EvalString ---------- *)
Inductive evtok := ET_raw (s : bytes) | ET_special (s : bytes).
Definition evalstring := list evtok.

(* EvalString::AddText: append to a trailing RAW token, else push a new one
   (the single_token_ optimisation is representation only) *)
Fixpoint add_text (es : evalstring) (t : bytes) : evalstring :=
  match es with
  | [] => [ET_raw t]
  | [ET_raw r] => [ET_raw (r ++ t)]
  | x :: es' => x :: add_text es' t
  end.
Definition add_special (es : evalstring) (v : bytes) : evalstring := es ++ [ET_special v].

(* ---------- ReadEvalString ---------- *)
Inductive lexerr :=
| LE_bad_escape      (* "bad $-escape (literal $ must be written as $$)" *)
| LE_unexpected_eof  (* "unexpected EOF" *)
| LE_lexing          (* DescribeLastError() for a byte that is not a tab *)
| LE_newline_version (* "using $^ escape requires specifying 'ninja_required_version' ..." *).

Inductive evres :=
| EV_ok (es : evalstring) (stop last : nat) (caret : bool)
    (* ofs_ = stop (before the optional EatWhitespace), last_token_ = last;
       [caret]: a "$^" was accepted, so newline_version_checked_ is now true *)
| EV_err (e : lexerr) (last : option nat)   (* [None]: last_token_ left unchanged *)
| EV_overrun.

Inductive evmode :=
| EM_normal
| EM_dollar (dp : nat)              (* just read '$' at offset dp *)
| EM_dollar_cr (dp : nat)           (* read "$\r" *)
| EM_cont                           (* after "$\n" / "$\r\n": skipping [ ]* *)
| EM_var (v : bytes)                (* inside "$"simple_varname; v reversed *)
| EM_brace (dp : nat) (v : bytes)   (* inside "${"varname ; v reversed *)
| EM_cr (cp : nat).                 (* read '\r' at offset cp outside an escape *)

(* [caret_ok] = newline_version_checked_ || manifest version >= 1.14 *)
Fixpoint read_eval_aux (path caret_ok : bool) (s : bytes) (pos : nat) (m : evmode)
         (es : evalstring) (caret : bool) : evres :=
  match s with
  | [] => EV_overrun
  | c :: s' =>
    (* one step of the main loop on byte [c] with accumulated string [es0] *)
    let normal (es0 : evalstring) : evres :=
      if N.eqb c 36 then read_eval_aux path caret_ok s' (S pos) (EM_dollar pos) es0 caret
      else if N.eqb c 13 then read_eval_aux path caret_ok s' (S pos) (EM_cr pos) es0 caret
      else if N.eqb c 0 then EV_err LE_unexpected_eof (Some pos)
      else if N.eqb c 32 || N.eqb c 58 || N.eqb c 124 || N.eqb c 10 then
        if path then EV_ok es0 pos pos caret
        else if N.eqb c 10 then EV_ok es0 (S pos) pos caret
        else read_eval_aux path caret_ok s' (S pos) EM_normal (add_text es0 [c]) caret
      else read_eval_aux path caret_ok s' (S pos) EM_normal (add_text es0 [c]) caret in
    match m with
    | EM_normal => normal es
    | EM_cr cp =>
      if N.eqb c 10 then
        (if path then EV_ok es cp cp caret else EV_ok es (S pos) cp caret)
      else EV_err LE_lexing (Some cp)
    | EM_dollar dp =>
      if N.eqb c 36 then read_eval_aux path caret_ok s' (S pos) EM_normal (add_text es [36]) caret
      else if N.eqb c 32 then read_eval_aux path caret_ok s' (S pos) EM_normal (add_text es [32]) caret
      else if N.eqb c 58 then read_eval_aux path caret_ok s' (S pos) EM_normal (add_text es [58]) caret
      else if N.eqb c 94 then
        (if caret_ok
         then read_eval_aux path caret_ok s' (S pos) EM_normal (add_text es [10]) true
         else EV_err LE_newline_version None)
      else if N.eqb c 10 then read_eval_aux path caret_ok s' (S pos) EM_cont es caret
      else if N.eqb c 13 then read_eval_aux path caret_ok s' (S pos) (EM_dollar_cr dp) es caret
      else if N.eqb c 123 then read_eval_aux path caret_ok s' (S pos) (EM_brace dp []) es caret
      else if is_simple_varname_char c
        then read_eval_aux path caret_ok s' (S pos) (EM_var [c]) es caret
      else EV_err LE_bad_escape (Some dp)
    | EM_dollar_cr dp =>
      if N.eqb c 10 then read_eval_aux path caret_ok s' (S pos) EM_cont es caret
      else EV_err LE_bad_escape (Some dp)
    | EM_cont =>
      if N.eqb c 32 then read_eval_aux path caret_ok s' (S pos) EM_cont es caret
      else normal es
    | EM_var v =>
      if is_simple_varname_char c
      then read_eval_aux path caret_ok s' (S pos) (EM_var (c :: v)) es caret
      else normal (add_special es (rev v))
    | EM_brace dp v =>
      if is_varname_char c
      then read_eval_aux path caret_ok s' (S pos) (EM_brace dp (c :: v)) es caret
      else if N.eqb c 125 && negb (match v with [] => true | _ => false end)
      then read_eval_aux path caret_ok s' (S pos) EM_normal (add_special es (rev v)) caret
      else EV_err LE_bad_escape (Some dp)
    end
  end.

(* ---------- the Lexer object ---------- *)
Record lexer := mkLexer {
  lx_file : bytes;      (* filename_ *)
  lx_input : bytes;     (* the whole buffer, NUL sentinel included *)
  lx_ofs : nat;         (* ofs_ *)
  lx_last : nat;        (* last_token_ *)
  lx_major : Z;         (* manifest_version_major *)
  lx_minor : Z;         (* manifest_version_minor *)
  lx_checked : bool     (* newline_version_checked_ *)
}.

(* Lexer::Start keeps the three version fields *)
Definition lex_start (file contents : bytes) (major minor : Z) (checked : bool) : lexer :=
  mkLexer file (contents ++ [0]) O O major minor checked.

Definition lx_rest (lx : lexer) : bytes := skipn (lx_ofs lx) (lx_input lx).
Definition lx_set (lx : lexer) (ofs last : nat) : lexer :=
  mkLexer (lx_file lx) (lx_input lx) ofs last (lx_major lx) (lx_minor lx) (lx_checked lx).
Definition lx_set_checked (lx : lexer) : lexer :=
  mkLexer (lx_file lx) (lx_input lx) (lx_ofs lx) (lx_last lx) (lx_major lx) (lx_minor lx) true.
Definition lx_set_version (lx : lexer) (major minor : Z) : lexer :=
  mkLexer (lx_file lx) (lx_input lx) (lx_ofs lx) (lx_last lx) major minor (lx_checked lx).

(* line number computed by Lexer::Error: 1 + number of '\n' in [0, last_token_) *)
Fixpoint count_nl (s : bytes) : nat :=
  match s with
  | [] => O
  | c :: s' => if N.eqb c 10 then S (count_nl s') else count_nl s'
  end.
Definition lx_line (lx : lexer) : nat := S (count_nl (firstn (lx_last lx) (lx_input lx))).

(* EatWhitespace from offset [ofs] *)
Definition lx_eat (lx : lexer) (ofs last : nat) : option lexer :=
  match eat_ws (skipn ofs (lx_input lx)) with
  | Some n => Some (lx_set lx (ofs + n) last)
  | None => None
  end.

(* Lexer::ReadToken *)
Definition lex_read_token (lx : lexer) : option (token * lexer) :=
  match read_token_aux (lx_rest lx) (lx_ofs lx) (lx_ofs lx) RT_spaces with
  | TR_overrun => None
  | TR t start stop =>
    match t with
    | T_NEWLINE | T_TEOF => Some (t, lx_set lx stop start)
    | _ => match lx_eat lx stop start with
           | Some lx' => Some (t, lx')
           | None => None
           end
    end
  end.

Definition lex_unread (lx : lexer) : lexer := lx_set lx (lx_last lx) (lx_last lx).

(* Lexer::PeekToken *)
Definition lex_peek (lx : lexer) (want : token) : option (bool * lexer) :=
  match lex_read_token lx with
  | None => None
  | Some (t, lx') => if token_eqb t want then Some (true, lx') else Some (false, lex_unread lx')
  end.

(* Lexer::ReadIdent: on failure only last_token_ moves *)
Definition lex_read_ident (lx : lexer) : option (option bytes * lexer) :=
  match scan_ident (lx_rest lx) with
  | None => None
  | Some None => Some (None, lx_set lx (lx_ofs lx) (lx_ofs lx))
  | Some (Some w) =>
    match lx_eat lx (lx_ofs lx + length w) (lx_ofs lx) with
    | Some lx' => Some (Some w, lx')
    | None => None
    end
  end.

Definition version_ge_1_14 (major minor : Z) : bool :=
  negb (Z.ltb major 1 || (Z.eqb major 1 && Z.ltb minor 14)).

Inductive lexevres :=
| LV_ok (es : evalstring) (lx : lexer)
| LV_err (e : lexerr) (lx : lexer)     (* lx carries the last_token_ used by Lexer::Error *)
| LV_overrun.

(* Lexer::ReadEvalString (ReadPath = path:=true, ReadVarValue = path:=false) *)
Definition lex_read_eval (path : bool) (lx : lexer) : lexevres :=
  let caret_ok := lx_checked lx || version_ge_1_14 (lx_major lx) (lx_minor lx) in
  match read_eval_aux path caret_ok (lx_rest lx) (lx_ofs lx) EM_normal [] false with
  | EV_overrun => LV_overrun
  | EV_err e None => LV_err e lx
  | EV_err e (Some l) => LV_err e (lx_set lx (lx_ofs lx) l)
  | EV_ok es stop last caret =>
    let lx1 := if caret then lx_set_checked lx else lx in
    if path then
      match lx_eat lx1 stop last with
      | Some lx' => LV_ok es lx'
      | None => LV_overrun
      end
    else LV_ok es (lx_set lx1 stop last)
  end.

(* DescribeLastError(): message class for an ERROR token whose first byte is last_token_[0] *)
Definition lx_last_is_tab (lx : lexer) : bool :=
  match skipn (lx_last lx) (lx_input lx) with
  | c :: _ => N.eqb c 9
  | [] => false
  end.
