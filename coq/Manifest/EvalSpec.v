(* C12: the REFERENCE evaluator, written from doc/manual.asciidoc (sections "Lexical syntax",
   "Ninja file reference", "Variable expansion", "Evaluation and scoping", "Rule variables",
   "Pools", "Default target statements", "Dynamic dependencies"), not from the C++.
   Definitions only.  Entry point: [spec_manifest] (same result type as [eval_manifest]).

   Shape: every file is first parsed to a list of statements ([parse_file], a purely
   syntactic pass using the token/eval-string scanners of LexDefs, i.e. the manual's lexical
   section), then the statements are evaluated with IMMUTABLE environments:
     - "a given variable cannot be changed, only shadowed": a scope is a list of frames and a
       binding is a cons; a build statement is evaluated where it stands and never sees a
       later re-binding;
     - "All variables are expanded immediately as they're encountered in parsing, with one
       important exception: variables in rule blocks are expanded when the rule is used";
     - lookup order for a build block / the rule it uses (manual, "Evaluation and scoping"):
         1 built-ins $in $out ($in_newline)   2 build-level   3 rule-level (late, in the
         build's scope)   4 file-level   5 files that subninja'd this file;
     - "subninja" opens a new scope for variables and rules, "include" does not;
     - paths are canonicalised ([canon]).

   Where the manual is silent or ambiguous the choice made by the code is adopted and listed
   here ([spec_choices], kept as comments because each is a fixed design decision):
     C1 the right-hand side of a binding inside a build block is expanded in the FILE scope;
     C2 the paths on a build line see the bindings of that build block;
     C3 the legacy form "build x: phony ... x ..." (one output, no implicit outputs, no
        implicit inputs) is tolerated by dropping x from the inputs -- each input KIND list
        is filtered separately, so the kinds of the remaining inputs are those written;
     C4 a default target may be any path already mentioned by a build statement;
     C5 "$^" is accepted by the syntactic pass unconditionally (the version gate is a property
        of the lexer object in the code and is not part of this specification);
     C6 the "pool" variable is looked up like any other edge variable, after the inputs and
        outputs are known;
     C7 ninja_required_version newer than 1.14 rejects the manifest;
     C8 include/subninja nesting deeper than the fuel given (an include cycle for every fuel)
        rejects the manifest, at the include statement that goes too deep.
   Error LINES of the reference are the line of the statement's first token; only presence
   and class of an error are meant to be compared with the implementation. *)
From NinjaV Require Import Base.Bytes Canon.CanonDefs Manifest.LexDefs Manifest.ParseDefs
  Manifest.EvalModel.
Local Open Scope N_scope.

(* ---------- abstract syntax ---------- *)
Definition binding_ast := (bytes * evalstring)%type.

Inductive stmt :=
| S_let (line : nat) (name : bytes) (val : evalstring)
| S_rule (line : nat) (name : bytes) (binds : list binding_ast)
| S_pool (line : nat) (name : bytes) (binds : list binding_ast)
| S_build (line : nat) (outs iouts : list evalstring) (rule : bytes)
          (ins imps oos vals : list evalstring) (binds : list binding_ast)
| S_default (line : nat) (targets : list evalstring)
| S_include (line : nat) (new_scope : bool) (path : evalstring).

(* ---------- the syntactic pass ---------- *)
Fixpoint parse_block (fuel : nat) (lx : lexer) : pres (list binding_ast * lexer) :=
  match fuel with
  | O => P_err (lx_file lx) O E_loop_fuel
  | S f =>
    do (b, lx1) <- p_peek lx T_INDENT;
    if b then
      do (key, val, lx2) <- parse_let lx1;
      do (l, lx3) <- parse_block f lx2;
      P_ok ((key, val) :: l, lx3)
    else P_ok ([], lx1)
  end.

Fixpoint parse_stmts (fuel total : nat) (lx : lexer) : pres (list stmt) :=
  match fuel with
  | O => P_err (lx_file lx) O E_loop_fuel
  | S f =>
    do (tok, lx1) <- p_read_token lx;
    let line := lx_line lx1 in
    match tok with
    | T_POOL =>
      do (name, lx2) <- p_read_ident lx1 E_expected_pool_name;
      do lx3 <- expect_token lx2 T_NEWLINE;
      do (bl, lx4) <- parse_block total lx3;
      do r <- parse_stmts f total lx4; P_ok (S_pool line name bl :: r)
    | T_RULE =>
      do (name, lx2) <- p_read_ident lx1 E_expected_rule_name;
      do lx3 <- expect_token lx2 T_NEWLINE;
      do (bl, lx4) <- parse_block total lx3;
      do r <- parse_stmts f total lx4; P_ok (S_rule line name bl :: r)
    | T_BUILD =>
      do (outs, lx2) <- read_paths total lx1;
      do (iouts, lx3) <- read_opt_paths total lx2 T_PIPE;
      if (match outs ++ iouts with [] => true | _ => false end) then lex_error lx3 E_expected_path
      else
      do lx4 <- expect_token lx3 T_COLON;
      do (rule, lx5) <- p_read_ident lx4 E_expected_rule_ref;
      do (ins, lx6) <- read_paths total lx5;
      do (imps, lx7) <- read_opt_paths total lx6 T_PIPE;
      do (oos, lx8) <- read_opt_paths total lx7 T_PIPE2;
      do (vals, lx9) <- read_opt_paths total lx8 T_PIPEAT;
      do lx10 <- expect_token lx9 T_NEWLINE;
      do (bl, lx11) <- parse_block total lx10;
      do r <- parse_stmts f total lx11;
      P_ok (S_build line outs iouts rule ins imps oos vals bl :: r)
    | T_DEFAULT =>
      do (ts, lx2) <- read_paths total lx1;
      if (match ts with [] => true | _ => false end) then lex_error lx2 E_expected_target
      else
      do lx3 <- expect_token lx2 T_NEWLINE;
      do r <- parse_stmts f total lx3; P_ok (S_default line ts :: r)
    | T_IDENT =>
      do (name, val, lx2) <- parse_let (lex_unread lx1);
      do r <- parse_stmts f total lx2; P_ok (S_let line name val :: r)
    | T_INCLUDE =>
      do (p, lx2) <- p_read_eval true lx1;
      do lx3 <- expect_token lx2 T_NEWLINE;
      do r <- parse_stmts f total lx3; P_ok (S_include line false p :: r)
    | T_SUBNINJA =>
      do (p, lx2) <- p_read_eval true lx1;
      do lx3 <- expect_token lx2 T_NEWLINE;
      do r <- parse_stmts f total lx3; P_ok (S_include line true p :: r)
    | T_ERROR => lex_error lx1 (if lx_last_is_tab lx1 then E_tabs else E_lexing)
    | T_TEOF => P_ok []
    | T_NEWLINE => parse_stmts f total lx1
    | T_COLON | T_EQUALS | T_INDENT | T_PIPE | T_PIPE2 | T_PIPEAT => lex_error lx1 (E_unexpected tok)
    end
  end.

Definition parse_file (file contents : bytes) : pres (list stmt) :=
  let n := S (S (length contents)) in
  parse_stmts n n (lex_start file contents 0%Z 0%Z true).   (* choice C5 *)

(* ---------- immutable environments ---------- *)
Definition frames := list (list (bytes * bytes)).     (* variable bindings, innermost first *)

Fixpoint lookup_frames (fr : frames) (v : bytes) : bytes :=
  match fr with
  | [] => []
  | f :: fr' => match assoc_get v f with Some x => x | None => lookup_frames fr' v end
  end.

Record sframe := mkSFrame { f_vars : list (bytes * bytes); f_rules : list (bytes * rule) }.
Definition senv := list sframe.
Definition senv_frames (e : senv) : frames := map f_vars e.

Fixpoint slookup_rule (e : senv) (n : bytes) : option rule :=
  match e with
  | [] => None
  | f :: e' => match assoc_get n (f_rules f) with Some r => Some r | None => slookup_rule e' n end
  end.

Definition senv_bind (e : senv) (k v : bytes) : senv :=
  match e with
  | [] => [mkSFrame [(k, v)] []]
  | f :: e' => mkSFrame ((k, v) :: f_vars f) (f_rules f) :: e'
  end.
Definition senv_add_rule (e : senv) (r : rule) : senv :=
  match e with
  | [] => [mkSFrame [] [(r_name r, r)]]
  | f :: e' => mkSFrame (f_vars f) ((r_name r, r) :: f_rules f) :: e'
  end.

(* ---------- the documented lookup for a build statement ----------
   [block] build-level bindings, [rl] rule-level bindings (unexpanded), [file] file-level
   frames (the file of the build line first, then the files that subninja'd it). *)
Fixpoint eval_es_o (look : bytes -> option bytes) (es : evalstring) : option bytes :=
  match es with
  | [] => Some []
  | ET_raw t :: es' =>
    match eval_es_o look es' with Some r => Some (t ++ r) | None => None end
  | ET_special v :: es' =>
    match look v, eval_es_o look es' with
    | Some a, Some r => Some (a ++ r)
    | _, _ => None
    end
  end.

Fixpoint spec_lookup (fuel : nat) (block : list (bytes * bytes)) (rl : list (bytes * evalstring))
         (file : frames) (ins outs : list bytes) (esc : bool) (var : bytes) : option bytes :=
  match fuel with
  | O => None      (* rule variables that refer to each other in a cycle have no value *)
  | S f =>
    if bytes_eqb var s_in then Some (path_list esc 32 ins)
    else if bytes_eqb var s_in_newline then Some (path_list esc 10 ins)
    else if bytes_eqb var s_out then Some (path_list esc 32 outs)
    else match assoc_get var block with
         | Some v => Some v
         | None =>
           match assoc_get var rl with
           | Some es => eval_es_o (spec_lookup f block rl file ins outs esc) es
           | None => Some (lookup_frames file var)
           end
         end
  end.

(* ---------- evaluation state ---------- *)
Record sstate := mkSS {
  ss_pools : list pool;
  ss_edges : list edge_dump;      (* newest first *)
  ss_nodes : list bytes;
  ss_outs : list bytes;
  ss_defaults : list bytes        (* newest first *)
}.

Definition serr {A} (file : bytes) (line : nat) (c : perr) : pres A := P_err file line c.

Fixpoint eval_block (file : frames) (bl : list binding_ast) (acc : list (bytes * bytes))
  : list (bytes * bytes) :=
  match bl with
  | [] => acc
  | (k, es) :: bl' => eval_block file bl' ((k, eval_es (lookup_frames file) es) :: acc)  (* C1 *)
  end.

Fixpoint spec_paths (fname : bytes) (line : nat) (look : bytes -> bytes) (l : list evalstring)
  : pres (list bytes) :=
  match l with
  | [] => P_ok []
  | es :: l' =>
    let p := eval_es look es in
    if b_empty p then serr fname line E_empty_path
    else do r <- spec_paths fname line look l'; P_ok (canon p :: r)
  end.

Fixpoint check_outs (fname : bytes) (line : nat) (global : list bytes) (l acc : list bytes)
  : pres unit :=
  match l with
  | [] => P_ok tt
  | p :: l' =>
    if mem_bytes p acc then serr fname line E_output_twice
    else if mem_bytes p global then serr fname line E_multiple_rules
    else check_outs fname line global l' (p :: acc)
  end.

Fixpoint spec_eval_keys (look : bool -> bytes -> option bytes) (ks : list (bool * bytes))
  : pres (list bytes) :=
  match ks with
  | [] => P_ok []
  | (esc, k) :: ks' =>
    match look esc k with
    | None => P_err [] O E_fatal_cycle
    | Some v => do r <- spec_eval_keys look ks'; P_ok (v :: r)
    end
  end.

Definition spec_build (fname : bytes) (line : nat) (env : senv) (st : sstate)
           (outs iouts : list evalstring) (rname : bytes) (ins imps oos vals : list evalstring)
           (bl : list binding_ast) : pres sstate :=
  match slookup_rule env rname with
  | None => serr fname line E_unknown_rule
  | Some r =>
    let file := senv_frames env in
    let block := eval_block file bl [] in
    let plook := lookup_frames (block :: file) in                        (* C2 *)
    do o1 <- spec_paths fname line plook outs;
    do o2 <- spec_paths fname line plook iouts;
    do _u <- check_outs fname line (ss_outs st) (o1 ++ o2) [];
    do i1 <- spec_paths fname line plook ins;
    do i2 <- spec_paths fname line plook imps;
    do i3 <- spec_paths fname line plook oos;
    do vs <- spec_paths fname line plook vals;
    let self := hd [] o1 in
    let legacy := r_phony r && Nat.eqb (length (o1 ++ o2)) 1 && Nat.eqb (length o2) 0
                  && Nat.eqb (length i2) 0 in                             (* C3 *)
    let i1' := if legacy then remove_bytes self i1 else i1 in
    let i3' := if legacy then remove_bytes self i3 else i3 in
    let all_ins := i1' ++ i2 ++ i3' in
    let fuel := (length (r_bindings r) + 3)%nat in
    let look := fun esc => spec_lookup fuel block (r_bindings r) file i1' o1 esc in
    match look true s_pool, look false s_dyndep with
    | None, _ | _, None => P_err [] O E_fatal_cycle
    | Some pool_name, Some dyndep =>
      do the_pool <-
         (if b_empty pool_name then P_ok default_pool
          else match lookup_pool pool_name (ss_pools st) with
               | Some p => P_ok p
               | None => serr fname line E_unknown_pool
               end);
      do dd <-
         (if b_empty dyndep then P_ok []
          else if mem_bytes (canon dyndep) all_ins then P_ok (canon dyndep)
          else serr fname line E_dyndep_not_input);
      do bvals <- spec_eval_keys look dump_keys;
      let d := mkEdgeDump (r_name r) (o1 ++ o2) (length o2) all_ins (length i2) (length i3') vs
                          (p_name the_pool) (p_depth the_pool) dd bvals in
      P_ok (mkSS (ss_pools st) (d :: ss_edges st)
                 (vs ++ i1 ++ i2 ++ i3 ++ o1 ++ o2 ++ ss_nodes st)
                 ((o1 ++ o2) ++ ss_outs st) (ss_defaults st))
    end
  end.

Fixpoint spec_defaults (fname : bytes) (line : nat) (look : bytes -> bytes) (st : sstate)
         (l : list evalstring) : pres sstate :=
  match l with
  | [] => P_ok st
  | es :: l' =>
    let p := eval_es look es in
    if b_empty p then serr fname line E_empty_path
    else if mem_bytes (canon p) (ss_nodes st) then                         (* C4 *)
      spec_defaults fname line look
                    (mkSS (ss_pools st) (ss_edges st) (ss_nodes st) (ss_outs st)
                          (canon p :: ss_defaults st)) l'
    else serr fname line E_unknown_target
  end.

Definition spec_rule (fname : bytes) (line : nat) (env : senv) (name : bytes)
           (bl : list binding_ast) : pres senv :=
  match env with
  | [] => serr fname line E_loop_fuel
  | f :: _ =>
    match assoc_get name (f_rules f) with
    | Some _ => serr fname line E_dup_rule
    | None =>
      if negb (forallb (fun b => is_reserved_binding (fst b)) bl) then serr fname line E_unexpected_var
      else
        (* the last declaration of a key wins *)
        let rb := rev bl in
        let empty k := match assoc_get k rb with Some es => es_empty es | None => true end in
        if negb (Bool.eqb (empty s_rspfile) (empty s_rspfile_content)) then serr fname line E_rspfile
        else if empty s_command then serr fname line E_expected_command
        else P_ok (senv_add_rule env (mkRule name rb false))
    end
  end.

Fixpoint spec_pool_depth (fname : bytes) (line : nat) (look : bytes -> bytes)
         (bl : list binding_ast) (depth : option Z) : pres (option Z) :=
  match bl with
  | [] => P_ok depth
  | (k, es) :: bl' =>
    if bytes_eqb k s_depth then
      match parse_depth (eval_es look es) with
      | Some d => spec_pool_depth fname line look bl' (Some d)
      | None => serr fname line E_bad_depth
      end
    else serr fname line E_unexpected_var
  end.

Definition sloader := bytes -> nat -> bytes -> senv -> sstate -> pres (senv * sstate).

Fixpoint spec_stmts (incl : sloader) (fname : bytes) (l : list stmt) (env : senv) (st : sstate)
  : pres (senv * sstate) :=
  match l with
  | [] => P_ok (env, st)
  | s :: l' =>
    let look := lookup_frames (senv_frames env) in
    match s with
    | S_let line name val =>
      let value := eval_es look val in
      if bytes_eqb name s_ninja_required_version
         && (let (major, minor) := parse_version value in version_fatal major minor)
      then P_err [] O E_fatal_version                                       (* C7 *)
      else spec_stmts incl fname l' (senv_bind env name value) st
    | S_rule line name bl =>
      do env' <- spec_rule fname line env name bl;
      spec_stmts incl fname l' env' st
    | S_pool line name bl =>
      match lookup_pool name (ss_pools st) with
      | Some _ => serr fname line E_dup_pool
      | None =>
        do d <- spec_pool_depth fname line look bl None;
        match d with
        | None => serr fname line E_expected_depth
        | Some depth =>
          spec_stmts incl fname l' env
                     (mkSS (pool_insert (mkPool name depth) (ss_pools st)) (ss_edges st)
                           (ss_nodes st) (ss_outs st) (ss_defaults st))
        end
      end
    | S_build line outs iouts rname ins imps oos vals bl =>
      do st' <- spec_build fname line env st outs iouts rname ins imps oos vals bl;
      spec_stmts incl fname l' env st'
    | S_default line ts =>
      do st' <- spec_defaults fname line look st ts;
      spec_stmts incl fname l' env st'
    | S_include line new_scope p =>
      let path := eval_es look p in
      if new_scope then
        do (_e, st') <- incl fname line path (mkSFrame [] [] :: env) st;
        spec_stmts incl fname l' env st'          (* the child scope is dropped *)
      else
        do (env', st') <- incl fname line path env st;
        spec_stmts incl fname l' env' st'         (* same scope: its bindings stay *)
    end
  end.

Fixpoint spec_load (ifuel : nat) (fm : bytes -> option bytes) (parent : bytes) (line : nat)
         (file : bytes) (env : senv) (st : sstate) : pres (senv * sstate) :=
  match ifuel with
  | O => P_err parent line E_include_depth                               (* C8 *)
  | S f =>
    match fm file with
    | None => P_err parent line E_loading
    | Some contents =>
      do stmts <- parse_file file contents;
      spec_stmts (spec_load f fm) file stmts env st
    end
  end.

Definition spec_initial : sstate :=
  mkSS (pool_insert console_pool (pool_insert default_pool [])) [] [] [] [].

Definition spec_manifest (fm : bytes -> option bytes) (ifuel : nat) (root : bytes) : result :=
  match spec_load ifuel fm [] O root [mkSFrame [] [(s_phony, phony_rule)]] spec_initial with
  | P_err f l c => Err f l c
  | P_ok (_, st) =>
    Ok (mkGraphDump (map (fun p => (p_name p, p_depth p)) (ss_pools st))
                    (rev (ss_defaults st)) (rev (ss_edges st)))
  end.
