(* C12: executable model of ManifestParser (src/manifest_parser.cc, src/parser.cc) driving the
   lexer model, with the environment mechanics of the C++ (BindingEnv store, per-edge scope
   only when the build block has bindings, bindings of a build block evaluated in the FILE
   scope, late evaluation of rule variables against the FINAL contents of the scopes).
   Definitions only.  Entry point: [eval_manifest]. *)
From NinjaV Require Import Base.Bytes Canon.CanonDefs Manifest.LexDefs Manifest.ParseDefs.
Local Open Scope N_scope.

(* ---------- State + the version fields of the sub-parser chain ---------- *)
Definition lexflags := (Z * Z * bool)%type.
Definition default_flags : lexflags := (0%Z, 0%Z, false).

Record pstate := mkPS {
  ps_store : store;
  ps_pools : list pool;          (* State::pools_, in std::map order *)
  ps_edges : list edge;          (* State::edges_, newest first *)
  ps_nodes : list bytes;         (* keys of State::paths_ *)
  ps_outs : list bytes;          (* nodes with an in_edge *)
  ps_defaults : list bytes;      (* State::defaults_, newest first *)
  ps_subflags : list lexflags    (* version fields of the Lexer of the parser object used at
                                    include depth i (ManifestParser::subparser_ is reused) *)
}.

Definition ps_with_store (ps : pstate) (st : store) : pstate :=
  mkPS st (ps_pools ps) (ps_edges ps) (ps_nodes ps) (ps_outs ps) (ps_defaults ps) (ps_subflags ps).

Fixpoint set_nth_flags (l : list lexflags) (n : nat) (f : lexflags) : list lexflags :=
  match n, l with
  | O, [] => [f]
  | O, _ :: l' => f :: l'
  | S n', [] => default_flags :: set_nth_flags [] n' f
  | S n', x :: l' => x :: set_nth_flags l' n' f
  end.

(* State::State(): root scope 0 holds the phony rule; pools "" and "console" *)
Definition initial_state : pstate :=
  mkPS [mkScope [] [(s_phony, phony_rule)]]
       (pool_insert console_pool (pool_insert default_pool []))
       [] [] [] [] [].

(* ---------- small wrappers turning lexer outcomes into parser results ---------- *)
Definition p_read_token (lx : lexer) : pres (token * lexer) :=
  match lex_read_token lx with Some r => P_ok r | None => overrun lx end.
Definition p_peek (lx : lexer) (t : token) : pres (bool * lexer) :=
  match lex_peek lx t with Some r => P_ok r | None => overrun lx end.
(* Parser::ExpectToken *)
Definition expect_token (lx : lexer) (want : token) : pres lexer :=
  match lex_read_token lx with
  | None => overrun lx
  | Some (t, lx') => if token_eqb t want then P_ok lx' else lex_error lx' (E_expected want t)
  end.
Definition p_read_eval (path : bool) (lx : lexer) : pres (evalstring * lexer) :=
  match lex_read_eval path lx with
  | LV_ok es lx' => P_ok (es, lx')
  | LV_err e lx' => lex_error lx' (lexerr_class e)
  | LV_overrun => overrun lx
  end.
Definition p_read_ident (lx : lexer) (c : perr) : pres (bytes * lexer) :=
  match lex_read_ident lx with
  | None => overrun lx
  | Some (None, lx') => lex_error lx' c
  | Some (Some w, lx') => P_ok (w, lx')
  end.

Definition es_empty (es : evalstring) : bool := match es with [] => true | _ => false end.
Definition b_empty (s : bytes) : bool := match s with [] => true | _ => false end.

(* ManifestParser::ParseLet *)
Definition parse_let (lx : lexer) : pres (bytes * evalstring * lexer) :=
  do (key, lx1) <- p_read_ident lx E_expected_var_name;
  do lx2 <- expect_token lx1 T_EQUALS;
  do (val, lx3) <- p_read_eval false lx2;
  P_ok (key, val, lx3).

(* "for (;;) { ReadPath; if (empty) break; push_back }" *)
Fixpoint read_paths (fuel : nat) (lx : lexer) : pres (list evalstring * lexer) :=
  match fuel with
  | O => P_err (lx_file lx) O E_loop_fuel
  | S f =>
    do (es, lx1) <- p_read_eval true lx;
    if es_empty es then P_ok ([], lx1)
    else do (l, lx2) <- read_paths f lx1; P_ok (es :: l, lx2)
  end.

(* "if (PeekToken(tok)) { read paths }" *)
Definition read_opt_paths (fuel : nat) (lx : lexer) (tok : token) : pres (list evalstring * lexer) :=
  do (b, lx1) <- p_peek lx tok;
  if b then read_paths fuel lx1 else P_ok ([], lx1).

(* ---------- ParsePool ---------- *)
Fixpoint pool_block (fuel : nat) (st : store) (e : env) (lx : lexer) (depth : Z) : pres (Z * lexer) :=
  match fuel with
  | O => P_err (lx_file lx) O E_loop_fuel
  | S f =>
    do (b, lx1) <- p_peek lx T_INDENT;
    if b then
      do (key, val, lx2) <- parse_let lx1;
      if bytes_eqb key s_depth then
        match parse_depth (eval_in st e val) with
        | Some d => pool_block f st e lx2 d
        | None => lex_error lx2 E_bad_depth
        end
      else lex_error lx2 E_unexpected_var
    else P_ok (depth, lx1)
  end.

Definition parse_pool (fuel : nat) (e : env) (lx : lexer) (ps : pstate) : pres (lexer * pstate) :=
  do (name, lx1) <- p_read_ident lx E_expected_pool_name;
  do lx2 <- expect_token lx1 T_NEWLINE;
  match lookup_pool name (ps_pools ps) with
  | Some _ => lex_error lx2 E_dup_pool
  | None =>
    do (depth, lx3) <- pool_block fuel (ps_store ps) e lx2 (-1)%Z;
    if Z.ltb depth 0 then lex_error lx3 E_expected_depth
    else P_ok (lx3, mkPS (ps_store ps) (pool_insert (mkPool name depth) (ps_pools ps))
                         (ps_edges ps) (ps_nodes ps) (ps_outs ps) (ps_defaults ps) (ps_subflags ps))
  end.

(* ---------- ParseRule ---------- *)
Fixpoint rule_block (fuel : nat) (lx : lexer) (acc : list (bytes * evalstring))
  : pres (list (bytes * evalstring) * lexer) :=
  match fuel with
  | O => P_err (lx_file lx) O E_loop_fuel
  | S f =>
    do (b, lx1) <- p_peek lx T_INDENT;
    if b then
      do (key, val, lx2) <- parse_let lx1;
      if is_reserved_binding key then rule_block f lx2 ((key, val) :: acc)
      else lex_error lx2 E_unexpected_var
    else P_ok (acc, lx1)
  end.

(* rule->bindings_[k] (operator[]) creates an empty entry when k is absent *)
Definition touch_binding (k : bytes) (l : list (bytes * evalstring)) : list (bytes * evalstring) :=
  match assoc_get k l with Some _ => l | None => (k, []) :: l end.
Definition binding_empty (k : bytes) (l : list (bytes * evalstring)) : bool :=
  match assoc_get k l with Some es => es_empty es | None => true end.

Definition parse_rule (fuel : nat) (e : env) (lx : lexer) (ps : pstate) : pres (lexer * pstate) :=
  do (name, lx1) <- p_read_ident lx E_expected_rule_name;
  do lx2 <- expect_token lx1 T_NEWLINE;
  match lookup_rule_current (ps_store ps) e name with
  | Some _ => lex_error lx2 E_dup_rule
  | None =>
    do (bl, lx3) <- rule_block fuel lx2 [];
    let bl1 := touch_binding s_rspfile_content (touch_binding s_rspfile bl) in
    if negb (Bool.eqb (binding_empty s_rspfile bl1) (binding_empty s_rspfile_content bl1))
    then lex_error lx3 E_rspfile
    else
      let bl2 := touch_binding s_command bl1 in
      if binding_empty s_command bl2 then lex_error lx3 E_expected_command
      else P_ok (lx3, ps_with_store ps (add_rule (ps_store ps) e (mkRule name bl2 false)))
  end.

(* ---------- ParseDefault ---------- *)
Fixpoint default_loop (fuel : nat) (e : env) (lx : lexer) (ps : pstate) (es : evalstring)
  : pres (lexer * pstate) :=
  match fuel with
  | O => P_err (lx_file lx) O E_loop_fuel
  | S f =>
    let path := eval_in (ps_store ps) e es in
    if b_empty path then lex_error lx E_empty_path
    else
      let path' := canon path in
      if mem_bytes path' (ps_nodes ps) then
        let ps' := mkPS (ps_store ps) (ps_pools ps) (ps_edges ps) (ps_nodes ps) (ps_outs ps)
                        (path' :: ps_defaults ps) (ps_subflags ps) in
        do (es', lx1) <- p_read_eval true lx;
        if es_empty es' then do lx2 <- expect_token lx1 T_NEWLINE; P_ok (lx2, ps')
        else default_loop f e lx1 ps' es'
      else lex_error lx E_unknown_target
  end.

Definition parse_default (fuel : nat) (e : env) (lx : lexer) (ps : pstate) : pres (lexer * pstate) :=
  do (es, lx1) <- p_read_eval true lx;
  if es_empty es then lex_error lx1 E_expected_target
  else default_loop fuel e lx1 ps es.

(* ---------- ParseEdge ---------- *)
(* the binding block: the value is evaluated in env_ (the FILE scope), stored in the new scope *)
Fixpoint edge_block (fuel : nat) (file_env edge_env : env) (lx : lexer) (st : store)
  : pres (lexer * store) :=
  match fuel with
  | O => P_err (lx_file lx) O E_loop_fuel
  | S f =>
    do (key, val, lx1) <- parse_let lx;
    let st' := add_binding st edge_env key (eval_in st file_env val) in
    do (b, lx2) <- p_peek lx1 T_INDENT;
    if b then edge_block f file_env edge_env lx2 st' else P_ok (lx2, st')
  end.

(* outputs: Evaluate, "empty path", CanonicalizePath, State::AddOut *)
Fixpoint add_outs (lx : lexer) (st : store) (e : env) (global_outs : list bytes)
         (l : list evalstring) (acc : list bytes) : pres (list bytes) :=
  match l with
  | [] => P_ok (rev acc)
  | es :: l' =>
    let path := eval_in st e es in
    if b_empty path then lex_error lx E_empty_path
    else
      let path' := canon path in
      if mem_bytes path' acc then lex_error lx E_output_twice
      else if mem_bytes path' global_outs then lex_error lx E_multiple_rules
      else add_outs lx st e global_outs l' (path' :: acc)
  end.

(* inputs and validations: Evaluate, "empty path", CanonicalizePath *)
Fixpoint eval_paths (lx : lexer) (st : store) (e : env) (l : list evalstring) : pres (list bytes) :=
  match l with
  | [] => P_ok []
  | es :: l' =>
    let path := eval_in st e es in
    if b_empty path then lex_error lx E_empty_path
    else do r <- eval_paths lx st e l'; P_ok (canon path :: r)
  end.

Definition lres_to_pres (r : lres) : pres bytes :=
  match r with
  | L_ok v => P_ok v
  | L_cycle => P_err [] O E_fatal_cycle
  | L_fuel => P_err [] O E_lookup_fuel
  end.

Fixpoint remove_bytes (x : bytes) (l : list bytes) : list bytes :=
  match l with
  | [] => []
  | y :: l' => if bytes_eqb y x then remove_bytes x l' else y :: remove_bytes x l'
  end.

Fixpoint count_bytes (x : bytes) (l : list bytes) : nat :=
  match l with
  | [] => O
  | y :: l' => if bytes_eqb y x then S (count_bytes x l') else count_bytes x l'
  end.

(* The phony self-reference filter (manifest_parser.cc) on inputs_ / order_only_deps_:
   order_only_deps_ -= count(inputs_.end() - order_only_deps_, inputs_.end(), out), then every
   occurrence of [out] is erased from inputs_.  (implicit_deps_ is 0 where the filter applies.) *)
Definition phony_filter (out : bytes) (ins : list bytes) (order_only : nat) : list bytes * nat :=
  (remove_bytes out ins,
   (order_only - count_bytes out (skipn (length ins - order_only) ins))%nat).

(* The filter as it was before the fix "adjust order_only_deps_ when the phony self-reference
   filter erases inputs": the counter was left alone (kept as documentation, see
   ManifestProofs.phony_filter_legacy_corrupts_kinds; not used by the model). *)
Definition phony_filter_legacy (out : bytes) (ins : list bytes) (order_only : nat)
  : list bytes * nat := (remove_bytes out ins, order_only).

(* Edge::maybe_phonycycle_diagnostic *)
Definition maybe_phonycycle (r : rule) (outs : list bytes) (implicit_outs implicit : nat) : bool :=
  r_phony r && Nat.eqb (length outs) 1 && Nat.eqb implicit_outs 0 && Nat.eqb implicit 0.

Definition parse_edge (fuel : nat) (e : env) (lx : lexer) (ps : pstate) : pres (lexer * pstate) :=
  do (outs1, lx1) <- read_paths fuel lx;
  do (outs2, lx2) <- read_opt_paths fuel lx1 T_PIPE;
  let outs := outs1 ++ outs2 in
  let implicit_outs := length outs2 in
  if (match outs with [] => true | _ => false end) then lex_error lx2 E_expected_path
  else
  do lx3 <- expect_token lx2 T_COLON;
  do (rule_name, lx4) <- p_read_ident lx3 E_expected_rule_ref;
  match lookup_rule (ps_store ps) e rule_name with
  | None => lex_error lx4 E_unknown_rule
  | Some rule =>
    do (ins1, lx5) <- read_paths fuel lx4;
    do (ins2, lx6) <- read_opt_paths fuel lx5 T_PIPE;
    do (ins3, lx7) <- read_opt_paths fuel lx6 T_PIPE2;
    do (vals, lx8) <- read_opt_paths fuel lx7 T_PIPEAT;
    do lx9 <- expect_token lx8 T_NEWLINE;
    let ins := ins1 ++ ins2 ++ ins3 in
    let implicit := length ins2 in
    let order_only := length ins3 in
    (* "Bindings on edges are rare, so allocate per-edge envs only when needed." *)
    do (has_indent, lx10) <- p_peek lx9 T_INDENT;
    do (lx11, st1, eenv) <-
       (if has_indent then
          let st0 := ps_store ps ++ [empty_scope] in
          let eenv := length (ps_store ps) :: e in
          do (lxb, stb) <- edge_block fuel e eenv lx10 st0; P_ok (lxb, stb, eenv)
        else P_ok (lx10, ps_store ps, e));
    (* edge->GetBinding("pool") : outputs_ and inputs_ are still empty here *)
    let edge0 := mkEdge rule eenv default_pool [] O [] O O [] [] in
    do pool_name <- lres_to_pres (get_binding st1 edge0 s_pool);
    do the_pool <-
       (if b_empty pool_name then P_ok default_pool
        else match lookup_pool pool_name (ps_pools ps) with
             | Some p => P_ok p
             | None => lex_error lx11 E_unknown_pool
             end);
    do out_paths <- add_outs lx11 st1 eenv (ps_outs ps) outs [];
    do in_paths <- eval_paths lx11 st1 eenv ins;
    do val_paths <- eval_paths lx11 st1 eenv vals;
    (* phony self-reference filter *)
    let '(in_paths', order_only') :=
      if maybe_phonycycle rule out_paths implicit_outs implicit
      then phony_filter (hd [] out_paths) in_paths order_only else (in_paths, order_only) in
    let edge1 := mkEdge rule eenv the_pool out_paths implicit_outs in_paths' implicit order_only'
                        val_paths [] in
    do dyndep <- lres_to_pres (get_unescaped st1 edge1 s_dyndep);
    (* "if (edge->env_ == env_) edge->env_ = new BindingEnv(env_);" : an edge with a dyndep binding
       and no block of its own (the binding comes from the rule) is given a scope of its own *)
    let fresh := negb (b_empty dyndep) && negb has_indent in
    let st2 := if fresh then st1 ++ [empty_scope] else st1 in
    let eenv2 := if fresh then length st1 :: e else eenv in
    do edge2 <-
       (if b_empty dyndep then P_ok edge1
        else
          let dd := canon dyndep in
          if mem_bytes dd in_paths' then
            P_ok (mkEdge rule eenv2 the_pool out_paths implicit_outs in_paths' implicit order_only'
                         val_paths dd)
          else lex_error lx11 E_dyndep_not_input);
    P_ok (lx11, mkPS st2 (ps_pools ps) (edge2 :: ps_edges ps)
                     (val_paths ++ in_paths ++ out_paths ++ ps_nodes ps)
                     (out_paths ++ ps_outs ps) (ps_defaults ps) (ps_subflags ps))
  end.

(* ---------- the statement loop, include/subninja ---------- *)
Definition loader := lexer -> bytes -> env -> pstate -> pres pstate.

(* kMaxIncludeDepth *)
Definition max_include_depth : nat := 200.

(* ManifestParser::ParseFileInclude in the parser object whose include_depth_ is [depth] *)
Definition parse_include (incl : loader) (depth : nat) (new_scope : bool) (e : env) (lx : lexer)
           (ps : pstate) : pres (lexer * pstate) :=
  do (es, lx1) <- p_read_eval true lx;
  let path := eval_in (ps_store ps) e es in
  if Nat.leb max_include_depth depth then lex_error lx1 E_include_depth else
  let (sub_env, ps1) :=
    if new_scope
    then (length (ps_store ps) :: e, ps_with_store ps (ps_store ps ++ [empty_scope]))
    else (e, ps) in
  do ps2 <- incl lx1 path sub_env ps1;
  do lx2 <- expect_token lx1 T_NEWLINE;
  P_ok (lx2, ps2).

(* ManifestParser::Parse : returns the final lexer (for its version fields) and the state *)
Fixpoint parse_loop (fuel total : nat) (incl : loader) (depth : nat) (e : env) (lx : lexer) (ps : pstate)
  : pres (lexer * pstate) :=
  match fuel with
  | O => P_err (lx_file lx) O E_loop_fuel
  | S f =>
    do (tok, lx1) <- p_read_token lx;
    match tok with
    | T_POOL => do (lx2, ps2) <- parse_pool total e lx1 ps; parse_loop f total incl depth e lx2 ps2
    | T_BUILD => do (lx2, ps2) <- parse_edge total e lx1 ps; parse_loop f total incl depth e lx2 ps2
    | T_RULE => do (lx2, ps2) <- parse_rule total e lx1 ps; parse_loop f total incl depth e lx2 ps2
    | T_DEFAULT => do (lx2, ps2) <- parse_default total e lx1 ps; parse_loop f total incl depth e lx2 ps2
    | T_IDENT =>
      do (name, val, lx2) <- parse_let (lex_unread lx1);
      let value := eval_in (ps_store ps) e val in
      if bytes_eqb name s_ninja_required_version then
        let (major, minor) := parse_version value in
        if version_fatal major minor then P_err [] O E_fatal_version
        else parse_loop f total incl depth e (lx_set_version lx2 major minor)
                        (ps_with_store ps (add_binding (ps_store ps) e name value))
      else parse_loop f total incl depth e lx2 (ps_with_store ps (add_binding (ps_store ps) e name value))
    | T_INCLUDE =>
      do (lx2, ps2) <- parse_include incl depth false e lx1 ps; parse_loop f total incl depth e lx2 ps2
    | T_SUBNINJA =>
      do (lx2, ps2) <- parse_include incl depth true e lx1 ps; parse_loop f total incl depth e lx2 ps2
    | T_ERROR => lex_error lx1 (if lx_last_is_tab lx1 then E_tabs else E_lexing)
    | T_TEOF => P_ok (lx1, ps)
    | T_NEWLINE => parse_loop f total incl depth e lx1 ps
    | T_COLON | T_EQUALS | T_INDENT | T_PIPE | T_PIPE2 | T_PIPEAT => lex_error lx1 (E_unexpected tok)
    end
  end.

(* Parser::Load for the parser object at include depth [depth] (its include_depth_: the
   sub-parser of a parser is created once, with include_depth_ + 1, and reused); [parent] is the
   lexer of the including parser (None for the root file).  [fm] is the file system.
   [ifuel] only makes the recursion structural: ParseFileInclude refuses to go below depth 200,
   so with ifuel >= 201 the fuel is never what stops the recursion. *)
Fixpoint load (ifuel : nat) (fm : bytes -> option bytes) (depth : nat) (parent : option lexer)
         (file : bytes) (e : env) (ps : pstate) : pres pstate :=
  match ifuel with
  | O => match parent with
         | Some plx => lex_error plx E_include_fuel
         | None => P_err [] O E_include_fuel
         end
  | S f =>
    match fm file with
    | None => match parent with
              | Some plx => lex_error plx E_loading
              | None => P_err [] O E_loading
              end
    | Some contents =>
      let '(major, minor, checked) := nth depth (ps_subflags ps) default_flags in
      let lx := lex_start file contents major minor checked in
      let n := S (S (length contents)) in
      do (lx', ps') <- parse_loop n n (fun plx => load f fm (S depth) (Some plx)) depth e lx ps;
      P_ok (mkPS (ps_store ps') (ps_pools ps') (ps_edges ps') (ps_nodes ps') (ps_outs ps')
                 (ps_defaults ps')
                 (set_nth_flags (ps_subflags ps') depth (lx_major lx', lx_minor lx', lx_checked lx')))
    end
  end.

(* ---------- the dump ---------- *)
Record edge_dump := mkEdgeDump {
  d_rule : bytes;
  d_outs : list bytes; d_implicit_outs : nat;
  d_ins : list bytes; d_implicit_deps : nat; d_order_only_deps : nat;
  d_validations : list bytes;
  d_pool : bytes; d_pool_depth : Z;
  d_dyndep_node : bytes;
  (* evaluated after the whole manifest has been loaded, in this order:
     command description depfile(unescaped) dyndep(unescaped) rspfile(unescaped)
     rspfile_content deps restat generator msvc_deps_prefix pool *)
  d_bindings : list bytes
}.

Record graph_dump := mkGraphDump {
  g_pools : list (bytes * Z);
  g_defaults : list bytes;
  g_edges : list edge_dump
}.

Inductive result :=
| Ok (g : graph_dump)
| Err (file : bytes) (line : nat) (c : perr).

Definition dump_keys : list (bool * bytes) :=   (* (escaped?, key) *)
  [(true, s_command); (true, s_description); (false, s_depfile); (false, s_dyndep);
   (false, s_rspfile); (true, s_rspfile_content); (true, s_deps); (true, s_restat);
   (true, s_generator); (true, s_msvc_deps_prefix); (true, s_pool)].

Fixpoint eval_keys (st : store) (e : edge) (ks : list (bool * bytes)) : pres (list bytes) :=
  match ks with
  | [] => P_ok []
  | (esc, k) :: ks' =>
    do v <- lres_to_pres (edge_lookup (lookup_fuel e) st e esc [] false k);
    do r <- eval_keys st e ks';
    P_ok (v :: r)
  end.

Definition dump_edge (st : store) (e : edge) : pres edge_dump :=
  do bl <- eval_keys st e dump_keys;
  P_ok (mkEdgeDump (r_name (e_rule e)) (e_outs e) (e_implicit_outs e) (e_ins e)
                   (e_implicit_deps e) (e_order_only_deps e) (e_validations e)
                   (p_name (e_pool e)) (p_depth (e_pool e)) (e_dyndep e) bl).

Fixpoint dump_edges (st : store) (l : list edge) : pres (list edge_dump) :=
  match l with
  | [] => P_ok []
  | e :: l' => do d <- dump_edge st e; do r <- dump_edges st l'; P_ok (d :: r)
  end.

Definition dump_state (ps : pstate) : pres graph_dump :=
  do el <- dump_edges (ps_store ps) (rev (ps_edges ps));
  P_ok (mkGraphDump (map (fun p => (p_name p, p_depth p)) (ps_pools ps))
                    (rev (ps_defaults ps)) el).

(* The entry point: file map, include-nesting fuel, name of the root file. *)
Definition eval_manifest (fm : bytes -> option bytes) (ifuel : nat) (root : bytes) : result :=
  match load ifuel fm O None root [O] initial_state with
  | P_err f l c => Err f l c
  | P_ok ps =>
    match dump_state ps with
    | P_ok g => Ok g
    | P_err f l c => Err f l c
    end
  end.
