(* Theorems about the scan with scan-time dyndep loads (ScanDynDefs.v).  No axioms.
   (a) scan_dyn_conservative      : without dyndep bindings scan_dyn IS scan (every ScanProofs theorem transfers)
   (b) C11_scan_inline_full       : the full "as if written in the manifest" statement at scan level -- REFUTED of the
                                    faithful model by two concrete graphs (verdicts differ / cycle not named)
   (c) dyndep_step_pending, dyndep_step_ready + the concrete pending scan. *)
From NinjaV Require Import Base.Bytes Engine.ScanDefs Engine.ScanDynDefs.
Local Open Scope Z_scope.

(* ------------------------------------------------------------------ (a) conservative extension *)
Section Conservative.
Variable di : dyn_info.
Variable g : graph.
Variable w : world.
Variable p : node -> bool.
Hypothesis Hnone : forall e, di_dyndep di e = None.

Definition lift (r : sres sv) : dres dv :=
  match r with
  | SOk (s, vs) => DOk (mkD g s p, vs)
  | SCycle c => DCycle c
  | SLoadErr e => DLoadErr e
  | SOutOfFuel => DOutOfFuel
  end.

Lemma dyndep_step_none : forall visit e wl x, dyndep_step di visit e wl x = DOk x.
Proof.
  intros visit e wl x. unfold dyndep_step. destruct wl; [reflexivity|]. rewrite Hnone. reflexivity.
Qed.

Section Visit.
Variable vd : node -> dv -> dres dv.
Variable v : node -> sv -> sres sv.
Hypothesis Hv : forall n s vs, vd n (mkD g s p, vs) = lift (v n (s, vs)).

Lemma dvisit_all_eq : forall l s vs,
  dvisit_all vd l (mkD g s p, vs) = lift (visit_all v l (s, vs)).
Proof.
  induction l as [|n l IH]; intros s vs.
  - reflexivity.
  - cbn [dvisit_all visit_all]. rewrite Hv.
    destruct (v n (s, vs)) as [[s' vs']|c|e|]; cbn [lift]; [apply IH|reflexivity|reflexivity|reflexivity].
Qed.

Lemma after_inputs_eq : forall e wl rm rd s vs,
  after_inputs_dyn w vd e wl rm rd (mkD g s p) vs = lift (after_inputs g w v e wl rm rd s vs).
Proof.
  intros e wl rm rd s vs. unfold after_inputs_dyn, after_inputs, with_s. cbn [d_g d_s d_pending].
  destruct (eval_inputs g e (es_ins (st_edge s e)) 0 s None false) as [[s4 mri] dirty].
  destruct (if dirty then (true, s4) else outputs_dirty_all g w e (edge_outs g e) mri s4) as [dirty1 s5].
  destruct wl; [reflexivity|].
  destruct dirty1.
  - destruct (load_deps_try g w s5 e); reflexivity.
  - destruct (load_deps g w s5 e) as [| |new_ins]; [reflexivity|reflexivity|].
    rewrite dvisit_all_eq.
    destruct (visit_all v new_ins (splice_deps g s5 e new_ins, vs)) as [[s7 vs7]|c|e'|]; cbn [lift];
      [|reflexivity|reflexivity|reflexivity].
    cbn [d_g d_s d_pending].
    destruct (eval_inputs g e new_ins (length (es_ins (st_edge s5 e)) - ei_noo (g_edge g e)) s7 mri false)
      as [[s8 mri2] dirty2].
    reflexivity.
Qed.
End Visit.

Lemma recompute_node_dirty_dyn_eq : forall fuel stack n s vs,
  recompute_node_dirty_dyn di w fuel stack n (mkD g s p, vs)
  = lift (recompute_node_dirty g w fuel stack n (s, vs)).
Proof.
  induction fuel as [|fuel IH]; intros stack n s vs.
  - reflexivity.
  - cbn [recompute_node_dirty_dyn recompute_node_dirty]. cbn [d_g d_s].
    destruct (g_producer g n) as [e|].
    + destruct (es_mark (st_edge s e)); [|reflexivity|reflexivity].
      rewrite dyndep_step_none. unfold with_s. cbn [d_g d_s d_pending].
      erewrite dvisit_all_eq; [|intros n0 s0 vs0; apply IH].
      match goal with |- context [visit_all ?f ?l ?a] => destruct (visit_all f l a) as [[s3 vs3]|c|e'|] end;
        cbn [lift]; [|reflexivity|reflexivity|reflexivity].
      apply after_inputs_eq. apply IH.
    + destruct (n_known (st_node s n)); reflexivity.
Qed.

Lemma recompute_dirty_loop_dyn_eq : forall qfuel queue s found,
  recompute_dirty_loop_dyn di w qfuel queue (mkD g s p) found
  = lift (recompute_dirty_loop g w qfuel queue s found).
Proof.
  induction qfuel as [|qfuel IH]; intros queue s found.
  - destruct queue; reflexivity.
  - destruct queue as [|n queue]; [reflexivity|].
    cbn [recompute_dirty_loop_dyn recompute_dirty_loop]. cbn [d_g].
    rewrite recompute_node_dirty_dyn_eq.
    destruct (recompute_node_dirty g w (scan_fuel g) [] n (s, [])) as [[s' newv]|c|e|]; cbn [lift];
      [apply IH|reflexivity|reflexivity|reflexivity].
Qed.

Lemma add_validation_targets_dyn_eq : forall vnodes s pl,
  add_validation_targets_dyn (mkD g s p) vnodes pl = embed_result g p (add_validation_targets g s vnodes pl).
Proof.
  induction vnodes as [|v vnodes IH]; intros s pl.
  - reflexivity.
  - cbn [add_validation_targets_dyn add_validation_targets]. cbn [d_g d_s].
    destruct (g_producer g v) as [ve|]; [|apply IH].
    destruct (es_ready (st_edge s ve)); [apply IH|].
    destruct (plan_add_target g s v pl) as [[[b oerr] pl']|]; [|reflexivity].
    destruct b; [apply IH|]. destruct oerr as [[m dep]|]; reflexivity.
Qed.

Lemma builder_add_target_dyn_eq : forall s pl t,
  builder_add_target_dyn di w (mkD g s p) pl t = embed_result g p (builder_add_target g w s pl t).
Proof.
  intros s pl t. unfold builder_add_target_dyn, builder_add_target, recompute_dirty_dyn, recompute_dirty.
  cbn [d_g]. rewrite recompute_dirty_loop_dyn_eq.
  destruct (recompute_dirty_loop g w (queue_fuel g) [t] s []) as [[s' vnodes]|c|e|]; cbn [lift];
    [|reflexivity|reflexivity|reflexivity].
  cbn [d_g d_s].
  destruct (match g_producer g t with Some e => negb (es_ready (st_edge s' e)) | None => true end).
  - destruct (plan_add_target g s' t pl) as [[[b oerr] pl']|]; [|reflexivity].
    destruct b; [apply add_validation_targets_dyn_eq|]. destruct oerr as [[m dep]|]; reflexivity.
  - apply add_validation_targets_dyn_eq.
Qed.

Lemma add_targets_dyn_eq : forall targets s pl,
  add_targets_dyn di w (mkD g s p) pl targets = embed_result g p (add_targets g w s pl targets).
Proof.
  induction targets as [|t targets IH]; intros s pl.
  - reflexivity.
  - cbn [add_targets_dyn add_targets]. rewrite builder_add_target_dyn_eq.
    destruct (builder_add_target g w s pl t) as [c|m dep|e| |s' pl']; cbn [embed_result]; try reflexivity.
    apply IH.
Qed.
End Conservative.

(* (a) On a graph without dyndep bindings the scan with dyndep is the scan without: same error, or the same
   final state and plan on the unchanged graph. *)
Theorem scan_dyn_conservative : forall di g w targets,
  (forall e, di_dyndep di e = None) ->
  scan_dyn di g w targets = embed_result g (init_pending di g) (scan g w targets).
Proof.
  intros di g w targets Hnone. unfold scan_dyn, scan, init_dstate.
  apply add_targets_dyn_eq. exact Hnone.
Qed.

Corollary scan_dyn_no_dyndep : forall g w targets,
  scan_dyn no_dyndep g w targets = embed_result g (init_pending no_dyndep g) (scan g w targets).
Proof. intros g w targets. apply scan_dyn_conservative. intros e. reflexivity. Qed.

(* ------------------------------------------------------------------ (c) the pending case, at the step *)
(* A statement whose dyndep file is pending and whose producer is NOT ready after being visited: nothing is
   loaded -- the step returns exactly what the visit of the dyndep file returned (graph, inputs, outputs and the
   pending flag untouched). *)
Theorem dyndep_step_pending : forall di visit e dd d vs d1 vs1 pe,
  di_dyndep di e = Some dd -> d_pending d dd = true ->
  visit dd (d, vs) = DOk (d1, vs1) ->
  g_producer (d_g d1) dd = Some pe -> es_ready (st_edge (d_s d1) pe) = false ->
  dyndep_step di visit e false (d, vs) = DOk (d1, vs1).
Proof.
  intros di visit e dd d vs d1 vs1 pe Hb Hp Hv Hpr Hr.
  unfold dyndep_step. rewrite Hb. cbn [fst]. rewrite Hp, Hv, Hpr, Hr. reflexivity.
Qed.

(* ... and when the file is a source or its producer is ready, the file IS loaded at that moment (or the scan
   fails with the load's error); after a successful load the flag is down. *)
Theorem dyndep_step_ready : forall di visit e dd d vs d1 vs1,
  di_dyndep di e = Some dd -> d_pending d dd = true ->
  visit dd (d, vs) = DOk (d1, vs1) ->
  match g_producer (d_g d1) dd with None => true | Some pe => es_ready (st_edge (d_s d1) pe) end = true ->
  dyndep_step di visit e false (d, vs)
  = match load_dyndeps di dd d1 with
    | DOk d2 => DOk (d2, vs1) | DCycle c => DCycle c | DLoadErr e' => DLoadErr e'
    | DOutOfFuel => DOutOfFuel | DDyn err => DDyn err end.
Proof.
  intros di visit e dd d vs d1 vs1 Hb Hp Hv Hr.
  unfold dyndep_step. rewrite Hb. cbn [fst]. rewrite Hp, Hv, Hr. reflexivity.
Qed.

Lemma update_edges_pending : forall di dd entries oes d used d' used',
  update_edges di dd entries oes d used = DOk (d', used') -> d_pending d' = d_pending d.
Proof.
  intros di dd entries. induction oes as [|e oes IH]; intros d used d' used' H.
  - cbn [update_edges] in H. inversion H. reflexivity.
  - cbn [update_edges] in H.
    destruct (negb (opt_is (di_dyndep di e) dd)); [apply (IH _ _ _ _ H)|].
    destruct (find_entry e entries) as [en|]; [|discriminate].
    destruct (update_edge d en) as [d1|c|e'| |err] eqn:Hu; try discriminate.
    rewrite (IH _ _ _ _ H).
    unfold update_edge in Hu.
    destruct (set_in_edges (de_edge en) (de_outs en) _) as [g2|c|e'| |err]; try discriminate.
    inversion Hu. reflexivity.
Qed.

Theorem load_dyndeps_clears_pending : forall di dd d d',
  load_dyndeps di dd d = DOk d' ->
  d_pending d' dd = false /\ forall n, n <> dd -> d_pending d' n = d_pending d n.
Proof.
  intros di dd d d' H. unfold load_dyndeps in H.
  destruct (di_file di dd) as [| |entries]; try discriminate.
  destruct (update_edges di dd entries (di_outedges di dd) _ []) as [[d1 used]|c|e'| |err] eqn:Hu; try discriminate.
  destruct (find _ entries); [discriminate|]. inversion H. subst d'.
  rewrite (update_edges_pending _ _ _ _ _ _ _ _ Hu). cbn [d_pending]. split.
  - rewrite Nat.eqb_refl. reflexivity.
  - intros n Hn. destruct (Nat.eqb n dd) eqn:E; [apply Nat.eqb_eq in E; contradiction|reflexivity].
Qed.

(* ------------------------------------------------------------------ concrete graphs *)
Local Close Scope Z_scope.
Definition tbl {A : Type} (d : A) (l : list (nat * A)) (k : nat) : A :=
  match find (fun x => Nat.eqb (fst x) k) l with Some x => snd x | None => d end.
Definition mk_edge (ins : list node) (noo : nat) (outs : list node) : edge_info :=
  mkEdge ins 0 noo outs [] false false false DepsNone 0%N.
Definition zt (l : list (nat * nat)) (k : nat) : Z := Z.of_nat (tbl 0 l k).
Definition bt (l : list (nat * nat)) (k : nat) : option (N * Z) :=
  match find (fun x => Nat.eqb (fst x) k) l with Some x => Some (0%N, Z.of_nat (snd x)) | None => None end.
Definition dummy_edge : edge_info := mk_edge [] 0 [].

(* --- the pending case, whole scan.  nodes 0=src 1=dd 2=in 3=out ; e0: dd <- src ; e1: out <- in || dd, dyndep = dd.
   dd is older than src, so e0 is dirty: e1 stays pending, is not ready, nothing is loaded (its inputs and outputs
   are the manifest's, node 9 -- the output the file would add -- has no producer). *)
Module Pending.
Definition g : graph := mkGraph 2 (tbl dummy_edge [(0, mk_edge [0] 0 [1]); (1, mk_edge [2; 1] 1 [3])])
                                (tbl None [(1, Some 0); (3, Some 1)]) (fun _ => false).
Definition di : dyn_info := mkDI (tbl None [(1, Some 1)]) (tbl [] [(1, [1])])
                                 (tbl DdMissing [(1, DdParsed [mkDE 1 [9] [0] true])]).
Definition w : world := mkWorld (zt [(0, 5); (1, 2); (2, 1); (3, 7)]) (bt [(1, 2); (3, 7)]) (fun _ => None) (fun _ => DfMissing).
Definition summary (r : scan_dyn_result) :=
  match r with
  | SdOk d p => Some (d_pending d 1, es_ready (st_edge (d_s d) 1), es_ins (st_edge (d_s d) 1),
                      ei_outs (g_edge (d_g d) 1), ei_restat (g_edge (d_g d) 1), g_producer (d_g d) 9,
                      ns_dirty (st_node (d_s d) 3), p_want p 0, p_want p 1)
  | _ => None
  end.
Lemma pending_scan :
  summary (scan_dyn di g w [3])
  = Some (true, false, [2; 1], [3], false, None, false, Some WantToStart, Some WantNothing).
Proof. vm_compute. reflexivity. Qed.
(* the same with a clean producer (dd newer than src): loaded during the scan *)
Definition w2 : world := mkWorld (zt [(0, 1); (1, 2); (2, 1); (3, 7)]) (bt [(1, 2); (3, 7)]) (fun _ => None) (fun _ => DfMissing).
Lemma loaded_scan :
  summary (scan_dyn di g w2 [3])
  = Some (false, false, [2; 0; 1], [3; 9], true, Some 1, true, None, Some WantToStart).
Proof. vm_compute. reflexivity. Qed.
End Pending.

(* ------------------------------------------------------------------ (b) C11 at scan level *)
Fixpoint nodupb (l : list nat) : bool :=
  match l with [] => true | x :: l' => negb (mem_node x l') && nodupb l' end.

(* every dyndep file is a source that exists, parses, mentions exactly the statements bound to it (each once, each
   an out edge, the file being one of the statement's inputs), and the discovered outputs are new and distinct:
   a load can only succeed. *)
Definition dd_ok (di : dyn_info) (g : graph) (w : world) : bool :=
  let files := dd_files di (g_nedges g) in
  let all_entries := flat_map (fun dd => match di_file di dd with DdParsed l => l | _ => [] end) files in
  forallb (fun dd =>
    match g_producer g dd with None => true | Some _ => false end
    && negb (Z.eqb (w_mtime w dd) 0%Z)
    && match di_file di dd with
       | DdParsed ents =>
         nodupb (map de_edge ents)
         && forallb (fun en => opt_is (di_dyndep di (de_edge en)) dd && Nat.ltb (de_edge en) (g_nedges g)) ents
         && forallb (fun e => negb (opt_is (di_dyndep di e) dd)
                              || (mem_node e (map de_edge ents) && mem_node e (di_outedges di dd)
                                  && mem_node dd (ei_ins (g_edge g e))))
                    (seq 0 (g_nedges g))
       | _ => false
       end) files
  && nodupb (flat_map de_outs all_entries)
  && forallb (fun o => match g_producer g o with None => true | Some _ => false end) (flat_map de_outs all_entries).

(* the full statement: with dyndep files that are present sources and load without error, the scan gives the
   verdicts (dirty flags, readiness, want map, counters, error) of the scan of the inlined manifest *)
Definition C11_scan_inline_full : Prop := forall di g w targets nn,
  dd_ok di g w = true ->
  verdict_of_scan_dyn nn (scan_dyn di g w targets) = verdict_of_scan nn (inline di g) (scan (inline di g) w targets).

(* Witness 1 (no cycle involved).  nodes 0=y 1=c 2=bout 3=dd 4=top 5=src ;
     e0: c <- y ; e1: bout <- src || dd, dyndep = dd ; e2: top <- c bout ; dd says: e1 also produces y.
   bout is older than src (e1 dirty), everything else is up to date.  The scan of `top` visits c first: y is a plain
   source then, c is found CLEAN and READY and is finished; only afterwards e1 is entered, dd is loaded and y
   becomes a (dirty) output of e1.  c is never looked at again.  With the information in the manifest, c is dirty
   and wanted. *)
Module Stale.
Definition g : graph := mkGraph 3 (tbl dummy_edge [(0, mk_edge [0] 0 [1]); (1, mk_edge [5; 3] 1 [2]); (2, mk_edge [1; 2] 0 [4])])
                                (tbl None [(1, Some 0); (2, Some 1); (4, Some 2)]) (fun _ => false).
Definition di : dyn_info := mkDI (tbl None [(1, Some 3)]) (tbl [] [(3, [1])])
                                 (tbl DdMissing [(3, DdParsed [mkDE 1 [0] [] false])]).
Definition w : world := mkWorld (zt [(0, 1); (1, 2); (2, 3); (3, 1); (4, 6); (5, 5)]) (bt [(0, 1); (1, 2); (2, 3); (4, 6)])
                                (fun _ => None) (fun _ => DfMissing).
Lemma ok : dd_ok di g w = true. Proof. vm_compute. reflexivity. Qed.
Lemma dyn_verdict : verdict_of_scan_dyn 6 (scan_dyn di g w [4])
  = VOk [true; false; true; false; true; false]
        [(true, None); (false, Some WantToStart); (false, Some WantToStart)] 2 2.
Proof. vm_compute. reflexivity. Qed.
Lemma inline_verdict : verdict_of_scan 6 (inline di g) (scan (inline di g) w [4])
  = VOk [true; true; true; false; true; false]
        [(false, Some WantToStart); (false, Some WantToStart); (false, Some WantToStart)] 3 3.
Proof. vm_compute. reflexivity. Qed.
End Stale.

Theorem C11_scan_inline_refuted : ~ C11_scan_inline_full.
Proof.
  intros H. specialize (H Stale.di Stale.g Stale.w [4] 6 Stale.ok).
  rewrite Stale.dyn_verdict, Stale.inline_verdict in H. discriminate H.
Qed.

(* Witness 2 (the "dyndep-output-cycle-not-named" face).  nodes 0=s 1=a 2=b 3=dd 4=top ;
     e0: a <- s ; e1: b <- a || dd, dyndep = dd ; e2: top <- a b ; dd says: e1 also produces s.
   Inlined: a -> s -> (e1) -> a is a cycle and the scan says so.  With the file: a is scanned (s a plain source)
   and finished before e1 is entered and the file loaded; no cycle is ever reported, the scan succeeds. *)
Module Cyc.
Definition g : graph := mkGraph 3 (tbl dummy_edge [(0, mk_edge [0] 0 [1]); (1, mk_edge [1; 3] 1 [2]); (2, mk_edge [1; 2] 0 [4])])
                                (tbl None [(1, Some 0); (2, Some 1); (4, Some 2)]) (fun _ => false).
Definition di : dyn_info := mkDI (tbl None [(1, Some 3)]) (tbl [] [(3, [1])])
                                 (tbl DdMissing [(3, DdParsed [mkDE 1 [0] [] false])]).
Definition w : world := mkWorld (zt [(0, 1); (3, 1)]) (fun _ => None) (fun _ => None) (fun _ => DfMissing).
Lemma ok : dd_ok di g w = true. Proof. vm_compute. reflexivity. Qed.
Lemma dyn_ok : match scan_dyn di g w [4] with SdOk _ _ => true | _ => false end = true.
Proof. vm_compute. reflexivity. Qed.
Lemma inline_cycle : scan (inline di g) w [4] = ScanCycle [1; 0; 1].
Proof. vm_compute. reflexivity. Qed.
End Cyc.

Definition C17_scan_dyn_cycle_full : Prop := forall di g w targets c,
  dd_ok di g w = true ->
  scan (inline di g) w targets = ScanCycle c -> exists c', scan_dyn di g w targets = SdCycle c'.

Theorem C17_scan_dyn_cycle_refuted : ~ C17_scan_dyn_cycle_full.
Proof.
  intros H. destruct (H Cyc.di Cyc.g Cyc.w [4] _ Cyc.ok Cyc.inline_cycle) as [c' Hc].
  pose proof Cyc.dyn_ok as Hok. rewrite Hc in Hok. discriminate Hok.
Qed.

(* (b), partial: the equality does hold on concrete graphs where the bound statement is entered before anything
   that reads the discovered output; the general positive statement (e.g. "no discovered output is a node of the
   manifest graph") is NOT proved here. *)
Module Agree.
(* nodes 0=src 1=dd 2=out 3=extra-in 4=extra-out ; e0: out <- src || dd, dyndep = dd ; dd: e0 | 4 : dyndep | 3, restat *)
Definition g : graph := mkGraph 1 (tbl dummy_edge [(0, mk_edge [0; 1] 1 [2])]) (tbl None [(2, Some 0)]) (fun _ => false).
Definition di : dyn_info := mkDI (tbl None [(0, Some 1)]) (tbl [] [(1, [0])])
                                 (tbl DdMissing [(1, DdParsed [mkDE 0 [4] [3] true])]).
Definition w : world := mkWorld (zt [(0, 1); (1, 1); (2, 5); (3, 9); (4, 5)]) (bt [(2, 5); (4, 5)]) (fun _ => None) (fun _ => DfMissing).
Lemma ok : dd_ok di g w = true. Proof. vm_compute. reflexivity. Qed.
Lemma agree : verdict_of_scan_dyn 5 (scan_dyn di g w [2]) = verdict_of_scan 5 (inline di g) (scan (inline di g) w [2]).
Proof. vm_compute. reflexivity. Qed.
Lemma agree_nontrivial : verdict_of_scan_dyn 5 (scan_dyn di g w [2])
  = VOk [false; false; true; false; true] [(false, Some WantToStart)] 1 1.
Proof. vm_compute. reflexivity. Qed.
End Agree.

(* without dyndep bindings cycle detection is ScanProofs' (C17 transfers) *)
Lemma scan_dyn_cycle_conservative : forall di g w targets c,
  (forall e, di_dyndep di e = None) ->
  scan g w targets = ScanCycle c -> scan_dyn di g w targets = SdCycle c.
Proof.
  intros di g w targets c Hn Hc. rewrite (scan_dyn_conservative di g w targets Hn), Hc. reflexivity.
Qed.
