(* The faithful build loop of HistFaithful.v (Plan::CleanNode + the restat loop of
   Builder::FinishCommand) for the recorded-deps model HistDepsDefs.v: [dbuild_f] next to
   [dbuild].  ONLY definitions and vm_compute Examples; HistDepsDefs.v / HistDepsProofs.v are
   untouched and no theorem about [dbuild_f] is claimed here (HistFaithfulProofs covers fragment AB).

   Nothing new is needed: [HistFaithful.clean_node] already works on what the scan left in memory --
   [es_ins] (the manifest inputs PLUS the recorded deps iff the scan spliced them in; CleanNode's
   out_edges() and "non-order-only inputs" are taken from there) and [es_deps_missing] ("Don't
   attempt to clean an edge if it failed to load deps") -- and RecomputeOutputsDirty is
   RecomputeOutputsDirtyCache::all, which never looks at the deps log.  So [dirty_now_d]'s detour
   through [graph_now] disappears.  One command is [HistDepsDefs.drun_edge]; the build log the
   cascade consults is that of [world_of_d]. *)
From NinjaV Require Import Engine.CrashDefs.
From NinjaV Require Import Base.Bytes Engine.ScanDefs Engine.ScanSpec Engine.HistDefs Engine.HistFaithful Engine.HistDepsDefs.
Local Open Scope Z_scope.

Section ModelDF.
Variable cmd : edge -> N -> snapshot -> node -> content.
Variable g : graph.
Variable hid : edge -> list node.

Definition dbuild_step_f (fs : option (dstate * cst)) (e : edge) : option (dstate * cst) :=
  match fs with
  | None => None
  | Some (ds, x) =>
    if dirty_now_f x e && negb (ei_phony (g_edge g e)) then
      let ds' := drun_edge cmd g hid ds e in
      match restat_clean (graph_of g (d_h ds')) (world_of_d ds') e (mkC (c_s x) (unwant (c_want x) e)) with
      | Some x' => Some (ds', x')
      | None => None
      end
    else Some (ds, x)
  end.

Definition dbuild_upto_f (s : sstate) (p : plan) (k : nat) (ds : dstate) : option (dstate * cst) :=
  fold_left dbuild_step_f (seq 0 k) (Some (ds, init_cst s p)).

Definition dbuild_f (ds : dstate) (targets : list node) : option dstate :=
  match dscan g ds targets with
  | ScanOk s p =>
    match dbuild_upto_f s p (g_nedges g) ds with
    | Some (ds', _) => Some ds'
    | None => None
    end
  | _ => None
  end.

Definition dapply_step_f (ds : dstate) (x : hstep) : dstate :=
  match x with
  | Build targets => match dbuild_f ds targets with Some ds' => ds' | None => ds end
  | _ => dapply_step cmd g hid ds x
  end.

Definition drun_hist_f (ds : dstate) (h : list hstep) : dstate := fold_left dapply_step_f h ds.

End ModelDF.

(* ================================================================== the second case the tie tool found *)
(*   e0  build gen : r0 src        restat = 1, deps = gcc; the command also reads h (a source header)
     e1  build out : r1 gen
   nodes: 0 src  1 h  2 gen  3 out.  Build; remove h; build (gen changes, out follows); build again:
   h is a missing source without a rule, so [gen] is dirty in every scan; its command leaves it
   untouched now.  ninja: CleanNode(gen) prunes [out]: ONE command.  HistDepsDefs.dbuild re-scans,
   finds [gen] dirty again and re-runs [out] too: TWO. *)
Module ExDF.
Definition g : graph :=
  mkGraph 2
    (fun e => match e with
              | 0%nat => mkEdge [0%nat] 0 0 [2%nat] [] false true false DepsLog 100
              | 1%nat => mkEdge [2%nat] 0 0 [3%nat] [] false false false DepsNone 101
              | _ => Ex.dummy
              end)
    (fun n => match n with 2%nat => Some 0%nat | 3%nat => Some 1%nat | _ => None end)
    (fun n => match n with 1%nat => true | _ => false end).
Definition hid (e : edge) : list node := match e with 0%nat => [1%nat] | _ => [] end.

Definition pre : list hstep := [Edit 0 1; Edit 1 2; Build [3%nat]; Delete 1; Build [3%nat]].
Definition ds2 := drun_hist Ex.cmd g hid (init_dstate g) pre.
Definition ds2f := drun_hist_f Ex.cmd g hid (init_dstate g) pre.

Example faithful_prunes_below_missing_dep :
  frag_ABD g hid = true /\
  (* up to here the two loops agree: gen out | gen out *)
  h_trace (d_h ds2) = [1; 0; 1; 0]%nat /\ h_trace (d_h ds2f) = [1; 0; 1; 0]%nat /\
  (* the third build, most recent first *)
  h_trace (d_h (dapply_step Ex.cmd g hid ds2 (Build [3%nat]))) = [1; 0; 1; 0; 1; 0]%nat /\
  h_trace (d_h (dapply_step_f Ex.cmd g hid ds2f (Build [3%nat]))) = [0; 1; 0; 1; 0]%nat /\
  map (content_of (d_h (dapply_step Ex.cmd g hid ds2 (Build [3%nat])))) [0; 1; 2; 3]%nat
  = map (content_of (d_h (dapply_step_f Ex.cmd g hid ds2f (Build [3%nat])))) [0; 1; 2; 3]%nat.
Proof. vm_compute. repeat split; reflexivity. Qed.

(* on the project of HistDepsDefs.ExD the two loops do the same *)
Example same_on_ExD :
  h_trace (d_h (drun_hist_f ExD.cmd ExD.g ExD.hid ExD.ds0 ExD.hist)) =
  h_trace (d_h (drun_hist ExD.cmd ExD.g ExD.hid ExD.ds0 ExD.hist)) /\
  ExD.contents (drun_hist_f ExD.cmd ExD.g ExD.hid ExD.ds0 ExD.hist) =
  ExD.contents (drun_hist ExD.cmd ExD.g ExD.hid ExD.ds0 ExD.hist).
Proof. vm_compute. split; reflexivity. Qed.
End ExDF.
