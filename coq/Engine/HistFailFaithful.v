(* The FAITHFUL build loop of HistFaithful.v (want map + Plan::CleanNode after restat commands
   instead of HistDefs.dirty_now's re-scan) for the invocations of HistFailDefs.v (a command
   fails) and HistCrashDefs.v (ninja is killed / interrupted): [buildF_full_f], [buildF_f],
   [buildK_full_f], [buildK_f], [buildI_full_f], [buildI_f] next to the functions without _f, and
   the histories [run_fhist_f], [run_khist_f].  ONLY definitions and vm_compute Examples; the
   theorems (where the two coincide) are in HistFailFaithfulProofs.v.  HistFailDefs.v /
   HistCrashDefs.v are untouched; states, steps, faults, crash points are theirs.

   What the code does with the plan when a command does not succeed (build.cc):
   * Builder::FinishCommand returns right after plan_.EdgeFinished(edge, Plan::kEdgeFailed) for a
     failed command: NO restat loop, hence no CleanNode; Plan::EdgeFinished returns before
     "want_.erase(e)" ("The rest of this function only applies to successful commands"): the want
     entry of the failed statement stays kWantToStart and no dependent is touched.  With -k 1
     Builder::Build starts nothing afterwards, so the plan is not consulted again.
   * a kill ends the process; an interrupt makes Builder::Build call Cleanup() and return: the plan
     is not consulted again either.
   So the faithful versions differ from the originals only in the prefix that ran BEFORE the
   failing / killed / interrupted statement, and in the test whether that statement is started:
   [HistFaithful.build_step_f] and [dirty_now_f] (is it still wanted when its turn comes) instead of
   [HistDefs.build_step] and [dirty_now].  The result types are those of the originals (the cst
   is dropped at the end), None = ninja refuses (or, unreachable on acyclic graphs, CleanNode ran out
   of fuel). *)
From NinjaV Require Import Engine.CrashDefs.
From NinjaV Require Import Base.Bytes Engine.ScanDefs Engine.ScanSpec Engine.HistDefs Engine.HistFaithful Engine.HistFailDefs Engine.HistCrashDefs.
Local Open Scope Z_scope.

Section ModelFF.
Variable cmd : edge -> N -> snapshot -> node -> content.
Variable g : graph.

(* ------------------------------------------------------------------ a command fails: -j1 -k1 *)
(* the loop state of HistFailDefs.facc with the plan/node state next to the semantic state *)
Definition faccf := (hstate * cst * option (edge * fail_kind * hstate))%type.

Definition build_stepF_f (fs : faults) (acc : option faccf) (e : edge) : option faccf :=
  match acc with
  | None => None
  | Some (_, _, Some _) => acc                (* failures_allowed = 0: nothing is started *)
  | Some (st, x, None) =>
    if dirty_now_f x e && negb (ei_phony (g_edge g e)) then
      match fault_of fs e with
      | Some k => Some (fail_edge g st e k, x, Some (e, k, st))   (* EdgeFinished(kEdgeFailed): want_ as it is *)
      | None =>
        match build_step_f cmd g (Some (st, x)) e with
        | Some (st', x') => Some (st', x', None)
        | None => None
        end
      end
    else acc
  end.

Definition build_uptoF_f (fs : faults) (s : sstate) (p : plan) (k : nat) (st : hstate) : option faccf :=
  fold_left (build_stepF_f fs) (seq 0 k) (Some (st, init_cst s p, None)).

Definition buildF_full_f (st : hstate) (targets : list node) (fs : faults) : option facc :=
  match scan (graph_of g st) (world_of st) targets with
  | ScanOk s p =>
    match build_uptoF_f fs s p (g_nedges g) st with
    | Some (st', _, r) => Some (st', r)
    | None => None
    end
  | _ => None
  end.

Definition buildF_f (st : hstate) (targets : list node) (fs : faults) : option (hstate * bool) :=
  match buildF_full_f st targets fs with
  | Some (st', r) => Some (st', is_some r)
  | None => None
  end.

Definition apply_fstep_f (st : hstate) (s : fstep) : hstate :=
  match s with
  | Plain s => apply_step_f cmd g st s
  | BuildF targets fs => match buildF_f st targets fs with Some (st', _) => st' | None => st end
  end.

Definition run_fhist_f (st : hstate) (h : list fstep) : hstate := fold_left apply_fstep_f h st.

(* ------------------------------------------------------------------ ninja is killed *)
(* statement e is started when its turn comes: it is still wanted, and real *)
Definition starts_f (x : cst) (e : edge) : bool := dirty_now_f x e && negb (ei_phony (g_edge g e)).

Definition buildK_at_f (s : sstate) (p : plan) (st : hstate) (cp : crash_point) : option kacc :=
  let e := cp_pos cp in
  if Nat.ltb e (g_nedges g) then
    match build_upto_f cmd g s p e st with
    | Some (stk, x) =>
      if starts_f x e then Some (kill_edge cmd g stk e (cp_at cp), Some (e, cp_at cp, stk))
      else Some (stk, None)
    | None => None
    end
  else
    match build_upto_f cmd g s p (g_nedges g) st with
    | Some (st', _) => Some (st', None)
    | None => None
    end.

Definition buildK_full_f (st : hstate) (targets : list node) (cp : crash_point) : option kacc :=
  match scan (graph_of g st) (world_of st) targets with
  | ScanOk s p => buildK_at_f s p st cp
  | _ => None
  end.

Definition buildK_f (st : hstate) (targets : list node) (cp : crash_point) : option hstate :=
  match buildK_full_f st targets cp with Some (st', _) => Some st' | None => None end.

(* ------------------------------------------------------------------ ninja is interrupted *)
Definition buildI_at_f (s : sstate) (p : plan) (st : hstate) (ip : intr_point) : option iacc :=
  let e := ip_pos ip in
  let whole := match build_upto_f cmd g s p (g_nedges g) st with
               | Some (st', _) => Some (st', None)
               | None => None
               end in
  if Nat.ltb e (g_nedges g) then
    match build_upto_f cmd g s p e st with
    | Some (stk, x) =>
      if starts_f x e then Some (intr_edge g st stk e (ip_k ip) (ip_f ip), Some (e, stk))
      else whole                       (* nobody waits in ppoll at that position *)
    | None => None
    end
  else whole.

Definition buildI_full_f (st : hstate) (targets : list node) (ip : intr_point) : option iacc :=
  match scan (graph_of g st) (world_of st) targets with
  | ScanOk s p => buildI_at_f s p st ip
  | _ => None
  end.

Definition buildI_f (st : hstate) (targets : list node) (ip : intr_point) : option (hstate * N) :=
  match buildI_full_f st targets ip with
  | Some (st', Some _) => Some (st', exit_interrupted)
  | Some (st', None) => Some (st', exit_success)
  | None => None
  end.

Definition apply_kstep_f (st : hstate) (s : kstep) : hstate :=
  match s with
  | KStep s => apply_fstep_f st s
  | BuildK targets cp => match buildK_f st targets cp with Some st' => st' | None => st end
  | BuildI targets ip => match buildI_f st targets ip with Some (st', _) => st' | None => st end
  end.

Definition run_khist_f (st : hstate) (h : list kstep) : hstate := fold_left apply_kstep_f h st.

End ModelFF.

(* ================================================================== the example projects of
   HistFailDefs / HistCrashDefs (no input-less phony statement): the faithful and the original
   loops do the same *)
Module ExFF.

Example same_on_ExFail :
  run_fhist_f Ex.cmd ExFail.g (init_hstate ExFail.g) ExFail.hist5 = ExFail.st5 /\
  h_trace (run_fhist_f Ex.cmd ExFail.g (init_hstate ExFail.g) (ExFail.hist_with FailUntouched)) = [0; 0; 0]%nat /\
  h_trace (run_fhist_f Ex.cmd ExFail.g (init_hstate ExFail.g) ExFail.hist_edit) = [0; 0; 0]%nat /\
  buildF_full_f Ex.cmd ExFail.g ExFail.st3 [1%nat] [(0%nat, FailWrote ExFail.garbage)] =
  buildF_full Ex.cmd ExFail.g ExFail.st3 [1%nat] [(0%nat, FailWrote ExFail.garbage)].
Proof. vm_compute. repeat split; reflexivity. Qed.

(* HistDefs.Ex: the compile of x.o fails after the restat statement e0 pruned nothing *)
Example same_on_ExF :
  run_fhist_f Ex.cmd Ex.g Ex.st0 ExF.hist7 = ExF.st7 /\
  apply_fstep_f Ex.cmd Ex.g ExF.st7 (Plain (Build [5%nat])) = ExF.st8 /\
  buildF_f Ex.cmd Ex.g (run_fhist Ex.cmd Ex.g Ex.st0 (map Plain Ex.hist5 ++ [Plain (Edit 1 21)]))
           [5%nat] [(2%nat, FailDeleted); (1%nat, FailUntouched)] =
  buildF Ex.cmd Ex.g (run_fhist Ex.cmd Ex.g Ex.st0 (map Plain Ex.hist5 ++ [Plain (Edit 1 21)]))
         [5%nat] [(2%nat, FailDeleted); (1%nat, FailUntouched)].
Proof. vm_compute. repeat split; reflexivity. Qed.

(* HistCrashDefs.ExK (a restat statement, a two-output statement): every kill / interrupt of the
   examples there, and the recoveries, with the faithful loop *)
Example same_on_ExK :
  run_khist_f ExK.cmd ExK.g ExK.st0 ExK.pre = ExK.st4 /\
  apply_kstep_f ExK.cmd ExK.g ExK.st4 (BuildK ExK.T ExK.cp1) = ExK.k1 /\
  apply_kstep_f ExK.cmd ExK.g ExK.k1 (KStep (Plain (Build ExK.T))) = ExK.r1 /\
  apply_kstep_f ExK.cmd ExK.g ExK.st4 (BuildK ExK.T ExK.cp2) = ExK.k2 /\
  apply_kstep_f ExK.cmd ExK.g ExK.k2 (KStep (Plain (Build ExK.T))) = ExK.r2 /\
  apply_kstep_f ExK.cmd ExK.g ExK.k2 (BuildK ExK.T (mkCP 1 (KWrote 2 ExK.garbage))) = ExK.k2b /\
  apply_kstep_f ExK.cmd ExK.g ExK.k2b (KStep (Plain (Build ExK.T))) = ExK.r2b /\
  apply_kstep_f ExK.cmd ExK.g ExK.st5 (BuildK ExK.T ExK.cp3) = ExK.k3 /\
  (* kill 3 recovered: the restat statement runs again, leaves gen.h alone, CleanNode prunes the rest *)
  apply_kstep_f ExK.cmd ExK.g ExK.k3 (KStep (Plain (Build ExK.T))) = ExK.r3 /\
  apply_kstep_f ExK.cmd ExK.g ExK.st4 (BuildI ExK.T ExK.ip1) = ExK.i1 /\
  apply_kstep_f ExK.cmd ExK.g ExK.i1 (KStep (Plain (Build ExK.T))) = ExK.ri1 /\
  buildI_f ExK.cmd ExK.g ExK.st4 ExK.T (mkIP 0 1 ExK.garbage) = buildI ExK.cmd ExK.g ExK.st4 ExK.T (mkIP 0 1 ExK.garbage) /\
  buildK_full_f ExK.cmd ExK.g ExK.st4 ExK.T (mkCP 4 KBefore) = buildK_full ExK.cmd ExK.g ExK.st4 ExK.T (mkCP 4 KBefore).
Proof. vm_compute. repeat split; reflexivity. Qed.

Example same_on_ExKill :
  run_khist_f Ex.cmd ExKill.g (init_hstate ExKill.g) ExKill.hist4 = ExKill.st4 /\
  run_khist_f Ex.cmd ExKill.g (init_hstate ExKill.g) ExKill.hist_edit =
  run_khist Ex.cmd ExKill.g (init_hstate ExKill.g) ExKill.hist_edit /\
  run_khist_f Ex.cmd ExKill.g (init_hstate ExKill.g) ExKill.hist4i =
  run_khist Ex.cmd ExKill.g (init_hstate ExKill.g) ExKill.hist4i.
Proof. vm_compute. repeat split; reflexivity. Qed.

End ExFF.

(* ================================================================== with an input-less phony
   statement the loops differ: HistFaithful.ExF
     e0  build always : phony          e1  build gen : r1 always src   (restat)
     e2  build out    : r2 gen         nodes: 0 src  1 always  2 gen  3 out
   after a first build [gen] is dirty in every scan, and its command leaves it untouched.
   ninja: CleanNode(gen) prunes [out].  HistDefs' loops re-scan and find [out] dirty again. *)
Module ExFFdiff.
Definition g := HistFaithful.ExF.g.
Definition st1 := HistFaithful.ExF.st1.
Definition T : list node := [3%nat].
Definition garbage : node -> content := fun _ => 999%N.

Example premises : frag_AB g && topo_ordered g = true /\ no_inputless_phony g = false /\ st1 = HistFaithful.ExF.st1f.
Proof. vm_compute. repeat split; reflexivity. Qed.

(* a fault on [out]: the original loop starts out and fails; ninja never starts it: exit status 0 *)
Example fault_not_reached :
  (match buildF Ex.cmd g st1 T [(2%nat, FailUntouched)] with
   | Some (st', failed) => failed = true /\ trace_delta st1 st' = [2; 1]%nat | None => False end) /\
  (match buildF_f Ex.cmd g st1 T [(2%nat, FailUntouched)] with
   | Some (st', failed) => failed = false /\ trace_delta st1 st' = [1%nat] | None => False end).
Proof. vm_compute. repeat split; reflexivity. Qed.

(* a kill / an interrupt at [out]: the original loop is in the middle of out's command; for ninja
   the position lies between two statements (kill) / nobody waits there (interrupt) *)
Example kill_not_reached :
  (match buildK_full Ex.cmd g st1 T (mkCP 2 (KWrote 1 garbage)) with
   | Some (st', r) => is_some r = true /\ content_of st' 3%nat = Some 999%N | None => False end) /\
  (match buildK_full_f Ex.cmd g st1 T (mkCP 2 (KWrote 1 garbage)) with
   | Some (st', r) => is_some r = false /\ content_of st' 3%nat = content_of st1 3%nat /\
                      trace_delta st1 st' = [1%nat] | None => False end) /\
  (match buildI Ex.cmd g st1 T (mkIP 2 1 garbage), buildI_f Ex.cmd g st1 T (mkIP 2 1 garbage) with
   | Some (st', c), Some (st'', c') => c = exit_interrupted /\ content_of st' 3%nat = None /\
                                       c' = exit_success /\ content_of st'' 3%nat = content_of st1 3%nat
   | _, _ => False end).
Proof. vm_compute. repeat split; reflexivity. Qed.
End ExFFdiff.
