(* Proofs about the faithful loops with failing commands, kills and interrupts
   (HistFailFaithful.v).  No axioms.
   Part G (module GF): the development of HistFaithfulProofs.v, Section Faith (Plan::CleanNode keeps
           the invariant that ties flags and want map to the disk; with no input-less phony
           statement the faithful loop takes the decisions of HistDefs.build), redone under the
           WEAKER state invariant [HistFailDefs.GoodF] -- the invariant of all histories with
           failures, kills and interrupts; an output written by a failed / killed command
           ("tainted") need not have a log entry and its content is arbitrary.  The proof scripts
           are those of HistFaithfulProofs.v except: Good -> GoodF, good_run -> goodF_run,
           HistMinimal.reeval_accepts / inputs_clean -> [reeval_acceptsF] / [inputs_cleanF] (over
           HistFailProofs.build_inv1F, HistCrashProofs.build_inv_c02F), and one new case in
           [decision]: a wanted statement with a dirty input whose output is on disk WITHOUT a log
           entry (impossible under Good) is dirty because that output is older than the input.
           Result: [GF.build_upto_f_eq], the prefix theorem.
   Part B: [build_f_eq_buildF], [buildF_full_f_eq], [buildK_full_f_eq], [buildI_full_f_eq], the
           histories [run_fhist_f_eq], [run_khist_f_eq], and the theorems of HistFailProofs /
           HistCrashProofs carried over to the faithful loops. *)
From NinjaV Require Import Engine.CrashDefs.
From NinjaV Require Import Base.Bytes Engine.ScanDefs Engine.ScanSpec Engine.ScanProofs Engine.HistDefs Engine.HistProofs Engine.HistRun Engine.HistMinimal Engine.HistFaithful Engine.HistFaithfulProofs Engine.HistFailDefs Engine.HistFailProofs Engine.HistCrashDefs Engine.HistCrashProofs Engine.HistFailFaithful.
Local Open Scope Z_scope.

Lemma mtime_leF (st : hstate) (n : node) :
  0 <= h_clock st -> (forall n m c, h_disk st n = Some (m, c) -> 0 < m <= h_clock st) ->
  0 <= mtime_of st n <= h_clock st.
Proof.
  intros A B. unfold mtime_of. destruct (h_disk st n) as [[m c]|] eqn:Hd; [|lia].
  specialize (B n m c Hd). lia.
Qed.

(* ================================================================== Part G *)
Module GF.
Section Faith.
Variable cmd : edge -> N -> snapshot -> node -> content.
Variable g : graph.
Hypothesis Hwf : wf_spec g.
Hypothesis Hwg : wf_graph g.
Hypothesis Hfrag : frag_AB g = true.
Hypothesis Htopo : topo_ordered g = true.

Notation G st := (graph_of g st).
Notation W st := (world_of st).
Notation outs e := (ei_outs (g_edge g e)).
Notation phony e := (ei_phony (g_edge g e)).
Notation nd s n := (st_node s n).
Notation Fl x n := (ns_dirty (st_node (c_s x) n)).

Lemma Gwf0 st : wf_spec (G st).
Proof. exact Hwf. Qed.
Lemma Gwg0 st : wf_graph (G st).
Proof. exact Hwg. Qed.
Lemma Gfrag0 st : frag_AB (G st) = true.
Proof. exact Hfrag. Qed.

Section Build.
Variables (st0 : hstate) (T : list node) (s0 : sstate) (p0 : plan).
Hypothesis HG0 : GoodF cmd g st0.
Hypothesis Hscan : scan (G st0) (W st0) T = ScanOk s0 p0.
Notation G0 := (graph_of g st0).
Notation ndd e := (needed g T e).

(* the nodes the invariant talks about: what the targets need, and every output of a needed statement *)
Definition rel (n : node) : Prop :=
  match g_producer g n with Some e => ndd e | None => reach g T n end.

Lemma ndd_lt e : ndd e -> (e < g_nedges g)%nat.
Proof. intros [n [_ Hp]]. apply (Hwg n e Hp). Qed.

Lemma rel_out e o : ndd e -> In o (outs e) -> rel o.
Proof. intros Hn Ho. unfold rel. rewrite (o_prod g Hwf e o Ho). exact Hn. Qed.

Lemma rel_in e i : ndd e -> In i (ei_ins (g_edge g e)) -> rel i.
Proof.
  intros [n [Rn Hp]] Hi.
  assert (Ri : reach g T i).
  { apply (reach_step g (manifest_ins g) T n i Rn). exists e. split; [exact Hp|exact Hi]. }
  unfold rel. destruct (g_producer g i) as [e'|] eqn:Hpi; [exists i; split; assumption|exact Ri].
Qed.

Lemma rel_nonoo e i : ndd e -> In i (nonoo_ins g e) -> rel i.
Proof. intros Hn Hi. apply (rel_in e i Hn). apply (nonoo_in g e i Hi). Qed.

Lemma rel_final n : rel n -> node_final G0 s0 n.
Proof.
  unfold rel. intros H. destruct (g_producer g n) as [e|] eqn:Hp.
  - destruct H as [n' [Rn' Hp']].
    destruct (reach_final G0 (W st0) (Gwf0 st0) (Gwg0 st0) (Gfrag0 st0) T s0 p0 Hscan n'
                (proj2 (reach_G g st0 T n') Rn')) as [Hf _].
    unfold node_final in *. change (g_producer G0 n') with (g_producer g n') in Hf. rewrite Hp' in Hf.
    change (g_producer G0 n) with (g_producer g n). rewrite Hp. exact Hf.
  - apply (reach_final G0 (W st0) (Gwf0 st0) (Gwg0 st0) (Gfrag0 st0) T s0 p0 Hscan n
             (proj2 (reach_G g st0 T n) H)).
Qed.

Lemma rel_ok n : rel n -> node_ok G0 (W st0) s0 n.
Proof.
  intros H. destruct (accepted_facts G0 (W st0) (Gwf0 st0) (Gwg0 st0) (Gfrag0 st0) T s0 p0 Hscan) as [[S1 _] _].
  apply S1. apply rel_final. exact H.
Qed.

Lemma rel_NI n : rel n -> NIat G0 (W st0) s0 n.
Proof.
  intros H. apply (scan_NI G0 (W st0) (Gwf0 st0) (Gwg0 st0) (Gfrag0 st0) T s0 p0 Hscan). apply rel_final. exact H.
Qed.

Lemma ins0 e : es_ins (st_edge s0 e) = ei_ins (g_edge g e).
Proof. apply (scan_ins G0 (W st0) (Gwf0 st0) (Gwg0 st0) (Gfrag0 st0) T s0 p0 Hscan e). Qed.

Lemma dm0 e : es_deps_missing (st_edge s0 e) = false.
Proof. apply (scan_DM G0 (W st0) (Gwf0 st0) (Gwg0 st0) (Gfrag0 st0) T s0 p0 Hscan e). Qed.

Lemma wanted_ndd e : want_start p0 e = true -> ndd e.
Proof. intros H. apply (want_sound g Hwf Hwg Hfrag st0 T s0 p0 Hscan e H). Qed.

(* which statements still have a meaningful want flag when [k] statements have had their turn *)
Definition pend (k : nat) (e : edge) : Prop :=
  (phony e = true /\ ei_ins (g_edge g e) <> []) \/ (phony e = false /\ (k <= e)%nat).

(* the statement is dirty for a reason of its own, on the world [w] *)
Definition OWN (w : world) (e : edge) : Prop :=
  exists o, In o (outs e) /\
            out_reason G0 w (fun z => exists i, In i (nonoo_ins g e) /\ newer_than G0 w z i) e o.
Definition OWNx (w : world) (e : edge) : Prop := phony e = false /\ OWN w e.

(* the semantic state while [k] statements have had their turn *)
Record HInv (k : nat) (st : hstate) : Prop := mkHInv {
  hi_good : GoodF cmd g st;
  hi_hash : h_hash st = h_hash st0;
  hi_clock : h_clock st0 <= h_clock st;
  hi_leaf : forall n, g_producer g n = None -> h_disk st n = h_disk st0 n;
  hi_later : forall n e, g_producer g n = Some e -> (k <= e)%nat ->
                         h_disk st n = h_disk st0 n /\ h_blog st n = h_blog st0 n;
  hi_fresh : forall n, h_disk st n = h_disk st0 n \/
                       exists m c, h_disk st n = Some (m, c) /\ h_clock st0 < m
}.

(* flags, cached mtimes and want map, tied to the current disk.  [V]: statements being pruned
   right now (their outputs are being cleaned); [U]: out-edges of a node just cleaned that have not
   been looked at yet; [Q]: outputs a restat command left untouched, not cleaned yet *)
Record CInv (k : nat) (st : hstate) (x : cst) (V U : list edge) (Q : node -> Prop) : Prop := mkCInv {
  ci_E : st_edge (c_s x) = st_edge s0;
  ci_N1 : forall n, rel n -> ns_exists (nd (c_s x) n) = ex_of (mtime_of st0 n);
  ci_N2 : forall n, rel n -> (forall e, g_producer g n = Some e -> phony e = false) ->
                    ns_mtime (nd (c_s x) n) = mtime_of st0 n;
  ci_N3 : forall n e, g_producer g n = Some e -> ndd e -> phony e = true -> ~ In e V -> Fl x n = true ->
                      ns_mtime (nd (c_s x) n) = 0;
  ci_B : forall n, rel n -> Fl x n = false ->
                   forall z, z < ns_mtime (nd (c_s x) n) <-> newer_than G0 (W st) z n;
  ci_L : forall n, rel n -> g_producer g n = None -> (Fl x n = true <-> mtime_of st0 n = 0);
  ci_Wm : forall e, c_want x e = true -> want_start p0 e = true /\ (phony e = true \/ (k <= e)%nat);
  ci_IP : forall e o, ndd e -> phony e = true -> ei_ins (g_edge g e) = [] -> In o (outs e) -> Fl x o = true;
  ci_T1 : forall e o, ndd e -> pend k e -> c_want x e = false -> In o (outs e) -> Fl x o = false;
  ci_T2 : forall e o, ndd e -> pend k e -> ~ In e V -> c_want x e = true -> In o (outs e) -> Fl x o = true;
  ci_T3 : forall e, ndd e -> pend k e -> c_want x e = false ->
                    (forall i, In i (nonoo_ins g e) -> Fl x i = false) /\ ~ OWNx (W st) e;
  ci_T4 : forall e, ndd e -> pend k e -> ~ In e V -> ~ In e U -> c_want x e = true ->
                    (exists i, In i (nonoo_ins g e) /\ Fl x i = true) \/ OWNx (W st) e;
  ci_P : forall e o, ndd e -> phony e = false -> (e < k)%nat -> In o (outs e) ->
                     (Fl x o = true -> Q o \/ h_clock st0 < mtime_of st o) /\
                     (Fl x o = false -> h_disk st o = h_disk st0 o)
}.

Definition noN : node -> Prop := fun _ => False.

Lemma own_md w e : (e < g_nedges g)%nat -> OWNx w e -> exists o, In o (outs e) /\ must_dirty G0 w o.
Proof.
  intros He [Hph [o [Ho Hr]]]. exists o. split; [exact Ho|].
  apply (md_self G0 w o e o (o_prod g Hwf e o Ho) Hph Ho).
  rewrite (spec_ins_AB g Hfrag st0 w e He). exact Hr.
Qed.

Lemma md_cases w e o : (e < g_nedges g)%nat -> In o (outs e) -> must_dirty G0 w o ->
  (exists i, In i (nonoo_ins g e) /\ must_dirty G0 w i) \/
  (phony e = true /\ ei_ins (g_edge g e) = []) \/ OWNx w e.
Proof.
  intros He Ho Hmd.
  destruct (must_dirty_out_inv G0 w o e Hmd (o_prod g Hwf e o Ho))
    as [[i [Hi Hdi]]|[[Hp [Hnil _]]|[[Hp [o' [Ho' Hr]]]|Hl]]].
  - left. rewrite (spec_ins_AB g Hfrag st0 w e He) in Hi. exists i. split; assumption.
  - right; left. split; assumption.
  - right; right. split; [exact Hp|]. exists o'. split; [exact Ho'|].
    rewrite (spec_ins_AB g Hfrag st0 w e He) in Hr. exact Hr.
  - exfalso. unfold spec_load in Hl. change (ei_deps (g_edge G0 e)) with (ei_deps (g_edge g e)) in Hl.
    rewrite (edge_frag g Hfrag e He) in Hl. discriminate.
Qed.

Lemma pend_not_ip k e : pend k e -> ~ (phony e = true /\ ei_ins (g_edge g e) = []).
Proof. intros [[_ Hi]|[Hp _]] [Hp' Hnil]; [contradiction|congruence]. Qed.

Lemma unwanted_clean e : ndd e -> ~ (phony e = true /\ ei_ins (g_edge g e) = []) ->
  want_start p0 e = false -> forall o, In o (outs e) -> ~ must_dirty G0 (W st0) o.
Proof.
  intros Hn Hnip Hw o Ho Hmd.
  destruct (want_complete g Hwf Hwg Hfrag st0 T s0 p0 Hscan e Hn (ex_intro _ o (conj Ho Hmd)) Hnip) as [Hw' _].
  congruence.
Qed.

Lemma ndd_out e : ndd e -> exists n, In n (outs e) /\ g_producer g n = Some e.
Proof. intros [n [_ Hp]]. exists n. split; [apply (p_out g Hwf n e Hp)|exact Hp]. Qed.

Lemma hinv_init : HInv 0 st0.
Proof.
  constructor; try reflexivity; try lia.
  - exact HG0.
  - intros n e _ _. split; reflexivity.
  - intros n. left; reflexivity.
Qed.

Lemma cinv_init : CInv 0 st0 (init_cst s0 p0) [] [] noN.
Proof.
  destruct HG0 as [[A [B [C [D E]]]] L].
  constructor; cbn [init_cst c_s c_want].
  - reflexivity.
  - intros n Hr. apply (proj1 (rel_NI n Hr)).
  - intros n Hr Hnp. apply (proj2 (rel_NI n Hr)). right. exact Hnp.
  - intros n e Hp Hn Hph _ Hd.
    assert (Hr : rel n) by (unfold rel; rewrite Hp; exact Hn).
    rewrite (proj2 (rel_NI n Hr) (or_introl Hd)). cbn [world_of w_mtime]. unfold mtime_of.
    rewrite (D n e Hp Hph). reflexivity.
  - intros n Hr Hd. apply (proj2 (rel_ok n Hr) Hd).
  - intros n Hr Hp. rewrite (proj1 (rel_ok n Hr)). split.
    + intros Hmd. apply (must_dirty_leaf_inv G0 (W st0) n Hmd Hp).
    + intros Hz. apply md_leaf; assumption.
  - intros e Hw. split; [exact Hw|right; lia].
  - intros e o Hn Hph Hnil Ho. apply (proj1 (rel_ok o (rel_out e o Hn Ho))).
    apply (md_phony G0 (W st0) o e o (o_prod g Hwf e o Ho) Hph Hnil); [|exact Ho|].
    + apply (frag_edge g Hfrag e (ndd_lt e Hn)).
    + cbn [world_of w_mtime]. unfold mtime_of. rewrite (D o e (o_prod g Hwf e o Ho) Hph). reflexivity.
  - intros e o Hn Hpe Hw Ho. destruct (ns_dirty (nd s0 o)) eqn:Hd; [exfalso|reflexivity].
    apply (unwanted_clean e Hn (pend_not_ip 0 e Hpe) Hw o Ho). apply (proj1 (rel_ok o (rel_out e o Hn Ho))). exact Hd.
  - intros e o Hn Hpe _ Hw Ho. apply (proj1 (rel_ok o (rel_out e o Hn Ho))).
    destruct (want_sound g Hwf Hwg Hfrag st0 T s0 p0 Hscan e Hw) as [_ [o' [Ho' Hmd]]].
    apply (must_dirty_same_prod G0 (W st0) o' o e (o_prod g Hwf e o' Ho') (o_prod g Hwf e o Ho) Hmd).
  - intros e Hn Hpe Hw. pose proof (unwanted_clean e Hn (pend_not_ip 0 e Hpe) Hw) as Hc.
    destruct (ndd_out e Hn) as [n [Hno Hpn]]. split.
    + intros i Hi. destruct (ns_dirty (nd s0 i)) eqn:Hd; [exfalso|reflexivity].
      apply (Hc n Hno). apply (md_input G0 (W st0) n e i Hpn).
      * rewrite (spec_ins_AB g Hfrag st0 (W st0) e (ndd_lt e Hn)). exact Hi.
      * apply (proj1 (rel_ok i (rel_nonoo e i Hn Hi))). exact Hd.
    + intros Ho. destruct (own_md (W st0) e (ndd_lt e Hn) Ho) as [o [Hoo Hmd]]. apply (Hc o Hoo Hmd).
  - intros e Hn Hpe _ _ Hw.
    destruct (want_sound g Hwf Hwg Hfrag st0 T s0 p0 Hscan e Hw) as [_ [o [Ho Hmd]]].
    destruct (md_cases (W st0) e o (ndd_lt e Hn) Ho Hmd) as [[i [Hi Hdi]]|[Hip|Hown]].
    + left. exists i. split; [exact Hi|]. apply (proj1 (rel_ok i (rel_nonoo e i Hn Hi))). exact Hdi.
    + exfalso. apply (pend_not_ip 0 e Hpe Hip).
    + right. exact Hown.
  - intros e o _ _ He. lia.
Qed.

(* ---- one cascade: the semantic state [st] (after the command) is fixed *)
Section Cascade.
Variables (k : nat) (st : hstate).
Hypothesis HH : HInv k st.
Notation w := (world_of st).

Lemma nonoo_eq x e : st_edge (c_s x) = st_edge s0 -> cn_nonoo G0 (c_s x) e = nonoo_ins g e.
Proof. intros E. unfold cn_nonoo, nonoo_ins. rewrite E, ins0. reflexivity. Qed.

Lemma out_edges_in x e n : st_edge (c_s x) = st_edge s0 ->
  (In e (out_edges G0 (c_s x) n) <-> (e < g_nedges g)%nat /\ In n (ei_ins (g_edge g e))).
Proof.
  intros E. unfold out_edges. rewrite filter_In, in_seq, E, ins0, mem_node_In.
  change (g_nedges G0) with (g_nedges g). split; intros [A B]; (split; [lia|exact B]).
Qed.

Lemma nd_clear_other s n m : m <> n -> nd (set_dirty s n false) m = nd s m.
Proof. intros H. unfold set_dirty. apply upd_node_other. exact H. Qed.

Lemma nd_clear_same s n :
  nd (set_dirty s n false) n = mkN false (ns_mtime (nd s n)) (ns_exists (nd s n)).
Proof. unfold set_dirty. apply upd_node_same. Qed.

Lemma cinv_weaken_U x V U U' Q :
  CInv k st x V U Q ->
  (forall e, ndd e -> pend k e -> ~ In e V -> ~ In e U' -> In e U -> c_want x e = true ->
     (exists i, In i (nonoo_ins g e) /\ Fl x i = true) \/ OWNx w e) ->
  CInv k st x V U' Q.
Proof.
  intros H HU. destruct H as [cE cN1 cN2 cN3 cB cL cWm cIP cT1 cT2 cT3 cT4 cP].
  constructor; try assumption.
  intros e Hn Hpe HV HU' Hw. destruct (in_dec Nat.eq_dec e U) as [Hu|Hnu].
  - apply (HU e Hn Hpe HV HU' Hu Hw).
  - apply (cT4 e Hn Hpe HV Hnu Hw).
Qed.

Lemma cinv_weaken_V x V V' U Q : incl V V' -> CInv k st x V U Q -> CInv k st x V' U Q.
Proof.
  intros Hi H. destruct H as [cE cN1 cN2 cN3 cB cL cWm cIP cT1 cT2 cT3 cT4 cP].
  constructor; try assumption.
  - intros n e Hp Hn Hph HV. apply (cN3 n e Hp Hn Hph). intros Hin. apply HV. apply Hi. exact Hin.
  - intros e o Hn Hpe HV. apply (cT2 e o Hn Hpe). intros Hin. apply HV. apply Hi. exact Hin.
  - intros e Hn Hpe HV. apply (cT4 e Hn Hpe). intros Hin. apply HV. apply Hi. exact Hin.
Qed.

(* the first action of CleanNode: the flag of [n] goes; its out-edges have to be looked at *)
Lemma cinv_clear x V U Q n en :
  CInv k st x V U Q -> rel n -> g_producer g n = Some en ->
  (forall z, z < ns_mtime (nd (c_s x) n) <-> newer_than G0 w z n) ->
  ((Q n /\ phony en = false /\ (en < k)%nat /\ h_disk st n = h_disk st0 n) \/ (In en V /\ pend k en)) ->
  CInv k st (mkC (set_dirty (c_s x) n false) (c_want x)) V
       (U ++ out_edges G0 (set_dirty (c_s x) n false) n) (fun m => Q m /\ m <> n).
Proof.
  intros H Hrel Hp HB Hcase. destruct H as [cE cN1 cN2 cN3 cB cL cWm cIP cT1 cT2 cT3 cT4 cP].
  set (s1 := set_dirty (c_s x) n false).
  assert (Ho : forall m, m <> n -> nd s1 m = nd (c_s x) m) by (intros m Hm; apply nd_clear_other; exact Hm).
  assert (Hs : nd s1 n = mkN false (ns_mtime (nd (c_s x) n)) (ns_exists (nd (c_s x) n))) by apply nd_clear_same.
  assert (Hfl : forall m, ns_dirty (nd s1 m) = true -> m <> n /\ Fl x m = true).
  { intros m Hm. destruct (Nat.eq_dec m n) as [->|Hne]; [rewrite Hs in Hm; discriminate|].
    split; [exact Hne|]. rewrite <- (Ho m Hne). exact Hm. }
  assert (Hfl0 : forall m, Fl x m = false -> ns_dirty (nd s1 m) = false).
  { intros m Hm. destruct (Nat.eq_dec m n) as [->|Hne]; [rewrite Hs; reflexivity|rewrite (Ho m Hne); exact Hm]. }
  assert (Hnot_out : forall e, In n (outs e) -> ndd e -> pend k e -> ~ In e V -> False).
  { intros e Hin Hn Hpe HV. rewrite (o_prod g Hwf e n Hin) in Hp. inversion Hp; subst en.
    destruct Hcase as [[_ [Hph [Hlt _]]]|[Hv _]]; [|contradiction].
    destruct Hpe as [[Hph' _]|[_ Hle]]; [congruence|lia]. }
  constructor; cbn [c_s c_want]; fold s1.
  - exact cE.
  - intros m Hm. destruct (Nat.eq_dec m n) as [->|Hne]; [rewrite Hs; apply (cN1 n Hm)|rewrite (Ho m Hne); apply (cN1 m Hm)].
  - intros m Hm Hnp. destruct (Nat.eq_dec m n) as [->|Hne]; [rewrite Hs; apply (cN2 n Hm Hnp)|rewrite (Ho m Hne); apply (cN2 m Hm Hnp)].
  - intros m e Hpm Hn Hph HV Hd. destruct (Hfl m Hd) as [Hne Hd']. rewrite (Ho m Hne). apply (cN3 m e Hpm Hn Hph HV Hd').
  - intros m Hm Hd z. destruct (Nat.eq_dec m n) as [->|Hne]; [rewrite Hs; apply HB|].
    rewrite (Ho m Hne) in *. apply (cB m Hm Hd z).
  - intros m Hm Hpm. assert (Hne : m <> n) by (intros ->; congruence). rewrite (Ho m Hne). apply (cL m Hm Hpm).
  - exact cWm.
  - intros e o Hn Hph Hnil Hin. assert (Hne : o <> n).
    { intros ->. rewrite (o_prod g Hwf e n Hin) in Hp. inversion Hp; subst en.
      destruct Hcase as [[_ [Hph' _]]|[_ Hpe]]; [congruence|apply (pend_not_ip k e Hpe); split; assumption]. }
    rewrite (Ho o Hne). apply (cIP e o Hn Hph Hnil Hin).
  - intros e o Hn Hpe Hw Hin. apply Hfl0. apply (cT1 e o Hn Hpe Hw Hin).
  - intros e o Hn Hpe HV Hw Hin. assert (Hne : o <> n) by (intros ->; apply (Hnot_out e Hin Hn Hpe HV)).
    rewrite (Ho o Hne). apply (cT2 e o Hn Hpe HV Hw Hin).
  - intros e Hn Hpe Hw. destruct (cT3 e Hn Hpe Hw) as [A B]. split; [|exact B].
    intros i Hi. apply Hfl0. apply (A i Hi).
  - intros e Hn Hpe HV HU Hw.
    assert (HU1 : ~ In e U) by (intros Hin; apply HU; apply in_or_app; left; exact Hin).
    destruct (cT4 e Hn Hpe HV HU1 Hw) as [[i [Hi Hd]]|Hown]; [|right; exact Hown].
    left. exists i. split; [exact Hi|]. destruct (Nat.eq_dec i n) as [->|Hne]; [|rewrite (Ho i Hne); exact Hd].
    exfalso. apply HU. apply in_or_app. right.
    apply (out_edges_in (mkC s1 (c_want x)) e n cE). split; [apply (ndd_lt e Hn)|apply (nonoo_in g e n Hi)].
  - intros e o Hn Hph Hlt Hin. destruct (cP e o Hn Hph Hlt Hin) as [A B]. split.
    + intros Hd. destruct (Hfl o Hd) as [Hne Hd']. destruct (A Hd') as [Hq|Hf]; [left; split; assumption|right; exact Hf].
    + intros Hd. destruct (Nat.eq_dec o n) as [->|Hne]; [|rewrite (Ho o Hne) in Hd; apply (B Hd)].
      destruct Hcase as [[_ [_ [_ Hdk]]]|[Hv Hpe]]; [exact Hdk|].
      exfalso. rewrite (o_prod g Hwf e n Hin) in Hp. inversion Hp; subst en.
      destruct Hpe as [[Hph' _]|[_ Hle]]; [congruence|lia].
Qed.

(* what a cascade may change: flags and wants only go away; the nodes in [P] are not touched *)
Definition frame (P : node -> Prop) (x x' : cst) : Prop :=
  st_edge (c_s x') = st_edge (c_s x) /\
  (forall m, Fl x' m = true -> Fl x m = true) /\
  (forall e, c_want x' e = true -> c_want x e = true) /\
  (forall m, P m -> nd (c_s x') m = nd (c_s x) m).

Lemma frame_refl P x : frame P x x.
Proof. repeat split; auto. Qed.

Lemma frame_trans (P P1 P2 : node -> Prop) a b c :
  (forall m, P m -> P1 m) -> (forall m, P m -> P2 m) -> frame P1 a b -> frame P2 b c -> frame P a c.
Proof.
  intros H1 H2 [A1 [A2 [A3 A4]]] [B1 [B2 [B3 B4]]]. split; [congruence|]. split; [auto|]. split; [auto|].
  intros m Hm. rewrite (B4 m (H2 m Hm)). apply (A4 m (H1 m Hm)).
Qed.

Definition low (en : nat) (m : node) : Prop :=
  match g_producer g m with None => True | Some e' => (e' <= en)%nat end.

Lemma frame_clear x n : frame (fun m => m <> n) x (mkC (set_dirty (c_s x) n false) (c_want x)).
Proof.
  split; [reflexivity|]. split; [|split; [auto|]].
  - intros m Hm. cbn [c_s] in Hm. destruct (Nat.eq_dec m n) as [->|Hne]; [rewrite nd_clear_same in Hm; discriminate|].
    rewrite (nd_clear_other _ n m Hne) in Hm. exact Hm.
  - intros m Hm. cbn [c_s]. apply nd_clear_other. exact Hm.
Qed.

Lemma unwant_same wt e : unwant wt e e = false.
Proof. unfold unwant. rewrite Nat.eqb_refl. reflexivity. Qed.
Lemma unwant_other wt e e' : e' <> e -> unwant wt e e' = wt e'.
Proof. intros H. unfold unwant. destruct (Nat.eqb_spec e' e); [contradiction|reflexivity]. Qed.

(* a pruned statement leaves the plan *)
Lemma cinv_prune x V U Q e :
  CInv k st x (e :: V) U Q -> ndd e -> pend k e ->
  (forall o, In o (outs e) -> Fl x o = false) ->
  (forall i, In i (nonoo_ins g e) -> Fl x i = false) -> ~ OWNx w e ->
  CInv k st (mkC (c_s x) (unwant (c_want x) e)) V U Q.
Proof.
  intros H Hn Hpe Hout Hin Hown. destruct H as [cE cN1 cN2 cN3 cB cL cWm cIP cT1 cT2 cT3 cT4 cP].
  assert (HV : forall e', e' <> e -> ~ In e' V -> ~ In e' (e :: V)).
  { intros e' Hne Hv [Heq|Hi]; [apply Hne; symmetry; exact Heq|apply Hv; exact Hi]. }
  constructor; cbn [c_s c_want]; try assumption.
  - intros n e' Hp Hn' Hph Hv Hd. destruct (Nat.eq_dec e' e) as [Heq|Hne].
    + subst e'. rewrite (Hout n (p_out g Hwf n e Hp)) in Hd. discriminate.
    + apply (cN3 n e' Hp Hn' Hph (HV e' Hne Hv) Hd).
  - intros e' Hw. destruct (Nat.eq_dec e' e) as [Heq|Hne]; [subst e'; rewrite unwant_same in Hw; discriminate|].
    rewrite (unwant_other _ _ _ Hne) in Hw. apply (cWm e' Hw).
  - intros e' o Hn' Hpe' Hw Ho. destruct (Nat.eq_dec e' e) as [Heq|Hne]; [subst e'; apply (Hout o Ho)|].
    rewrite (unwant_other _ _ _ Hne) in Hw. apply (cT1 e' o Hn' Hpe' Hw Ho).
  - intros e' o Hn' Hpe' Hv Hw Ho.
    destruct (Nat.eq_dec e' e) as [Heq|Hne]; [subst e'; rewrite unwant_same in Hw; discriminate|].
    rewrite (unwant_other _ _ _ Hne) in Hw. apply (cT2 e' o Hn' Hpe' (HV e' Hne Hv) Hw Ho).
  - intros e' Hn' Hpe' Hw. destruct (Nat.eq_dec e' e) as [Heq|Hne]; [subst e'; split; assumption|].
    rewrite (unwant_other _ _ _ Hne) in Hw. apply (cT3 e' Hn' Hpe' Hw).
  - intros e' Hn' Hpe' Hv Hu Hw.
    destruct (Nat.eq_dec e' e) as [Heq|Hne]; [subst e'; rewrite unwant_same in Hw; discriminate|].
    rewrite (unwant_other _ _ _ Hne) in Hw. apply (cT4 e' Hn' Hpe' (HV e' Hne Hv) Hu Hw).
Qed.

(* RecomputeOutputsDirty on a phony statement moves the cached mtimes of its outputs *)
Lemma cinv_phony_update x V U Q e s1 :
  CInv k st x V U Q -> ndd e -> pend k e -> ~ In e V -> c_want x e = true -> phony e = true ->
  st_edge s1 = st_edge (c_s x) ->
  (forall m, ~ In m (outs e) -> nd s1 m = nd (c_s x) m) ->
  (forall m, ns_dirty (nd s1 m) = ns_dirty (nd (c_s x) m) /\ ns_exists (nd s1 m) = ns_exists (nd (c_s x) m)) ->
  CInv k st (mkC s1 (c_want x)) (e :: V) U Q.
Proof.
  intros H Hn Hpe Hv Hw Hph HE Hno Hde. destruct H as [cE cN1 cN2 cN3 cB cL cWm cIP cT1 cT2 cT3 cT4 cP].
  assert (Hd : forall m, ns_dirty (nd s1 m) = Fl x m) by (intros m; apply (proj1 (Hde m))).
  assert (HV : forall e', ~ In e' (e :: V) -> e' <> e /\ ~ In e' V).
  { intros e' Hi. split; [intros ->; apply Hi; left; reflexivity|intros Hi'; apply Hi; right; exact Hi']. }
  constructor; cbn [c_s c_want].
  - rewrite HE. exact cE.
  - intros m Hm. rewrite (proj2 (Hde m)). apply (cN1 m Hm).
  - intros m Hm Hnp. rewrite Hno; [apply (cN2 m Hm Hnp)|].
    intros Hin. specialize (Hnp e (o_prod g Hwf e m Hin)). congruence.
  - intros m e' Hp Hn' Hph' Hv' Hdm. destruct (HV e' Hv') as [Hne Hv''].
    rewrite Hd in Hdm. rewrite Hno; [apply (cN3 m e' Hp Hn' Hph' Hv'' Hdm)|].
    intros Hin. rewrite (o_prod g Hwf e m Hin) in Hp. inversion Hp. congruence.
  - intros m Hm Hdm z. rewrite Hd in Hdm. rewrite Hno; [apply (cB m Hm Hdm z)|].
    intros Hin. rewrite (cT2 e m Hn Hpe Hv Hw Hin) in Hdm. discriminate.
  - intros m Hm Hp. rewrite Hd. apply (cL m Hm Hp).
  - exact cWm.
  - intros e' o Hn' Hph' Hnil Ho. rewrite Hd. apply (cIP e' o Hn' Hph' Hnil Ho).
  - intros e' o Hn' Hpe' Hw' Ho. rewrite Hd. apply (cT1 e' o Hn' Hpe' Hw' Ho).
  - intros e' o Hn' Hpe' Hv' Hw' Ho. rewrite Hd. apply (cT2 e' o Hn' Hpe' (proj2 (HV e' Hv')) Hw' Ho).
  - intros e' Hn' Hpe' Hw'. destruct (cT3 e' Hn' Hpe' Hw') as [A B]. split; [|exact B].
    intros i Hi. rewrite Hd. apply (A i Hi).
  - intros e' Hn' Hpe' Hv' Hu Hw'. destruct (cT4 e' Hn' Hpe' (proj2 (HV e' Hv')) Hu Hw') as [[i [Hi Hdi]]|Ho]; [|right; exact Ho].
    left. exists i. split; [exact Hi|]. rewrite Hd. exact Hdi.
  - intros e' o Hn' Hph' Hlt Ho. rewrite Hd. apply (cP e' o Hn' Hph' Hlt Ho).
Qed.

Lemma cinv_weaken_Q x V U (Q Q' : node -> Prop) :
  (forall m, Q m -> Q' m) -> CInv k st x V U Q -> CInv k st x V U Q'.
Proof.
  intros HQ H. destruct H as [cE cN1 cN2 cN3 cB cL cWm cIP cT1 cT2 cT3 cT4 cP].
  constructor; try assumption.
  intros e o Hn Hph Hlt Ho. destruct (cP e o Hn Hph Hlt Ho) as [A B]. split; [|exact B].
  intros Hd. destruct (A Hd) as [Hq|Hf]; [left; apply HQ; exact Hq|right; exact Hf].
Qed.

Lemma forallb_false {A : Type} (f : A -> bool) : forall l, forallb f l = false -> exists a, In a l /\ f a = false.
Proof.
  induction l as [|a l IH]; cbn [forallb]; [discriminate|]. intros H.
  destruct (f a) eqn:Ha; [|exists a; split; [left; reflexivity|exact Ha]].
  destruct (IH H) as [b [Hb Hfb]]. exists b. split; [right; exact Hb|exact Hfb].
Qed.

Definition Qminus (Q : node -> Prop) (n : node) : node -> Prop := fun m => Q m /\ m <> n.

(* the cached mtime a cleaned phony output gets is the one make semantics gives it *)
Lemma phony_B x V U Q e o :
  CInv k st x V U Q -> ndd e -> pend k e -> ~ In e V -> c_want x e = true -> phony e = true ->
  (forall i, In i (nonoo_ins g e) -> Fl x i = false) -> In o (outs e) ->
  forall z, z < phony_mtime (c_s x) (cn_mri (c_s x) (nonoo_ins g e)) o <-> newer_than G0 w z o.
Proof.
  intros H Hn Hpe Hv Hw Hph Hin Ho z.
  destruct HG0 as [[_ [_ [_ [D0 _]]]] _]. destruct (hi_good k st HH) as [[_ [_ [_ [D1 _]]]] _].
  pose proof (o_prod g Hwf e o Ho) as Hpo.
  assert (Hm0 : mtime_of st0 o = 0) by (unfold mtime_of; rewrite (D0 o e Hpo Hph); reflexivity).
  assert (Hm1 : w_mtime w o = 0) by (cbn [world_of w_mtime]; unfold mtime_of; rewrite (D1 o e Hpo Hph); reflexivity).
  assert (Hex : n_exists (nd (c_s x) o) = false).
  { unfold n_exists. rewrite (ci_N1 _ _ _ _ _ _ H o (rel_out e o Hn Ho)), Hm0. reflexivity. }
  assert (Hmt : ns_mtime (nd (c_s x) o) = 0).
  { apply (ci_N3 _ _ _ _ _ _ H o e Hpo Hn Hph Hv). apply (ci_T2 _ _ _ _ _ _ H e o Hn Hpe Hv Hw Ho). }
  rewrite (newer_missing_phony G0 w z o e Hm1 Hpo Hph).
  assert (HN : (exists i, In i (nonoo_ins G0 e) /\ newer_than G0 w z i) <->
               lt_mri (c_s x) z (cn_mri (c_s x) (nonoo_ins g e))).
  { rewrite (proj1 (cn_mri_spec (c_s x) (nonoo_ins g e)) z).
    split; intros [i [Hi Hz]]; exists i; (split; [exact Hi|]).
    - apply (ci_B _ _ _ _ _ _ H i (rel_nonoo e i Hn Hi) (Hin i Hi) z). exact Hz.
    - apply (ci_B _ _ _ _ _ _ H i (rel_nonoo e i Hn Hi) (Hin i Hi) z). exact Hz. }
  rewrite HN. unfold phony_mtime. rewrite Hex, Hmt.
  destruct (cn_mri (c_s x) (nonoo_ins g e)) as [m|]; cbn [lt_mri]; lia.
Qed.

Definition CN_spec (f : nat) : Prop :=
  forall n x V U Q en,
    CInv k st x V U Q -> rel n -> g_producer g n = Some en -> (g_nedges g - en <= f)%nat ->
    (forall v, In v V -> (v <= en)%nat) ->
    (forall z, z < ns_mtime (nd (c_s x) n) <-> newer_than G0 w z n) ->
    ((Q n /\ phony en = false /\ (en < k)%nat /\ h_disk st n = h_disk st0 n) \/ (In en V /\ pend k en)) ->
    exists x', clean_node G0 w f n x = Some x' /\ CInv k st x' V U (Qminus Q n) /\
               frame (fun m => m <> n /\ low en m) x x' /\ Fl x' n = false.

(* "CleanNode every output of oe" *)
Lemma outs_loop f : CN_spec f -> forall e os x V U Q,
  ndd e -> pend k e -> In e V -> (g_nedges g - e <= f)%nat -> (forall v, In v V -> (v <= e)%nat) ->
  (forall o, In o os -> In o (outs e)) ->
  CInv k st x V U Q ->
  (forall o, In o os -> forall z, z < ns_mtime (nd (c_s x) o) <-> newer_than G0 w z o) ->
  exists x', ofold (clean_node G0 w f) os x = Some x' /\ CInv k st x' V U Q /\
             frame (fun m => ~ In m os /\ low e m) x x' /\ (forall o, In o os -> Fl x' o = false).
Proof.
  intros IH e. induction os as [|o os IHos]; intros x V U Q Hn Hpe Hv Hfuel Hle Hsub HC HB.
  - exists x. split; [reflexivity|]. split; [exact HC|]. split; [apply frame_refl|intros o []].
  - cbn [ofold].
    pose proof (Hsub o (or_introl eq_refl)) as Ho. pose proof (o_prod g Hwf e o Ho) as Hpo.
    destruct (IH o x V U Q e HC (rel_out e o Hn Ho) Hpo Hfuel Hle (HB o (or_introl eq_refl))
                 (or_intror (conj Hv Hpe))) as [x1 [E1 [C1 [F1 D1]]]].
    rewrite E1.
    assert (C1' : CInv k st x1 V U Q) by (apply (cinv_weaken_Q x1 V U (Qminus Q o) Q); [intros m [Hq _]; exact Hq|exact C1]).
    destruct (IHos x1 V U Q Hn Hpe Hv Hfuel Hle (fun o' Ho' => Hsub o' (or_intror Ho')) C1') as [x2 [E2 [C2 [F2 D2]]]].
    { intros o' Ho' z. destruct (Nat.eq_dec o' o) as [->|Hne].
      - apply (ci_B _ _ _ _ _ _ C1' o (rel_out e o Hn Ho) D1 z).
      - destruct F1 as [_ [_ [_ F1n]]]. rewrite (F1n o'); [apply (HB o' (or_intror Ho') z)|].
        split; [exact Hne|]. unfold low. rewrite (o_prod g Hwf e o' (Hsub o' (or_intror Ho'))). lia. }
    exists x2. split; [exact E2|]. split; [exact C2|]. split.
    + apply (frame_trans _ (fun m => m <> o /\ low e m) (fun m => ~ In m os /\ low e m) x x1 x2); [| |exact F1|exact F2].
      * intros m [Hni Hl]. split; [intros ->; apply Hni; left; reflexivity|exact Hl].
      * intros m [Hni Hl]. split; [intros Hi; apply Hni; right; exact Hi|exact Hl].
    + intros o' [<-|Ho']; [|apply D2; exact Ho'].
      destruct (Fl x2 o) eqn:Hd; [|reflexivity]. destruct F2 as [_ [F2f _]]. rewrite (F2f o Hd) in D1. discriminate.
Qed.

(* the loop of CleanNode over the out-edges of [n] *)
Lemma edges_loop f : CN_spec f -> forall n en L x V U Q,
  g_producer g n = Some en -> (g_nedges g - en <= S f)%nat -> (forall v, In v V -> (v <= en)%nat) ->
  (forall e, In e L -> (e < g_nedges g)%nat /\ In n (ei_ins (g_edge g e))) ->
  CInv k st x V (U ++ L) Q ->
  exists x', ofold (clean_edge G0 w (clean_node G0 w f)) L x = Some x' /\ CInv k st x' V U Q /\
             frame (low en) x x'.
Proof.
  intros IH n en. induction L as [|e L IHL]; intros x V U Q Hp Hfuel Hle HL HC.
  - rewrite app_nil_r in HC. exists x. split; [reflexivity|]. split; [exact HC|apply frame_refl].
  - destruct x as [s wt]. cbn [ofold].
    destruct (HL e (or_introl eq_refl)) as [He Hnin].
    assert (Hlt : (en < e)%nat).
    { pose proof (in_below g Htopo e n He Hnin) as Hb. unfold below in Hb. rewrite Hp in Hb. exact Hb. }
    assert (HL' : forall e', In e' L -> (e' < g_nedges g)%nat /\ In n (ei_ins (g_edge g e'))) by (intros e' He'; apply HL; right; exact He').
    pose proof (ci_E _ _ _ _ _ _ HC) as cE. cbn [c_s] in cE.
    assert (Hnoo : cn_nonoo G0 s e = nonoo_ins g e) by (apply (nonoo_eq (mkC s wt) e cE)).
    (* dropping [e] from the exemption list once it has been dealt with *)
    assert (Hdrop : forall y, CInv k st y V (U ++ e :: L) Q ->
              (c_want y e = true -> ndd e -> pend k e ->
               (exists i, In i (nonoo_ins g e) /\ Fl y i = true) \/ OWNx w e) ->
              CInv k st y V (U ++ L) Q).
    { intros y Hy Hconc. apply (cinv_weaken_U y V (U ++ e :: L) (U ++ L) Q Hy).
      intros e' Hn' Hpe' _ Hnot Hin Hw'.
      assert (e' = e).
      { apply in_app_or in Hin. destruct Hin as [Hin|[Heq|Hin]]; [|symmetry; exact Heq|];
          exfalso; apply Hnot; apply in_or_app; [left|right]; exact Hin. }
      subst e'. apply (Hconc Hw' Hn' Hpe'). }
    unfold clean_edge at 1. cbn [c_s c_want].
    destruct (wt e && negb (es_deps_missing (st_edge s e))
              && forallb (fun i => negb (ns_dirty (nd s i))) (cn_nonoo G0 s e))%bool eqn:Hcond.
    2:{ (* not wanted any more, or an input still carries the flag *)
        apply (IHL (mkC s wt) V U Q Hp Hfuel Hle HL'). apply (Hdrop _ HC). intros Hw _ _. left.
        cbn [c_want] in Hw. rewrite Hw, cE, dm0 in Hcond. cbn [negb andb] in Hcond.
        destruct (forallb_false _ _ Hcond) as [i [Hi Hfi]]. rewrite Hnoo in Hi.
        exists i. split; [exact Hi|]. cbn [c_s]. apply negb_false_iff in Hfi. exact Hfi. }
    apply andb_true_iff in Hcond. destruct Hcond as [Hcond Hall]. apply andb_true_iff in Hcond. destruct Hcond as [Hw _].
    rewrite Hnoo in *. rewrite forallb_forall in Hall.
    assert (Hclean : forall i, In i (nonoo_ins g e) -> Fl (mkC s wt) i = false).
    { intros i Hi. specialize (Hall i Hi). apply negb_true_iff in Hall. exact Hall. }
    destruct (ci_Wm _ _ _ _ _ _ HC e Hw) as [Hws Hk].
    pose proof (wanted_ndd e Hws) as Hn.
    assert (Hpe : pend k e).
    { destruct (phony e) eqn:Hph; [left; split; [exact Hph|intros Hnil; rewrite Hnil in Hnin; destruct Hnin]|].
      right. split; [exact Hph|]. destruct Hk as [Hk|Hk]; [discriminate|exact Hk]. }
    assert (HnV : ~ In e V) by (intros Hin; specialize (Hle e Hin); lia).
    assert (HleV : forall v, In v (e :: V) -> (v <= e)%nat).
    { intros v [<-|Hv]; [lia|]. specialize (Hle v Hv). lia. }
    assert (Hfuel' : (g_nedges g - e <= f)%nat) by lia.
    (* after the outputs have been cleaned: leave the plan, go on with the other out-edges *)
    assert (Hfinish : forall x1, CInv k st x1 (e :: V) (U ++ e :: L) Q -> frame (fun m => ~ In m (outs e)) (mkC s wt) x1 ->
              (forall o, In o (outs e) -> forall z, z < ns_mtime (nd (c_s x1) o) <-> newer_than G0 w z o) ->
              ~ OWNx w e ->
              exists x2, ofold (clean_node G0 w f) (edge_outs G0 e) x1 = Some x2 /\
              exists x', ofold (clean_edge G0 w (clean_node G0 w f)) L (mkC (c_s x2) (unwant (c_want x2) e)) = Some x' /\
                         CInv k st x' V U Q /\ frame (low en) (mkC s wt) x').
    { intros x1 C1 F1 B1 Hnown.
      destruct (outs_loop f IH e (outs e) x1 (e :: V) (U ++ e :: L) Q Hn Hpe (or_introl eq_refl) Hfuel' HleV
                  (fun o Ho => Ho) C1 B1) as [x2 [E2 [C2 [F2 D2]]]].
      exists x2. split; [exact E2|].
      assert (Hc2 : forall i, In i (nonoo_ins g e) -> Fl x2 i = false).
      { intros i Hi. destruct (Fl x2 i) eqn:Hd; [|reflexivity].
        destruct F2 as [_ [F2f _]]. destruct F1 as [_ [F1f _]].
        pose proof (F1f i (F2f i Hd)) as Hx. pose proof (Hclean i Hi) as Hc. cbn [c_s] in Hx, Hc. congruence. }
      pose proof (cinv_prune x2 V (U ++ e :: L) Q e C2 Hn Hpe D2 Hc2 Hnown) as C3.
      set (x3 := mkC (c_s x2) (unwant (c_want x2) e)) in *.
      assert (C3' : CInv k st x3 V (U ++ L) Q).
      { apply (Hdrop x3 C3). intros Hw3 _ _. unfold x3 in Hw3. cbn [c_want] in Hw3. rewrite unwant_same in Hw3. discriminate. }
      destruct (IHL x3 V U Q Hp Hfuel Hle HL' C3') as [x' [E' [C' F']]].
      exists x'. split; [exact E'|]. split; [exact C'|].
      assert (Hlow : forall m, low en m -> ~ In m (outs e) /\ low e m).
      { intros m Hm. unfold low in *. split.
        - intros Hin. rewrite (o_prod g Hwf e m Hin) in Hm. lia.
        - destruct (g_producer g m); [lia|exact I]. }
      assert (F3 : frame (low en) (mkC s wt) x3).
      { apply (frame_trans (low en) (fun m => ~ In m (outs e)) (fun m => ~ In m (outs e) /\ low e m) (mkC s wt) x1 x3);
          [intros m Hm; apply (Hlow m Hm)|intros m Hm; exact (Hlow m Hm)|exact F1|].
        destruct F2 as [A [B [C D]]]. split; [exact A|]. split; [exact B|]. split; [|exact D].
        intros e' He'. unfold x3 in He'. cbn [c_want] in He'. apply C.
        destruct (Nat.eq_dec e' e) as [->|Hne]; [rewrite unwant_same in He'; discriminate|].
        rewrite (unwant_other _ _ _ Hne) in He'. exact He'. }
      apply (frame_trans (low en) (low en) (low en) (mkC s wt) x3 x'); auto. }
    destruct (outputs_dirty_all G0 w e (edge_outs G0 e) (cn_mri s (nonoo_ins g e)) s) as [d s1] eqn:Hod.
    destruct (phony e) eqn:Hph.
    + (* a phony statement: never dirty here, its cached mtimes are brought up to date *)
      assert (Hne : es_ins (st_edge s e) <> []) by (rewrite cE, ins0; intros E; rewrite E in Hnin; destruct Hnin).
      assert (Hd : d = false) by (apply (oda_phony_false G0 w e _ Hph _ _ _ _ Hne Hod)). subst d.
      assert (Hmri : forall m, cn_mri s (nonoo_ins g e) = Some m -> ~ In m (edge_outs G0 e)).
      { intros m Hm. pose proof (proj2 (cn_mri_spec s (nonoo_ins g e)) m Hm) as Hin.
        apply (not_out_of_below g Hwf e e m); [apply (in_below g Htopo e m He (nonoo_in g e m Hin))|lia]. }
      destruct (oda_phony G0 w e _ Hph (edge_outs G0 e) Hmri s false s1 Hod) as [E1 [O1 [DX [_ M1]]]].
      pose proof (cinv_phony_update (mkC s wt) V (U ++ e :: L) Q e s1 HC Hn Hpe HnV Hw Hph E1 O1 DX) as C1.
      destruct (Hfinish (mkC s1 wt) C1) as [x2 [E2 [x' [E' [C' F']]]]].
      * split; [exact E1|]. split; [|split; [auto|intros m Hm; apply O1; exact Hm]].
        intros m Hm. cbn [c_s] in *. rewrite <- (proj1 (DX m)). exact Hm.
      * intros o Ho z. cbn [c_s]. rewrite (M1 eq_refl o Ho).
        apply (phony_B (mkC s wt) V (U ++ e :: L) Q e o HC Hn Hpe HnV Hw Hph Hclean Ho z).
      * intros [Hf _]. congruence.
      * cbn [c_want]. rewrite E2. exists x'. split; [exact E'|]. split; assumption.
    + (* a real statement: RecomputeOutputsDirty decides *)
      assert (Hk' : (k <= e)%nat) by (destruct Hpe as [[Hp' _]|[_ Hk']]; [congruence|exact Hk']).
      assert (Hout : forall o, In o (ei_outs (g_edge G0 e)) ->
                ns_mtime (nd s o) = w_mtime w o /\ ns_exists (nd s o) = ex_of (w_mtime w o)).
      { intros o Ho. change (In o (outs e)) in Ho. pose proof (rel_out e o Hn Ho) as Hr.
        assert (Hm : w_mtime w o = mtime_of st0 o).
        { cbn [world_of w_mtime]. unfold mtime_of.
          rewrite (proj1 (hi_later k st HH o e (o_prod g Hwf e o Ho) Hk')). reflexivity. }
        rewrite Hm. split; [|apply (ci_N1 _ _ _ _ _ _ HC o Hr)].
        apply (ci_N2 _ _ _ _ _ _ HC o Hr). intros e' He'. rewrite (o_prod g Hwf e o Ho) in He'. inversion He'; subst. exact Hph. }
      destruct (own_test_real G0 w e s (nonoo_ins g e) d s1 Hph Hout) as [Es Hiff]; [|exact Hod|].
      { intros i Hi z. apply (ci_B _ _ _ _ _ _ HC i (rel_nonoo e i Hn Hi) (Hclean i Hi) z). }
      subst s1. destruct d.
      * (* still dirty: stays in the plan *)
        apply (IHL (mkC s wt) V U Q Hp Hfuel Hle HL'). apply (Hdrop _ HC). intros _ _ _. right.
        split; [exact Hph|]. apply (proj1 Hiff eq_refl).
      * assert (Hnown : ~ OWNx w e).
        { intros [_ Ho]. assert (false = true) by (apply (proj2 Hiff); exact Ho). discriminate. }
        destruct (Hfinish (mkC s wt)) as [x2 [E2 [x' [E' [C' F']]]]].
        -- apply (cinv_weaken_V (mkC s wt) V (e :: V) (U ++ e :: L) Q); [intros v Hv; right; exact Hv|exact HC].
        -- apply frame_refl.
        -- intros o Ho z. cbn [c_s]. destruct (Hout o Ho) as [Hm _]. rewrite Hm.
           assert (Hnz : w_mtime w o <> 0).
           { intros Hz. apply Hnown. split; [exact Hph|]. exists o. split; [exact Ho|]. left. left. exact Hz. }
           symmetry. apply (newer_file G0 w z o Hnz).
        -- exact Hnown.
        -- cbn [c_want]. rewrite E2. exists x'. split; [exact E'|]. split; assumption.
Qed.


(* Plan::CleanNode keeps the invariant and never runs out of fuel *)
Theorem clean_node_spec : forall f, CN_spec f.
Proof.
  induction f as [|f IHf]; intros n x V U Q en HC Hrel Hp Hfuel Hle HB Hcase.
  - pose proof (Hwg n en Hp). lia.
  - cbn [clean_node].
    pose proof (cinv_clear x V U Q n en HC Hrel Hp HB Hcase) as C1.
    set (x1 := mkC (set_dirty (c_s x) n false) (c_want x)) in *.
    change (set_dirty (c_s x) n false) with (c_s x1).
    destruct (edges_loop f IHf n en (out_edges G0 (c_s x1) n) x1 V U (Qminus Q n) Hp Hfuel Hle) as [x' [E' [C' F']]].
    + intros e He. apply (out_edges_in x1 e n (ci_E _ _ _ _ _ _ C1)). exact He.
    + exact C1.
    + exists x'. split; [exact E'|]. split; [exact C'|]. split.
      * apply (frame_trans _ (fun m => m <> n) (low en) x x1 x'); [intros m [A _]; exact A|intros m [_ B]; exact B| |exact F'].
        apply frame_clear.
      * destruct (Fl x' n) eqn:Hd; [|reflexivity]. destruct F' as [_ [Ff _]]. pose proof (Ff n Hd) as Hx.
        unfold x1 in Hx. cbn [c_s] in Hx. rewrite nd_clear_same in Hx. discriminate.
Qed.

End Cascade.

(* ---- one statement has its turn *)
Lemma hinv_skip k st : HInv k st -> HInv (S k) st.
Proof.
  intros [A B C D E F]. constructor; try assumption. intros n e Hp Hk. apply (E n e Hp). lia.
Qed.

Lemma pend_S k e : pend (S k) e -> pend k e.
Proof. intros [H|[Hp Hk]]; [left; exact H|right; split; [exact Hp|lia]]. Qed.

Lemma cinv_skip k st x : HInv k st -> CInv k st x [] [] noN ->
  c_want x k = false \/ phony k = true -> CInv (S k) st x [] [] noN.
Proof.
  intros HH H Hk. destruct H as [cE cN1 cN2 cN3 cB cL cWm cIP cT1 cT2 cT3 cT4 cP].
  constructor; try assumption.
  - intros e Hw. destruct (cWm e Hw) as [A B]. split; [exact A|].
    destruct B as [B|B]; [left; exact B|].
    destruct (Nat.eq_dec e k) as [->|Hne]; [|right; lia].
    destruct Hk as [Hk|Hk]; [congruence|left; exact Hk].
  - intros e o Hn Hpe. apply (cT1 e o Hn (pend_S k e Hpe)).
  - intros e o Hn Hpe. apply (cT2 e o Hn (pend_S k e Hpe)).
  - intros e Hn Hpe. apply (cT3 e Hn (pend_S k e Hpe)).
  - intros e Hn Hpe. apply (cT4 e Hn (pend_S k e Hpe)).
  - intros e o Hn Hph Hlt Ho. destruct (Nat.eq_dec e k) as [->|Hne]; [|apply (cP e o Hn Hph); [lia|exact Ho]].
    assert (Hw : c_want x k = false) by (destruct Hk as [Hk|Hk]; [exact Hk|congruence]).
    assert (Hpe : pend k k) by (right; split; [exact Hph|lia]).
    pose proof (cT1 k o Hn Hpe Hw Ho) as Hd. split; [intros Hd'; congruence|].
    intros _. apply (proj1 (hi_later k st HH o k (o_prod g Hwf k o Ho) (le_n k))).
Qed.

(* the outputs the command of [k] left untouched *)
Definition Qk (k : nat) (st' : hstate) : node -> Prop :=
  fun o => In o (outs k) /\ h_disk st' o = h_disk st0 o.

Lemma run_inv k st x : (k < g_nedges g)%nat -> HInv k st -> CInv k st x [] [] noN ->
  c_want x k = true -> phony k = false ->
  let st' := run_edge cmd g st k in
  HInv (S k) st' /\ CInv (S k) st' (mkC (c_s x) (unwant (c_want x) k)) [] [] (Qk k st') /\
  (forall o, In o (outs k) -> mtime_of st' o <> 0) /\
  (ei_restat (g_edge g k) = false -> forall o, In o (outs k) -> h_clock st0 < mtime_of st' o).
Proof.
  intros Hk HH HC Hw Hph. cbn zeta.
  pose proof HH as [HG Hh Hc Hleaf Hlater Hfresh].
  destruct HG as [[A [B [C [D E]]]] L].
  destruct (run_edge_spec cmd g st k A B) as [Hh' [Hc' [Hout [Hfs [Hd' [[m [Hm Hlog]] Hnr]]]]]]. cbn zeta in *.
  set (st' := run_edge cmd g st k) in *.
  destruct (ci_Wm _ _ _ _ _ _ HC k Hw) as [Hws _]. pose proof (wanted_ndd k Hws) as Hn.
  assert (Hpk : pend k k) by (right; split; [exact Hph|lia]).
  assert (Hflk : forall o, In o (outs k) -> Fl x o = true).
  { intros o Ho. apply (ci_T2 _ _ _ _ _ _ HC k o Hn Hpk (fun F => F) Hw Ho). }
  assert (HH' : HInv (S k) st').
  { constructor.
    - apply (goodF_run cmd g Hwf Htopo st k (conj (conj A (conj B (conj C (conj D E)))) L) Hk Hph).
    - congruence.
    - lia.
    - intros n Hp. assert (Hno : ~ In n (outs k)) by (intros Hi; rewrite (o_prod g Hwf k n Hi) in Hp; discriminate).
      rewrite (proj1 (Hout n Hno)). apply (Hleaf n Hp).
    - intros n e Hp Hle. assert (Hno : ~ In n (outs k)) by (intros Hi; rewrite (o_prod g Hwf k n Hi) in Hp; inversion Hp; lia).
      destruct (Hout n Hno) as [E1 [E2 _]]. rewrite E1, E2. apply (Hlater n e Hp). lia.
    - intros n. destruct (Hfs n) as [Hs|[mx [Hx [Hmx _]]]].
      + rewrite Hs. apply Hfresh.
      + right. exists mx. eexists. split; [exact Hx|lia]. }
  split; [exact HH'|].
  (* the flags do not change; the world does, but not under a clean flag *)
  set (Pc := fun m => rel m /\ Fl x m = false).
  assert (Hsame : forall m, ~ In m (outs k) -> w_mtime (W st') m = w_mtime (W st) m /\ w_blog (W st') m = w_blog (W st) m).
  { intros y Hy. cbn [world_of w_mtime w_blog]. unfold mtime_of. destruct (Hout y Hy) as [E1 [E2 _]]. rewrite E1, E2. split; reflexivity. }
  assert (Hpc_no : forall m, Pc m -> ~ In m (outs k)).
  { intros y [_ Hd] Hi. rewrite (Hflk y Hi) in Hd. discriminate. }
  assert (Hpc_cl : forall n e i, Pc n -> g_producer G0 n = Some e -> ei_phony (g_edge G0 e) = true ->
                     In i (nonoo_ins G0 e) -> Pc i).
  { intros n e i [Hr Hd] Hp Hphe Hi. change (g_producer g n = Some e) in Hp. change (phony e = true) in Hphe.
    change (In i (nonoo_ins g e)) in Hi.
    assert (Hne : ndd e) by (unfold rel in Hr; rewrite Hp in Hr; exact Hr).
    split; [apply (rel_nonoo e i Hne Hi)|].
    assert (Hpe : pend k e).
    { left. split; [exact Hphe|]. intros Hnil. pose proof (nonoo_in g e i Hi) as Hx. rewrite Hnil in Hx. destruct Hx. }
    destruct (c_want x e) eqn:Hwe.
    - rewrite (ci_T2 _ _ _ _ _ _ HC e n Hne Hpe (fun F => F) Hwe (p_out g Hwf n e Hp)) in Hd. discriminate.
    - apply (proj1 (ci_T3 _ _ _ _ _ _ HC e Hne Hpe Hwe) i Hi). }
  assert (Hnew1 : forall z n, Pc n -> newer_than G0 (W st) z n -> newer_than G0 (W st') z n).
  { intros z n HP Hnw. apply (newer_agree G0 (W st) (W st') Pc); [| |exact Hnw|exact HP].
    - intros n' HP'. apply (proj1 (Hsame n' (Hpc_no n' HP'))).
    - intros n' e i HP' _. apply (Hpc_cl n' e i HP'). }
  assert (Hnew2 : forall z n, Pc n -> newer_than G0 (W st') z n -> newer_than G0 (W st) z n).
  { intros z n HP Hnw. apply (newer_agree G0 (W st') (W st) Pc); [| |exact Hnw|exact HP].
    - intros n' HP'. symmetry. apply (proj1 (Hsame n' (Hpc_no n' HP'))).
    - intros n' e i HP' _. apply (Hpc_cl n' e i HP'). }
  assert (Hmono : forall z n, newer_than G0 (W st) z n -> newer_than G0 (W st') z n).
  { apply (newer_mono G0 (W st) (W st')).
    - intros n. apply (mtime_leF st n A B).
    - intros n. cbn [world_of w_mtime]. unfold mtime_of. destruct (h_disk st' n) as [[mx c]|] eqn:Hx; [|lia].
      destruct (Hd' n mx c Hx). lia.
    - intros n Hnz. cbn [world_of w_mtime] in *. unfold mtime_of in *. destruct (Hfs n) as [Hs|[mx [Hx [Hmx _]]]].
      + rewrite Hs. lia.
      + rewrite Hx. destruct (h_disk st n) as [[m0 c0]|] eqn:H0; [|contradiction]. destruct (B n m0 c0 H0). lia.
    - intros n e Hz Hp Hphe. change (g_producer g n = Some e) in Hp. change (phony e = true) in Hphe.
      assert (Hno : ~ In n (outs k)) by (intros Hi; rewrite (o_prod g Hwf k n Hi) in Hp; inversion Hp; congruence).
      rewrite (proj1 (Hsame n Hno)). exact Hz. }
  assert (Hout_same : forall e o, e <> k -> In o (outs e) ->
            w_mtime (W st') o = w_mtime (W st) o /\ w_blog (W st') o = w_blog (W st) o).
  { intros e o Hne Ho. apply Hsame. intros Hi. pose proof (o_prod g Hwf e o Ho) as H1. rewrite (o_prod g Hwf k o Hi) in H1. congruence. }
  assert (Hpend_ne : forall e, pend (S k) e -> e <> k).
  { intros e [[Hp _]|[_ Hle]] ->; [congruence|lia]. }
  split; [|split].
  - destruct HC as [cE cN1 cN2 cN3 cB cL cWm cIP cT1 cT2 cT3 cT4 cP].
    constructor; cbn [c_s c_want]; try assumption.
    + intros n Hr Hd z. rewrite (cB n Hr Hd z). split; [apply (Hnew1 z n (conj Hr Hd))|apply (Hnew2 z n (conj Hr Hd))].
    + intros e Hwe. destruct (Nat.eq_dec e k) as [Heq|Hne]; [subst e; rewrite unwant_same in Hwe; discriminate|].
      rewrite (unwant_other _ _ _ Hne) in Hwe. destruct (cWm e Hwe) as [X Y]. split; [exact X|].
      destruct Y as [Y|Y]; [left; exact Y|right; lia].
    + intros e o Hne Hpe Hwe Ho. pose proof (Hpend_ne e Hpe) as Hek. rewrite (unwant_other _ _ _ Hek) in Hwe.
      apply (cT1 e o Hne (pend_S k e Hpe) Hwe Ho).
    + intros e o Hne Hpe Hv Hwe Ho. pose proof (Hpend_ne e Hpe) as Hek. rewrite (unwant_other _ _ _ Hek) in Hwe.
      apply (cT2 e o Hne (pend_S k e Hpe) Hv Hwe Ho).
    + intros e Hne Hpe Hwe. pose proof (Hpend_ne e Hpe) as Hek. rewrite (unwant_other _ _ _ Hek) in Hwe.
      destruct (cT3 e Hne (pend_S k e Hpe) Hwe) as [X Y]. split; [exact X|].
      intros [Hphe [o [Ho Hr]]]. apply Y. split; [exact Hphe|]. exists o. split; [exact Ho|].
      destruct (Hout_same e o Hek Ho) as [E1 E2].
      apply (out_reason_transfer g st0 (W st') (W st)
               (fun z => exists i, In i (nonoo_ins g e) /\ newer_than G0 (W st') z i)
               (fun z => exists i, In i (nonoo_ins g e) /\ newer_than G0 (W st) z i) e o (eq_sym E1) (eq_sym E2)); [|exact Hr].
      intros z [i [Hi Hz]]. exists i. split; [exact Hi|].
      apply (Hnew2 z i (conj (rel_nonoo e i Hne Hi) (X i Hi)) Hz).
    + intros e Hne Hpe Hv Hu Hwe. pose proof (Hpend_ne e Hpe) as Hek. rewrite (unwant_other _ _ _ Hek) in Hwe.
      destruct (cT4 e Hne (pend_S k e Hpe) Hv Hu Hwe) as [X|[Hphe [o [Ho Hr]]]]; [left; exact X|right].
      split; [exact Hphe|]. exists o. split; [exact Ho|]. destruct (Hout_same e o Hek Ho) as [E1 E2].
      apply (out_reason_transfer g st0 (W st) (W st')
               (fun z => exists i, In i (nonoo_ins g e) /\ newer_than G0 (W st) z i)
               (fun z => exists i, In i (nonoo_ins g e) /\ newer_than G0 (W st') z i) e o E1 E2); [|exact Hr].
      intros z [i [Hi Hz]]. exists i. split; [exact Hi|apply (Hmono z i Hz)].
    + intros e o Hne Hphe Hlt Ho. destruct (Nat.eq_dec e k) as [Heq|Hek].
      * subst e. split; [|intros Hd; rewrite (Hflk o Ho) in Hd; discriminate].
        intros _. destruct (Hfs o) as [Hs|[mx [Hx [Hmx _]]]].
        -- left. split; [exact Ho|]. rewrite Hs. apply (proj1 (Hlater o k (o_prod g Hwf k o Ho) (le_n k))).
        -- right. unfold mtime_of. rewrite Hx. lia.
      * assert (Hno : ~ In o (outs k)).
        { intros Hi. pose proof (o_prod g Hwf e o Ho) as H1. rewrite (o_prod g Hwf k o Hi) in H1. congruence. }
        destruct (cP e o Hne Hphe ltac:(lia) Ho) as [X Y]. unfold mtime_of in *. rewrite (proj1 (Hout o Hno)). split.
        -- intros Hd. destruct (X Hd) as [[]|Hf]. right. exact Hf.
        -- exact Y.
  - intros o Ho. destruct (Hlog o Ho) as [_ [_ [mo Hdo]]]. unfold mtime_of. rewrite Hdo. destruct (Hd' o mo _ Hdo). lia.
  - intros Hr o Ho. destruct (Hnr Hr o Ho) as [mo [Hdo Hlt]]. unfold mtime_of. rewrite Hdo. lia.
Qed.

(* the restat loop of FinishCommand *)
Lemma restat_inv k st' x :
  (k < g_nedges g)%nat -> HInv (S k) st' -> ndd k -> phony k = false ->
  (forall o, In o (outs k) -> mtime_of st' o <> 0) ->
  (ei_restat (g_edge g k) = false -> forall o, In o (outs k) -> h_clock st0 < mtime_of st' o) ->
  CInv (S k) st' x [] [] (Qk k st') ->
  exists x', restat_clean (G st') (W st') k x = Some x' /\ CInv (S k) st' x' [] [] noN.
Proof.
  intros Hk HH Hn Hph Hnz Hnr HC. rewrite (G_hash_eq g st0 st' (hi_hash _ _ HH)).
  destruct HG0 as [S0 _].
  assert (Hold : forall o, h_disk st' o = h_disk st0 o -> mtime_of st' o <= h_clock st0).
  { intros o Ho. unfold mtime_of. rewrite Ho. apply (mtime_leF st0 o (proj1 S0) (proj1 (proj2 S0))). }
  unfold restat_clean. change (ei_restat (g_edge G0 k)) with (ei_restat (g_edge g k)).
  destruct (ei_restat (g_edge g k)) eqn:Hr.
  2:{ exists x. split; [reflexivity|]. apply (cinv_weaken_Q (S k) st' x [] [] (Qk k st') noN); [|exact HC].
      intros m [Hm Hd]. specialize (Hnr eq_refl m Hm). specialize (Hold m Hd). lia. }
  change (ei_outs (g_edge G0 k)) with (outs k).
  set (Qos := fun (os : list node) (o : node) => In o os /\ h_disk st' o = h_disk st0 o).
  assert (Hloop : forall os y, incl os (outs k) ->
            CInv (S k) st' y [] [] (Qos os) ->
            exists x', ofold (fun o y0 => if Z.eqb (ns_mtime (nd (c_s y0) o)) (w_mtime (W st') o)
                                          then clean_node G0 (W st') (clean_fuel G0) o y0 else Some y0) os y = Some x' /\
                       CInv (S k) st' x' [] [] noN).
  { induction os as [|o os IH]; intros y Hinc Hy.
    - exists y. split; [reflexivity|]. apply (cinv_weaken_Q (S k) st' y [] [] (Qos []) noN); [intros m [[] _]|exact Hy].
    - cbn [ofold]. assert (Ho : In o (outs k)) by (apply Hinc; left; reflexivity).
      pose proof (rel_out k o Hn Ho) as Hrel. pose proof (o_prod g Hwf k o Ho) as Hpo.
      assert (Hc : ns_mtime (nd (c_s y) o) = mtime_of st0 o).
      { apply (ci_N2 _ _ _ _ _ _ Hy o Hrel). intros e' He'. rewrite Hpo in He'. inversion He'; subst. exact Hph. }
      rewrite Hc. cbn [world_of w_mtime].
      destruct (Z.eqb_spec (mtime_of st0 o) (mtime_of st' o)) as [Heq|Hneq].
      + assert (Hsame : h_disk st' o = h_disk st0 o).
        { destruct (hi_fresh _ _ HH o) as [Hs|[mx [c [Hx Hlt]]]]; [exact Hs|].
          exfalso. pose proof (mtime_leF st0 o (proj1 S0) (proj1 (proj2 S0))). unfold mtime_of in Heq at 2. rewrite Hx in Heq. lia. }
        destruct (clean_node_spec (S k) st' HH (clean_fuel G0) o y [] [] (Qos (o :: os)) k Hy Hrel Hpo) as [y1 [E1 [C1 _]]].
        * unfold clean_fuel. change (g_nedges G0) with (g_nedges g). lia.
        * intros v [].
        * intros z. rewrite Hc, Heq. symmetry. apply (newer_file G0 (W st') z o). exact (Hnz o Ho).
        * left. split; [split; [left; reflexivity|exact Hsame]|]. split; [exact Hph|]. split; [lia|exact Hsame].
        * rewrite E1. apply (IH y1 (fun o' Ho' => Hinc o' (or_intror Ho'))).
          apply (cinv_weaken_Q (S k) st' y1 [] [] (Qminus (Qos (o :: os)) o) (Qos os)); [|exact C1].
          intros m [[[Hm|Hm] Hd] Hne]; [exfalso; apply Hne; symmetry; exact Hm|split; assumption].
      + apply (IH y (fun o' Ho' => Hinc o' (or_intror Ho'))).
        apply (cinv_weaken_Q (S k) st' y [] [] (Qos (o :: os)) (Qos os)); [|exact Hy].
        intros m [[Hm|Hm] Hd]; [|split; assumption].
        exfalso. subst m. apply Hneq. unfold mtime_of. rewrite Hd. reflexivity. }
  apply (Hloop (outs k) x (incl_refl _)). exact HC.
Qed.

Lemma build_upto_f_S s p k st :
  build_upto_f cmd g s p (S k) st = build_step_f cmd g (build_upto_f cmd g s p k st) k.
Proof. unfold build_upto_f. rewrite seq_S, fold_left_app. reflexivity. Qed.

(* one step of the faithful loop: the statement runs iff it is still wanted (and real) *)
Lemma faithful_step k st x : (k < g_nedges g)%nat -> HInv k st -> CInv k st x [] [] noN ->
  exists x', build_step_f cmd g (Some (st, x)) k =
             Some ((if c_want x k && negb (phony k) then run_edge cmd g st k else st), x') /\
             HInv (S k) (if c_want x k && negb (phony k) then run_edge cmd g st k else st) /\
             CInv (S k) (if c_want x k && negb (phony k) then run_edge cmd g st k else st) x' [] [] noN.
Proof.
  intros Hk HH HC. unfold build_step_f, dirty_now_f.
  destruct (c_want x k && negb (phony k))%bool eqn:Hc.
  - apply andb_true_iff in Hc. destruct Hc as [Hw Hph]. apply negb_true_iff in Hph.
    destruct (run_inv k st x Hk HH HC Hw Hph) as [HH' [HC' [Hnz Hnr]]]. cbn zeta in *.
    destruct (ci_Wm _ _ _ _ _ _ HC k Hw) as [Hws _].
    destruct (restat_inv k (run_edge cmd g st k) _ Hk HH' (wanted_ndd k Hws) Hph Hnz Hnr HC') as [x' [E' C']].
    rewrite E'. exists x'. split; [reflexivity|]. split; assumption.
  - exists x. split; [reflexivity|]. split; [apply hinv_skip; exact HH|].
    apply (cinv_skip k st x HH HC). apply andb_false_iff in Hc. destruct Hc as [Hc|Hc]; [left; exact Hc|].
    right. apply negb_false_iff in Hc. exact Hc.
Qed.

Theorem faithful_inv k : (k <= g_nedges g)%nat ->
  exists st x, build_upto_f cmd g s0 p0 k st0 = Some (st, x) /\ HInv k st /\ CInv k st x [] [] noN.
Proof.
  induction k as [|k IH]; intros Hk.
  - exists st0, (init_cst s0 p0). split; [reflexivity|]. split; [apply hinv_init|apply cinv_init].
  - destruct (IH ltac:(lia)) as [st [x [E [HH HC]]]].
    destruct (faithful_step k st x ltac:(lia) HH HC) as [x' [E' [HH' HC']]].
    rewrite build_upto_f_S, E, E'. eexists. exists x'. split; [reflexivity|]. split; assumption.
Qed.

(* ---- with no input-less phony statement the faithful loop IS HistDefs' loop *)
Section Eq.
Hypothesis Hnip : no_inputless_phony g = true.
Notation stk k := (build_upto cmd g p0 k st0).

(* HistMinimal.reeval_accepts / inputs_clean under the weaker invariant *)
Lemma reeval_acceptsF k : (k < g_nedges g)%nat -> want_start p0 k = true ->
  exists s p, scan (G (stk k)) (W (stk k)) (outs k) = ScanOk s p.
Proof.
  intros Hk Hw. destruct (build_inv1F cmd g Hwf Htopo st0 p0 HG0 k ltac:(lia)) as [HGk [Hh [Hf _]]].
  rewrite (G_hash_eq g st0 (stk k) Hh).
  destruct (accepted_facts G0 (W st0) (Gwf0 st0) (Gwg0 st0) (Gfrag0 st0) T s0 p0 Hscan)
    as [HS0 [HR0 [[P0 [P1 [P2 P3]]] HT]]].
  apply want_start_iff in Hw.
  assert (Hwd : wantd p0 k) by (unfold wantd; rewrite Hw; discriminate).
  destruct (P1 k Hwd) as [Hdone _].
  destruct (scan G0 (W (stk k)) (outs k)) as [c|m d|e| |s p] eqn:H.
  - exfalso. apply (C17_no_false_positive G0 (W (stk k)) (outs k)
                      (topo_acyclic G0 (W (stk k)) (Gwg0 st0) (Gfrag0 st0) Htopo) c H).
  - exfalso.
    destruct (scan_missing_sound G0 (W (stk k)) (Gwf0 st0) (Gwg0 st0) (Gfrag0 st0) Htopo (outs k) m d H)
      as [t [Ht [Hc [Hpm Hz]]]].
    assert (Hpt : g_producer g t = Some k) by (apply (o_prod g Hwf k t Ht)).
    apply (chain_not_missing G0 (W st0) (Gwf0 st0) (Gwg0 st0) (Gfrag0 st0) T s0 p0
             (HistMinimal.unready G0 (W (stk k))) Hscan) with (n := t) (m := m).
    + intros e [e' [o [Hde [Ho Hmd]]]] He Hm Hr.
      apply (clean_stable g Hwf Hwg Hfrag st0 (W st0) (W (stk k))
               (frame_clean g Hwf Hwg Hfrag st0 T s0 p0 Hscan k (stk k) Hf) o Hmd).
      intros Hmd0.
      pose proof (unready_notready G0 (W st0) (Gwf0 st0) (Gwg0 st0) s0 HS0 HR0 Hnip
                    e e' Hde He Hm (ex_intro _ o (conj Ho Hmd0))) as Hr'.
      congruence.
    + exact Hc.
    + unfold node_final. change (g_producer G0 t) with (g_producer g t). rewrite Hpt. exact Hdone.
    + unfold post. change (g_producer G0 t) with (g_producer g t). rewrite Hpt.
      intros _. split; [exact Hwd|intros _; exact Hw].
    + change (g_producer G0 t) with (g_producer g t). rewrite Hpt. discriminate.
    + exact Hpm.
    + change (g_producer G0 m) with (g_producer g m) in Hpm.
      cbn [world_of w_mtime] in *. unfold mtime_of in *.
      rewrite <- (frame_leaf g st0 p0 k (stk k) m Hf Hpm). exact Hz.
  - exfalso. unfold scan in H.
    apply (add_targets_no_loaderr G0 (W (stk k)) (Gwf0 st0) (Gwg0 st0) (Gfrag0 st0) (outs k)
             (init_state G0) init_plan e H (SInv_init G0 (W (stk k)))).
  - exfalso. apply (scan_fuel_sufficient G0 (W (stk k)) (Gwg0 st0) (outs k) H).
  - exists s, p. reflexivity.
Qed.

Lemma inputs_cleanF k : (k < g_nedges g)%nat -> ndd k ->
  forall i, In i (nonoo_ins g k) -> ~ must_dirty G0 (W (stk k)) i.
Proof.
  intros Hk [n [Rn Hpn]] i Hi Hmd.
  destruct (build_inv1F cmd g Hwf Htopo st0 p0 HG0 k ltac:(lia)) as [_ [_ [Hf _]]].
  destruct (g_producer g i) as [e'|] eqn:Hpi.
  - pose proof (in_below g Htopo k i Hk (nonoo_in g k i Hi)) as Hlt. unfold below in Hlt. rewrite Hpi in Hlt.
    assert (Hn' : needed g T e').
    { exists i. split; [|exact Hpi]. apply (reach_step g (manifest_ins g) T n i Rn).
      exists k. split; [exact Hpn|apply nonoo_in; exact Hi]. }
    apply (build_inv_c02F cmd g Hwf Hwg Hfrag Htopo st0 T s0 p0 HG0 Hscan k Hnip ltac:(lia) e' Hlt Hn' i
             (p_out g Hwf i e' Hpi) Hmd).
  - pose proof (must_dirty_leaf_inv G0 (W (stk k)) i Hmd Hpi) as Hz.
    cbn [world_of w_mtime] in Hz. unfold mtime_of in Hz. rewrite (frame_leaf g st0 p0 k (stk k) i Hf Hpi) in Hz.
    assert (Hmd0 : must_dirty G0 (W st0) n).
    { apply (md_input G0 (W st0) n k i Hpn).
      - rewrite (spec_ins_AB g Hfrag st0 (W st0) k Hk). exact Hi.
      - apply md_leaf; [exact Hpi|exact Hz]. }
    destruct (want_complete g Hwf Hwg Hfrag st0 T s0 p0 Hscan k (ex_intro _ n (conj Rn Hpn))
                (ex_intro _ n (conj (p_out g Hwf n k Hpn) Hmd0)) (nip_edge g k Hnip Hk)) as [_ Hl].
    apply (Hl i (nonoo_in g k i Hi) Hpi). unfold mtime_of. exact Hz.
Qed.

(* an input that still carries the flag when the consumer's turn comes is newer than anything
   recorded before this invocation *)
Lemma flag_hot k st x : HInv k st -> CInv k st x [] [] noN ->
  forall e, ndd e -> want_start p0 e = true ->
  forall i, In i (nonoo_ins g e) -> Fl x i = true -> below g k i ->
  forall z, z <= h_clock st0 -> newer_than G0 (W st) z i.
Proof.
  intros HH HC. induction e as [e IH] using lt_wf_ind. intros Hn Hws i Hi Hd Hb z Hz.
  pose proof (ndd_lt e Hn) as He. pose proof (rel_nonoo e i Hn Hi) as Hrel.
  destruct (g_producer g i) as [e'|] eqn:Hpi.
  - assert (Hlt : (e' < e)%nat).
    { pose proof (in_below g Htopo e i He (nonoo_in g e i Hi)) as Hx. unfold below in Hx. rewrite Hpi in Hx. exact Hx. }
    assert (Hk' : (e' < k)%nat) by (unfold below in Hb; rewrite Hpi in Hb; exact Hb).
    assert (Hn' : ndd e') by (unfold rel in Hrel; rewrite Hpi in Hrel; exact Hrel).
    destruct (phony e') eqn:Hph.
    + assert (Hne : ei_ins (g_edge g e') <> []).
      { intros Hnil. apply (nip_edge g e' Hnip (ndd_lt e' Hn')). split; assumption. }
      assert (Hpe : pend k e') by (left; split; assumption).
      assert (Hw : c_want x e' = true).
      { destruct (c_want x e') eqn:Hw; [reflexivity|].
        rewrite (ci_T1 _ _ _ _ _ _ HC e' i Hn' Hpe Hw (p_out g Hwf i e' Hpi)) in Hd. discriminate. }
      destruct (ci_T4 _ _ _ _ _ _ HC e' Hn' Hpe (fun F => F) (fun F => F) Hw) as [[i' [Hi' Hd']]|[Hf _]]; [|congruence].
      apply (nt_phony G0 (W st) z i e' i'); [| exact Hpi|exact Hph|exact Hi'|].
      * destruct (hi_good _ _ HH) as [[_ [_ [_ [D _]]]] _]. cbn [world_of w_mtime]. unfold mtime_of.
        rewrite (D i e' Hpi Hph). reflexivity.
      * apply (IH e' Hlt Hn' (proj1 (ci_Wm _ _ _ _ _ _ HC e' Hw)) i' Hi' Hd'); [|exact Hz].
        apply (below_mono g e' k i'); [lia|]. apply (in_below g Htopo e' i' (ndd_lt e' Hn') (nonoo_in g e' i' Hi')).
    + destruct (proj1 (ci_P _ _ _ _ _ _ HC e' i Hn' Hph Hk' (p_out g Hwf i e' Hpi)) Hd) as [[]|Hf].
      apply nt_file; cbn [world_of w_mtime]; [|lia].
      destruct HG0 as [[A0 _] _]. lia.
  - exfalso.
    destruct (want_sound g Hwf Hwg Hfrag st0 T s0 p0 Hscan e Hws) as [_ Hmd].
    destruct (want_complete g Hwf Hwg Hfrag st0 T s0 p0 Hscan e Hn Hmd (nip_edge g e Hnip He)) as [_ Hl].
    apply (Hl i (nonoo_in g e i Hi) Hpi). apply (ci_L _ _ _ _ _ _ HC i Hrel Hpi). exact Hd.
Qed.

Lemma decision k x : (k < g_nedges g)%nat -> HInv k (stk k) -> CInv k (stk k) x [] [] noN -> phony k = false ->
  c_want x k = (want_start p0 k && dirty_now g (stk k) k)%bool.
Proof.
  intros Hk HH HC Hph. set (st := stk k) in *.
  assert (HGeq : G st = G0) by (apply G_hash_eq; apply (hi_hash _ _ HH)).
  assert (Hpk : pend k k) by (right; split; [exact Hph|lia]).
  destruct (c_want x k) eqn:Hw.
  - destruct (ci_Wm _ _ _ _ _ _ HC k Hw) as [Hws _]. rewrite Hws. cbn [andb]. symmetry.
    pose proof (wanted_ndd k Hws) as Hn.
    assert (Hown : OWNx (W st) k).
    { destruct (ci_T4 _ _ _ _ _ _ HC k Hn Hpk (fun F => F) (fun F => F) Hw) as [[i [Hi Hd]]|Ho]; [|exact Ho].
      split; [exact Hph|]. destruct (ndd_out k Hn) as [o [Ho Hpo]]. exists o. split; [exact Ho|].
      destruct (hi_later _ _ HH o k Hpo (le_n k)) as [Ed Eb].
      destruct HG0 as [[A0 [B0 [C0 [D0 E0]]]] _].
      destruct (h_disk st0 o) as [[mo c]|] eqn:Hd0.
      - destruct (h_blog st0 o) as [[h m]|] eqn:Hb0.
        2:{ (* a tainted output without log entry (GoodF): "older than an input" *)
            right. left. split.
            - unfold used_restat. cbn [world_of w_blog]. rewrite Eb. apply andb_false_r.
            - exists i. split; [exact Hi|].
              apply (flag_hot k st x HH HC k Hn Hws i Hi Hd (in_below g Htopo k i Hk (nonoo_in g k i Hi))).
              cbn [world_of w_mtime]. unfold mtime_of. rewrite Ed. destruct (B0 o mo c Hd0). lia. }
        right. right. cbn [world_of w_blog]. rewrite Eb. exists i. split; [exact Hi|].
        apply (flag_hot k st x HH HC k Hn Hws i Hi Hd (in_below g Htopo k i Hk (nonoo_in g k i Hi))).
        apply (C0 o h m Hb0).
      - left. left. cbn [world_of w_mtime]. unfold mtime_of. rewrite Ed. reflexivity. }
    destruct (own_md (W st) k Hk Hown) as [o [Ho Hmd]].
    unfold dirty_now. rewrite HGeq.
    destruct (scan G0 (W st) (outs k)) as [c|m d|e'| |s p] eqn:Hs; try reflexivity.
    apply existsb_exists. exists o. split; [exact Ho|].
    assert (Hr : reach G0 (outs k) o) by (apply reach_target; exact Ho).
    apply (proj1 (scan_reach_ok G0 (W st) (Gwf0 st0) (Gwg0 st0) (Gfrag0 st0) (outs k) s p Hs o Hr)). exact Hmd.
  - destruct (want_start p0 k) eqn:Hws; [|reflexivity]. cbn [andb]. symmetry.
    pose proof (wanted_ndd k Hws) as Hn.
    destruct (reeval_acceptsF k Hk Hws) as [s [p Hs]].
    fold st in Hs. unfold dirty_now. rewrite Hs.
    destruct (existsb (fun o => ns_dirty (nd s o)) (outs k)) eqn:Hex; [exfalso|reflexivity].
    apply existsb_exists in Hex. destruct Hex as [o [Ho Hd]].
    assert (Hr : reach (G st) (outs k) o) by (apply reach_target; exact Ho).
    pose proof (proj1 (proj1 (scan_reach_ok (G st) (W st) (Gwf0 st) (Gwg0 st) (Gfrag0 st) (outs k) s p Hs o Hr)) Hd) as Hmd.
    rewrite HGeq in Hmd.
    destruct (md_cases (W st) k o Hk Ho Hmd) as [[i [Hi Hdi]]|[Hip|Hown]].
    + apply (inputs_cleanF k Hk Hn i Hi Hdi).
    + destruct Hip as [Hp' _]. congruence.
    + apply (proj2 (ci_T3 _ _ _ _ _ _ HC k Hn Hpk Hw) Hown).
Qed.

Lemma faithful_eq k : (k <= g_nedges g)%nat ->
  exists x, build_upto_f cmd g s0 p0 k st0 = Some (stk k, x) /\ HInv k (stk k) /\ CInv k (stk k) x [] [] noN.
Proof.
  induction k as [|k IH]; intros Hk.
  - exists (init_cst s0 p0). split; [reflexivity|]. split; [apply hinv_init|apply cinv_init].
  - destruct (IH ltac:(lia)) as [x [E [HH HC]]].
    destruct (faithful_step k (stk k) x ltac:(lia) HH HC) as [x' [E' [HH' HC']]].
    assert (Hsame : (if (c_want x k && negb (phony k))%bool then run_edge cmd g (stk k) k else stk k) = stk (S k)).
    { rewrite build_upto_S. unfold build_step. destruct (phony k) eqn:Hph.
      - rewrite !andb_false_r. reflexivity.
      - rewrite (decision k x ltac:(lia) HH HC Hph). cbn [negb]. rewrite !andb_true_r. reflexivity. }
    rewrite Hsame in *. exists x'. rewrite build_upto_f_S, E, E'. split; [reflexivity|]. split; assumption.
Qed.

End Eq.
End Build.

(* the prefix theorem: as long as nothing fails, the faithful loop is in the state of
   HistDefs.build_upto, and the statement whose turn it is is still wanted iff HistDefs.build
   would start it *)
Theorem build_upto_f_eq st T s p k :
  GoodF cmd g st -> no_inputless_phony g = true -> scan (G st) (W st) T = ScanOk s p ->
  (k <= g_nedges g)%nat ->
  exists x, build_upto_f cmd g s p k st = Some (build_upto cmd g p k st, x) /\
            ((k < g_nedges g)%nat -> starts_f g x k = starts g p (build_upto cmd g p k st) k).
Proof.
  intros HG Hnip Hs Hk. destruct (faithful_eq st T s p HG Hs Hnip k Hk) as [x [E [HH HC]]].
  exists x. split; [exact E|]. intros Hlt. unfold starts_f, starts, dirty_now_f.
  destruct (phony k) eqn:Hph.
  - cbn [negb]. rewrite !andb_false_r. reflexivity.
  - rewrite (decision st T s p HG Hs Hnip k x Hlt HH HC Hph). cbn [negb]. rewrite !andb_true_r. reflexivity.
Qed.

End Faith.
End GF.

(* ================================================================== Part B *)
Section FailFaith.
Variable cmd : edge -> N -> snapshot -> node -> content.
Variable g : graph.
Hypothesis Hwf : wf_spec g.
Hypothesis Hwg : wf_graph g.
Hypothesis Hfrag : frag_AB g = true.
Hypothesis Htopo : topo_ordered g = true.
Hypothesis Hnip : no_inputless_phony g = true.

Notation G st := (graph_of g st).
Notation W st := (world_of st).
Notation phony e := (ei_phony (g_edge g e)).

Lemma upto_eq st T s p k :
  GoodF cmd g st -> scan (G st) (W st) T = ScanOk s p -> (k <= g_nedges g)%nat ->
  exists x, build_upto_f cmd g s p k st = Some (build_upto cmd g p k st, x) /\
            ((k < g_nedges g)%nat -> starts_f g x k = starts g p (build_upto cmd g p k st) k).
Proof. intros HG Hs Hk. exact (GF.build_upto_f_eq cmd g Hwf Hwg Hfrag Htopo st T s p k HG Hnip Hs Hk). Qed.

(* ---- successful invocations from states with tainted outputs *)
Theorem build_f_eq_buildF st T : GoodF cmd g st -> build_f cmd g st T = build cmd g st T.
Proof.
  intros HG. unfold build_f, build.
  destruct (scan (G st) (W st) T) as [c|m d|e| |s p] eqn:Hs; try reflexivity.
  destruct (upto_eq st T s p (g_nedges g) HG Hs (le_n _)) as [x [E _]]. rewrite E. reflexivity.
Qed.

Lemma apply_step_f_eqF st x : GoodF cmd g st -> apply_step_f cmd g st x = apply_step cmd g st x.
Proof.
  intros HG. destruct x as [n c|n|e h|T]; try reflexivity.
  cbn [apply_step_f apply_step]. rewrite (build_f_eq_buildF st T HG). reflexivity.
Qed.

(* ---- an invocation in which a command fails *)
Lemma build_uptoF_f_S fs s p k st :
  build_uptoF_f cmd g fs s p (S k) st = build_stepF_f cmd g fs (build_uptoF_f cmd g fs s p k st) k.
Proof. unfold build_uptoF_f. rewrite seq_S, fold_left_app. reflexivity. Qed.

Lemma build_uptoF_f_eq st T s p fs :
  GoodF cmd g st -> scan (G st) (W st) T = ScanOk s p ->
  forall k, (k <= g_nedges g)%nat ->
  exists x, build_uptoF_f cmd g fs s p k st =
              Some (fst (build_uptoF cmd g fs p k st), x, snd (build_uptoF cmd g fs p k st)) /\
            (snd (build_uptoF cmd g fs p k st) = None ->
             fst (build_uptoF cmd g fs p k st) = build_upto cmd g p k st /\
             build_upto_f cmd g s p k st = Some (build_upto cmd g p k st, x)).
Proof.
  intros HG Hs. induction k as [|k IH]; intros Hk.
  - exists (init_cst s p). split; [reflexivity|]. intros _. split; reflexivity.
  - destruct (IH ltac:(lia)) as [x [E HN]].
    rewrite (build_uptoF_S cmd g fs p k st), build_uptoF_f_S, E.
    destruct (build_uptoF cmd g fs p k st) as [stc [r|]] eqn:Hacc; cbn [fst snd] in *.
    + exists x. split; [reflexivity|]. intros H; discriminate.
    + destruct (HN eq_refl) as [Hst Ef]. subst stc.
      destruct (upto_eq st T s p k HG Hs ltac:(lia)) as [x' [E' D']].
      rewrite Ef in E'. inversion E'; subst x'. specialize (D' ltac:(lia)).
      unfold build_stepF, build_stepF_f.
      change (dirty_now_f x k && negb (phony k))%bool with (starts_f g x k).
      change (want_start p k && negb (phony k) && dirty_now g (build_upto cmd g p k st) k)%bool
        with (starts g p (build_upto cmd g p k st) k).
      rewrite D'.
      assert (HS : build_upto_f cmd g s p (S k) st = build_step_f cmd g (Some (build_upto cmd g p k st, x)) k).
      { rewrite (build_upto_f_S cmd g s p k st), Ef. reflexivity. }
      destruct (starts g p (build_upto cmd g p k st) k) eqn:Hst.
      * destruct (fault_of fs k) as [kd|].
        -- exists x. split; [reflexivity|]. intros H; discriminate.
        -- destruct (upto_eq st T s p (S k) HG Hs Hk) as [x2 [E2 _]].
           rewrite <- HS, E2.
           assert (Hrun : build_upto cmd g p (S k) st = run_edge cmd g (build_upto cmd g p k st) k).
           { rewrite build_upto_S. unfold build_step. unfold starts in Hst. rewrite Hst. reflexivity. }
           exists x2. cbn [fst snd]. rewrite <- Hrun. split; [reflexivity|]. intros _. split; [reflexivity|first [exact E2|reflexivity]].
      * exists x. split; [reflexivity|]. intros _. cbn [fst snd].
        assert (Hsame : build_upto cmd g p (S k) st = build_upto cmd g p k st).
        { rewrite build_upto_S. unfold build_step. unfold starts in Hst. rewrite Hst. reflexivity. }
        rewrite Hsame. split; [reflexivity|].
        rewrite HS. unfold build_step_f.
        change (dirty_now_f x k && negb (phony k))%bool with (starts_f g x k). rewrite D'. reflexivity.
Qed.

Theorem buildF_full_f_eq st T fs :
  GoodF cmd g st -> buildF_full_f cmd g st T fs = buildF_full cmd g st T fs.
Proof.
  intros HG. unfold buildF_full_f, buildF_full.
  destruct (scan (G st) (W st) T) as [c|m d|e| |s p] eqn:Hs; try reflexivity.
  destruct (build_uptoF_f_eq st T s p fs HG Hs (g_nedges g) (le_n _)) as [x [E _]]. rewrite E.
  destruct (build_uptoF cmd g fs p (g_nedges g) st) as [st' r]. reflexivity.
Qed.

Theorem buildF_f_eq st T fs : GoodF cmd g st -> buildF_f cmd g st T fs = buildF cmd g st T fs.
Proof. intros HG. unfold buildF_f, buildF. rewrite (buildF_full_f_eq st T fs HG). reflexivity. Qed.

Lemma apply_fstep_f_eq st s : GoodF cmd g st -> apply_fstep_f cmd g st s = apply_fstep cmd g st s.
Proof.
  intros HG. destruct s as [x|T fs]; cbn [apply_fstep_f apply_fstep].
  - apply apply_step_f_eqF. exact HG.
  - rewrite (buildF_f_eq st T fs HG). reflexivity.
Qed.

Theorem run_fhist_f_eq : forall h st,
  GoodF cmd g st -> fhist_ok g h = true -> run_fhist_f cmd g st h = run_fhist cmd g st h.
Proof.
  induction h as [|x h IH]; intros st HG Hok; [reflexivity|].
  cbn [fhist_ok forallb] in Hok. apply andb_true_iff in Hok. destruct Hok as [Hx Hh].
  change (run_fhist_f cmd g st (x :: h)) with (run_fhist_f cmd g (apply_fstep_f cmd g st x) h).
  change (run_fhist cmd g st (x :: h)) with (run_fhist cmd g (apply_fstep cmd g st x) h).
  rewrite (apply_fstep_f_eq st x HG). apply IH; [|exact Hh].
  apply (goodF_step_proof cmd g Hwf Htopo st x HG Hx).
Qed.

(* ---- killed and interrupted invocations *)
Theorem buildK_full_f_eq st T cp :
  GoodK cmd g st -> buildK_full_f cmd g st T cp = buildK_full cmd g st T cp.
Proof.
  intros HG. unfold buildK_full_f, buildK_full.
  destruct (scan (G st) (W st) T) as [c|m d|e| |s p] eqn:Hs; try reflexivity.
  unfold buildK_at_f, buildK_at. destruct (Nat.ltb (cp_pos cp) (g_nedges g)) eqn:Hlt.
  - apply Nat.ltb_lt in Hlt.
    destruct (upto_eq st T s p (cp_pos cp) HG Hs ltac:(lia)) as [x [E D]]. rewrite E, (D Hlt).
    destruct (starts g p (build_upto cmd g p (cp_pos cp) st) (cp_pos cp)); reflexivity.
  - destruct (upto_eq st T s p (g_nedges g) HG Hs (le_n _)) as [x [E _]]. rewrite E. reflexivity.
Qed.

Theorem buildK_f_eq st T cp : GoodK cmd g st -> buildK_f cmd g st T cp = buildK cmd g st T cp.
Proof. intros HG. unfold buildK_f, buildK. rewrite (buildK_full_f_eq st T cp HG). reflexivity. Qed.

Theorem buildI_full_f_eq st T ip :
  GoodK cmd g st -> buildI_full_f cmd g st T ip = buildI_full cmd g st T ip.
Proof.
  intros HG. unfold buildI_full_f, buildI_full.
  destruct (scan (G st) (W st) T) as [c|m d|e| |s p] eqn:Hs; try reflexivity.
  unfold buildI_at_f, buildI_at.
  destruct (upto_eq st T s p (g_nedges g) HG Hs (le_n _)) as [xn [En _]]. rewrite En.
  destruct (Nat.ltb (ip_pos ip) (g_nedges g)) eqn:Hlt; [|reflexivity].
  apply Nat.ltb_lt in Hlt.
  destruct (upto_eq st T s p (ip_pos ip) HG Hs ltac:(lia)) as [x [E D]]. rewrite E, (D Hlt).
  destruct (starts g p (build_upto cmd g p (ip_pos ip) st) (ip_pos ip)); reflexivity.
Qed.

Theorem buildI_f_eq st T ip : GoodK cmd g st -> buildI_f cmd g st T ip = buildI cmd g st T ip.
Proof. intros HG. unfold buildI_f, buildI. rewrite (buildI_full_f_eq st T ip HG). reflexivity. Qed.

Lemma apply_kstep_f_eq st s : GoodK cmd g st -> apply_kstep_f cmd g st s = apply_kstep cmd g st s.
Proof.
  intros HG. destruct s as [x|T cp|T ip]; cbn [apply_kstep_f apply_kstep].
  - apply apply_fstep_f_eq. exact HG.
  - rewrite (buildK_f_eq st T cp HG). reflexivity.
  - rewrite (buildI_f_eq st T ip HG). reflexivity.
Qed.

Theorem run_khist_f_eq : forall h st,
  GoodK cmd g st -> khist_ok g h = true -> run_khist_f cmd g st h = run_khist cmd g st h.
Proof.
  induction h as [|x h IH]; intros st HG Hok; [reflexivity|].
  cbn [khist_ok forallb] in Hok. apply andb_true_iff in Hok. destruct Hok as [Hx Hh].
  change (run_khist_f cmd g st (x :: h)) with (run_khist_f cmd g (apply_kstep_f cmd g st x) h).
  change (run_khist cmd g st (x :: h)) with (run_khist cmd g (apply_kstep cmd g st x) h).
  rewrite (apply_kstep_f_eq st x HG). apply IH; [|exact Hh].
  apply (goodK_step_proof cmd g Hwf Htopo st x HG Hx).
Qed.

(* ---- the theorems of HistFailProofs / HistCrashProofs, for the faithful loops *)
Theorem C05_exit_failed_f st T fs st' failed :
  GoodF cmd g st -> buildF_f cmd g st T fs = Some (st', failed) ->
  (failed = false ->
     build_f cmd g st T = Some st' /\ (forall e, In e (HistFailDefs.trace_delta st st') -> fault_of fs e = None)) /\
  (failed = true ->
     exists e kd rest, HistFailDefs.trace_delta st st' = e :: rest /\ fault_of fs e = Some kd /\
                       (forall e', In e' rest -> fault_of fs e' = None)).
Proof.
  intros HG Hb. rewrite (buildF_f_eq st T fs HG) in Hb. rewrite (build_f_eq_buildF st T HG).
  exact (C05_exit_failed_proof cmd g Hwf Htopo st T fs st' failed HG Hb).
Qed.

Theorem C05_failed_not_recorded_f st T fs st' :
  GoodF cmd g st -> buildF_f cmd g st T fs = Some (st', true) ->
  exists e rest,
    HistFailDefs.trace_delta st st' = e :: rest /\ fault_of fs e <> None /\
    (forall o, In o (ei_outs (g_edge g e)) -> h_blog st' o = h_blog st o) /\
    (forall n, h_blog st' n = h_blog st n \/
               exists j, g_producer g n = Some j /\ In j rest /\ fault_of fs j = None).
Proof.
  intros HG Hb. rewrite (buildF_f_eq st T fs HG) in Hb.
  exact (C05_failed_not_recorded_proof cmd g Hwf Htopo st T fs st' HG Hb).
Qed.

Theorem C01F_history_f h T st' :
  (forall e h1 h2 S o, ei_generator (g_edge g e) = true -> cmd e h1 S o = cmd e h2 S o) ->
  fhist_ok g h = true -> taint_safe g (run_fhist_f cmd g (init_hstate g) h) = true ->
  build_f cmd g (run_fhist_f cmd g (init_hstate g) h) T = Some st' ->
  forall n, reach g T n -> content_of st' n = clean_of cmd g st' n.
Proof.
  intros Hgen Hok Hts Hb.
  pose proof (goodF_init_proof cmd g) as HG0.
  rewrite (run_fhist_f_eq h _ HG0 Hok) in Hts, Hb.
  rewrite (build_f_eq_buildF _ T (goodF_hist_proof cmd g Hwf Htopo h _ HG0 Hok)) in Hb.
  exact (C01F_history_proof cmd g Hwf Hwg Hfrag Htopo Hgen h T st' Hok Hts Hb).
Qed.

Theorem C07_kill_recovery_f h T st' :
  (forall e h1 h2 S o, ei_generator (g_edge g e) = true -> cmd e h1 S o = cmd e h2 S o) ->
  khist_ok g h = true -> taint_safe g (run_khist_f cmd g (init_hstate g) h) = true ->
  build_f cmd g (run_khist_f cmd g (init_hstate g) h) T = Some st' ->
  forall n, reach g T n -> content_of st' n = clean_of cmd g st' n.
Proof.
  intros Hgen Hok Hts Hb.
  pose proof (goodK_init_proof cmd g) as HG0.
  rewrite (run_khist_f_eq h _ HG0 Hok) in Hts, Hb.
  rewrite (build_f_eq_buildF _ T (goodK_hist_proof cmd g Hwf Htopo h _ HG0 Hok)) in Hb.
  exact (C07_kill_recovery_proof cmd g Hwf Hwg Hfrag Htopo Hgen h T st' Hok Hts Hb).
Qed.

Theorem C07_kill_then_build_f st T cp st1 r T' st2 :
  (forall e h1 h2 S o, ei_generator (g_edge g e) = true -> cmd e h1 S o = cmd e h2 S o) ->
  GoodK cmd g st -> taint_robust g st = true ->
  buildK_full_f cmd g st T cp = Some (st1, r) ->
  match r with Some (e, a, stk) => kill_benign g stk e a = true | None => True end ->
  build_f cmd g st1 T' = Some st2 ->
  forall n, reach g T' n -> content_of st2 n = clean_of cmd g st2 n.
Proof.
  intros Hgen HG Htr Hk Hben Hb. rewrite (buildK_full_f_eq st T cp HG) in Hk.
  assert (HG1 : GoodK cmd g st1).
  { apply (goodK_buildK_proof cmd g Hwf Htopo st T cp st1 HG). unfold buildK. rewrite Hk. reflexivity. }
  rewrite (build_f_eq_buildF st1 T' HG1) in Hb.
  exact (C07_kill_then_build_proof cmd g Hwf Hwg Hfrag Htopo Hgen st T cp st1 r T' st2 HG Htr Hk Hben Hb).
Qed.

Theorem C07_interrupt_then_build_f st T ip st1 code T' st2 :
  (forall e h1 h2 S o, ei_generator (g_edge g e) = true -> cmd e h1 S o = cmd e h2 S o) ->
  GoodK cmd g st -> taint_robust g st = true ->
  buildI_f cmd g st T ip = Some (st1, code) -> build_f cmd g st1 T' = Some st2 ->
  forall n, reach g T' n -> content_of st2 n = clean_of cmd g st2 n.
Proof.
  intros Hgen HG Htr Hi Hb. rewrite (buildI_f_eq st T ip HG) in Hi.
  pose proof (goodK_buildI_proof cmd g Hwf Htopo st T ip st1 code HG Hi) as HG1.
  rewrite (build_f_eq_buildF st1 T' HG1) in Hb.
  exact (C07_interrupt_then_build_proof cmd g Hwf Hwg Hfrag Htopo Hgen st T ip st1 code T' st2 HG Htr Hi Hb).
Qed.

End FailFaith.
