(* Proofs about the history model with killed and interrupted invocations (HistCrashDefs.v): C07 at
   history level.  No axioms.
   Part A: what one killed command / Builder::Cleanup does ([kill_wrote_spec], [kill_logged_spec],
           [cleanup_outs_spec], [kill_edge_spec]).
   Part B: GoodK (= GoodF of HistFailDefs) is kept by a kill at every crash point and by an interrupt
           ([goodF_kill_edge], [goodF_intr_edge], [goodK_buildK_proof], [goodK_buildI_proof],
           [goodK_step_proof], [goodK_hist_proof]).
   Part C: benign kills keep "no tainted output is validated by an old log entry"
           ([taintok_kill_edge], [taintok_intr_edge], [invK_step], [invK_hist]).
   Part D: recovery: [C07_kill_recovery_proof] (hypothesis [taint_safe] on the state ninja is
           started in), [C07_kill_recovery_benign_proof], [C07_kill_then_build_proof].
   Part E: the killed statement is run again when the log gives a reason
           ([C07_killed_statement_reruns_proof], [C07_partial_log_entries_proof]).
   Part F: interrupts: [C07_interrupt_cleanup_hist_proof], [good_buildI_proof] (even HistDefs.Good is
           kept), [C07_interrupt_recovery_proof] (no side condition).
   Part G: convergence after ANY accepted build from a GoodK state ([C02F_converges_proof],
           [C07_converges_after_recovery_proof]).
   Part H: the statement-level hypothesis [taint_safe_stmt] (ninja's dirty test is per statement):
           [scan_clean_correctT], [C01S_build], [C07_kill_recovery_stmt_proof],
           [taint_safe_stmt_weaker_proof]; conservativity ([buildK_after_last_proof],
           [kill_after_last_entry_proof]); [kill_benign_no_entry_proof].
   After the section: the refutation by computation ([C07_kill_recovery_refuted_proof]: the kill
   variant of the listed finding failed-cmd-rewrote-output) and the non-vacuity witnesses. *)
From NinjaV Require Import Engine.CrashDefs.
From NinjaV Require Import Base.Bytes Engine.ScanDefs Engine.ScanSpec Engine.ScanProofs Engine.HistDefs Engine.HistProofs Engine.HistFailDefs Engine.HistFailProofs Engine.HistCrashDefs.
Local Open Scope Z_scope.

Lemma firstn_incl {A : Type} (k : nat) (l : list A) : incl (firstn k l) l.
Proof.
  revert l. induction k as [|k IH]; intros l x Hx; [destruct Hx|].
  destruct l as [|y l]; [destruct Hx|]. cbn [firstn] in Hx.
  destruct Hx as [<-|Hx]; [left; reflexivity|right; apply IH; exact Hx].
Qed.

Section HistK.
Variable cmd : edge -> N -> snapshot -> node -> content.
Variable g : graph.
Hypothesis Hwf : wf_spec g.
Hypothesis Hwg : wf_graph g.
Hypothesis Hfrag : frag_AB g = true.
Hypothesis Htopo : topo_ordered g = true.
Hypothesis Hgen : forall e h h' S o,
  ei_generator (g_edge g e) = true -> cmd e h S o = cmd e h' S o.

Notation G st := (graph_of g st).
Notation W st := (world_of st).
Notation outs e := (ei_outs (g_edge g e)).
Notation phony e := (ei_phony (g_edge g e)).

Lemma same_prod e e' o : In o (outs e) -> In o (outs e') -> e' = e.
Proof.
  intros H H'. pose proof (o_prod g Hwf e o H) as P. rewrite (o_prod g Hwf e' o H') in P. congruence.
Qed.

(* ================================================================== Part A: one killed command *)
Lemma kill_wrote_spec st e k f :
  0 <= h_clock st -> (forall n m c, h_disk st n = Some (m, c) -> 0 < m <= h_clock st) ->
  let ws := firstn k (outs e) in
  let st' := kill_wrote g st e k f in
  h_blog st' = h_blog st /\ h_hash st' = h_hash st /\ h_trace st' = e :: h_trace st /\
  h_clock st < h_clock st' /\
  (forall n m c, h_disk st' n = Some (m, c) -> 0 < m <= h_clock st') /\
  (forall n, ~ In n ws -> h_disk st' n = h_disk st n /\ h_ghost st' n = h_ghost st n) /\
  Chg st st' /\
  (forall o, In o ws ->
     h_ghost st' o = None /\ exists m, h_disk st' o = Some (m, f o) /\ h_clock st + 1 < m).
Proof.
  intros Hc Hd. cbn zeta. unfold kill_wrote.
  destruct (write_outs_spec false f (firstn k (outs e)) (tick st)) as [B [Hh [Gh [Tr [C [D [E [_ K]]]]]]]].
  cbn zeta in *. set (ws := firstn k (outs e)) in *. set (st2 := write_outs false f ws (tick st)) in *.
  cbn [push_trace forget_ghost h_blog h_hash h_trace h_clock h_disk h_ghost].
  cbn [tick h_blog h_hash h_trace h_clock h_disk h_ghost] in *.
  split; [exact B|]. split; [exact Hh|]. split; [rewrite Tr; reflexivity|]. split; [lia|].
  split; [|split; [|split]].
  - intros n m c Hn. destruct (E n) as [En|[m1 [Em [Hm _]]]].
    + rewrite En in Hn. specialize (Hd n m c Hn). lia.
    + rewrite Em in Hn. inversion Hn; subst. lia.
  - intros n Hn. split; [apply D; exact Hn|]. rewrite (mem_node_false n _ Hn), Gh. reflexivity.
  - intros n. destruct (E n) as [En|[m1 [Em [Hm _]]]]; [left; exact En|].
    right; right. exists m1, (f n). split; [exact Em|lia].
  - intros o Ho. rewrite (proj2 (mem_node_In o _) Ho). split; [reflexivity|].
    destruct (K eq_refl o Ho) as [m [Em Hm]]. exists m. split; [exact Em|lia].
Qed.

Lemma kill_logged_spec st e j :
  0 <= h_clock st -> (forall n m c, h_disk st n = Some (m, c) -> 0 < m <= h_clock st) ->
  let st' := kill_logged cmd g st e j in
  let h := h_hash st e in
  let S := reads g st e in
  let t0 := h_clock st + 1 in
  h_hash st' = h_hash st /\ t0 <= h_clock st' /\ h_trace st' = e :: h_trace st /\
  (forall n, ~ In n (outs e) ->
     h_disk st' n = h_disk st n /\ h_blog st' n = h_blog st n /\ h_ghost st' n = h_ghost st n) /\
  fresh_or_same st st' t0 (cmd e h S) (outs e) /\
  (forall n m c, h_disk st' n = Some (m, c) -> 0 < m <= h_clock st') /\
  (forall o, In o (outs e) -> exists mo, h_disk st' o = Some (mo, cmd e h S o)) /\
  (exists m, t0 <= m <= h_clock st' /\
     forall o, In o (logged_outs g e j) -> h_blog st' o = Some (h, m) /\ h_ghost st' o = Some S) /\
  (forall o, In o (outs e) -> ~ In o (logged_outs g e j) ->
     h_blog st' o = h_blog st o /\
     h_ghost st' o = if same_hash_entry st h o then Some S else None).
Proof.
  intros Hc Hd. cbn zeta. unfold kill_logged.
  destruct (write_outs_spec (ei_restat (g_edge g e)) (cmd e (h_hash st e) (reads g st e)) (outs e) (tick st))
    as [B [Hh [Gh [Tr [C [D [E [F _]]]]]]]]. cbn zeta in *.
  set (h := h_hash st e) in *. set (S := reads g st e) in *.
  set (st2 := write_outs (ei_restat (g_edge g e)) (cmd e h S) (outs e) (tick st)) in *.
  set (m := CrashDefs.record_mtime (crash_cfg (g_edge g e) h) (h_clock (tick st))
              (map (orec_of st) (outs e)) (map (orec_of st2) (outs e))).
  assert (Hd2 : forall n m0 c, h_disk st2 n = Some (m0, c) -> 0 < m0 <= h_clock st2).
  { intros n m0 c Hn. destruct (E n) as [En|[m1 [Em [Hm _]]]].
    - rewrite En in Hn. cbn [tick h_disk h_clock] in *. specialize (Hd n m0 c Hn). lia.
    - rewrite Em in Hn. inversion Hn; subst. cbn [tick h_clock] in Hm. lia. }
  assert (Hlg : forall o, In o (logged_outs g e j) -> In o (outs e)).
  { intros o Ho. apply (firstn_incl j (outs e) o Ho). }
  cbn [record_partial h_hash h_clock h_disk h_blog h_ghost h_trace].
  cbn [tick h_blog h_hash h_trace h_clock h_disk h_ghost] in *.
  split; [exact Hh|]. split; [exact C|]. split; [rewrite Tr; reflexivity|].
  split; [|split; [|split; [|split; [|split]]]].
  - intros n Hn. assert (Hnl : ~ In n (logged_outs g e j)) by (intros Hi; apply Hn; apply Hlg; exact Hi).
    rewrite (mem_node_false n _ Hnl), (mem_node_false n _ Hn).
    split; [apply D; exact Hn|]. split; [rewrite B|rewrite Gh]; reflexivity.
  - intros n. destruct (E n) as [En|[m1 [Em [Hm Hin]]]]; [left; exact En|].
    right. exists m1. split; [exact Em|]. split; [exact Hm|exact Hin].
  - exact Hd2.
  - exact F.
  - exists m. split.
    + destruct (record_mtime_bounds (crash_cfg (g_edge g e) h) (h_clock st + 1)
                  (map (orec_of st) (outs e)) (map (orec_of st2) (outs e))) as [A1 A2].
      fold m in A1, A2. split; [exact A1|].
      destruct A2 as [->|[a [Ha ->]]]; [lia|].
      apply in_map_iff in Ha. destruct Ha as [o [<- Ho]]. unfold orec_of, CrashDefs.stat. cbn [CrashDefs.o_file].
      destruct (h_disk st2 o) as [[mo c]|] eqn:Hdo; [|lia]. destruct (Hd2 o mo c Hdo). lia.
    + intros o Ho. rewrite (proj2 (mem_node_In o _) Ho). split; reflexivity.
  - intros o Ho Hnl. rewrite (mem_node_false o _ Hnl), (proj2 (mem_node_In o _) Ho).
    split; [rewrite B; reflexivity|]. unfold same_hash_entry. rewrite B. reflexivity.
Qed.

(* Builder::Cleanup only removes, and removes exactly the outputs whose mtime changed *)
Lemma cleanup_outs_spec sc : forall os st,
  let st' := cleanup_outs sc os st in
  h_clock st' = h_clock st /\ h_blog st' = h_blog st /\ h_hash st' = h_hash st /\
  h_ghost st' = h_ghost st /\ h_trace st' = h_trace st /\
  (forall n, ~ In n os -> h_disk st' n = h_disk st n) /\
  (forall n, In n os -> mtime_of sc n = mtime_of st n -> h_disk st' n = h_disk st n) /\
  (forall n, In n os -> mtime_of sc n <> mtime_of st n -> h_disk st' n = None) /\
  (forall n, h_disk st' n = h_disk st n \/ h_disk st' n = None).
Proof.
  induction os as [|o os IH]; intros st; cbn zeta.
  - cbn [cleanup_outs fold_left].
    split; [reflexivity|]. split; [reflexivity|]. split; [reflexivity|]. split; [reflexivity|].
    split; [reflexivity|]. split; [intros n _; reflexivity|]. split; [intros n []|].
    split; [intros n []|intros n; left; reflexivity].
  - change (cleanup_outs sc (o :: os) st) with (cleanup_outs sc os (cleanup_out sc st o)).
    set (s1 := cleanup_out sc st o).
    destruct (IH s1) as [C [B [Hh [Gh [Tr [D1 [D2 [D3 D4]]]]]]]]. cbn zeta in *.
    set (st' := cleanup_outs sc os s1) in *.
    assert (H1 : h_clock s1 = h_clock st /\ h_blog s1 = h_blog st /\ h_hash s1 = h_hash st /\
                 h_ghost s1 = h_ghost st /\ h_trace s1 = h_trace st /\
                 (forall n, n <> o -> h_disk s1 n = h_disk st n) /\
                 (mtime_of sc o = mtime_of st o -> h_disk s1 o = h_disk st o) /\
                 (mtime_of sc o <> mtime_of st o -> h_disk s1 o = None) /\
                 (h_disk s1 o = h_disk st o \/ h_disk s1 o = None)).
    { subst s1. unfold cleanup_out. destruct (Z.eqb_spec (mtime_of sc o) (mtime_of st o)) as [Heq|Hne].
      - split; [reflexivity|]. split; [reflexivity|]. split; [reflexivity|]. split; [reflexivity|].
        split; [reflexivity|]. split; [intros n _; reflexivity|]. split; [intros _; reflexivity|].
        split; [intros Hx; contradiction|left; reflexivity].
      - cbn [delete_file h_clock h_blog h_hash h_ghost h_trace h_disk].
        split; [reflexivity|]. split; [reflexivity|]. split; [reflexivity|]. split; [reflexivity|].
        split; [reflexivity|]. split; [intros n Hn; apply upd_other; exact Hn|].
        split; [intros Hx; contradiction|]. split; [intros _; apply upd_same|right; apply upd_same]. }
    destruct H1 as [C1 [B1 [Hh1 [Gh1 [Tr1 [E1 [E2 [E3 E4]]]]]]]].
    assert (Hmt : forall n, n <> o -> mtime_of s1 n = mtime_of st n).
    { intros n Hn. unfold mtime_of. rewrite (E1 n Hn). reflexivity. }
    split; [congruence|]. split; [congruence|]. split; [congruence|]. split; [congruence|].
    split; [congruence|]. split; [|split; [|split]].
    + intros n Hn. rewrite D1 by (intros Hi; apply Hn; right; exact Hi).
      apply E1. intros ->. apply Hn. left; reflexivity.
    + intros n Hin Hm. destruct (Nat.eq_dec n o) as [->|Hne].
      * destruct (D4 o) as [Hs|Hs]; [rewrite Hs; apply E2; exact Hm|].
        rewrite Hs. rewrite <- (E2 Hm).
        destruct (in_dec Nat.eq_dec o os) as [Hio|Hnio]; [|rewrite <- (D1 o Hnio); exact (eq_sym Hs)].
        rewrite <- (D2 o Hio); [exact (eq_sym Hs)|]. unfold mtime_of at 2. rewrite (E2 Hm). exact Hm.
      * destruct Hin as [->|Hin]; [contradiction|].
        rewrite (D2 n Hin) by (rewrite (Hmt n Hne); exact Hm). apply E1. exact Hne.
    + intros n Hin Hm. destruct (Nat.eq_dec n o) as [->|Hne].
      * destruct (D4 o) as [Hs|Hs]; [rewrite Hs; apply E3; exact Hm|exact Hs].
      * destruct Hin as [->|Hin]; [contradiction|].
        apply (D3 n Hin). rewrite (Hmt n Hne). exact Hm.
    + intros n. destruct (D4 n) as [Hs|Hs]; [|right; exact Hs].
      destruct (Nat.eq_dec n o) as [->|Hne].
      * destruct E4 as [E4|E4]; [left|right]; congruence.
      * left. rewrite Hs. apply E1. exact Hne.
Qed.

(* ================================================================== Part B: GoodF is kept *)
Lemma goodF_tick st : GoodF cmd g st -> GoodF cmd g (tick st).
Proof.
  intros HG. pose proof HG as [[A [B [C [D E]]]] L].
  apply (goodF_frame cmd g Hwf st _ [] HG); unfold Chg; cbn [tick h_clock h_disk h_blog h_ghost].
  - lia.
  - intros n m c Hn. specialize (B n m c Hn). lia.
  - intros n. left; reflexivity.
  - exact D.
  - intros n _. reflexivity.
  - intros n e _ _. right. split; [reflexivity|left; reflexivity].
  - intros o [].
Qed.

Lemma goodF_kill_wrote st e k f :
  GoodF cmd g st -> phony e = false -> GoodF cmd g (kill_wrote g st e k f).
Proof.
  intros HG Hph. pose proof HG as [[A [B [C [D E]]]] L].
  destruct (kill_wrote_spec st e k f A B) as [Hb [Hh [Htr [Hc [Hd [Hout [Hchg Hw]]]]]]]. cbn zeta in *.
  apply (goodF_frame cmd g Hwf st _ [] HG).
  - lia.
  - exact Hd.
  - exact Hchg.
  - intros n e' He' Hph'. assert (Hnin : ~ In n (firstn k (outs e))).
    { intros Hin. apply (firstn_incl k (outs e)) in Hin. rewrite (o_prod g Hwf e n Hin) in He'.
      inversion He'; subst. congruence. }
    rewrite (proj1 (Hout n Hnin)). apply (D n e' He' Hph').
  - intros n _. rewrite Hb. reflexivity.
  - intros n e' _ _. destruct (in_dec Nat.eq_dec n (firstn k (outs e))) as [Hin|Hnin].
    + left. apply (proj1 (Hw n Hin)).
    + right. destruct (Hout n Hnin) as [E1 E2]. split; [exact E2|left; exact E1].
  - intros o [].
Qed.

Lemma reads_fresh st st' e m : (e < g_nedges g)%nat ->
  (forall n e', g_producer g n = Some e' -> phony e' = true -> h_disk st n = None) ->
  (forall n, ~ In n (outs e) -> h_disk st' n = h_disk st n) ->
  snap_fresh g st' m (reads g st e).
Proof.
  intros He D Hout i ci Hi. unfold reads in Hi. apply in_map_iff in Hi. destruct Hi as [i' [Hi' Hin']].
  inversion Hi'; subst i' ci. split.
  - intros e' He' Hph'. unfold content_of. rewrite (D i e' He' Hph'). reflexivity.
  - intros mi c' Hdi _.
    assert (Hni : ~ In i (outs e)).
    { apply (not_out_of_below g Hwf e e i); [apply (in_below g Htopo e i He (nonoo_in g e i Hin'))|lia]. }
    rewrite (Hout i Hni) in Hdi. unfold content_of. rewrite Hdi. reflexivity.
Qed.

Lemma goodF_kill_logged st e j :
  GoodF cmd g st -> (e < g_nedges g)%nat -> phony e = false -> GoodF cmd g (kill_logged cmd g st e j).
Proof.
  intros HG He Hph. pose proof HG as [[A [B [C [D E]]]] L].
  destruct (kill_logged_spec st e j A B) as [Hh [Hc [Htr [Hout [Hfs [Hd [Hall [[m [Hm Hlog]] Hun]]]]]]]].
  cbn zeta in *. set (st' := kill_logged cmd g st e j) in *. set (h := h_hash st e) in *.
  set (S := reads g st e) in *.
  set (X := filter (fun o => mem_node o (logged_outs g e j) || same_hash_entry st h o) (outs e)).
  assert (HX : forall o, In o X <-> In o (outs e) /\
                (In o (logged_outs g e j) \/ (~ In o (logged_outs g e j) /\ same_hash_entry st h o = true))).
  { intros o. unfold X. rewrite filter_In. split.
    - intros [Ho Hb]. split; [exact Ho|]. destruct (mem_node o (logged_outs g e j)) eqn:Hm1.
      + left. apply mem_node_In. exact Hm1.
      + right. split; [|exact Hb]. intros Hi. apply mem_node_In in Hi. congruence.
    - intros [Ho [Hl|[_ Hs]]]; (split; [exact Ho|]).
      + rewrite (proj2 (mem_node_In o _) Hl). reflexivity.
      + rewrite Hs. apply orb_true_r. }
  assert (HnX : forall o, In o (outs e) -> ~ In o X ->
                  ~ In o (logged_outs g e j) /\ same_hash_entry st h o = false).
  { intros o Ho Hn. split.
    - intros Hl. apply Hn. apply HX. split; [exact Ho|left; exact Hl].
    - destruct (same_hash_entry st h o) eqn:Hs; [|reflexivity]. exfalso. apply Hn. apply HX. split; [exact Ho|].
      destruct (in_dec Nat.eq_dec o (logged_outs g e j)) as [Hl|Hnl]; [left; exact Hl|right; split; assumption]. }
  apply (goodF_frame cmd g Hwf st st' X HG).
  - lia.
  - exact Hd.
  - intros n. destruct (Hfs n) as [Hs|[mx [Hx [Hmx _]]]]; [left; exact Hs|].
    right; right. exists mx, (cmd e h S n). split; [exact Hx|lia].
  - intros n e' He' Hph'. assert (Hnin : ~ In n (outs e)).
    { intros Hin. rewrite (o_prod g Hwf e n Hin) in He'. inversion He'; subst. congruence. }
    rewrite (proj1 (Hout n Hnin)). apply (D n e' He' Hph').
  - intros n Hn. destruct (in_dec Nat.eq_dec n (outs e)) as [Hin|Hnin].
    + apply (proj1 (Hun n Hin (proj1 (HnX n Hin Hn)))).
    + apply (proj1 (proj2 (Hout n Hnin))).
  - intros n e' _ Hn. destruct (in_dec Nat.eq_dec n (outs e)) as [Hin|Hnin].
    + left. destruct (HnX n Hin Hn) as [Hnl Hs]. rewrite (proj2 (Hun n Hin Hnl)), Hs. reflexivity.
    + right. destruct (Hout n Hnin) as [E1 [_ E3]]. split; [exact E3|left; exact E1].
  - intros o Hin. apply HX in Hin. destruct Hin as [Ho Hcase].
    assert (Hent : exists m1, h_blog st' o = Some (h, m1) /\ m1 <= h_clock st' /\ h_ghost st' o = Some S).
    { destruct Hcase as [Hl|[Hnl Hs]].
      - destruct (Hlog o Hl) as [Hb' Hg']. exists m. split; [exact Hb'|]. split; [lia|exact Hg'].
      - destruct (Hun o Ho Hnl) as [Hb' Hg']. rewrite Hs in Hg'. unfold same_hash_entry in Hs.
        destruct (h_blog st o) as [[h' m']|] eqn:Hbo; [|discriminate]. apply N.eqb_eq in Hs. subst h'.
        exists m'. split; [exact Hb'|]. split; [|exact Hg']. specialize (C o h m' Hbo). lia. }
    destruct Hent as [m1 [Hb1 [Hm1 Hg1]]]. split; [|split].
    + intros h0 m0 Hb0. rewrite Hb1 in Hb0. inversion Hb0; subst. exact Hm1.
    + rewrite Hb1. discriminate.
    + intros e1 h1 m2 mo c S1 Hph1 Ho1 Hb Hdo Hg.
      assert (e1 = e) by (apply (same_prod e e1 o Ho Ho1)). subst e1.
      rewrite Hb1 in Hb. inversion Hb; subst h1 m2. rewrite Hg1 in Hg. inversion Hg; subst S1.
      destruct (Hall o Ho) as [mo' Hd']. rewrite Hd' in Hdo. inversion Hdo; subst mo c.
      split; [unfold S, reads; rewrite map_map; cbn [fst]; apply map_id|]. split; [reflexivity|].
      apply (reads_fresh st st' e m1 He D). intros n Hn. apply (proj1 (Hout n Hn)).
Qed.

Lemma goodF_kill_edge st e a :
  GoodF cmd g st -> (e < g_nedges g)%nat -> phony e = false -> GoodF cmd g (kill_edge cmd g st e a).
Proof.
  intros HG He Hph. destruct a as [| |k f|j]; cbn [kill_edge].
  - exact HG.
  - apply goodF_tick. exact HG.
  - apply goodF_kill_wrote; assumption.
  - destruct (Nat.leb (length (outs e)) j).
    + apply (goodF_run cmd g Hwf Htopo); assumption.
    + apply goodF_kill_logged; assumption.
Qed.

Lemma goodF_cleanup sc : forall os st, GoodF cmd g st -> GoodF cmd g (cleanup_outs sc os st).
Proof.
  induction os as [|o os IH]; intros st HG; [exact HG|].
  change (cleanup_outs sc (o :: os) st) with (cleanup_outs sc os (cleanup_out sc st o)). apply IH.
  unfold cleanup_out. destruct (Z.eqb (mtime_of sc o) (mtime_of st o)); [exact HG|].
  apply (goodF_delete cmd g Hwf); exact HG.
Qed.

Lemma goodF_intr_edge sc st e k f :
  GoodF cmd g st -> phony e = false -> GoodF cmd g (intr_edge g sc st e k f).
Proof. intros HG Hph. unfold intr_edge. apply goodF_cleanup. apply goodF_kill_wrote; assumption. Qed.

(* ---- the shape of a killed / interrupted invocation *)
Lemma starts_ran p st e : starts g p (build_upto cmd g p e st) e = ran cmd g p st e.
Proof. reflexivity. Qed.

Lemma buildK_full_inv st T cp st1 r :
  buildK_full cmd g st T cp = Some (st1, r) ->
  exists s p, scan (G st) (W st) T = ScanOk s p /\
    match r with
    | Some (e, a, stk) =>
      (e < g_nedges g)%nat /\ e = cp_pos cp /\ a = cp_at cp /\ stk = build_upto cmd g p e st /\
      want_start p e = true /\ phony e = false /\ dirty_now g stk e = true /\
      st1 = kill_edge cmd g stk e a
    | None => exists k, (k <= g_nedges g)%nat /\ st1 = build_upto cmd g p k st
    end.
Proof.
  unfold buildK_full. intros H.
  destruct (scan (G st) (W st) T) as [c|m d|e0| |s p] eqn:Hs; try discriminate.
  exists s, p. split; [reflexivity|]. inversion H as [H1]. clear H. unfold buildK_at in H1.
  destruct (Nat.ltb_spec (cp_pos cp) (g_nedges g)) as [Hlt|Hge].
  - destruct (starts g p (build_upto cmd g p (cp_pos cp) st) (cp_pos cp)) eqn:Hst; inversion H1; subst.
    + unfold starts in Hst. apply andb_true_iff in Hst. destruct Hst as [Hst Hdn].
      apply andb_true_iff in Hst. destruct Hst as [Hw Hph]. apply negb_true_iff in Hph.
      repeat split; try reflexivity; assumption.
    + exists (cp_pos cp). split; [lia|reflexivity].
  - inversion H1; subst. exists (g_nedges g). split; [lia|reflexivity].
Qed.

Lemma buildI_full_inv st T ip st1 r :
  buildI_full cmd g st T ip = Some (st1, r) ->
  exists s p, scan (G st) (W st) T = ScanOk s p /\
    match r with
    | Some (e, stk) =>
      (e < g_nedges g)%nat /\ e = ip_pos ip /\ stk = build_upto cmd g p e st /\
      want_start p e = true /\ phony e = false /\ dirty_now g stk e = true /\
      st1 = intr_edge g st stk e (ip_k ip) (ip_f ip)
    | None => st1 = build_upto cmd g p (g_nedges g) st
    end.
Proof.
  unfold buildI_full. intros H.
  destruct (scan (G st) (W st) T) as [c|m d|e0| |s p] eqn:Hs; try discriminate.
  exists s, p. split; [reflexivity|]. inversion H as [H1]. clear H. unfold buildI_at in H1.
  destruct (Nat.ltb_spec (ip_pos ip) (g_nedges g)) as [Hlt|Hge].
  - destruct (starts g p (build_upto cmd g p (ip_pos ip) st) (ip_pos ip)) eqn:Hst; inversion H1; subst.
    + unfold starts in Hst. apply andb_true_iff in Hst. destruct Hst as [Hst Hdn].
      apply andb_true_iff in Hst. destruct Hst as [Hw Hph]. apply negb_true_iff in Hph.
      repeat split; try reflexivity; assumption.
    + reflexivity.
  - inversion H1; subst. reflexivity.
Qed.

Lemma buildK_of_full st T cp st1 :
  buildK cmd g st T cp = Some st1 -> exists r, buildK_full cmd g st T cp = Some (st1, r).
Proof.
  unfold buildK. destruct (buildK_full cmd g st T cp) as [[st' r]|]; [|discriminate].
  intros H. inversion H; subst. exists r. reflexivity.
Qed.

Lemma buildI_of_full st T ip st1 code :
  buildI cmd g st T ip = Some (st1, code) ->
  exists r, buildI_full cmd g st T ip = Some (st1, r) /\
            code = match r with Some _ => exit_interrupted | None => exit_success end.
Proof.
  unfold buildI. destruct (buildI_full cmd g st T ip) as [[st' [r|]]|]; [| |discriminate];
    intros H; inversion H; subst; eexists; split; reflexivity.
Qed.

(* (1) the invariant is kept by a kill at EVERY crash point ... *)
Theorem goodK_buildK_proof st T cp st' :
  GoodK cmd g st -> buildK cmd g st T cp = Some st' -> GoodK cmd g st'.
Proof.
  unfold GoodK. intros HG H. destruct (buildK_of_full st T cp st' H) as [r Hfull].
  destruct (buildK_full_inv st T cp st' r Hfull) as [s [p [_ Hr]]].
  destruct r as [[[e a] stk]|].
  - destruct Hr as [He [_ [_ [Hstk [_ [Hph [_ ->]]]]]]].
    apply goodF_kill_edge; [|exact He|exact Hph].
    rewrite Hstk. apply (goodF_build_upto cmd g Hwf Htopo); [exact HG|lia].
  - destruct Hr as [k [Hk ->]]. apply (goodF_build_upto cmd g Hwf Htopo); assumption.
Qed.

(* ... and by an interrupt at every interrupt point *)
Theorem goodK_buildI_proof st T ip st' code :
  GoodK cmd g st -> buildI cmd g st T ip = Some (st', code) -> GoodK cmd g st'.
Proof.
  unfold GoodK. intros HG H. destruct (buildI_of_full st T ip st' code H) as [r [Hfull _]].
  destruct (buildI_full_inv st T ip st' r Hfull) as [s [p [_ Hr]]].
  destruct r as [[e stk]|].
  - destruct Hr as [He [_ [Hstk [_ [Hph [_ ->]]]]]].
    apply goodF_intr_edge; [|exact Hph].
    rewrite Hstk. apply (goodF_build_upto cmd g Hwf Htopo); [exact HG|lia].
  - rewrite Hr. apply (goodF_build_upto cmd g Hwf Htopo); [exact HG|apply le_n].
Qed.

Theorem goodK_step_proof st s :
  GoodK cmd g st -> kstep_ok g s = true -> GoodK cmd g (apply_kstep cmd g st s).
Proof.
  intros HG Hok. destruct s as [s|T cp|T ip]; cbn [apply_kstep kstep_ok] in *.
  - apply (goodF_step_proof cmd g Hwf Htopo); assumption.
  - destruct (buildK cmd g st T cp) as [st'|] eqn:Hb; [|exact HG]. apply (goodK_buildK_proof st T cp st' HG Hb).
  - destruct (buildI cmd g st T ip) as [[st' code]|] eqn:Hb; [|exact HG].
    apply (goodK_buildI_proof st T ip st' code HG Hb).
Qed.

Theorem goodK_init_proof : GoodK cmd g (init_hstate g).
Proof. apply goodF_init_proof. Qed.

(* the invariant of ALL histories: edits, deletions, command-line changes, successful, failing,
   killed and interrupted invocations *)
Theorem goodK_hist_proof : forall h st,
  GoodK cmd g st -> khist_ok g h = true -> GoodK cmd g (run_khist cmd g st h).
Proof.
  induction h as [|x h IH]; intros st HG Hok; [exact HG|].
  cbn [khist_ok forallb] in Hok. apply andb_true_iff in Hok. destruct Hok as [Hx Hh].
  change (run_khist cmd g st (x :: h)) with (run_khist cmd g (apply_kstep cmd g st x) h).
  apply IH; [apply goodK_step_proof; assumption|exact Hh].
Qed.

(* ================================================================== Part C: benign kills *)
Lemma unlogged_in e j o :
  In o (unlogged_outs g e j) <-> In o (outs e) /\ ~ In o (logged_outs g e j).
Proof.
  unfold unlogged_outs. rewrite filter_In. split; intros [Ho H]; (split; [exact Ho|]).
  - intros Hi. apply mem_node_In in Hi. rewrite Hi in H. discriminate.
  - rewrite (mem_node_false o _ H). reflexivity.
Qed.

Lemma logged_all e j : (length (outs e) <= j)%nat -> logged_outs g e j = outs e.
Proof. intros H. unfold logged_outs. apply firstn_all2. exact H. Qed.

Lemma fresh_chg st st' t0 f os : h_clock st < t0 -> fresh_or_same st st' t0 f os -> Chg st st'.
Proof.
  intros Ht H n. destruct (H n) as [Hs|[mx [Hx [Hmx _]]]]; [left; exact Hs|].
  right; right. exists mx, (f n). split; [exact Hx|lia].
Qed.

Lemma taintok_tick wh st : GoodF cmd g st -> TaintOk g wh st -> TaintOk g wh (tick st).
Proof.
  intros HG HT. apply (taintok_frame g wh st _ (proj1 HG) HT).
  - intros n. left; reflexivity.
  - intros _. reflexivity.
  - intros e o _ _ Ht. split; [reflexivity|left; exact Ht].
Qed.

Lemma taintok_kill_edge st e a :
  GoodF cmd g st -> TaintOk g false st -> (e < g_nedges g)%nat -> phony e = false ->
  kill_benign g st e a = true -> TaintOk g false (kill_edge cmd g st e a).
Proof.
  intros HG HT He Hph Hben. pose proof HG as [[A [B [C [D E]]]] L].
  destruct a as [| |k f|j]; cbn [kill_edge kill_benign] in *.
  - exact HT.
  - apply taintok_tick; assumption.
  - destruct (kill_wrote_spec st e k f A B) as [Hb [Hh [Htr [Hc [Hd [Hout [Hchg Hw]]]]]]]. cbn zeta in *.
    apply (taintok_frame g false st _ (proj1 HG) HT Hchg); [intros Hx; discriminate Hx|].
    intros e1 o Hph1 Ho Ht. split; [rewrite Hb; reflexivity|].
    destruct (in_dec Nat.eq_dec o (firstn k (outs e))) as [Hin|Hnin].
    + right. assert (e1 = e) by (apply (same_prod e e1 o (firstn_incl k (outs e) o Hin) Ho)). subst e1.
      rewrite forallb_forall in Hben. apply stale_entryb_sound. apply (Hben o Hin).
    + left. destruct (Hout o Hnin) as [E1 E2]. rewrite <- Ht. symmetry. apply tainted_eq; assumption.
  - destruct (Nat.leb (length (outs e)) j); [apply taintok_run; assumption|].
    destruct (kill_logged_spec st e j A B) as [Hh [Hc [Htr [Hout [Hfs [Hd [Hall [[m [Hm Hlog]] Hun]]]]]]]].
    cbn zeta in *.
    apply (taintok_frame g false st _ (proj1 HG) HT (fresh_chg st _ (h_clock st + 1) _ _ ltac:(lia) Hfs));
      [intros Hx; discriminate Hx|].
    intros e1 o Hph1 Ho Ht. destruct (in_dec Nat.eq_dec o (outs e)) as [Hin|Hnin].
    2:{ destruct (Hout o Hnin) as [E1 [E2 E3]]. split; [exact E2|]. left. rewrite <- Ht. symmetry.
        apply tainted_eq; assumption. }
    assert (e1 = e) by (apply (same_prod e e1 o Hin Ho)). subst e1.
    destruct (in_dec Nat.eq_dec o (logged_outs g e j)) as [Hl|Hnl].
    { exfalso. destruct (Hlog o Hl) as [_ Hg']. unfold tainted in Ht. rewrite Hg' in Ht.
      destruct (h_disk (kill_logged cmd g st e j) o); discriminate. }
    destruct (Hun o Hin Hnl) as [Hb' Hg']. split; [exact Hb'|]. right.
    rewrite forallb_forall in Hben.
    pose proof (Hben o (proj2 (unlogged_in e j o) (conj Hin Hnl))) as Hbo.
    destruct (same_hash_entry st (h_hash st e) o) eqn:Hs.
    + exfalso. unfold tainted in Ht. rewrite Hg' in Ht.
      destruct (h_disk (kill_logged cmd g st e j) o); discriminate.
    + cbn [orb] in Hbo. apply stale_entryb_sound. exact Hbo.
Qed.

(* what an interrupted command leaves: [sc] is the state the scan saw *)
Lemma intr_edge_spec sc st e k f :
  0 <= h_clock st -> (forall n m c, h_disk st n = Some (m, c) -> 0 < m <= h_clock st) ->
  (forall o, In o (outs e) -> h_disk sc o = h_disk st o) ->
  let ws := firstn k (outs e) in
  let st' := intr_edge g sc st e k f in
  h_blog st' = h_blog st /\ h_hash st' = h_hash st /\ h_trace st' = e :: h_trace st /\
  h_clock st < h_clock st' /\
  (forall o, In o ws -> h_disk st' o = None) /\
  (forall n, ~ In n ws -> h_disk st' n = h_disk st n /\ h_ghost st' n = h_ghost st n) /\
  Chg st st'.
Proof.
  intros Hc Hd Hsc. cbn zeta. unfold intr_edge.
  destruct (kill_wrote_spec st e k f Hc Hd) as [Hb [Hh [Htr [Hcl [Hd1 [Hout [Hchg Hw]]]]]]]. cbn zeta in *.
  set (st1 := kill_wrote g st e k f) in *.
  destruct (cleanup_outs_spec sc (outs e) st1) as [C2 [B2 [Hh2 [Gh2 [Tr2 [D1 [D2 [D3 D4]]]]]]]]. cbn zeta in *.
  set (st' := cleanup_outs sc (outs e) st1) in *.
  split; [congruence|]. split; [congruence|]. split; [congruence|]. split; [lia|].
  assert (Hdel : forall o, In o (firstn k (outs e)) -> h_disk st' o = None).
  { intros o Ho. apply (D3 o (firstn_incl k (outs e) o Ho)).
    destruct (Hw o Ho) as [_ [m [Em Hm]]]. unfold mtime_of. rewrite Em, (Hsc o (firstn_incl k (outs e) o Ho)).
    destruct (h_disk st o) as [[mo c]|] eqn:Hdo; [|lia]. specialize (Hd o mo c Hdo). lia. }
  assert (Hkeep : forall n, ~ In n (firstn k (outs e)) -> h_disk st' n = h_disk st n /\ h_ghost st' n = h_ghost st n).
  { intros n Hn. destruct (Hout n Hn) as [E1 E2]. split; [|rewrite Gh2; exact E2].
    destruct (in_dec Nat.eq_dec n (outs e)) as [Hin|Hnin]; [|rewrite (D1 n Hnin); exact E1].
    rewrite (D2 n Hin); [exact E1|]. unfold mtime_of. rewrite E1, (Hsc n Hin). reflexivity. }
  split; [exact Hdel|]. split; [exact Hkeep|].
  intros n. destruct (in_dec Nat.eq_dec n (firstn k (outs e))) as [Hin|Hnin].
  - right; left. apply Hdel. exact Hin.
  - left. apply (proj1 (Hkeep n Hnin)).
Qed.

Lemma taintok_intr_edge wh sc st e k f :
  GoodF cmd g st -> TaintOk g wh st -> (forall o, In o (outs e) -> h_disk sc o = h_disk st o) ->
  TaintOk g wh (intr_edge g sc st e k f).
Proof.
  intros HG HT Hsc. pose proof HG as [[A [B _]] _].
  destruct (intr_edge_spec sc st e k f A B Hsc) as [Hb [Hh [_ [_ [Hdel [Hkeep Hchg]]]]]]. cbn zeta in *.
  apply (taintok_frame g wh st _ (proj1 HG) HT Hchg); [intros _; exact Hh|].
  intros e1 o _ _ Ht. split; [rewrite Hb; reflexivity|]. left.
  destruct (in_dec Nat.eq_dec o (firstn k (outs e))) as [Hin|Hnin].
  - exfalso. unfold tainted in Ht. rewrite (Hdel o Hin) in Ht. discriminate.
  - destruct (Hkeep o Hnin) as [E1 E2]. rewrite <- Ht. symmetry. apply tainted_eq; assumption.
Qed.

(* the outputs of a statement are as the scan saw them when its turn comes *)
Lemma outs_untouched st p e : GoodF cmd g st -> (e <= g_nedges g)%nat ->
  forall o, In o (outs e) ->
    h_disk st o = h_disk (build_upto cmd g p e st) o /\ h_blog st o = h_blog (build_upto cmd g p e st) o.
Proof.
  intros HG He o Ho. destruct (build_inv1F cmd g Hwf Htopo st p HG e He) as [_ [_ [Hf _]]].
  destruct (frame_later g st p e _ o e Hf (o_prod g Hwf e o Ho) (le_n e)) as [E1 E2]. split; congruence.
Qed.

(* the invariant of histories whose kills and failures are all benign (interrupts always are) *)
Lemma invK_step st s :
  InvF cmd g st -> kstep_ok g s = true -> benign_kstep cmd g st s = true ->
  InvF cmd g (apply_kstep cmd g st s).
Proof.
  intros HI Hok Hben. destruct s as [s|T cp|T ip]; cbn [apply_kstep kstep_ok benign_kstep] in *.
  - apply (invF_step cmd g Hwf Htopo); assumption.
  - destruct HI as [HG HT]. unfold buildK.
    destruct (buildK_full cmd g st T cp) as [[st' r]|] eqn:Hfull; [|split; assumption].
    destruct (buildK_full_inv st T cp st' r Hfull) as [s [p [_ Hr]]].
    destruct r as [[[e a] stk]|].
    + destruct Hr as [He [_ [_ [Hstk [_ [Hph [_ ->]]]]]]].
      assert (HGk : GoodF cmd g stk) by (rewrite Hstk; apply (goodF_build_upto cmd g Hwf Htopo); [exact HG|lia]).
      split; [apply goodF_kill_edge; assumption|].
      apply taintok_kill_edge; try assumption.
      rewrite Hstk. apply (taintok_build_upto cmd g Hwf Htopo st p HG false e HT). lia.
    + destruct Hr as [k [Hk ->]].
      split; [apply (goodF_build_upto cmd g Hwf Htopo); assumption|].
      apply (taintok_build_upto cmd g Hwf Htopo st p HG false k HT Hk).
  - destruct HI as [HG HT]. unfold buildI.
    destruct (buildI_full cmd g st T ip) as [[st' r]|] eqn:Hfull; [|split; assumption].
    destruct (buildI_full_inv st T ip st' r Hfull) as [s [p [_ Hr]]].
    destruct r as [[e stk]|].
    + destruct Hr as [He [_ [Hstk [_ [Hph [_ ->]]]]]].
      assert (HGk : GoodF cmd g stk) by (rewrite Hstk; apply (goodF_build_upto cmd g Hwf Htopo); [exact HG|lia]).
      split; [apply goodF_intr_edge; assumption|].
      apply taintok_intr_edge; [exact HGk| |].
      * rewrite Hstk. apply (taintok_build_upto cmd g Hwf Htopo st p HG false e HT). lia.
      * intros o Ho. rewrite Hstk. apply (proj1 (outs_untouched st p e HG ltac:(lia) o Ho)).
    + rewrite Hr. split; [apply (goodF_build_upto cmd g Hwf Htopo); [exact HG|apply le_n]|].
      apply (taintok_build_upto cmd g Hwf Htopo st p HG false _ HT (le_n _)).
Qed.

Lemma invK_hist : forall h st,
  InvF cmd g st -> khist_ok g h = true -> khist_benign cmd g st h = true ->
  InvF cmd g (run_khist cmd g st h).
Proof.
  induction h as [|x h IH]; intros st HI Hok Hben; [exact HI|].
  cbn [khist_ok forallb] in Hok. apply andb_true_iff in Hok. destruct Hok as [Hx Hh].
  cbn [khist_benign] in Hben. apply andb_true_iff in Hben. destruct Hben as [Bx Bh].
  change (run_khist cmd g st (x :: h)) with (run_khist cmd g (apply_kstep cmd g st x) h).
  apply IH; [apply invK_step; assumption|exact Hh|exact Bh].
Qed.

(* ================================================================== Part D: recovery after kills *)
(* (2) after ANY history with kills, interrupts and failures at arbitrary points: a later build
   that is accepted leaves the clean-build contents, provided no output written by a killed or
   failed command is validated by an old log entry in the state ninja is started in (a boolean on
   that state) *)
Theorem C07_kill_recovery_proof h T st' :
  khist_ok g h = true ->
  taint_safe g (run_khist cmd g (init_hstate g) h) = true ->
  build cmd g (run_khist cmd g (init_hstate g) h) T = Some st' ->
  forall n, reach g T n -> content_of st' n = clean_of cmd g st' n.
Proof.
  intros Hok Hts Hb.
  apply (C01F_build_bool_proof cmd g Hwf Hwg Hfrag Htopo Hgen _ T st'
           (goodK_hist_proof h _ goodK_init_proof Hok) Hts Hb).
Qed.

(* the same with the hypothesis on the HISTORY: every kill hit a statement whose touched outputs had
   no log entry that could validate them later (none / older than an input; for completely written
   outputs also: an entry with the same command hash) *)
Theorem C07_kill_recovery_benign_proof h T st' :
  khist_ok g h = true ->
  khist_benign cmd g (init_hstate g) h = true ->
  build cmd g (run_khist cmd g (init_hstate g) h) T = Some st' ->
  forall n, reach g T n -> content_of st' n = clean_of cmd g st' n.
Proof.
  intros Hok Hben Hb. destruct (invK_hist h _ (invF_init cmd g) Hok Hben) as [HG HT].
  apply (C01F_build cmd g Hwf Hwg Hfrag Htopo Hgen _ T st' HG (taintok_weaken g _ HT) Hb).
Qed.

(* one kill, then one build *)
Theorem C07_kill_then_build_proof st T cp st1 r T' st2 :
  GoodK cmd g st -> taint_robust g st = true ->
  buildK_full cmd g st T cp = Some (st1, r) ->
  match r with Some (e, a, stk) => kill_benign g stk e a = true | None => True end ->
  build cmd g st1 T' = Some st2 ->
  forall n, reach g T' n -> content_of st2 n = clean_of cmd g st2 n.
Proof.
  intros HG Htr Hfull Hben Hb.
  assert (HI : InvF cmd g st) by (split; [exact HG|apply (taint_okb_sound g Hwf Hwg false st Htr)]).
  assert (Hstep : apply_kstep cmd g st (BuildK T cp) = st1).
  { cbn [apply_kstep]. unfold buildK. rewrite Hfull. reflexivity. }
  assert (Hb' : benign_kstep cmd g st (BuildK T cp) = true).
  { cbn [benign_kstep]. rewrite Hfull. destruct r as [[[e a] stk]|]; [exact Hben|reflexivity]. }
  destruct (invK_step st (BuildK T cp) HI eq_refl Hb') as [HG1 HT1]. rewrite Hstep in HG1, HT1.
  apply (C01F_build cmd g Hwf Hwg Hfrag Htopo Hgen st1 T' st2 HG1 (taintok_weaken g _ HT1) Hb).
Qed.

(* ================================================================== Part E: the killed statement runs again *)
Lemma kill_edge_spec st e a :
  GoodF cmd g st -> (e < g_nedges g)%nat -> phony e = false ->
  let st' := kill_edge cmd g st e a in
  h_hash st' = h_hash st /\ Chg st st' /\
  (forall n, ~ In n (outs e) -> h_disk st' n = h_disk st n /\ h_blog st' n = h_blog st n) /\
  (forall o, In o (unrecorded_outs g e a) -> In o (outs e) /\ h_blog st' o = h_blog st o).
Proof.
  intros HG He Hph. pose proof HG as [[A [B _]] _]. cbn zeta.
  destruct a as [| |k f|j]; cbn [kill_edge unrecorded_outs].
  - split; [reflexivity|]. split; [intros n; left; reflexivity|].
    split; [intros n _; split; reflexivity|intros o Ho; split; [exact Ho|reflexivity]].
  - split; [reflexivity|]. split; [intros n; left; reflexivity|].
    split; [intros n _; split; reflexivity|intros o Ho; split; [exact Ho|reflexivity]].
  - destruct (kill_wrote_spec st e k f A B) as [Hb [Hh [_ [_ [_ [Hout [Hchg _]]]]]]]. cbn zeta in *.
    split; [exact Hh|]. split; [exact Hchg|]. split.
    + intros n Hn. split; [|rewrite Hb; reflexivity].
      apply (proj1 (Hout n (fun Hi => Hn (firstn_incl k (outs e) n Hi)))).
    + intros o Ho. split; [exact Ho|rewrite Hb; reflexivity].
  - destruct (Nat.leb_spec (length (outs e)) j) as [Hle|Hgt].
    + destruct (run_edge_spec cmd g st e A B) as [Hh [_ [Hout [Hfs _]]]]. cbn zeta in *.
      split; [exact Hh|]. split; [apply (fresh_chg st _ (h_clock st + 1) _ _ ltac:(lia) Hfs)|]. split.
      * intros n Hn. destruct (Hout n Hn) as [E1 [E2 _]]. split; assumption.
      * intros o Ho. exfalso. apply unlogged_in in Ho. destruct Ho as [Ho Hnl].
        rewrite (logged_all e j Hle) in Hnl. contradiction.
    + destruct (kill_logged_spec st e j A B) as [Hh [_ [_ [Hout [Hfs [_ [_ [_ Hun]]]]]]]]. cbn zeta in *.
      split; [exact Hh|]. split; [apply (fresh_chg st _ (h_clock st + 1) _ _ ltac:(lia) Hfs)|]. split.
      * intros n Hn. destruct (Hout n Hn) as [E1 [E2 _]]. split; assumption.
      * intros o Ho. apply unlogged_in in Ho. destruct Ho as [Ho Hnl]. split; [exact Ho|].
        apply (proj1 (Hun o Ho Hnl)).
Qed.

(* the killed statement is among the commands the next accepted invocation starts as soon as the
   LOG gives a reason for one output that did not get a new entry: no entry (not for generator
   rules), another command hash, or an entry older than an input.  The outputs that DID get the new
   entry (KLogged j) play no role: the dirty test is per output. *)
Theorem C07_killed_statement_reruns_proof st T cp st1 e a stk st2 :
  GoodK cmd g st ->
  buildK_full cmd g st T cp = Some (st1, Some (e, a, stk)) ->
  (exists o, In o (unrecorded_outs g e a) /\ StaleEntry g true stk e o) ->
  build cmd g st1 T = Some st2 ->
  In e (trace_delta st1 st2).
Proof.
  unfold GoodK. intros HG Hfull [o [Hou Hst]] Hb.
  destruct (buildK_full_inv st T cp st1 _ Hfull) as [s [p [Hs [He [_ [_ [Hstk [Hw [Hph [_ Hst1]]]]]]]]]].
  destruct (want_sound g Hwf Hwg Hfrag st T s p Hs e Hw) as [Hn _].
  assert (HGk : GoodF cmd g stk) by (rewrite Hstk; apply (goodF_build_upto cmd g Hwf Htopo); [exact HG|lia]).
  pose proof (goodF_kill_edge stk e a HGk He Hph) as HG1. rewrite <- Hst1 in HG1.
  destruct (kill_edge_spec stk e a HGk He Hph) as [Hh1 [Hchg1 [_ Hun]]]. cbn zeta in *.
  rewrite <- Hst1 in Hh1, Hchg1, Hun. destruct (Hun o Hou) as [Ho Hb1].
  assert (Hst1' : StaleEntry g true st1 e o).
  { apply (stale_mono g true stk st1 e o (proj1 HGk) Hchg1 Hb1); [|exact Hst].
    intros _. rewrite Hh1. reflexivity. }
  apply (rerun_core cmd g Hwf Hwg Hfrag Htopo st1 T st2 e HG1 Hn He Hph); [|exact Hb].
  intros s1 p1 Hs1.
  destruct (build_inv1F cmd g Hwf Htopo st1 p1 HG1 e ltac:(lia)) as [HGk' [Hh' [Hf' [_ Hch']]]].
  set (stk' := build_upto cmd g p1 e st1) in *.
  split; exists o; (split; [exact Ho|]).
  - apply (stale_md g Hwf Hwg Hfrag st1 e o (proj1 HG1) Hph Ho Hst1').
  - rewrite <- (G_hash_eq g st1 stk' Hh'). apply (stale_md g Hwf Hwg Hfrag stk' e o (proj1 HGk') Hph Ho).
    apply (stale_mono g true st1 stk' e o (proj1 HG1) (chg0_chg st1 stk' Hch')); [| |exact Hst1'].
    + apply (proj2 (frame_later g st1 p1 e stk' o e Hf' (o_prod g Hwf e o Ho) (le_n e))).
    + intros _. rewrite Hh'. reflexivity.
Qed.

(* (3) a kill between the log entries of a multi-output statement: the first j outputs carry the new
   entry, the others the entry they had before the invocation, every output is completely written;
   an output without new entry whose old entry is stale is dirty in the next scan -- whatever the
   entries of the first j say -- and the next accepted invocation runs the statement again *)
Theorem C07_partial_log_entries_proof st T cp st1 e j stk :
  GoodK cmd g st ->
  buildK_full cmd g st T cp = Some (st1, Some (e, KLogged j, stk)) ->
  (j < length (outs e))%nat ->
  (exists m, h_clock stk < m /\
     forall o, In o (logged_outs g e j) -> h_blog st1 o = Some (h_hash stk e, m)) /\
  (forall o, In o (unlogged_outs g e j) -> h_blog st1 o = h_blog st o) /\
  (forall o, In o (outs e) ->
     exists mo, h_disk st1 o = Some (mo, cmd e (h_hash stk e) (reads g stk e) o)) /\
  (forall o, In o (unlogged_outs g e j) -> StaleEntry g true stk e o ->
     must_dirty (G st1) (W st1) o /\
     forall st2, build cmd g st1 T = Some st2 -> In e (trace_delta st1 st2)).
Proof.
  unfold GoodK. intros HG Hfull Hj.
  destruct (buildK_full_inv st T cp st1 _ Hfull) as [s [p [Hs [He [_ [_ [Hstk [Hw [Hph [_ Hst1]]]]]]]]]].
  assert (HGk : GoodF cmd g stk) by (rewrite Hstk; apply (goodF_build_upto cmd g Hwf Htopo); [exact HG|lia]).
  pose proof HGk as [[A [B _]] _].
  cbn [kill_edge] in Hst1. destruct (Nat.leb_spec (length (outs e)) j) as [Hle|_]; [lia|].
  destruct (kill_logged_spec stk e j A B) as [Hh [_ [_ [_ [_ [_ [Hall [[m [Hm Hlog]] Hun]]]]]]]]. cbn zeta in *.
  rewrite <- Hst1 in Hh, Hall, Hlog, Hun.
  split; [exists m; split; [lia|intros o Ho; apply (proj1 (Hlog o Ho))]|].
  split; [|split; [exact Hall|]].
  - intros o Ho. apply unlogged_in in Ho. destruct Ho as [Ho Hnl]. rewrite (proj1 (Hun o Ho Hnl)).
    rewrite Hstk. symmetry. apply (proj2 (outs_untouched st p e HG ltac:(lia) o Ho)).
  - intros o Ho Hst. split.
    + pose proof (goodF_kill_edge stk e (KLogged j) HGk He Hph) as HG1.
      destruct (kill_edge_spec stk e (KLogged j) HGk He Hph) as [Hh1 [Hchg1 [_ Hun1]]]. cbn zeta in *.
      destruct (Hun1 o Ho) as [Ho' Hb1].
      assert (Hk : kill_edge cmd g stk e (KLogged j) = st1).
      { cbn [kill_edge]. destruct (Nat.leb_spec (length (outs e)) j) as [Hle|_]; [lia|]. symmetry; exact Hst1. }
      rewrite Hk in *.
      apply (stale_md g Hwf Hwg Hfrag st1 e o (proj1 HG1) Hph Ho').
      apply (stale_mono g true stk st1 e o (proj1 HGk) Hchg1 Hb1); [|exact Hst].
      intros _. rewrite Hh1. reflexivity.
    + intros st2 Hb.
      apply (C07_killed_statement_reruns_proof st T cp st1 e (KLogged j) stk st2 HG Hfull); [|exact Hb].
      exists o. split; [exact Ho|exact Hst].
Qed.

(* ================================================================== Part F: interrupts *)
(* (4a) what an interrupted invocation leaves: exit status 130; the statement that was running is the
   last one started; the outputs it had modified are removed, the others are as the scan saw them;
   its log entries are the ones from before the invocation; everything else is as the successful
   prefix left it; no output is tainted that was not tainted before *)
Theorem C07_interrupt_cleanup_hist_proof st T ip st1 e stk :
  GoodK cmd g st ->
  buildI_full cmd g st T ip = Some (st1, Some (e, stk)) ->
  buildI cmd g st T ip = Some (st1, exit_interrupted) /\
  e = ip_pos ip /\ (exists l, trace_delta st st1 = e :: l) /\
  (forall o, In o (firstn (ip_k ip) (outs e)) -> h_disk st1 o = None) /\
  (forall o, In o (outs e) -> ~ In o (firstn (ip_k ip) (outs e)) -> h_disk st1 o = h_disk st o) /\
  (forall o, In o (outs e) -> h_blog st1 o = h_blog st o) /\
  (forall n, ~ In n (outs e) ->
     h_disk st1 n = h_disk stk n /\ h_blog st1 n = h_blog stk n /\ h_ghost st1 n = h_ghost stk n) /\
  (forall o, tainted st1 o = true -> tainted stk o = true).
Proof.
  unfold GoodK. intros HG Hfull.
  destruct (buildI_full_inv st T ip st1 _ Hfull) as [s [p [Hs [He [Hpos [Hstk [Hw [Hph [_ Hst1]]]]]]]]].
  assert (HGk : GoodF cmd g stk) by (rewrite Hstk; apply (goodF_build_upto cmd g Hwf Htopo); [exact HG|lia]).
  pose proof HGk as [[A [B _]] _].
  assert (Hsc : forall o, In o (outs e) -> h_disk st o = h_disk stk o).
  { intros o Ho. rewrite Hstk. apply (proj1 (outs_untouched st p e HG ltac:(lia) o Ho)). }
  destruct (intr_edge_spec st stk e (ip_k ip) (ip_f ip) A B Hsc) as [Hb [Hh [Htr [_ [Hdel [Hkeep _]]]]]].
  cbn zeta in *. rewrite <- Hst1 in Hb, Hh, Htr, Hdel, Hkeep.
  split; [unfold buildI; rewrite Hfull; reflexivity|]. split; [exact Hpos|].
  split; [|split; [exact Hdel|split; [|split; [|split]]]].
  - destruct (trace_build_upto cmd g p st e) as [l [Hl _]]. exists l.
    apply trace_delta_app. rewrite Htr, Hstk, Hl. reflexivity.
  - intros o Ho Hn. rewrite (proj1 (Hkeep o Hn)). symmetry. apply (Hsc o Ho).
  - intros o Ho. rewrite Hb, Hstk. symmetry. apply (proj2 (outs_untouched st p e HG ltac:(lia) o Ho)).
  - intros n Hn. assert (Hnw : ~ In n (firstn (ip_k ip) (outs e))) by (intros Hi; apply Hn; apply (firstn_incl _ _ n Hi)).
    destruct (Hkeep n Hnw) as [E1 E2]. split; [exact E1|]. split; [rewrite Hb; reflexivity|exact E2].
  - intros o Ht. destruct (in_dec Nat.eq_dec o (firstn (ip_k ip) (outs e))) as [Hin|Hnin].
    + exfalso. unfold tainted in Ht. rewrite (Hdel o Hin) in Ht. discriminate.
    + destruct (Hkeep o Hnin) as [E1 E2]. rewrite <- Ht. symmetry. apply tainted_eq; assumption.
Qed.

Lemma good_untainted st e o : Good cmd g st -> phony e = false -> In o (outs e) -> tainted st o = false.
Proof.
  intros [[_ [_ [_ [_ E]]]] L] Hph Ho. unfold tainted.
  destruct (h_disk st o) as [[mo c]|] eqn:Hd; [|reflexivity].
  destruct (h_blog st o) as [[h m]|] eqn:Hb.
  - destruct (L e o h m mo c Hph Ho Hb Hd) as [S [HS _]]. rewrite HS. reflexivity.
  - exfalso. apply (E o e (o_prod g Hwf e o Ho) Hph); [rewrite Hd; discriminate|exact Hb].
Qed.

(* an interrupted invocation keeps even the invariant of histories WITHOUT failures (HistDefs.Good):
   nothing the interrupted command wrote is left *)
Theorem good_buildI_proof st T ip st' code :
  Good cmd g st -> buildI cmd g st T ip = Some (st', code) -> Good cmd g st'.
Proof.
  intros HGood H. pose proof (goodF_of_good cmd g st HGood) as HG.
  destruct (buildI_of_full st T ip st' code H) as [r [Hfull _]].
  destruct r as [[e stk]|].
  - destruct (buildI_full_inv st T ip st' _ Hfull) as [s [p [_ [He [_ [Hstk _]]]]]].
    destruct (C07_interrupt_cleanup_hist_proof st T ip st' e stk HG Hfull) as [_ [_ [_ [_ [_ [_ [_ Hnt]]]]]]].
    apply (good_of_goodF cmd g Hwf); [apply (goodK_buildI_proof st T ip st' code HG H)|].
    intros e1 o Hph1 Ho. destruct (tainted st' o) eqn:Ht; [|reflexivity].
    rewrite <- (good_untainted stk e1 o); [symmetry; apply Hnt; exact Ht| |exact Hph1|exact Ho].
    rewrite Hstk. apply (build_inv1 cmd g Hwf Htopo st p HGood e). lia.
  - destruct (buildI_full_inv st T ip st' _ Hfull) as [s [p [_ ->]]].
    apply (build_inv1 cmd g Hwf Htopo st p HGood (g_nedges g) (le_n _)).
Qed.

Lemma good_kstep_clean_stop st s :
  Good cmd g st -> kstep_ok g s = true -> clean_stop s = true -> Good cmd g (apply_kstep cmd g st s).
Proof.
  intros HG Hok Hcs. destruct s as [[s|T fs]|T cp|T ip]; cbn [apply_kstep apply_fstep kstep_ok fstep_ok clean_stop no_wrote] in *.
  - apply (good_step cmd g Hwf Htopo st s HG Hok).
  - destruct (buildF cmd g st T fs) as [[st' fl]|] eqn:Hb; [|exact HG].
    apply (good_buildF_no_wrote cmd g Hwf Htopo st T fs st' fl HG Hcs Hb).
  - discriminate.
  - destruct (buildI cmd g st T ip) as [[st' code]|] eqn:Hb; [|exact HG].
    apply (good_buildI_proof st T ip st' code HG Hb).
Qed.

Theorem good_khist_clean_stop_proof : forall h st,
  Good cmd g st -> khist_ok g h = true -> forallb clean_stop h = true ->
  Good cmd g (run_khist cmd g st h).
Proof.
  induction h as [|x h IH]; intros st HG Hok Hcs; [exact HG|].
  cbn [khist_ok forallb] in Hok, Hcs. apply andb_true_iff in Hok. destruct Hok as [Hx Hh].
  apply andb_true_iff in Hcs. destruct Hcs as [Cx Ch].
  change (run_khist cmd g st (x :: h)) with (run_khist cmd g (apply_kstep cmd g st x) h).
  apply IH; [apply good_kstep_clean_stop; assumption|exact Hh|exact Ch].
Qed.

(* (4b) recovery after interrupts needs NO side condition: after any history of edits, deletions,
   command-line changes, successful and INTERRUPTED invocations (and failures that leave no written
   file behind), an accepted build leaves the clean-build contents *)
Theorem C07_interrupt_recovery_proof h T st' :
  khist_ok g h = true -> forallb clean_stop h = true ->
  build cmd g (run_khist cmd g (init_hstate g) h) T = Some st' ->
  forall n, reach g T n -> content_of st' n = clean_of cmd g st' n.
Proof.
  intros Hok Hcs Hb.
  apply (C01_build_equals_clean cmd g Hwf Hwg Hfrag Htopo Hgen _ T st'
           (good_khist_clean_stop_proof h _ (good_init cmd g) Hok Hcs) Hb).
Qed.

(* one interrupt, then one build -- from a state that may contain tainted outputs: an interrupt
   never makes the hypothesis of recovery false *)
Theorem C07_interrupt_then_build_proof st T ip st1 code T' st2 :
  GoodK cmd g st -> taint_robust g st = true ->
  buildI cmd g st T ip = Some (st1, code) ->
  build cmd g st1 T' = Some st2 ->
  forall n, reach g T' n -> content_of st2 n = clean_of cmd g st2 n.
Proof.
  intros HG Htr Hi Hb.
  assert (HI : InvF cmd g st) by (split; [exact HG|apply (taint_okb_sound g Hwf Hwg false st Htr)]).
  assert (Hstep : apply_kstep cmd g st (BuildI T ip) = st1) by (cbn [apply_kstep]; rewrite Hi; reflexivity).
  destruct (invK_step st (BuildI T ip) HI eq_refl eq_refl) as [HG1 HT1]. rewrite Hstep in HG1, HT1.
  apply (C01F_build cmd g Hwf Hwg Hfrag Htopo Hgen st1 T' st2 HG1 (taintok_weaken g _ HT1) Hb).
Qed.

(* ================================================================== Part G: convergence *)
(* HistProofs.build_inv_c02 / C02_* under the weaker invariant: convergence never used LogSound,
   only the bookkeeping facts, which StateOkF shares with StateOk *)
Section OneBuildK.
Variables (st0 : hstate) (T : list node) (s0 : sstate) (p0 : plan).
Hypothesis HG0 : GoodF cmd g st0.
Hypothesis Hscan : scan (G st0) (W st0) T = ScanOk s0 p0.

Notation stk k := (build_upto cmd g p0 k st0).

Lemma build_inv_c02F k : no_inputless_phony g = true -> (k <= g_nedges g)%nat ->
  forall e, (e < k)%nat -> needed g T e ->
  forall o, In o (outs e) -> ~ must_dirty (G st0) (W (stk k)) o.
Proof.
  intros Hnip. induction k as [|k IH]; intros Hk e He Hn o Ho; [lia|].
  destruct (build_inv1F cmd g Hwf Htopo st0 p0 HG0 k ltac:(lia)) as [HGk [Hh [Hf _]]].
  assert (IHk : forall e', (e' < k)%nat -> needed g T e' ->
            forall o', In o' (outs e') -> ~ must_dirty (G st0) (W (stk k)) o') by (apply IH; lia).
  set (st := stk k) in *.
  assert (HGeq : G st = G st0) by (apply G_hash_eq; exact Hh).
  assert (Hins : needed g T k -> forall i, In i (nonoo_ins g k) -> ~ must_dirty (G st0) (W st) i).
  { intros [n [Rn Hpn]] i Hi Hmd. destruct (g_producer g i) as [e'|] eqn:Hpi.
    - pose proof (in_below g Htopo k i Hk (nonoo_in g k i Hi)) as Hlt. unfold below in Hlt. rewrite Hpi in Hlt.
      assert (Hn' : needed g T e').
      { exists i. split; [|exact Hpi]. apply (reach_step g (manifest_ins g) T n i Rn).
        exists k. split; [exact Hpn|apply nonoo_in; exact Hi]. }
      apply (IHk e' Hlt Hn' i (p_out g Hwf i e' Hpi) Hmd).
    - pose proof (must_dirty_leaf_inv (G st0) (W st) i Hmd Hpi) as Hz.
      cbn [world_of w_mtime] in Hz. unfold mtime_of in Hz. rewrite (frame_leaf g st0 p0 k st i Hf Hpi) in Hz.
      assert (Hmd0 : must_dirty (G st0) (W st0) n).
      { apply (md_input (G st0) (W st0) n k i Hpn).
        - rewrite (spec_ins_AB g Hfrag st0 (W st0) k Hk). exact Hi.
        - apply md_leaf; [exact Hpi|exact Hz]. }
      destruct (want_complete g Hwf Hwg Hfrag st0 T s0 p0 Hscan k (ex_intro _ n (conj Rn Hpn))
                  (ex_intro _ n (conj (p_out g Hwf n k Hpn) Hmd0)))
        as [_ Hl].
      + intros [_ Hnil]. pose proof (nonoo_in g k i Hi) as Hin. rewrite Hnil in Hin. destruct Hin.
      + apply (Hl i (nonoo_in g k i Hi) Hpi). unfold mtime_of. exact Hz. }
  destruct (step_cases cmd g st0 p0 k) as [[Hs [Hw Hph]]|[Hs Hskip]]; rewrite Hs; fold st.
  - pose proof HGk as [[A [B [C [D E]]]] L].
    destruct (run_edge_spec cmd g st k A B) as [Hh' [Hc' [Hout [_ [Hd' [[m [Hm Hlog]] Hnr]]]]]]. cbn zeta in *.
    set (st' := run_edge cmd g st k) in *.
    assert (Hag : agree_below g k (W st') (W st)).
    { intros n Hb. pose proof (not_out_of_below g Hwf k k n Hb (le_n k)) as Hnin.
      destruct (Hout n Hnin) as [E1 [E2 _]]. cbn [world_of w_mtime w_blog]. unfold mtime_of.
      rewrite E1, E2. split; reflexivity. }
    destruct (Nat.eq_dec e k) as [->|Hne].
    2:{ intros Hmd. apply (IHk e ltac:(lia) Hn o Ho).
        apply (md_below g Hwf Hwg Hfrag Htopo st0 k (W st') (W st) ltac:(lia) Hag o Hmd).
        unfold below. rewrite (o_prod g Hwf e o Ho). lia. }
    intros Hmd.
    destruct (must_dirty_out_inv (G st0) (W st') o k Hmd (o_prod g Hwf k o Ho))
      as [[i [Hi Hdi]]|[[Hp _]|[[_ [o' [Ho' Hr]]]|Hl]]].
    + rewrite (spec_ins_AB g Hfrag st0 (W st') k Hk) in Hi. apply (Hins Hn i Hi).
      apply (md_below g Hwf Hwg Hfrag Htopo st0 k (W st') (W st) ltac:(lia) Hag i Hdi).
      apply (in_below g Htopo k i Hk (nonoo_in g k i Hi)).
    + change (phony k = true) in Hp. congruence.
    + change (In o' (outs k)) in Ho'.
      destruct (Hlog o' Ho') as [Hb' [_ [mo Hdo]]].
      assert (HN : forall x, (exists i, In i (spec_ins (G st0) (W st') k) /\ newer_than (G st0) (W st') x i) ->
                             x < h_clock st).
      { intros x [i [Hi Hnt]]. rewrite (spec_ins_AB g Hfrag st0 (W st') k Hk) in Hi.
        apply (newer_bound g Htopo st0 k (W st') (h_clock st) ltac:(lia) A) with (n := i); [|exact Hnt|].
        - intros n Hb. destruct (Hag n Hb) as [E1 _]. cbn [world_of w_mtime] in *. rewrite <- E1.
          unfold mtime_of. destruct (h_disk st n) as [[mn cn]|] eqn:Hdn; [|lia].
          specialize (B n mn cn Hdn). lia.
        - apply (in_below g Htopo k i Hk (nonoo_in g k i Hi)). }
      unfold out_reason, base_reason, time_reason, used_restat in Hr.
      cbn [world_of w_mtime w_blog] in Hr. unfold mtime_of in Hr. rewrite Hdo, Hb' in Hr.
      destruct (Hd' o' mo _ Hdo) as [Hmo _].
      destruct Hr as [[Hz|[_ Hneq]]|[[Hu Hx]|Hx]].
      * lia.
      * apply Hneq. cbn [graph_of g_edge set_hash ei_hash]. rewrite Hh. reflexivity.
      * change (ei_restat (g_edge (G st0) k)) with (ei_restat (g_edge g k)) in Hu.
        rewrite andb_true_r in Hu. destruct (Hnr Hu o' Ho') as [mo' [Hdo' Hlt]].
        rewrite Hdo in Hdo'. inversion Hdo'; subst mo'. specialize (HN mo Hx). lia.
      * specialize (HN m Hx). lia.
    + unfold spec_load in Hl. change (ei_deps (g_edge (G st0) k)) with (ei_deps (g_edge g k)) in Hl.
      rewrite (edge_frag g Hfrag k Hk) in Hl. discriminate.
  - destruct (Nat.eq_dec e k) as [->|Hne]; [|apply (IHk e ltac:(lia) Hn o Ho)].
    destruct (phony k) eqn:Hph.
    + intros Hmd.
      destruct (must_dirty_out_inv (G st0) (W st) o k Hmd (o_prod g Hwf k o Ho))
        as [[i [Hi Hdi]]|[[_ [Hnil _]]|[[Hp _]|Hl]]].
      * rewrite (spec_ins_AB g Hfrag st0 (W st) k Hk) in Hi. apply (Hins Hn i Hi Hdi).
      * apply (nip_edge g k Hnip Hk). split; [exact Hph|exact Hnil].
      * change (phony k = false) in Hp. congruence.
      * unfold spec_load in Hl. change (ei_deps (g_edge (G st0) k)) with (ei_deps (g_edge g k)) in Hl.
        rewrite (edge_frag g Hfrag k Hk) in Hl. discriminate.
    + destruct Hskip as [Hp|[Hw|Hdn]]; [congruence| |].
      * assert (Hc0 : ~ must_dirty (G st0) (W st0) o).
        { intros Hmd. destruct (want_complete g Hwf Hwg Hfrag st0 T s0 p0 Hscan k Hn (ex_intro _ o (conj Ho Hmd))) as [Hw' _]; [|congruence].
          intros [Hp _]. congruence. }
        intros Hmd. apply (clean_stable g Hwf Hwg Hfrag st0 (W st0) (W st)
                             (frame_clean g Hwf Hwg Hfrag st0 T s0 p0 Hscan k st Hf) o Hmd Hc0).
      * rewrite <- HGeq. apply (dirty_now_spec g Hwf Hwg Hfrag st k Hdn o Ho).
Qed.

End OneBuildK.

Lemma build_sourcesF st T st' :
  GoodF cmd g st -> build cmd g st T = Some st' ->
  h_hash st' = h_hash st /\ forall n, g_producer g n = None -> h_disk st' n = h_disk st n.
Proof.
  intros HG H. unfold build in H.
  destruct (scan (G st) (W st) T) as [c|m d|e| |s p] eqn:Hs; try discriminate. inversion H; subst st'.
  destruct (build_inv1F cmd g Hwf Htopo st p HG (g_nedges g) (le_n _)) as [_ [Hh [Hf _]]].
  split; [exact Hh|]. intros n Hp. apply (frame_leaf g st p _ _ n Hf Hp).
Qed.

(* C02 for one invocation from a GoodK state: whatever failed, was killed or interrupted before, and
   whether or not the contents are right -- immediately after an accepted build the scan of the same
   targets is accepted and wants nothing *)
Theorem C02F_converges_proof st T st' :
  GoodF cmd g st -> no_inputless_phony g = true -> build cmd g st T = Some st' ->
  exists s p, scan (G st') (W st') T = ScanOk s p /\ forall e, p_want p e <> Some WantToStart.
Proof.
  intros HG Hnip H. destruct (build_sourcesF st T st' HG H) as [Hh Hsrc].
  unfold build in H.
  destruct (scan (G st) (W st) T) as [c|m d|e'| |s p] eqn:Hs; try discriminate. inversion H; subst st'.
  set (st' := build_upto cmd g p (g_nedges g) st) in *.
  assert (Hclean : forall e, neededE (G st') T e -> forall o, In o (outs e) -> ~ must_dirty (G st') (W st') o).
  { intros e Hn o Ho Hmd. apply (needed_G g T st') in Hn. rewrite (G_hash_eq g st st' Hh) in Hmd.
    assert (He : (e < g_nedges g)%nat) by (destruct Hn as [n [_ Hp]]; apply (Hwg n e Hp)).
    apply (build_inv_c02F st T s p HG Hs (g_nedges g) Hnip (le_n _) e He Hn o Ho Hmd). }
  destruct (scan_accepts (G st') (W st') Hwf Hwg Hfrag T Htopo) as [s2 [p2 Hs2]].
  - intros t Ht Hp.
    destruct (scan_leaf_targets (G st) (W st) Hwf Hwg Hfrag T s p Hs t Ht Hp) as [Hnz|Hb];
      [left|right; exact Hb].
    cbn [world_of w_mtime] in *. unfold mtime_of in *. rewrite (Hsrc t Hp). exact Hnz.
  - exact Hclean.
  - exists s2, p2. split; [exact Hs2|]. intros e Hw.
    destruct (scan_want_sound (G st') (W st') Hwf Hwg Hfrag T s2 p2 Hs2 e Hw) as [Hn [o [Ho Hmd]]].
    apply (Hclean e Hn o Ho Hmd).
Qed.

Theorem C02F_second_build_idle_proof st T st' :
  GoodF cmd g st -> no_inputless_phony g = true -> build cmd g st T = Some st' ->
  build cmd g st' T = Some st'.
Proof.
  intros HG Hnip H. destruct (C02F_converges_proof st T st' HG Hnip H) as [s [p [Hs Hc]]].
  unfold build. rewrite Hs. f_equal. apply build_upto_idle. exact Hc.
Qed.

(* (5) the build after the recovery build finds nothing to do: after ANY history with kills,
   interrupts and failures, an accepted build is followed by an idle one (no side condition: this is
   about the log and the mtimes, not about the contents) *)
Theorem C07_converges_after_recovery_proof h T st' :
  khist_ok g h = true -> no_inputless_phony g = true ->
  build cmd g (run_khist cmd g (init_hstate g) h) T = Some st' ->
  (exists s p, scan (G st') (W st') T = ScanOk s p /\ forall e, p_want p e <> Some WantToStart) /\
  build cmd g st' T = Some st'.
Proof.
  intros Hok Hnip Hb. pose proof (goodK_hist_proof h _ goodK_init_proof Hok) as HG. split.
  - apply (C02F_converges_proof _ T st' HG Hnip Hb).
  - apply (C02F_second_build_idle_proof _ T st' HG Hnip Hb).
Qed.

(* ================================================================== Part H: the statement-level hypothesis *)
(* a statement with a reason is dirty in every one of its outputs *)
Lemma reason_md st e : StateOkF g st -> phony e = false -> StmtReason g true st e ->
  forall o, In o (outs e) -> must_dirty (G st) (W st) o.
Proof.
  intros HS Hph [o' [Ho' Hr]] o Ho.
  apply (must_dirty_same_prod (G st) (W st) o' o e (o_prod g Hwf e o' Ho') (o_prod g Hwf e o Ho)).
  destruct Hr as [Hst|[_ Hd]].
  - apply (stale_md g Hwf Hwg Hfrag st e o' HS Hph Ho' Hst).
  - apply (md_base g Hwf st e o' Ho' Hph). left. cbn [world_of w_mtime]. unfold mtime_of. rewrite Hd. reflexivity.
Qed.

Lemma stmt_reasonb_sound wh st e : stmt_reasonb g wh st e = true -> StmtReason g wh st e.
Proof.
  unfold stmt_reasonb. intros H. apply existsb_exists in H. destruct H as [o [Ho Hb]].
  exists o. split; [exact Ho|]. apply orb_true_iff in Hb. destruct Hb as [Hb|Hb].
  - left. apply stale_entryb_sound. exact Hb.
  - right. apply andb_true_iff in Hb. destruct Hb as [Hw Hd]. split; [exact Hw|].
    destruct (h_disk st o); [discriminate|reflexivity].
Qed.

Lemma taint_okSb_sound wh st : taint_okSb g wh st = true -> TaintOkS g wh st.
Proof.
  intros H e o Hph Ho Ht. pose proof (edges_all_spec g _ e H (out_lt g Hwf Hwg e o Ho)) as He. cbn beta in He.
  rewrite Hph in He. cbn [orb] in He. apply orb_true_iff in He. destruct He as [He|He].
  - exfalso. apply negb_true_iff in He.
    assert (Hex : existsb (tainted st) (outs e) = true) by (apply existsb_exists; exists o; split; assumption).
    congruence.
  - apply stmt_reasonb_sound. exact He.
Qed.

Lemma taintok_S wh st : TaintOk g wh st -> TaintOkS g wh st.
Proof. intros H e o Hph Ho Ht. exists o. split; [exact Ho|left; apply (H e o Hph Ho Ht)]. Qed.

(* the per-output hypothesis of HistFailDefs implies the statement-level one, as booleans *)
Theorem taint_safe_stmt_weaker_proof st : taint_safe g st = true -> taint_safe_stmt g st = true.
Proof.
  unfold taint_safe, taint_safe_stmt, taint_okb, taint_okSb, edges_all. intros H.
  rewrite forallb_forall in *. intros e He. specialize (H e He). cbn beta in *.
  destruct (phony e); [reflexivity|]. cbn [orb] in *.
  destruct (existsb (tainted st) (outs e)) eqn:Hex; [|reflexivity]. cbn [negb orb].
  apply existsb_exists in Hex. destruct Hex as [o [Ho Ht]].
  rewrite forallb_forall in H. specialize (H o Ho). rewrite Ht in H. cbn [negb orb] in H.
  unfold stmt_reasonb. apply existsb_exists. exists o. split; [exact Ho|]. rewrite H. reflexivity.
Qed.

(* HistFailProofs.scan_clean_correctF with "a tainted output is must_dirty" as the hypothesis *)
Theorem scan_clean_correctT st : GoodF cmd g st ->
  (forall e o, phony e = false -> In o (outs e) -> tainted st o = true -> must_dirty (G st) (W st) o) ->
  forall e, (e < g_nedges g)%nat -> phony e = false ->
  forall o, In o (outs e) -> ~ must_dirty (G st) (W st) o ->
  exists m c, h_disk st o = Some (m, c) /\ clean_of cmd g st o = Some c.
Proof.
  intros HG HT. pose proof HG as [[A [B [C [D E]]]] L].
  induction e as [e IH] using lt_wf_ind. intros He Hph o Ho Hc.
  destruct (h_disk st o) as [[mo c]|] eqn:Hdo.
  2:{ exfalso. apply Hc. apply (md_base g Hwf st e o Ho Hph). left. cbn [world_of w_mtime]. unfold mtime_of. rewrite Hdo. reflexivity. }
  destruct (h_ghost st o) as [S|] eqn:Hgo.
  2:{ exfalso. apply Hc. apply (HT e o Hph Ho). unfold tainted. rewrite Hdo, Hgo. reflexivity. }
  destruct (h_blog st o) as [[h m]|] eqn:Hbo.
  2:{ exfalso. apply (E o e (o_prod g Hwf e o Ho) Hph); [rewrite Hdo; discriminate|rewrite Hgo; discriminate|exact Hbo]. }
  destruct (L e o h m mo c S Hph Ho Hbo Hdo Hgo) as [HmS [HcS Hf]].
  exists mo, c. split; [reflexivity|].
  unfold clean_of. rewrite (clean_build_out cmd g Htopo (h_hash st) (sources_of g st) e o He (o_prod g Hwf e o Ho)). rewrite Hph.
  change (clean_build cmd g (h_hash st) (sources_of g st)) with (clean_of cmd g st).
  assert (HSeq : S = map (fun i => (i, clean_of cmd g st i)) (nonoo_ins g e)).
  { apply snapshot_eq; [exact HmS|]. intros i ci Hi.
    assert (Hin : In i (nonoo_ins g e)) by (rewrite <- HmS; apply (in_map fst S (i, ci) Hi)).
    destruct (Hf i ci Hi) as [F1 F2].
    assert (Hci : ~ must_dirty (G st) (W st) i) by (apply (clean_input g Hwg Hfrag st (W st) o e i (o_prod g Hwf e o Ho) Hin Hc)).
    assert (Hfresh : forall mi c', h_disk st i = Some (mi, c') -> ci = Some c').
    { intros mi c' Hdi. apply (F2 mi c' Hdi). destruct (Z_le_gt_dec mi m) as [Hle|Hgt]; [exact Hle|].
      exfalso. apply Hc. apply (md_time g Hwf Hfrag st e o h m i He Ho Hph Hbo Hin).
      apply nt_file; cbn [world_of w_mtime]; unfold mtime_of; rewrite Hdi; [|lia].
      specialize (B i mi c' Hdi). lia. }
    destruct (g_producer g i) as [e'|] eqn:Hpi.
    - pose proof (in_below g Htopo e i He (nonoo_in g e i Hin)) as Hlt. unfold below in Hlt. rewrite Hpi in Hlt.
      assert (He' : (e' < g_nedges g)%nat) by lia.
      destruct (phony e') eqn:Hph'.
      + rewrite (F1 e' eq_refl Hph'). unfold clean_of.
        rewrite (clean_build_out cmd g Htopo _ _ e' i He' Hpi), Hph'. reflexivity.
      + destruct (IH e' Hlt He' Hph' i (p_out g Hwf i e' Hpi) Hci) as [mi [c' [Hdi Hcl]]].
        rewrite Hcl. apply (Hfresh mi c' Hdi).
    - rewrite (clean_of_leaf cmd g st i Hpi). unfold content_of.
      destruct (h_disk st i) as [[mi c']|] eqn:Hdi; [apply (Hfresh mi c' eq_refl)|].
      exfalso. apply Hci. apply md_leaf; [exact Hpi|]. cbn [world_of w_mtime]. unfold mtime_of. rewrite Hdi. reflexivity. }
  rewrite <- HSeq. f_equal. rewrite HcS.
  destruct (ei_generator (g_edge g e)) eqn:Hgn; [apply Hgen; exact Hgn|].
  destruct (N.eq_dec h (h_hash st e)) as [->|Hne]; [reflexivity|].
  exfalso. apply Hc. apply (md_base g Hwf st e o Ho Hph). right. cbn [world_of w_blog]. rewrite Hbo.
  split; [exact Hgn|exact Hne].
Qed.

Lemma taintokS_td st : GoodF cmd g st -> TaintOkS g true st ->
  forall e o, phony e = false -> In o (outs e) -> tainted st o = true -> must_dirty (G st) (W st) o.
Proof. intros HG HT e o Hph Ho Ht. apply (reason_md st e (proj1 HG) Hph (HT e o Hph Ho Ht) o Ho). Qed.

(* a successful command keeps the reasons of the other statements, and its own outputs are untainted *)
Lemma taintokS_run st k :
  GoodF cmd g st -> TaintOkS g true st -> (k < g_nedges g)%nat -> phony k = false ->
  TaintOkS g true (run_edge cmd g st k).
Proof.
  intros HG HT Hk Hphk. pose proof HG as [[A [B _]] _].
  destruct (run_edge_spec cmd g st k A B) as [Hh [Hc [Hout [Hfs [Hd [[m [Hm Hlog]] _]]]]]]. cbn zeta in *.
  set (st' := run_edge cmd g st k) in *.
  intros e o Hph Ho Ht.
  assert (Hnk : ~ In o (outs k)).
  { intros Hin. destruct (Hlog o Hin) as [_ [Hg' _]]. unfold tainted in Ht. rewrite Hg' in Ht.
    destruct (h_disk st' o); discriminate. }
  destruct (Hout o Hnk) as [E1 [E2 E3]].
  assert (Ht0 : tainted st o = true) by (rewrite <- Ht; symmetry; apply tainted_eq; assumption).
  destruct (HT e o Hph Ho Ht0) as [o' [Ho' Hr]]. exists o'. split; [exact Ho'|].
  assert (Hnk' : ~ In o' (outs k)).
  { intros Hin. apply Hnk. rewrite <- (same_prod k e o' Hin Ho'). exact Ho. }
  destruct (Hout o' Hnk') as [F1 [F2 _]].
  destruct Hr as [Hst|[Hw Hdn]].
  - left. apply (stale_mono g true st st' e o' (proj1 HG) (fresh_chg st _ (h_clock st + 1) _ _ ltac:(lia) Hfs) F2);
      [intros _; rewrite Hh; reflexivity|exact Hst].
  - right. split; [exact Hw|rewrite F1; exact Hdn].
Qed.

Section OneBuildS.
Variables (st0 : hstate) (T : list node) (s0 : sstate) (p0 : plan).
Hypothesis HG0 : GoodF cmd g st0.
Hypothesis Hscan : scan (G st0) (W st0) T = ScanOk s0 p0.
Hypothesis HT0 : TaintOkS g true st0.

Notation stk k := (build_upto cmd g p0 k st0).

Lemma invS_build_upto k : (k <= g_nedges g)%nat -> GoodF cmd g (stk k) /\ TaintOkS g true (stk k).
Proof.
  apply (build_upto_ind cmd g (fun st => GoodF cmd g st /\ TaintOkS g true st) p0 st0); [|split; assumption].
  intros st1 e [H1 H2] He Hph. split; [apply (goodF_run cmd g Hwf Htopo); assumption|apply taintokS_run; assumption].
Qed.

(* HistFailProofs.build_inv_c01F under the statement-level hypothesis *)
Lemma build_inv_c01S k : (k <= g_nedges g)%nat ->
  forall e, (e < k)%nat -> needed g T e -> phony e = false ->
  forall o, In o (outs e) ->
    exists m c, h_disk (stk k) o = Some (m, c) /\ clean_of cmd g st0 o = Some c.
Proof.
  induction k as [|k IH]; intros Hk e He Hn Hph o Ho; [lia|].
  destruct (build_inv1F cmd g Hwf Htopo st0 p0 HG0 k ltac:(lia)) as [HGk [Hh [Hf _]]].
  pose proof (proj2 (invS_build_upto k ltac:(lia))) as HTk.
  assert (IHk : forall e', (e' < k)%nat -> needed g T e' -> phony e' = false ->
            forall o', In o' (outs e') ->
            exists m c, h_disk (stk k) o' = Some (m, c) /\ clean_of cmd g st0 o' = Some c)
    by (apply IH; lia).
  set (st := stk k) in *.
  destruct (Nat.eq_dec e k) as [->|Hne].
  2:{ destruct (IHk e ltac:(lia) Hn Hph o Ho) as [m [c [Hd Hcl]]].
      destruct (step_cases cmd g st0 p0 k) as [[Hs _]|[Hs _]]; rewrite Hs; fold st; [|exists m, c; split; assumption].
      pose proof HGk as [[A [B _]] _].
      destruct (run_edge_spec cmd g st k A B) as [_ [_ [Hout _]]]. cbn zeta in Hout.
      assert (Hnin : ~ In o (outs k)).
      { intros Hin. pose proof (o_prod g Hwf k o Hin) as H1. rewrite (o_prod g Hwf e o Ho) in H1. congruence. }
      exists m, c. rewrite (proj1 (Hout o Hnin)). split; assumption. }
  assert (Hcl : clean_of cmd g st0 o =
                Some (cmd k (h_hash st0 k) (map (fun i => (i, clean_of cmd g st0 i)) (nonoo_ins g k)) o)).
  { unfold clean_of. rewrite (clean_build_out cmd g Htopo _ _ k o Hk (o_prod g Hwf k o Ho)), Hph. reflexivity. }
  destruct (step_cases cmd g st0 p0 k) as [[Hs [Hw _]]|[Hs Hskip]]; rewrite Hs; fold st.
  - pose proof HGk as [[A [B [C [D E]]]] L].
    destruct (run_edge_spec cmd g st k A B) as [_ [_ [_ [_ [_ [[m [_ Hlog]] _]]]]]]. cbn zeta in Hlog.
    destruct (Hlog o Ho) as [_ [_ [mo Hd]]]. exists mo. eexists. split; [exact Hd|].
    rewrite Hcl, Hh. f_equal. f_equal. unfold reads. apply map_ext_in. intros i Hi. f_equal.
    destruct Hn as [n [Rn Hpn]].
    destruct (g_producer g i) as [e'|] eqn:Hpi.
    + pose proof (in_below g Htopo k i Hk (nonoo_in g k i Hi)) as Hlt. unfold below in Hlt. rewrite Hpi in Hlt.
      destruct (phony e') eqn:Hph'.
      * unfold content_of. rewrite (D i e' Hpi Hph'). unfold clean_of.
        rewrite (clean_build_out cmd g Htopo _ _ e' i ltac:(lia) Hpi), Hph'. reflexivity.
      * assert (Hn' : needed g T e').
        { exists i. split; [|exact Hpi]. apply (reach_step g (manifest_ins g) T n i Rn).
          exists k. split; [exact Hpn|apply nonoo_in; exact Hi]. }
        destruct (IHk e' Hlt Hn' Hph' i (p_out g Hwf i e' Hpi)) as [mi [ci [Hdi Hci]]].
        unfold content_of. rewrite Hdi, Hci. reflexivity.
    + rewrite (clean_of_leaf cmd g st0 i Hpi). unfold content_of. rewrite (frame_leaf g st0 p0 k st i Hf Hpi). reflexivity.
  - destruct Hskip as [Hp|[Hw|Hdn]]; [congruence| |].
    + assert (Hc0 : ~ must_dirty (G st0) (W st0) o).
      { intros Hmd.
        destruct (want_complete g Hwf Hwg Hfrag st0 T s0 p0 Hscan k Hn (ex_intro _ o (conj Ho Hmd))) as [Hw' _]; [|congruence].
        intros [Hp _]. congruence. }
      destruct (scan_clean_correctT st0 HG0 (taintokS_td st0 HG0 HT0) k Hk Hph o Ho Hc0) as [m [c [Hd Hc]]].
      exists m, c. split; [|exact Hc].
      rewrite (proj1 (frame_later g st0 p0 k st o k Hf (o_prod g Hwf k o Ho) (le_n k))). exact Hd.
    + pose proof (dirty_now_spec g Hwf Hwg Hfrag st k Hdn o Ho) as Hc.
      destruct (scan_clean_correctT st HGk (taintokS_td st HGk HTk) k Hk Hph o Ho Hc) as [m [c [Hd Hcc]]].
      exists m, c. split; [exact Hd|]. rewrite <- Hcc. symmetry. apply clean_of_ext; [exact Hh|].
      intros x Hx. unfold content_of. rewrite (frame_leaf g st0 p0 k st x Hf Hx). reflexivity.
Qed.

End OneBuildS.

(* C01 for one invocation under the statement-level hypothesis *)
Theorem C01S_build st T st' :
  GoodF cmd g st -> TaintOkS g true st -> build cmd g st T = Some st' ->
  forall n, reach g T n -> content_of st' n = clean_of cmd g st' n.
Proof.
  intros HG HT H n Rn. pose proof (goodF_build cmd g Hwf Htopo st T st' HG H) as HG'.
  unfold build in H.
  destruct (scan (G st) (W st) T) as [c|m d|e| |s p] eqn:Hs; try discriminate. inversion H; subst st'.
  set (st' := build_upto cmd g p (g_nedges g) st) in *.
  destruct (build_inv1F cmd g Hwf Htopo st p HG (g_nedges g) (le_n _)) as [_ [Hh [Hf _]]].
  destruct (g_producer g n) as [e|] eqn:Hp; [|symmetry; apply clean_of_leaf; exact Hp].
  pose proof (Hwg n e Hp) as He.
  rewrite (clean_of_ext cmd g st st' Hh)
    by (intros x Hx; unfold content_of; rewrite (frame_leaf g st p _ st' x Hf Hx); reflexivity).
  destruct (phony e) eqn:Hph.
  - destruct HG' as [[_ [_ [_ [D _]]]] _]. unfold content_of. rewrite (D n e Hp Hph).
    unfold clean_of. rewrite (clean_build_out cmd g Htopo _ _ e n He Hp), Hph. reflexivity.
  - destruct (build_inv_c01S st T s p HG Hs HT (g_nedges g) (le_n _) e He (ex_intro _ n (conj Rn Hp)) Hph n (p_out g Hwf n e Hp))
      as [m [c [Hd Hc]]].
    unfold content_of. unfold st'. rewrite Hd, Hc. reflexivity.
Qed.

(* (2') recovery under the weakest hypothesis found: in the state ninja is started in, every
   half-written output belongs to a statement that has a reason of its own to run: a stale entry or a
   missing file among ALL its outputs *)
Theorem C07_kill_recovery_stmt_proof h T st' :
  khist_ok g h = true ->
  taint_safe_stmt g (run_khist cmd g (init_hstate g) h) = true ->
  build cmd g (run_khist cmd g (init_hstate g) h) T = Some st' ->
  forall n, reach g T n -> content_of st' n = clean_of cmd g st' n.
Proof.
  intros Hok Hts Hb.
  apply (C01S_build _ T st' (goodK_hist_proof h _ goodK_init_proof Hok) (taint_okSb_sound true _ Hts) Hb).
Qed.

(* ---- the extension is conservative *)
(* a kill after the last statement: the invocation is [build] *)
Theorem buildK_after_last_proof st T cp :
  (g_nedges g <= cp_pos cp)%nat -> buildK cmd g st T cp = build cmd g st T.
Proof.
  intros H. unfold buildK, buildK_full, build, buildK_at.
  destruct (scan (G st) (W st) T) as [c|m d|e| |s p]; try reflexivity.
  destruct (Nat.ltb_spec (cp_pos cp) (g_nedges g)) as [Hlt|_]; [lia|reflexivity].
Qed.

(* a kill after the last log entry of statement e is a kill before statement e+1 *)
Theorem kill_after_last_entry_proof st T e j :
  (length (outs e) <= j)%nat -> (S e < g_nedges g)%nat ->
  buildK cmd g st T (mkCP e (KLogged j)) = buildK cmd g st T (mkCP (S e) KBefore).
Proof.
  intros Hj He. unfold buildK, buildK_full, buildK_at. cbn [cp_pos cp_at].
  destruct (scan (G st) (W st) T) as [c|m d|e0| |s p]; try reflexivity.
  destruct (Nat.ltb_spec e (g_nedges g)) as [_|Hge]; [|lia].
  destruct (Nat.ltb_spec (S e) (g_nedges g)) as [_|Hge]; [|lia].
  rewrite build_upto_S. unfold build_step. fold (starts g p (build_upto cmd g p e st) e).
  destruct (starts g p (build_upto cmd g p e st) e); cbn [kill_edge].
  - destruct (Nat.leb_spec (length (outs e)) j) as [_|Hgt]; [|lia].
    destruct (starts g p (run_edge cmd g (build_upto cmd g p e st) e) (S e)); reflexivity.
  - destruct (starts g p (build_upto cmd g p e st) (S e)); reflexivity.
Qed.

(* a statement none of whose outputs has a log entry (its first run) can be killed anywhere, unless
   it is a generator rule (which needs no entry to be clean) *)
Theorem kill_benign_no_entry_proof stk e a :
  ei_generator (g_edge g e) = false -> (forall o, In o (outs e) -> h_blog stk o = None) ->
  kill_benign g stk e a = true.
Proof.
  intros Hgn Hb.
  assert (Hst : forall o, In o (outs e) -> stale_entryb g false stk e o = true).
  { intros o Ho. unfold stale_entryb. rewrite (Hb o Ho), Hgn. reflexivity. }
  destruct a as [| |k f|j]; cbn [kill_benign]; try reflexivity.
  - apply forallb_forall. intros o Ho. apply Hst. apply (firstn_incl k (outs e) o Ho).
  - apply forallb_forall. intros o Ho. apply unlogged_in in Ho. rewrite (Hst o (proj1 Ho)). apply orb_true_r.
Qed.

End HistK.

(* ================================================================== the examples are models *)
Lemma ExK_wf_spec : wf_spec ExK.g.
Proof.
  split; [|split].
  - intros e o Ho. destruct e as [|[|[|[|e]]]]; cbn in Ho;
      repeat (destruct Ho as [<-|Ho]; [reflexivity|]); destruct Ho.
  - intros n e Hp. destruct n as [|[|[|[|[|[|[|n]]]]]]]; cbn in Hp; try discriminate; inversion Hp; subst; cbn;
      try (left; reflexivity); right; left; reflexivity.
  - intros e Hd. exfalso. apply Hd. destruct e as [|[|[|[|e]]]]; reflexivity.
Qed.

Lemma ExK_wf_graph : wf_graph ExK.g.
Proof.
  intros n e Hp. destruct n as [|[|[|[|[|[|[|n]]]]]]]; cbn in Hp; try discriminate; inversion Hp; subst; cbn; lia.
Qed.

Lemma ExK_gen : forall e h h' S o,
  ei_generator (g_edge ExK.g e) = true -> ExK.cmd e h S o = ExK.cmd e h' S o.
Proof. intros e h h' S o H. destruct e as [|[|[|[|e]]]]; cbn in H; discriminate. Qed.

Lemma ExK_reach_xo : reach ExK.g ExK.T 3%nat.
Proof.
  apply (reach_step ExK.g (manifest_ins ExK.g) ExK.T 5%nat 3%nat).
  - apply (reach_step ExK.g (manifest_ins ExK.g) ExK.T 6%nat 5%nat).
    + apply reach_target. left; reflexivity.
    + exists 3%nat. split; [reflexivity|left; reflexivity].
  - exists 2%nat. split; [reflexivity|left; reflexivity].
Qed.

Lemma ExK_st4_good : Good ExK.cmd ExK.g ExK.st4.
Proof.
  apply (good_khist_clean_stop_proof ExK.cmd ExK.g ExK_wf_spec eq_refl ExK.pre);
    [apply good_init|reflexivity|reflexivity].
Qed.

(* ================================================================== the refutation *)
(* [C07_kill_recovery_proof] without its hypothesis [taint_safe] *)
Definition C07_kill_recovery_full : Prop :=
  forall (cmd : edge -> N -> snapshot -> node -> content) (g : graph),
    wf_spec g -> wf_graph g -> frag_AB g = true -> topo_ordered g = true ->
    (forall (e : edge) (h h' : N) (S : snapshot) (o : node),
       ei_generator (g_edge g e) = true -> cmd e h S o = cmd e h' S o) ->
  forall (h : list kstep) (T : list node) (st' : hstate),
    khist_ok g h = true ->
    build cmd g (run_khist cmd g (init_hstate g) h) T = Some st' ->
    forall n : node, reach g T n -> content_of st' n = clean_of cmd g st' n.

Theorem C07_kill_recovery_refuted_proof : ~ C07_kill_recovery_full.
Proof.
  intros Hfull.
  pose proof (Hfull Ex.cmd ExKill.g (ExFail_wf_spec false) (ExFail_wf_graph false) eq_refl eq_refl
                (ExFail_gen false) ExKill.hist4 [1%nat] ExKill.st4 eq_refl
                (proj1 ExKill.next_invocation_idle) 1%nat
                (reach_target ExKill.g (manifest_ins ExKill.g) [1%nat] 1%nat (or_introl eq_refl))) as H.
  vm_compute in H. discriminate.
Qed.

(* the witness in full: the graph  build out: cc src , the history
     src := 5 ; ninja out (ok) ; rm out ; ninja out (KILLED when the command has half written out: 999)
   after which the state satisfies the invariant GoodK but NOT the hypothesis [taint_safe]: the log
   entry of the first run is still there and src is not newer than it; the next  ninja out  is
   accepted, starts nothing, changes nothing, exits successfully, and out holds 999 where a clean
   build gives 2.  This is the listed finding failed-cmd-rewrote-output with a kill in place of the
   failure. *)
Theorem C07_kill_half_written_accepted_refuted_proof :
  exists (g : graph) (h : list kstep) (T : list node) (st' : hstate) (n : node),
    frag_AB g && topo_ordered g && no_inputless_phony g && khist_ok g h = true /\
    GoodK Ex.cmd g (run_khist Ex.cmd g (init_hstate g) h) /\
    taint_safe g (run_khist Ex.cmd g (init_hstate g) h) = false /\
    build Ex.cmd g (run_khist Ex.cmd g (init_hstate g) h) T = Some st' /\
    trace_delta (run_khist Ex.cmd g (init_hstate g) h) st' = [] /\
    reach g T n /\
    content_of st' n = Some 999%N /\ clean_of Ex.cmd g st' n = Some 2%N.
Proof.
  exists ExKill.g, ExKill.hist4, [1%nat], ExKill.st4, 1%nat.
  split; [vm_compute; reflexivity|]. split; [|split; [vm_compute; reflexivity|]].
  - apply (goodK_hist_proof Ex.cmd ExKill.g (ExFail_wf_spec false) eq_refl ExKill.hist4);
      [apply goodK_init_proof|reflexivity].
  - split; [exact (proj1 ExKill.next_invocation_idle)|]. split; [vm_compute; reflexivity|].
    split; [apply reach_target; left; reflexivity|]. split; vm_compute; reflexivity.
Qed.

(* ================================================================== non-vacuity *)
(* premises of [C07_kill_recovery_proof] / [C07_kill_recovery_benign_proof]: a reachable state with a
   half-written (tainted) output in which the hypothesis holds, and the accepted build *)
Theorem C07_kill_recovery_nonvacuous_proof :
  let h := ExK.pre ++ [BuildK ExK.T ExK.cp1] in
  khist_ok ExK.g h = true /\
  tainted (run_khist ExK.cmd ExK.g ExK.st0 h) 3%nat = true /\
  taint_safe ExK.g (run_khist ExK.cmd ExK.g ExK.st0 h) = true /\
  khist_benign ExK.cmd ExK.g ExK.st0 h = true /\
  exists st', build ExK.cmd ExK.g (run_khist ExK.cmd ExK.g ExK.st0 h) ExK.T = Some st' /\
              reach ExK.g ExK.T 3%nat /\ content_of st' 3%nat = clean_of ExK.cmd ExK.g st' 3%nat.
Proof.
  cbn zeta. split; [vm_compute; reflexivity|]. split; [vm_compute; reflexivity|].
  split; [vm_compute; reflexivity|]. split; [vm_compute; reflexivity|].
  eexists. split; [vm_compute; reflexivity|]. split; [exact ExK_reach_xo|vm_compute; reflexivity].
Qed.

(* premises of [C07_kill_then_build_proof] *)
Theorem C07_kill_then_build_nonvacuous_proof :
  exists st1 stk st2,
    GoodK ExK.cmd ExK.g ExK.st4 /\ taint_robust ExK.g ExK.st4 = true /\
    buildK_full ExK.cmd ExK.g ExK.st4 ExK.T ExK.cp1 = Some (st1, Some (1%nat, KWrote 1 ExK.garbage, stk)) /\
    kill_benign ExK.g stk 1%nat (KWrote 1 ExK.garbage) = true /\
    build ExK.cmd ExK.g st1 ExK.T = Some st2.
Proof.
  eexists. eexists. eexists.
  split; [apply goodF_of_good; exact ExK_st4_good|]. split; [vm_compute; reflexivity|].
  split; [vm_compute; reflexivity|]. split; [vm_compute; reflexivity|vm_compute; reflexivity].
Qed.

(* premises of [C07_killed_statement_reruns_proof] / [C07_partial_log_entries_proof]: the two-output
   statement e1 killed between its two log entries; x.map (node 4) kept its old entry, older than
   b.src; the next build starts e1 again *)
Theorem C07_partial_log_entries_nonvacuous_proof :
  exists st1 stk st2,
    GoodK ExK.cmd ExK.g ExK.st4 /\
    buildK_full ExK.cmd ExK.g ExK.st4 ExK.T ExK.cp2 = Some (st1, Some (1%nat, KLogged 1, stk)) /\
    (1 < length (ei_outs (g_edge ExK.g 1%nat)))%nat /\
    In 3%nat (logged_outs ExK.g 1%nat 1) /\ In 4%nat (unlogged_outs ExK.g 1%nat 1) /\
    In 4%nat (unrecorded_outs ExK.g 1%nat (KLogged 1)) /\
    StaleEntry ExK.g true stk 1%nat 4%nat /\
    build ExK.cmd ExK.g st1 ExK.T = Some st2 /\ In 1%nat (trace_delta st1 st2).
Proof.
  eexists. eexists. eexists.
  split; [apply goodF_of_good; exact ExK_st4_good|]. split; [vm_compute; reflexivity|].
  split; [cbn; lia|]. split; [left; reflexivity|]. split; [vm_compute; left; reflexivity|].
  split; [vm_compute; left; reflexivity|].
  split; [apply stale_entryb_sound; vm_compute; reflexivity|].
  split; [vm_compute; reflexivity|vm_compute; right; left; reflexivity].
Qed.

(* premises of [C07_interrupt_cleanup_hist_proof] / [good_buildI_proof] / [C07_interrupt_then_build_proof] *)
Theorem C07_interrupt_nonvacuous_proof :
  exists st1 stk st2,
    Good ExK.cmd ExK.g ExK.st4 /\ taint_robust ExK.g ExK.st4 = true /\
    buildI_full ExK.cmd ExK.g ExK.st4 ExK.T ExK.ip1 = Some (st1, Some (1%nat, stk)) /\
    buildI ExK.cmd ExK.g ExK.st4 ExK.T ExK.ip1 = Some (st1, 130%N) /\
    h_disk st1 3%nat = None /\ h_disk st1 4%nat = h_disk ExK.st4 4%nat /\
    build ExK.cmd ExK.g st1 ExK.T = Some st2 /\
    content_of st2 3%nat = clean_of ExK.cmd ExK.g st2 3%nat.
Proof.
  eexists. eexists. eexists.
  split; [exact ExK_st4_good|]. split; [vm_compute; reflexivity|].
  split; [vm_compute; reflexivity|]. split; [vm_compute; reflexivity|].
  split; [vm_compute; reflexivity|]. split; [vm_compute; reflexivity|].
  split; [vm_compute; reflexivity|vm_compute; reflexivity].
Qed.

(* premises of [C07_interrupt_recovery_proof] and [C07_converges_after_recovery_proof] *)
Theorem C07_histories_nonvacuous_proof :
  let hi := ExK.pre ++ [BuildI ExK.T ExK.ip1] in
  let hk := ExK.pre ++ [BuildK ExK.T ExK.cp2] in
  khist_ok ExK.g hi = true /\ forallb clean_stop hi = true /\
  (exists st', build ExK.cmd ExK.g (run_khist ExK.cmd ExK.g ExK.st0 hi) ExK.T = Some st') /\
  khist_ok ExK.g hk = true /\ no_inputless_phony ExK.g = true /\
  (exists st', build ExK.cmd ExK.g (run_khist ExK.cmd ExK.g ExK.st0 hk) ExK.T = Some st' /\
               build ExK.cmd ExK.g st' ExK.T = Some st').
Proof.
  cbn zeta. split; [reflexivity|]. split; [reflexivity|].
  split; [eexists; vm_compute; reflexivity|]. split; [reflexivity|]. split; [reflexivity|].
  eexists. split; [vm_compute; reflexivity|vm_compute; reflexivity].
Qed.

(* premises of [C07_kill_recovery_stmt_proof]: the compile is killed between its two log entries and
   again while its re-run has half written both outputs; x.o holds garbage under a valid NEW entry
   ([taint_safe] is false), x.map's old entry is stale ([taint_safe_stmt] is true) *)
Theorem C07_kill_recovery_stmt_nonvacuous_proof :
  let h := ExK.pre ++ [BuildK ExK.T ExK.cp2; BuildK ExK.T (mkCP 1 (KWrote 2 ExK.garbage))] in
  khist_ok ExK.g h = true /\
  tainted (run_khist ExK.cmd ExK.g ExK.st0 h) 3%nat = true /\
  taint_safe ExK.g (run_khist ExK.cmd ExK.g ExK.st0 h) = false /\
  taint_safe_stmt ExK.g (run_khist ExK.cmd ExK.g ExK.st0 h) = true /\
  exists st', build ExK.cmd ExK.g (run_khist ExK.cmd ExK.g ExK.st0 h) ExK.T = Some st' /\
              reach ExK.g ExK.T 3%nat /\ content_of st' 3%nat = clean_of ExK.cmd ExK.g st' 3%nat.
Proof.
  cbn zeta. split; [vm_compute; reflexivity|]. split; [vm_compute; reflexivity|].
  split; [vm_compute; reflexivity|]. split; [vm_compute; reflexivity|].
  eexists. split; [vm_compute; reflexivity|]. split; [exact ExK_reach_xo|vm_compute; reflexivity].
Qed.

