(* History-level model for property C10 (discovered dependencies count like declared implicit
   inputs): HistDefs.v extended to the fragment "ABD" = fragment AB + statements with
   [deps = gcc] (deps kind [DepsLog]: the discovered dependencies live in the deps log).
   ONLY definitions (conventions) and vm_compute Examples; theorems are in HistDepsProofs.v.

   Ground truth.  Besides the manifest graph [g] there is [hid : edge -> list node], the HIDDEN
   READS of a statement: the files its command reads besides its non-order-only manifest inputs
   (what the compiler reports in the depfile).  They are sources or outputs of other statements.
   A command's snapshot ([dreads]) covers the non-order-only manifest inputs AND the hidden reads.

   State ([dstate]): HistDefs' [hstate] plus the deps log [d_deps : node -> option (Z * list node)]
   (DepsLog::GetDeps: record mtime, nodes).

   One command ([drun_edge]) = HistDefs.finish_run (lock tick, output writes, restat =
   write-if-changed, ONE build-log entry per output with CrashDefs.record_mtime) with the larger
   snapshot; for a deps statement Builder::FinishCommand writes, BEFORE the build-log entries, one
   deps record per output: (Stat(output) at that moment, the nodes the command reported).  Both
   happen in the same atomic model step; their order only matters for crashes (C07).

   One invocation ([dbuild]): [ScanDefs.scan] on the world that CONTAINS the deps log
   ([world_of_d]), so the validated scan model decides dirtiness, including "statement already
   dirty: record only probed (LoadDepsTry), deps NOT spliced into its inputs".  The wanted
   statements are taken in edge order.  Restat pruning (Plan::CleanNode) re-evaluates a wanted
   statement on the current disk USING THE INPUTS THE EDGE HAS AT THAT TIME: [graph_now g s] is the
   manifest with every statement's inputs replaced by [es_ins] of the scan result [s] (manifest
   inputs, plus the recorded deps iff the scan spliced them in), deps kind none;
   [dirty_now_d] = HistDefs.dirty_now on that graph, and "never" for a statement whose
   [deps_missing_] flag the scan set ("Don't attempt to clean an edge if it failed to load deps").

   [inline g hid]: the manifest with every hidden read written as an implicit input and no deps
   binding; it lies in fragment AB, where HistProofs applies.  The reference contents
   ([clean_of_d]) are HistDefs.clean_of on the inlined graph. *)
From NinjaV Require Import Engine.CrashDefs.
From NinjaV Require Import Base.Bytes Engine.ScanDefs Engine.ScanSpec Engine.HistDefs.
Local Open Scope Z_scope.

(* ------------------------------------------------------------------ the fragment (checkable) *)
Definition is_deps_log (k : deps_kind) : bool := match k with DepsLog => true | _ => false end.
Definition not_depfile (k : deps_kind) : bool := match k with DepsDepfile => false | _ => true end.

(* what the scan needs: deps kind none or deps log, no validations, a deps statement has an
   output, is not phony and its order-only counter is within the input vector (wf_spec says the
   last two as Props; here they are checkable) *)
Definition frag_D (g : graph) : bool :=
  edges_all g (fun e =>
    let ei := g_edge g e in
    not_depfile (ei_deps ei) && is_nil (ei_vals ei)
    && (negb (is_deps_log (ei_deps ei))
        || (negb (ei_phony ei) && negb (is_nil (ei_outs ei))
            && Nat.leb (ei_noo ei) (length (ei_ins ei))))).

(* ... and what the history model needs on top: the manifest inputs are manifest nodes; only deps
   statements have hidden reads *)
Definition frag_ABD (g : graph) (hid : edge -> list node) : bool :=
  frag_D g &&
  edges_all g (fun e =>
    let ei := g_edge g e in
    forallb (fun i => negb (g_byloader g i)) (ei_ins ei)
    && (is_deps_log (ei_deps ei) || is_nil (hid e))).

(* ------------------------------------------------------------------ the inlined manifest *)
Definition inline_edge (ei : edge_info) (h : list node) : edge_info :=
  mkEdge (splice (ei_ins ei) (ei_noo ei) h) (ei_nimp ei + length h)%nat (ei_noo ei) (ei_outs ei)
         (ei_vals ei) (ei_phony ei) (ei_restat ei) (ei_generator ei) DepsNone (ei_hash ei).

Definition inline (g : graph) (hid : edge -> list node) : graph :=
  mkGraph (g_nedges g) (fun e => inline_edge (g_edge g e) (hid e)) (g_producer g) (fun _ => false).

(* ------------------------------------------------------------------ side conditions (checkable) *)
(* the "order-only + depfile" idiom: a GENERATED hidden read of a statement is also a manifest
   input (of any kind, typically order-only) of that statement *)
Definition hidden_reads_ordered (g : graph) (hid : edge -> list node) : bool :=
  edges_all g (fun e =>
    forallb (fun i => match g_producer g i with
                      | Some _ => mem_node i (ei_ins (g_edge g e))
                      | None => true
                      end) (hid e)).

(* what a command reads *)
Definition read_ins (g : graph) (hid : edge -> list node) (e : edge) : list node :=
  nonoo_ins g e ++ hid e.

(* [taint k]: for the statements 0 .. k-1 (in order): is the statement, or one of the statements it
   transitively reads from, a restat statement?  (The edge order is topological.) *)
Fixpoint taint (g : graph) (hid : edge -> list node) (k : nat) : list bool :=
  match k with
  | O => []
  | S k' =>
    let t := taint g hid k' in
    t ++ [ei_restat (g_edge g k')
          || existsb (fun i => match g_producer g i with Some u => nth u t false | None => false end)
                     (read_ins g hid k')]
  end.

Definition tainted (g : graph) (hid : edge -> list node) (u : edge) : bool :=
  nth u (taint g hid (g_nedges g)) false.

Definition reads_tainted (g : graph) (hid : edge -> list node) (e : edge) : bool :=
  existsb (fun i => match g_producer g i with Some u => tainted g hid u | None => false end)
          (read_ins g hid e).

(* no deps statement reads, directly or transitively, from a restat statement *)
Definition no_restat_upstream_of_deps (g : graph) (hid : edge -> list node) : bool :=
  edges_all g (fun e => negb (is_deps_log (ei_deps (g_edge g e))) || negb (reads_tainted g hid e)).

(* ------------------------------------------------------------------ the semantic state *)
Record dstate := mkD {
  d_h : hstate;
  d_deps : node -> option (Z * list node)       (* .ninja_deps: record mtime, nodes *)
}.

(* what ninja sees: the disk, the build log AND the deps log; no depfiles (deps = gcc removes the
   depfile after reading it) *)
Definition world_of_d (ds : dstate) : world :=
  mkWorld (mtime_of (d_h ds)) (h_blog (d_h ds)) (d_deps ds) (fun _ => DfMissing).

Definition init_dstate (g : graph) : dstate := mkD (init_hstate g) (fun _ => None).

(* the manifest as ninja has it in memory after the scan [s]: every statement with the inputs it
   has then (Edge::inputs_, implicit_deps_), nothing left to load *)
Definition edge_now (ei : edge_info) (es : estate) : edge_info :=
  mkEdge (es_ins es) (es_nimp es) (ei_noo ei) (ei_outs ei) (ei_vals ei)
         (ei_phony ei) (ei_restat ei) (ei_generator ei) DepsNone (ei_hash ei).

Definition graph_now (g : graph) (s : sstate) : graph :=
  mkGraph (g_nedges g) (fun e => edge_now (g_edge g e) (st_edge s e)) (g_producer g) (fun _ => false).

Section ModelD.
Variable cmd : edge -> N -> snapshot -> node -> content.
Variable g : graph.
Variable hid : edge -> list node.

(* ------------------------------------------------------------------ one successful command *)
Definition dreads (st : hstate) (e : edge) : snapshot :=
  map (fun i => (i, content_of st i)) (read_ins g hid e).

(* DepsLog::RecordDeps for every output: (Stat(output) now, the reported nodes) *)
Definition record_deps (st' : hstate) (e : edge) (dl : node -> option (Z * list node))
  : node -> option (Z * list node) :=
  if is_deps_log (ei_deps (g_edge g e))
  then fun n => if mem_node n (ei_outs (g_edge g e)) then Some (mtime_of st' n, hid e) else dl n
  else dl.

Definition drun_edge (ds : dstate) (e : edge) : dstate :=
  let st := d_h ds in
  let st' := finish_run cmd g st (tick st) e (h_hash st e) (dreads st e) (h_clock (tick st)) in
  mkD st' (record_deps st' e (d_deps ds)).

(* ------------------------------------------------------------------ one invocation of ninja *)
(* Plan::CleanNode's test for statement [e], with the inputs the scan [s] left it *)
Definition dirty_now_d (s : sstate) (ds : dstate) (e : edge) : bool :=
  es_deps_missing (st_edge s e) || dirty_now (graph_now g s) (d_h ds) e.

Definition dbuild_step (s : sstate) (p : plan) (ds : dstate) (e : edge) : dstate :=
  if want_start p e && negb (ei_phony (g_edge g e)) && dirty_now_d s ds e
  then drun_edge ds e else ds.

Definition dbuild_upto (s : sstate) (p : plan) (k : nat) (ds : dstate) : dstate :=
  fold_left (dbuild_step s p) (seq 0 k) ds.

Definition dscan (ds : dstate) (targets : list node) : scan_result :=
  scan (graph_of g (d_h ds)) (world_of_d ds) targets.

Definition dbuild (ds : dstate) (targets : list node) : option dstate :=
  match dscan ds targets with
  | ScanOk s p => Some (dbuild_upto s p (g_nedges g) ds)
  | _ => None
  end.

(* ------------------------------------------------------------------ histories *)
Definition dlift (f : hstate -> hstate) (ds : dstate) : dstate := mkD (f (d_h ds)) (d_deps ds).

Definition dapply_step (ds : dstate) (x : hstep) : dstate :=
  match x with
  | Edit n c => dlift (fun st => write_file st n c) ds
  | Delete n => dlift (fun st => delete_file st n) ds
  | SetCmd e h => dlift (fun st => set_cmd st e h) ds
  | Build targets => match dbuild ds targets with Some ds' => ds' | None => ds end
  end.

Definition drun_hist (ds : dstate) (h : list hstep) : dstate := fold_left dapply_step h ds.

(* things that are NOT history steps, for the clause "a statement whose record is missing or older
   than its output is re-run": the deps log loses a record / an output is touched by hand *)
Definition drop_deps (ds : dstate) (o : node) : dstate :=
  mkD (d_h ds) (fun n => if Nat.eqb n o then None else d_deps ds n).
Definition touch_output (ds : dstate) (o : node) (c : content) : dstate :=
  dlift (fun st => write_file st o c) ds.

(* ------------------------------------------------------------------ the reference *)
Definition clean_of_d (ds : dstate) : node -> option content :=
  clean_of cmd (inline g hid) (d_h ds).

(* the commands executed by the last step: the trace is most recent first *)
Definition ran_since (before after : hstate) : list edge :=
  firstn (length (h_trace after) - length (h_trace before)) (h_trace after).

(* the two variants side by side: the deps manifest and the inlined manifest *)
Definition both_accept (ds : dstate) (st : hstate) (targets : list node) : bool :=
  match dscan ds targets, scan (graph_of (inline g hid) st) (world_of st) targets with
  | ScanOk _ _, ScanOk _ _ => true
  | _, _ => false
  end.

(* side condition on a history: neither variant refuses a requested build.  (They can differ
   there BY DESIGN: a missing declared input is an error, a missing recorded one only makes the
   statement dirty -- theorem C10_missing_dep_dirty and Example ExD.missing_dep_dirty.) *)
Fixpoint hist_side (ds : dstate) (st : hstate) (h : list hstep) : bool :=
  match h with
  | [] => true
  | x :: h' =>
    match x with
    | Build targets => both_accept ds st targets
    | _ => true
    end
    && hist_side (dapply_step ds x) (apply_step cmd (inline g hid) st x) h'
  end.

(* a side condition that does not mention the scans: whenever a build is requested, every hidden
   read that is a source file exists and the targets are nodes of the manifest.  Then the two
   variants accept or refuse together (HistDepsProofs.accept_equiv) *)
Definition hidden_srcs_present (st : hstate) : bool :=
  edges_all g (fun e =>
    forallb (fun i => negb (is_source g i) || match h_disk st i with Some _ => true | None => false end)
            (hid e)).
Definition targets_known (targets : list node) : bool :=
  forallb (fun t => negb (g_byloader g t)) targets.

Fixpoint hist_present (ds : dstate) (h : list hstep) : bool :=
  match h with
  | [] => true
  | x :: h' =>
    match x with
    | Build targets => hidden_srcs_present (d_h ds) && targets_known targets
    | _ => true
    end
    && hist_present (dapply_step ds x) h'
  end.

(* ------------------------------------------------------------------ the invariant about records *)
(* (i) every record in the deps log belongs to an output of a deps statement and lists exactly its
   hidden reads; an output of a deps statement that has a build-log entry has a record that is
   not older than the file *)
Definition DepsOk (ds : dstate) : Prop :=
  (forall o dm l, d_deps ds o = Some (dm, l) ->
     0 <= dm /\ exists e, In o (ei_outs (g_edge g e)) /\ ei_deps (g_edge g e) = DepsLog /\ l = hid e) /\
  (forall e o, ei_deps (g_edge g e) = DepsLog -> In o (ei_outs (g_edge g e)) ->
     h_blog (d_h ds) o <> None ->
     exists dm, d_deps ds o = Some (dm, hid e) /\ mtime_of (d_h ds) o <= dm).

End ModelD.

(* ================================================================== a project with the idiom *)
(* nodes: 0 a.src   1 b.c   2 gen.h   3 b.o   4 app   5 util.h (a source header)
     e0  build gen.h : gen a.src
     e1  build b.o   : cc b.c || gen.h          deps = gcc; reads gen.h and util.h
     e2  build app   : link b.o                                                          *)
Module ExD.
Definition e0 := mkEdge [0%nat] 0 0 [2%nat] [] false false false DepsNone 100.
Definition e1 := mkEdge [1%nat; 2%nat] 0 1 [3%nat] [] false false false DepsLog 101.
Definition e2 := mkEdge [3%nat] 0 0 [4%nat] [] false false false DepsNone 102.

Definition g : graph :=
  mkGraph 3
    (fun e => match e with 0%nat => e0 | 1%nat => e1 | 2%nat => e2 | _ => Ex.dummy end)
    (fun n => match n with 2%nat => Some 0%nat | 3%nat => Some 1%nat | 4%nat => Some 2%nat | _ => None end)
    (fun n => match n with 5%nat => true | _ => false end).
Definition hid (e : edge) : list node := match e with 1%nat => [2%nat; 5%nat] | _ => [] end.

Definition cmd := Ex.cmd.
Definition ds0 := init_dstate g.
Definition gi := inline g hid.

Definition contents (ds : dstate) : list (option content) :=
  map (content_of (d_h ds)) [0; 1; 2; 3; 4; 5]%nat.
Definition cleans (ds : dstate) : list (option content) :=
  map (clean_of_d cmd g hid ds) [0; 1; 2; 3; 4; 5]%nat.

Example frag_ok :
  frag_ABD g hid && topo_ordered (inline g hid) && frag_AB (inline g hid)
  && hidden_reads_ordered g hid && no_restat_upstream_of_deps g hid = true.
Proof. vm_compute. reflexivity. Qed.

(* first build, then the source header changes: only b.o and app are rebuilt; then a.src
   changes: everything is rebuilt; then nothing *)
Definition hist : list hstep :=
  [Edit 0 10; Edit 1 20; Edit 5 30; Build [4%nat]; Edit 5 31; Build [4%nat];
   Edit 0 12; Build [4%nat]; Build [4%nat]].

Example trace : h_trace (d_h (drun_hist cmd g hid ds0 hist)) = [2; 1; 0; 2; 1; 2; 1; 0]%nat.
Proof. vm_compute. reflexivity. Qed.
Example contents_clean :
  contents (drun_hist cmd g hid ds0 hist) = cleans (drun_hist cmd g hid ds0 hist).
Proof. vm_compute. reflexivity. Qed.
Example record :
  d_deps (drun_hist cmd g hid ds0 hist) 3%nat = Some (19, [2%nat; 5%nat]).
Proof. vm_compute. reflexivity. Qed.
(* the inlined manifest does exactly the same *)
Example same_as_inlined :
  let st := run_hist cmd gi (init_hstate gi) hist in
  let ds := drun_hist cmd g hid ds0 hist in
  h_trace (d_h ds) = h_trace st /\ contents ds = map (content_of st) [0; 1; 2; 3; 4; 5]%nat /\
  h_clock (d_h ds) = h_clock st /\
  hist_ok g hist = true /\ hist_side cmd g hid ds0 (init_hstate gi) hist = true /\
  hist_present cmd g hid ds0 hist = true.
Proof. vm_compute. repeat split; reflexivity. Qed.

(* a missing hidden read that has no rule: the statement is dirty, not an error; the inlined
   manifest refuses the build *)
Definition hist_missing : list hstep :=
  [Edit 0 10; Edit 1 20; Edit 5 30; Build [4%nat]; Delete 5].
Example missing_dep_dirty :
  let ds := drun_hist cmd g hid ds0 hist_missing in
  let st := run_hist cmd gi (init_hstate gi) hist_missing in
  match dbuild cmd g hid ds [4%nat] with
  | Some ds' => ran_since (d_h ds) (d_h ds') = [2; 1]%nat
  | None => False
  end /\
  scan (graph_of gi st) (world_of st) [4%nat] = ScanMissing 5%nat (Some 3%nat).
Proof. vm_compute. split; reflexivity. Qed.

(* the record is lost / the output is newer than the record: the statement is re-run *)
Definition built := drun_hist cmd g hid ds0 [Edit 0 10; Edit 1 20; Edit 5 30; Build [4%nat]].
Example built_converged :
  match dbuild cmd g hid built [4%nat] with
  | Some ds' => ran_since (d_h built) (d_h ds') = []
  | None => False
  end.
Proof. vm_compute. reflexivity. Qed.
Example record_missing_reruns :
  match dbuild cmd g hid (drop_deps built 3%nat) [4%nat] with
  | Some ds' => ran_since (d_h built) (d_h ds') = [2; 1]%nat
  | None => False
  end.
Proof. vm_compute. reflexivity. Qed.
Example record_older_reruns :
  let ds := touch_output built 3%nat 999%N in
  match dbuild cmd g hid ds [4%nat] with
  | Some ds' => ran_since (d_h ds) (d_h ds') = [2; 1]%nat
  | None => False
  end.
Proof. vm_compute. reflexivity. Qed.
End ExD.

(* ================================================================== finding: restat-prune-ignores-recorded-deps *)
(* nodes: 0 a.src   1 util.h (source header)   2 gen.h   3 b.o
     e0  build gen.h : halve a.src     restat = 1
     e1  build b.o   : cc gen.h        deps = gcc; reads util.h
   After a first build, a.src changes without changing gen.h (11/2 = 10/2) and util.h changes.
   Scan: e0 dirty; e1 dirty because its input gen.h is dirty, so its record is only probed.
   e0 runs, leaves gen.h untouched; CleanNode re-evaluates e1 against [gen.h] only: clean, pruned.
   The build succeeds with b.o compiled against the OLD util.h; the next build re-runs e1. *)
Module ExRestatPrune.
Definition e0 := mkEdge [0%nat] 0 0 [2%nat] [] false true false DepsNone 100.
Definition e1 := mkEdge [2%nat] 0 0 [3%nat] [] false false false DepsLog 101.
Definition g : graph :=
  mkGraph 2 (fun e => match e with 0%nat => e0 | 1%nat => e1 | _ => Ex.dummy end)
    (fun n => match n with 2%nat => Some 0%nat | 3%nat => Some 1%nat | _ => None end)
    (fun n => match n with 1%nat => true | _ => false end).
Definition hid (e : edge) : list node := match e with 1%nat => [1%nat] | _ => [] end.
Definition gi := inline g hid.
Definition cmd := Ex.cmd.

Definition hist : list hstep :=
  [Edit 0 10; Edit 1 5; Build [3%nat]; Edit 0 11; Edit 1 6; Build [3%nat]].
Definition ds_before := drun_hist cmd g hid (init_dstate g) (firstn 5 hist).
Definition ds_end := drun_hist cmd g hid (init_dstate g) hist.
Definition st_end := run_hist cmd gi (init_hstate gi) hist.

Example conditions :
  frag_ABD g hid && topo_ordered gi && frag_AB gi && hidden_reads_ordered g hid
  && hist_ok g hist && hist_side cmd g hid (init_dstate g) (init_hstate gi) hist = true
  /\ no_restat_upstream_of_deps g hid = false.
Proof. vm_compute. split; reflexivity. Qed.

(* the last build is accepted, runs e0 only, and leaves b.o stale *)
Example deps_variant_stale :
  dbuild cmd g hid ds_before [3%nat] = Some ds_end /\
  ran_since (d_h ds_before) (d_h ds_end) = [0%nat] /\
  content_of (d_h ds_end) 3%nat <> clean_of_d cmd g hid ds_end 3%nat.
Proof. vm_compute. split; [reflexivity|split; [reflexivity|discriminate]]. Qed.
(* the scan had NOT loaded the record of e1 (inputs = [gen.h]) although it is valid *)
Example record_not_loaded :
  match dscan g ds_before [3%nat] with
  | ScanOk s p => es_ins (st_edge s 1%nat) = [2%nat] /\ es_deps_missing (st_edge s 1%nat) = false /\
                  p_want p 1%nat = Some WantToStart /\
                  valid_deps (graph_of g (d_h ds_before)) (world_of_d ds_before) 1%nat = [1%nat]
  | _ => False
  end.
Proof. vm_compute. repeat split; reflexivity. Qed.
(* the inlined manifest rebuilds b.o *)
Example inlined_variant_right :
  h_trace st_end = [1; 0; 1; 0]%nat /\
  content_of st_end 3%nat = clean_of cmd gi st_end 3%nat.
Proof. vm_compute. split; reflexivity. Qed.
(* ... and the NEXT build of the deps variant re-runs e1 (no convergence) *)
Example next_build_reruns :
  match dbuild cmd g hid ds_end [3%nat] with
  | Some ds' => ran_since (d_h ds_end) (d_h ds') = [1%nat] /\
                content_of (d_h ds') 3%nat = clean_of_d cmd g hid ds' 3%nat
  | None => False
  end.
Proof. vm_compute. split; reflexivity. Qed.
End ExRestatPrune.

(* ================================================================== finding: dirty-edge-deps-not-loaded *)
(* nodes: 0 a.src   1 b.c   2 gen.h   3 b.o
     e0  build gen.h : gen a.src
     e1  build b.o   : cc b.c          deps = gcc; reads gen.h, which the manifest does NOT mention
                                       among the inputs of e1 (no order-only edge: the idiom is
                                       not followed)
   First build of both.  Then a.src and b.c change and b.o is requested: e1 is dirty for its own
   reason (b.c), its record is only probed, gen.h's statement is neither visited nor wanted; e1 is
   compiled against the stale gen.h and the build succeeds. *)
Module ExNotLoaded.
Definition e0 := mkEdge [0%nat] 0 0 [2%nat] [] false false false DepsNone 100.
Definition e1 := mkEdge [1%nat] 0 0 [3%nat] [] false false false DepsLog 101.
Definition g : graph :=
  mkGraph 2 (fun e => match e with 0%nat => e0 | 1%nat => e1 | _ => Ex.dummy end)
    (fun n => match n with 2%nat => Some 0%nat | 3%nat => Some 1%nat | _ => None end)
    (fun _ => false).
Definition hid (e : edge) : list node := match e with 1%nat => [2%nat] | _ => [] end.
Definition gi := inline g hid.
Definition cmd := Ex.cmd.

Definition hist : list hstep :=
  [Edit 0 10; Edit 1 20; Build [2%nat; 3%nat]; Edit 0 12; Edit 1 21; Build [3%nat]].
Definition ds_before := drun_hist cmd g hid (init_dstate g) (firstn 5 hist).
Definition ds_end := drun_hist cmd g hid (init_dstate g) hist.
Definition st_end := run_hist cmd gi (init_hstate gi) hist.

Example conditions :
  frag_ABD g hid && topo_ordered gi && frag_AB gi && no_restat_upstream_of_deps g hid
  && hist_ok g hist && hist_side cmd g hid (init_dstate g) (init_hstate gi) hist = true
  /\ hidden_reads_ordered g hid = false.
Proof. vm_compute. split; reflexivity. Qed.

(* the last build is accepted, runs e1 WITHOUT bringing gen.h up to date, and b.o is stale *)
Example deps_variant_stale :
  dbuild cmd g hid ds_before [3%nat] = Some ds_end /\
  ran_since (d_h ds_before) (d_h ds_end) = [1%nat] /\
  content_of (d_h ds_end) 2%nat <> clean_of_d cmd g hid ds_end 2%nat /\
  content_of (d_h ds_end) 3%nat <> clean_of_d cmd g hid ds_end 3%nat.
Proof. vm_compute. split; [reflexivity|split; [reflexivity|split; discriminate]]. Qed.
(* gen.h's statement was neither visited nor put in the plan *)
Example producer_not_visited :
  match dscan g ds_before [3%nat] with
  | ScanOk s p => es_mark (st_edge s 0%nat) = VisitNone /\ p_want p 0%nat = None /\
                  p_want p 1%nat = Some WantToStart /\ es_ins (st_edge s 1%nat) = [1%nat]
  | _ => False
  end.
Proof. vm_compute. repeat split; reflexivity. Qed.
(* the inlined manifest runs e0 then e1 *)
Example inlined_variant_right :
  h_trace st_end = [1; 0; 1; 0]%nat /\
  content_of st_end 3%nat = clean_of cmd gi st_end 3%nat.
Proof. vm_compute. split; reflexivity. Qed.
End ExNotLoaded.
