(* Proofs about HistDyndepFaithful.v ([ybuild_ff]: the dyndep invocation with ninja's own mid-build load).
   No axioms.
   Part A : Plan::CleanNode never raises a want flag ([clean_node_wle], [restat_clean_wle]).
   Part B : an invocation in which every dyndep file is loaded at scan time ([no_pending]) -- in particular
            every invocation when all dyndep files are sources -- is the SAME for [ybuild_ff] and [ybuild_f]
            ([ff_eq_f_nopending]), and both are HistFaithful.build_f of the inlined manifest when the files are
            loaded in full ([f_eq_build_f]).
   Part C : consequences with the premises of Properties_C11hist: one request ([ybuild_ff_sources]), histories
            ([hist_equiv_ff]), C01, C02.
   Part B': bounded exhaustive comparison with [ybuild] for produced files ([check_sound], [C11_ff_bounded_proof]:
            vm_compute over about 600 000 histories; this is what takes the compile time).
   Part D : what is NOT proved (a load in the middle of the build), stated in full; the refutations: without
            [no_inputless_phony] [ybuild_ff] and [ybuild_f] differ (ExAlwaysDD, ExPrunedProducer); a failing load
            leaves the producer unlogged (ExFailingLoad). *)
From NinjaV Require Import Engine.CrashDefs.
From NinjaV Require Import Base.Bytes Engine.ScanDefs Engine.ScanSpec Engine.ScanProofs Engine.HistDefs Engine.HistProofs Engine.HistFaithful Engine.HistFaithfulProofs Engine.HistDyndepDefs Engine.HistDyndepProofs Engine.HistDyndepFaithful.
Local Open Scope nat_scope.

(* ================================================================== Part A: CleanNode only lowers wants *)
Definition wle (x' x : cst) : Prop := forall e, c_want x' e = true -> c_want x e = true.

Lemma wle_refl x : wle x x.
Proof. intros e H. exact H. Qed.
Lemma wle_trans a b c : wle a b -> wle b c -> wle a c.
Proof. intros H K e He. apply K. apply H. exact He. Qed.

Lemma ofold_wle {A : Type} (F : A -> cst -> option cst) : forall l x x',
  (forall a y y', In a l -> F a y = Some y' -> wle y' y) ->
  ofold F l x = Some x' -> wle x' x.
Proof.
  induction l as [|a l IH]; intros x x' HF H; cbn [ofold] in H.
  - inversion H; subst. apply wle_refl.
  - destruct (F a x) as [x1|] eqn:E; [|discriminate].
    apply (wle_trans x' x1 x).
    + apply (IH x1 x'); [|exact H]. intros b y0 y' Hb. apply HF. right. exact Hb.
    + apply (HF a x x1); [left; reflexivity|exact E].
Qed.

Lemma unwant_le wt e e' : unwant wt e e' = true -> wt e' = true.
Proof. unfold unwant. destruct (Nat.eqb e' e); [discriminate|auto]. Qed.

Lemma clean_edge_wle G w rec e x x' :
  (forall n y y', rec n y = Some y' -> wle y' y) ->
  clean_edge G w rec e x = Some x' -> wle x' x.
Proof.
  intros Hrec H. unfold clean_edge in H.
  destruct (c_want x e && negb (es_deps_missing (st_edge (c_s x) e))
            && forallb (fun i => negb (ns_dirty (st_node (c_s x) i))) (cn_nonoo G (c_s x) e))%bool.
  2:{ inversion H; subst. apply wle_refl. }
  destruct (outputs_dirty_all G w e (edge_outs G e) (cn_mri (c_s x) (cn_nonoo G (c_s x) e)) (c_s x)) as [d s1].
  destruct d.
  - inversion H; subst. intros e' He'. exact He'.
  - destruct (ofold rec (edge_outs G e) (mkC s1 (c_want x))) as [x1|] eqn:E; [|discriminate].
    inversion H; subst. intros e' He'. cbn [c_want] in He'. apply unwant_le in He'.
    apply (ofold_wle rec (edge_outs G e) (mkC s1 (c_want x)) x1 (fun a y0 y' _ Hy => Hrec a y0 y' Hy) E e' He').
Qed.

Lemma clean_node_wle G w : forall f n x x', clean_node G w f n x = Some x' -> wle x' x.
Proof.
  induction f as [|f IH]; intros n x x' H; cbn [clean_node] in H; [discriminate|].
  intros e He.
  apply (ofold_wle (clean_edge G w (clean_node G w f)) _ _ x' (fun a y0 y' _ Hy => clean_edge_wle G w _ a y0 y' (IH) Hy) H e He).
Qed.

Lemma restat_clean_wle G w e x x' : restat_clean G w e x = Some x' -> wle x' x.
Proof.
  unfold restat_clean. destruct (ei_restat (g_edge G e)); [|intros H; inversion H; subst; apply wle_refl].
  apply ofold_wle. intros o y0 y' _ H.
  destruct (Z.eqb _ _); [apply (clean_node_wle G w _ o y0 y' H)|inversion H; subst; apply wle_refl].
Qed.

(* ================================================================== Part B: no load in the middle of the build *)
Section NoLoad.
Variable cmd : edge -> N -> snapshot -> node -> content.
Variable g : graph.
Variable y : dyninfo.

(* every dyndep file is loaded when the loop starts *)
Definition no_pending (L : list node) : bool := forallb (fun dd => mem_node dd L) (y_dds y).

Lemma no_pending_nil L k : no_pending L = true -> pending_of g y L k = [].
Proof.
  intros H. unfold pending_of. unfold no_pending in H. rewrite forallb_forall in H.
  induction (y_dds y) as [|d l IH]; [reflexivity|]. cbn [filter].
  rewrite (H d (or_introl eq_refl)). cbn [negb andb]. apply IH. intros x Hx. apply H. right. exact Hx.
Qed.

(* [ffrun] against [frun] *)
Definition Rff (idx : nat) (a : ffrun) (b : frun) : Prop :=
  match a, b with
  | FFRun c, FRun d =>
    ff_st c = fc_st d /\ ff_L c = fc_L d /\ ff_x c = fc_x d /\ ff_stop c = false /\ fc_stop d = false /\
    (forall e, idx <= e -> c_want (ff_x c) e = true -> ff_plan c e = true) /\
    (forall e, fc_ran d e = true -> e < idx)
  | FFFuel st, FFail st' => st = st'
  | _, _ => False
  end.

Lemma step_Rff T L k a b : no_pending L = true ->
  (forall c, a = FFRun c -> ff_L c = L) ->
  Rff k a b -> Rff (S k) (ffstep cmd g y T a k) (ystep_f cmd g y T b k).
Proof.
  intros HL HaL HR. destruct a as [c|sta|sta], b as [d|stb]; try (destruct HR; fail).
  - destruct HR as [E1 [E2 [E3 [E4 [E5 [Hw Hr]]]]]]. pose proof (HaL c eq_refl) as EL.
    unfold ffstep, ystep_f. rewrite E4, E5. cbn [orb].
    assert (Hrk : fc_ran d k = false).
    { destruct (fc_ran d k) eqn:E; [|reflexivity]. specialize (Hr k E). lia. }
    rewrite Hrk. cbv zeta. rewrite <- E1, <- E2, <- E3, EL.
    rewrite (no_pending_nil L k HL).
    destruct (ff_plan c k) eqn:Hp; cbn [negb].
    + destruct (c_want (ff_x c) k && negb (ei_phony (g_edge (gl g y L) k)))%bool eqn:Hrun.
      * destruct (restat_clean _ _ k _) as [x1|] eqn:Hc; [|reflexivity].
        cbn [Rff ff_st ff_L ff_x ff_stop ff_plan fc_st fc_L fc_x fc_stop fc_ran].
        repeat (split; [reflexivity|]). split.
        -- intros e He Hwe. pose proof (restat_clean_wle _ _ _ _ _ Hc e Hwe) as Hw0. cbn [c_want] in Hw0.
           apply unwant_le in Hw0. unfold unwant. destruct (Nat.eqb e k) eqn:Ek; [apply Nat.eqb_eq in Ek; lia|].
           apply Hw; [lia|exact Hw0].
        -- intros e He. destruct (Nat.eqb e k) eqn:Ek; [apply Nat.eqb_eq in Ek; lia|]. specialize (Hr e He). lia.
      * cbn [Rff ff_st ff_L ff_x ff_stop ff_plan fc_st fc_L fc_x fc_stop fc_ran].
        repeat (split; [reflexivity|]). split.
        -- intros e He Hwe. unfold unwant. destruct (Nat.eqb e k) eqn:Ek; [apply Nat.eqb_eq in Ek; lia|].
           apply Hw; [lia|exact Hwe].
        -- intros e He. destruct (Nat.eqb e k) eqn:Ek; [apply Nat.eqb_eq in Ek; lia|]. specialize (Hr e He). lia.
    + assert (Hwk : c_want (ff_x c) k = false).
      { destruct (c_want (ff_x c) k) eqn:E; [|reflexivity]. rewrite (Hw k (le_n _) E) in Hp. discriminate. }
      rewrite Hwk. cbn [andb].
      cbn [Rff ff_st ff_L ff_x ff_stop ff_plan fc_st fc_L fc_x fc_stop fc_ran].
      split; [reflexivity|]. split; [first [reflexivity|exact EL]|]. split; [reflexivity|]. split; [first [reflexivity|exact E4]|]. split; [reflexivity|]. split.
      * intros e He Hwe. apply Hw; [lia|exact Hwe].
      * intros e He. destruct (Nat.eqb e k) eqn:Ek; [apply Nat.eqb_eq in Ek; lia|]. specialize (Hr e He). lia.
  - cbn [ffstep ystep_f]. exact HR.
Qed.

Lemma ffstep_L T L a k c' : no_pending L = true ->
  (forall c, a = FFRun c -> ff_L c = L) -> ffstep cmd g y T a k = FFRun c' -> ff_L c' = L.
Proof.
  intros HL HaL H. destruct a as [c|sta|sta]; cbn [ffstep] in H; try discriminate.
  pose proof (HaL c eq_refl) as EL.
  destruct (ff_stop c || negb (ff_plan c k))%bool; [inversion H as [Hc]; rewrite <- Hc; exact EL|].
  cbv zeta in H. rewrite EL in H. rewrite (no_pending_nil L k HL) in H.
  destruct (if (c_want (ff_x c) k && negb (ei_phony (g_edge (gl g y L) k)))%bool then _ else _) as [x1|];
    [|discriminate].
  inversion H as [Hc]. reflexivity.
Qed.

Lemma fold_Rff T L : no_pending L = true -> forall n a0 a b,
  (forall c, a = FFRun c -> ff_L c = L) -> Rff a0 a b ->
  Rff (a0 + n) (fold_left (ffstep cmd g y T) (seq a0 n) a) (fold_left (ystep_f cmd g y T) (seq a0 n) b) /\
  (forall c, fold_left (ffstep cmd g y T) (seq a0 n) a = FFRun c -> ff_L c = L).
Proof.
  intros HL. induction n as [|n IH]; intros a0 a b HaL HR; cbn [seq fold_left].
  - rewrite Nat.add_0_r. split; [exact HR|exact HaL].
  - replace (a0 + S n) with (S a0 + n) by lia. apply IH.
    + intros c Hc. apply (ffstep_L T L a a0 c HL HaL Hc).
    + apply (step_Rff T L a0 a b HL HaL HR).
Qed.

(* the two invocations are the same when nothing is pending after the scan-time loads *)
Theorem ff_eq_f_nopending st T : no_pending (scan_loads g y st) = true ->
  yres_of (ybuild_ff cmd g y st T) = ybuild_f cmd g y st T.
Proof.
  intros HL. unfold ybuild_ff, ybuild_f.
  destruct (scan (graph_of (gl g y (scan_loads g y st)) st) (world_of st) T) as [c1|m1 d1|e1| |s p]; try reflexivity.
  destruct (dd_src_missing g y st s); [reflexivity|].
  set (c0 := mkFF st (scan_loads g y st) (init_cst s p)
                  (fun e => match p_want p e with Some _ => true | None => false end) (fun _ => false) false).
  set (d0 := mkFC st (scan_loads g y st) (init_cst s p) (fun _ => false) false).
  unfold pass_fuel. cbn [ffpasses ypasses_f]. unfold ffpass, ypass_f.
  cbn [c0 d0 ff_st ff_L ff_x ff_plan ff_fin fc_st fc_L fc_x fc_ran].
  destruct (fold_Rff T (scan_loads g y st) HL (g_nedges g) 0 (FFRun c0) (FRun d0)) as [HR _].
  - intros c Hc. inversion Hc; subst. reflexivity.
  - cbn [Rff c0 d0 ff_st ff_L ff_x ff_stop ff_plan fc_st fc_L fc_x fc_stop fc_ran].
    repeat (split; [reflexivity|]). split.
    + intros e _ He. cbn [init_cst c_want] in He. unfold want_start in He.
      destruct (p_want p e); [reflexivity|discriminate].
    + intros e He. discriminate.
  - fold c0 d0. cbn [plus] in HR.
    destruct (fold_left (ffstep cmd g y T) (seq 0 (g_nedges g)) (FFRun c0)) as [c|sta|sta];
      destruct (fold_left (ystep_f cmd g y T) (seq 0 (g_nedges g)) (FRun d0)) as [d|stb]; try (destruct HR; fail).
    + destruct HR as [E1 [_ [_ [E4 [E5 _]]]]]. rewrite E4, E5. cbv beta iota. rewrite E4, E5. cbn [yres_of]. rewrite E1. reflexivity.
    + cbn [Rff] in HR. subst. reflexivity.
Qed.

(* ---- [ybuild_f] with everything loaded is HistFaithful.build_f of the inlined manifest *)
Definition Rfb (idx : nat) (b : frun) (o : option (hstate * cst)) : Prop :=
  match b, o with
  | FRun d, Some (st, x) => fc_st d = st /\ fc_x d = x /\ fc_L d = y_dds y /\ fc_stop d = false /\
                            (forall e, fc_ran d e = true -> e < idx)
  | FFail _, None => True
  | _, _ => False
  end.

Lemma nopend_all k : pending_of g y (y_dds y) k = [].
Proof. apply no_pending_nil. unfold no_pending. apply forallb_forall. intros d Hd. apply mem_In. exact Hd. Qed.

Lemma step_Rfb T k b o : Rfb k b o ->
  Rfb (S k) (ystep_f cmd g y T b k) (build_step_f cmd (inline_y g y) o k).
Proof.
  intros HR. destruct b as [d|stb], o as [[st x]|]; try (destruct HR; fail).
  - destruct HR as [E1 [E2 [E3 [E4 Hr]]]]. unfold ystep_f, build_step_f. rewrite E4. cbn [orb].
    assert (Hrk : fc_ran d k = false).
    { destruct (fc_ran d k) eqn:E; [|reflexivity]. specialize (Hr k E). lia. }
    rewrite Hrk. cbv zeta. rewrite E1, E2, E3. rewrite nopend_all. unfold dirty_now_f, gl.
    change (load_for g y (y_dds y)) with (inline_y g y).
    destruct (c_want x k && negb (ei_phony (g_edge (inline_y g y) k)))%bool.
    + destruct (restat_clean _ _ k _) as [x1|]; [|exact I].
      cbn [Rfb fc_st fc_x fc_L fc_stop fc_ran]. repeat (split; [reflexivity|]).
      intros e He. destruct (Nat.eqb e k) eqn:Ek; [apply Nat.eqb_eq in Ek; lia|]. specialize (Hr e He). lia.
    + cbn [Rfb fc_st fc_x fc_L fc_stop fc_ran]. repeat (split; [reflexivity|]).
      intros e He. destruct (Nat.eqb e k) eqn:Ek; [apply Nat.eqb_eq in Ek; lia|]. specialize (Hr e He). lia.
  - cbn [ystep_f build_step_f]. exact I.
Qed.

Lemma fold_Rfb T : forall n a0 b o, Rfb a0 b o ->
  Rfb (a0 + n) (fold_left (ystep_f cmd g y T) (seq a0 n) b) (fold_left (build_step_f cmd (inline_y g y)) (seq a0 n) o).
Proof.
  induction n as [|n IH]; intros a0 b o HR; cbn [seq fold_left].
  - rewrite Nat.add_0_r. exact HR.
  - replace (a0 + S n) with (S a0 + n) by lia. apply IH. apply step_Rfb. exact HR.
Qed.

Theorem f_eq_build_f st T st' :
  scan_loads g y st = y_dds y ->
  (forall s, dd_src_missing g y st s = false) ->
  build_f cmd (inline_y g y) st T = Some st' ->
  ybuild_f cmd g y st T = YDone st'.
Proof.
  intros HL Hm H. unfold ybuild_f, build_f in *. rewrite HL. unfold gl.
  change (load_for g y (y_dds y)) with (inline_y g y).
  destruct (scan (graph_of (inline_y g y) st) (world_of st) T) as [c1|m1 d1|e1| |s p]; try discriminate.
  rewrite (Hm s). unfold pass_fuel. cbn [ypasses_f]. unfold ypass_f, build_upto_f in *.
  cbn [fc_st fc_L fc_x fc_ran].
  pose proof (fold_Rfb T (g_nedges g) 0 (FRun (mkFC st (y_dds y) (init_cst s p) (fun _ => false) false))
                (Some (st, init_cst s p))) as HR.
  cbn [plus] in HR. change (g_nedges (inline_y g y)) with (g_nedges g) in H.
  destruct (fold_left (build_step_f cmd (inline_y g y)) (seq 0 (g_nedges g)) (Some (st, init_cst s p))) as [[st1 x1]|];
    [|discriminate].
  inversion H; subst st1.
  destruct (fold_left (ystep_f cmd g y T) (seq 0 (g_nedges g)) _) as [d|stb].
  - destruct HR as [E1 [_ [_ [E4 _]]]].
    + cbn [Rfb fc_st fc_x fc_L fc_stop fc_ran]. repeat (split; [reflexivity|]). intros e He. discriminate.
    + rewrite E4. cbv beta iota. rewrite E4, E1. reflexivity.
  - exfalso. apply HR. cbn [Rfb fc_st fc_x fc_L fc_stop fc_ran]. repeat (split; [reflexivity|]). intros e He. discriminate.
Qed.

(* all dyndep files sources: they are all loaded at scan time, in the order of [y_dds] *)
Lemma scan_loads_sources st : all_dd_sources g y = true -> scan_loads g y st = y_dds y.
Proof.
  intros H. unfold scan_loads, all_dd_sources in *. rewrite forallb_forall in H.
  assert (K : forall l acc, (forall d, In d l -> g_producer g d = None) ->
            fold_left (fun L dd => if dd_ready g y st L dd then L ++ [dd] else L) l acc = acc ++ l).
  { induction l as [|d l IH]; intros acc Hl; cbn [fold_left]; [rewrite app_nil_r; reflexivity|].
    unfold dd_ready at 2. rewrite (Hl d (or_introl eq_refl)). rewrite IH; [|intros x Hx; apply Hl; right; exact Hx].
    rewrite <- app_assoc. reflexivity. }
  rewrite K; [reflexivity|]. intros d Hd. specialize (H d Hd). apply negb_true_iff in H.
  destruct (g_producer g d); [discriminate|reflexivity].
Qed.

End NoLoad.

(* ================================================================== Part C: with the premises of Properties_C11hist *)
Lemma yres_of_done r st : yres_of r = YDone st -> r = FDone st.
Proof. destruct r; cbn [yres_of]; intros H; try discriminate. inversion H. reflexivity. Qed.

Lemma no_pending_all y L : L = y_dds y -> no_pending y L = true.
Proof. intros ->. unfold no_pending. apply forallb_forall. intros d Hd. apply mem_In. exact Hd. Qed.

Section Premises.
Variable g : graph.
Variable y : dyninfo.
Hypothesis Hwf : wf_spec g.
Hypothesis Hwg : wf_graph g.
Hypothesis Hy : wf_y g y.
Hypothesis Hfr : frag_ABY g y = true.
Notation GI := (inline_y g y).
Hypothesis Hfi : frag_AB GI = true.
Hypothesis Hti : topo_ordered GI = true.
Hypothesis Hord : dd_ins_ordered g y = true.
Hypothesis Hnip : no_inputless_phony GI = true.
Hypothesis Hnl : no_late_restat g y = true.
Variable cmd : edge -> N -> snapshot -> node -> content.

(* one request in which every dyndep file is loaded at scan time: the four invocations agree *)
Theorem ybuild_ff_allready st T :
  Good cmd GI st -> srcs_present g y st = true -> targets_produced g T = true ->
  scan_loads g y st = y_dds y ->
  exists st', ybuild_ff cmd g y st T = FDone st' /\ ybuild_f cmd g y st T = YDone st' /\
              ybuild cmd g y st T = YDone st' /\ build cmd GI st T = Some st'.
Proof.
  intros HG Hs HT HL.
  destruct (ybuild_equiv g y Hwf Hwg Hy Hfr Hfi Hti Hord Hnip Hnl cmd st T HG Hs HT) as [st' [Hyb Hb]].
  exists st'.
  assert (Hbf : build_f cmd GI st T = Some st').
  { rewrite (build_f_eq_build cmd GI (gl_wf_spec g y Hwf Hy Hfr _) (gl_wf_graph g y Hwg Hy _) Hfi Hti st T HG Hnip).
    exact Hb. }
  assert (Hf : ybuild_f cmd g y st T = YDone st').
  { apply (f_eq_build_f cmd g y st T st' HL); [|exact Hbf].
    intros s. apply (src_missing_false g y Hwf Hy Hfr Hti cmd st init_plan HG Hs s). }
  split; [|split; [exact Hf|split; [exact Hyb|exact Hb]]].
  apply yres_of_done. rewrite (ff_eq_f_nopending cmd g y st T (no_pending_all y _ HL)). exact Hf.
Qed.

Section Sources.
Hypothesis Hall : all_dd_sources g y = true.

Theorem ybuild_ff_sources st T :
  Good cmd GI st -> srcs_present g y st = true -> targets_produced g T = true ->
  exists st', ybuild_ff cmd g y st T = FDone st' /\ ybuild_f cmd g y st T = YDone st' /\
              ybuild cmd g y st T = YDone st' /\ build cmd GI st T = Some st'.
Proof.
  intros HG Hs HT. apply (ybuild_ff_allready st T HG Hs HT). apply (scan_loads_sources g y st Hall).
Qed.

Theorem hist_equiv_ff : forall h st, Good cmd GI st -> hist_ok GI h = true -> hist_present_y cmd g y st h = true ->
  yrun_hist_ff cmd g y st h = run_hist cmd GI st h /\
  yrun_hist_ff cmd g y st h = yrun_hist cmd g y st h.
Proof.
  induction h as [|x h IH]; intros st HG Hok Hp; [split; reflexivity|].
  cbn [hist_ok forallb] in Hok. apply andb_split in Hok. destruct Hok as [Hx Hok].
  cbn [hist_present_y] in Hp. apply andb_split in Hp. destruct Hp as [Hpx Hp].
  assert (Hstep : yapply_step_ff cmd g y st x = apply_step cmd GI st x /\
                  yapply_step cmd g y st x = apply_step cmd GI st x).
  { destruct x as [n c|n|e h0|T]; try (split; reflexivity).
    apply andb_split in Hpx. destruct Hpx as [Hs HT].
    destruct (ybuild_ff_sources st T HG Hs HT) as [st' [Hff [_ [Hyb Hb]]]].
    cbn [yapply_step_ff yapply_step apply_step]. rewrite Hff, Hyb, Hb. split; reflexivity. }
  destruct Hstep as [S1 S2].
  cbn [yrun_hist_ff yrun_hist run_hist fold_left]. rewrite S1. rewrite S2 in *.
  apply IH; [|exact Hok|exact Hp].
  apply (good_step cmd GI (gl_wf_spec g y Hwf Hy Hfr _) Hti st x HG Hx).
Qed.

Hypothesis Hgen : forall e h h' S o,
  ei_generator (g_edge GI e) = true -> cmd e h S o = cmd e h' S o.

Theorem ff_C01 h T : hist_ok GI h = true -> hist_present_y cmd g y (init_hstate GI) h = true ->
  let s := yrun_hist_ff cmd g y (init_hstate GI) h in
  srcs_present g y s = true -> targets_produced g T = true ->
  exists st', ybuild_ff cmd g y s T = FDone st' /\
    forall n, reach GI T n -> content_of st' n = clean_of cmd GI st' n.
Proof.
  intros Hok Hp s Hs HT.
  destruct (hist_equiv_ff h _ (good_init cmd GI) Hok Hp) as [E1 _]. fold s in E1.
  assert (HG : Good cmd GI s).
  { rewrite E1. apply (good_hist cmd GI (gl_wf_spec g y Hwf Hy Hfr _) Hti h _ (good_init cmd GI) Hok). }
  destruct (ybuild_ff_sources s T HG Hs HT) as [st' [Hff [_ [_ Hb]]]].
  exists st'. split; [exact Hff|]. rewrite E1 in Hb.
  apply (C01_history cmd GI (gl_wf_spec g y Hwf Hy Hfr _) (gl_wf_graph g y Hwg Hy _) Hfi Hti Hgen h T st' Hok Hb).
Qed.

Theorem ff_C02 h T st' : hist_ok GI h = true -> hist_present_y cmd g y (init_hstate GI) h = true ->
  let s := yrun_hist_ff cmd g y (init_hstate GI) h in
  srcs_present g y s = true -> targets_produced g T = true ->
  ybuild_ff cmd g y s T = FDone st' -> ybuild_ff cmd g y st' T = FDone st'.
Proof.
  intros Hok Hp s Hs HT H1.
  destruct (hist_equiv_ff h _ (good_init cmd GI) Hok Hp) as [E1 _]. fold s in E1.
  assert (HG : Good cmd GI s).
  { rewrite E1. apply (good_hist cmd GI (gl_wf_spec g y Hwf Hy Hfr _) Hti h _ (good_init cmd GI) Hok). }
  destruct (ybuild_ff_sources s T HG Hs HT) as [st1 [Hff [_ [_ Hb]]]]. rewrite H1 in Hff. inversion Hff; subst st1.
  pose proof (logsound_build cmd GI (gl_wf_spec g y Hwf Hy Hfr _) Hti s T st' HG Hb) as HG'.
  pose proof (srcs_present_build g y Hwf Hy Hfr Hti cmd s T st' HG Hb Hs) as Hs'.
  destruct (ybuild_ff_sources st' T HG' Hs' HT) as [st2 [Hff2 [_ [_ Hb2]]]].
  rewrite (C02_second_build_idle cmd GI (gl_wf_spec g y Hwf Hy Hfr _) (gl_wf_graph g y Hwg Hy _) Hfi Hti s T st' HG Hnip Hb) in Hb2.
  inversion Hb2; subst st2. exact Hff2.
Qed.

End Sources.
End Premises.

(* without any premise: histories of a manifest whose dyndep files are all sources are the same for the two
   CleanNode-faithful invocations *)
Theorem hist_ff_eq_f_sources cmd g y : all_dd_sources g y = true ->
  forall h st, yrun_hist_ff cmd g y st h = yrun_hist_f cmd g y st h.
Proof.
  intros Hall. induction h as [|x h IH]; intros st; [reflexivity|].
  cbn [yrun_hist_ff yrun_hist_f fold_left].
  assert (E : yapply_step_ff cmd g y st x = yapply_step_f cmd g y st x).
  { destruct x as [n c|n|e h0|T]; try reflexivity. cbn [yapply_step_ff yapply_step_f].
    rewrite <- (ff_eq_f_nopending cmd g y st T (no_pending_all y _ (scan_loads_sources g y st Hall))).
    destruct (ybuild_ff cmd g y st T); reflexivity. }
  rewrite E. apply IH.
Qed.

(* ================================================================== Part D: full statements, what is proved, refutations *)
(* [ybuild_ff] against [ybuild_f] over histories; the switches: the documented always-dirty case excluded /
   every dyndep file a source *)
Definition C11_ff_eq_f_full (nip_excluded sources_only : bool) : Prop :=
  forall (cmd : edge -> N -> snapshot -> node -> content) (g : graph) (y : dyninfo),
    wf_spec g -> wf_graph g -> wf_y g y -> frag_ABY g y = true ->
    frag_AB (inline_y g y) = true -> topo_ordered (inline_y g y) = true ->
    dd_ins_ordered g y = true -> no_late_restat g y = true ->
    (nip_excluded = true -> no_inputless_phony (inline_y g y) = true) ->
    (sources_only = true -> all_dd_sources g y = true) ->
  forall h : list hstep,
    hist_ok (inline_y g y) h = true ->
    hist_present_y cmd g y (init_hstate (inline_y g y)) h = true ->
    h_trace (yrun_hist_ff cmd g y (init_hstate (inline_y g y)) h)
    = h_trace (yrun_hist_f cmd g y (init_hstate (inline_y g y)) h).

(* PROVED: every dyndep file a source (then no load happens in the middle of a build), with or without
   input-less phony statements.
   NOT PROVED: [C11_ff_eq_f_full true false] (a dyndep file produced and loaded during the build).  Missing: an
   invariant in the style of HistFaithfulProofs.CInv (flags, cached mtimes and want map tied to the current disk)
   for a graph that CHANGES in the middle of the build, and ScanProofs-level facts about RecomputeNodeDirty on an
   edge that is visited a second time (SInv describes pristine unvisited edges only).  The vm_compute Examples
   (ExFF: the real replay, the produced-file project, the late-restat project) exercise exactly this case. *)
Theorem C11_ff_eq_f_partial_proof : forall nip, C11_ff_eq_f_full nip true.
Proof.
  intros nip cmd g y _ _ _ _ _ _ _ _ _ Hall h _ _.
  rewrite (hist_ff_eq_f_sources cmd g y (Hall eq_refl) h). reflexivity.
Qed.

Lemma ExAlwaysDD_wf_spec : wf_spec ExAlwaysDD.g.
Proof.
  split; [|split].
  - intros e o Ho. destruct e as [|[|[|e]]]; cbn in Ho; try (destruct Ho as [<-|[]]; reflexivity); destruct Ho.
  - intros n e Hp. destruct n as [|[|[|[|n]]]]; cbn in Hp; try discriminate;
      inversion Hp; subst; cbn; left; reflexivity.
  - intros e Hd. exfalso. apply Hd. destruct e as [|[|[|e]]]; reflexivity.
Qed.

Lemma ExAlwaysDD_wf_graph : wf_graph ExAlwaysDD.g.
Proof.
  intros n e Hp. destruct n as [|[|[|[|n]]]]; cbn in Hp; try discriminate; inversion Hp; subst; cbn; lia.
Qed.

Lemma ExAlwaysDD_wf_y : wf_y ExAlwaysDD.g ExAlwaysDD.y.
Proof. split; [intros e n Hn; destruct Hn|intros n e Hp; discriminate]. Qed.

(* REFUTED without [no_inputless_phony]: below an always-dirty statement [ybuild_f]'s fresh re-scan re-wants what
   Plan::CleanNode had pruned; ninja ([ybuild_ff]) does not *)
Theorem C11_ff_eq_f_nip_refuted_proof : ~ C11_ff_eq_f_full false false.
Proof.
  intros H.
  specialize (H ExAlwaysDD.cmd ExAlwaysDD.g ExAlwaysDD.y ExAlwaysDD_wf_spec ExAlwaysDD_wf_graph ExAlwaysDD_wf_y).
  specialize (H eq_refl eq_refl eq_refl eq_refl eq_refl
                (fun F => False_ind _ (Bool.diff_false_true F)) (fun F => False_ind _ (Bool.diff_false_true F))).
  specialize (H ExAlwaysDD.hist eq_refl eq_refl). revert H. vm_compute. discriminate.
Qed.

(* the two minimal cases of the tie, as theorems: commands per build, most recent first *)
Theorem C11_ff_minimal_cases_proof :
  (* build always: phony / build dd: mkdd always (restat) / build out: cc src | dd (dyndep = dd) *)
  ExReplay.runs (yapply_step_ff ExAlwaysDD.cmd ExAlwaysDD.g ExAlwaysDD.y) (init_hstate ExAlwaysDD.g) ExAlwaysDD.hist
    = [[2; 1]; [1]; [1]] /\
  ExReplay.runs (yapply_step_f ExAlwaysDD.cmd ExAlwaysDD.g ExAlwaysDD.y) (init_hstate ExAlwaysDD.g) ExAlwaysDD.hist
    = [[2; 1]; [2; 1]; [2; 1]] /\
  (* ... / build gen: r always (restat) / build dd: mkdd gen / build out: cc src | dd: the producer of dd is pruned,
     finished through EdgeMaybeReady, and the file IS loaded *)
  ExReplay.runs (yapply_step_ff ExPrunedProducer.cmd ExPrunedProducer.g ExPrunedProducer.y)
                (init_hstate ExPrunedProducer.g) ExPrunedProducer.hist = [[3; 2; 1]; [1]; [1]] /\
  ExReplay.runs (yapply_step_f ExPrunedProducer.cmd ExPrunedProducer.g ExPrunedProducer.y)
                (init_hstate ExPrunedProducer.g) ExPrunedProducer.hist = [[3; 2; 1]; [3; 2; 1]; [3; 2; 1]].
Proof. vm_compute. repeat split; reflexivity. Qed.

(* the failing load: the producer of the dyndep file has run, its output is written, it has NO log entry, and it
   runs again once the missing input exists *)
Theorem C11_ff_failing_load_proof :
  match ybuild_ff ExFailingLoad.cmd ExFailingLoad.g ExFailingLoad.y ExFailingLoad.st0 [2],
        ybuild_f ExFailingLoad.cmd ExFailingLoad.g ExFailingLoad.y ExFailingLoad.st0 [2] with
  | FFailed sf, YFailed sy =>
    h_trace sf = [0] /\ h_trace sy = [0] /\ content_of sf 1 = content_of sy 1 /\ content_of sf 1 <> None /\
    h_blog sf 1 = None /\ h_blog sy 1 <> None
  | _, _ => False
  end /\
  ExReplay.runs (yapply_step_ff ExFailingLoad.cmd ExFailingLoad.g ExFailingLoad.y) (init_hstate ExFailingLoad.g)
                ExFailingLoad.hist = [[0]; [1; 0]; []] /\
  ExReplay.runs (yapply_step_f ExFailingLoad.cmd ExFailingLoad.g ExFailingLoad.y) (init_hstate ExFailingLoad.g)
                ExFailingLoad.hist = [[0]; [1]; []].
Proof. vm_compute. repeat split; try reflexivity; discriminate. Qed.

(* a produced dyndep file loaded in the middle of the build (ExY, the real replay ExReplay, the late-restat project):
   the three invocations run the same commands build for build *)
Theorem C11_ff_midbuild_examples_proof :
  (let sf := yrun_hist_ff ExY.cmd ExY.g ExY.y (init_hstate (inline_y ExY.g ExY.y)) ExY.hist in
   let sy := yrun_hist ExY.cmd ExY.g ExY.y (init_hstate (inline_y ExY.g ExY.y)) ExY.hist in
   let si := run_hist ExY.cmd (inline_y ExY.g ExY.y) (init_hstate (inline_y ExY.g ExY.y)) ExY.hist in
   h_trace sf = h_trace sy /\ h_trace sf = h_trace si /\ ExY.contents sf = ExY.contents si /\
   h_clock sf = h_clock si /\ map (h_blog sf) ExY.nodes = map (h_blog si) ExY.nodes) /\
  ExReplay.runs (yapply_step_ff ExReplay.cmd ExReplay.g ExReplay.y) (init_hstate ExReplay.g) ExReplay.hist
  = ExReplay.runs (yapply_step ExReplay.cmd ExReplay.g ExReplay.y) (init_hstate ExReplay.g) ExReplay.hist /\
  ExReplay.runs (yapply_step_ff ExLate.cmd ExLate.g ExLate.y) (init_hstate ExLate.g) ExLate.hist
  = ExReplay.runs (yapply_step ExLate.cmd ExLate.g ExLate.y) (init_hstate ExLate.g) ExLate.hist.
Proof. vm_compute. repeat split; reflexivity. Qed.

(* ================================================================== bounded exhaustive comparison *)
Lemma list_eqb_eq {A : Type} (f : A -> A -> bool) : (forall x z, f x z = true -> x = z) ->
  forall a b, list_eqb f a b = true -> a = b.
Proof.
  intros Hf. induction a as [|x a IH]; intros [|z b] H; cbn [list_eqb] in H; try discriminate; [reflexivity|].
  apply andb_split in H. destruct H as [H1 H2]. rewrite (Hf x z H1), (IH b H2). reflexivity.
Qed.

Lemma optN_eqb_eq a b : optN_eqb a b = true -> a = b.
Proof.
  destruct a as [x|], b as [z|]; cbn [optN_eqb]; intros H; try discriminate; [|reflexivity].
  apply N.eqb_eq in H. congruence.
Qed.

Lemma blog_eqb_eq a b : blog_eqb a b = true -> a = b.
Proof.
  destruct a as [[x m]|], b as [[z m']|]; cbn [blog_eqb]; intros H; try discriminate; [|reflexivity].
  apply andb_split in H. destruct H as [H1 H2]. apply N.eqb_eq in H1. apply Z.eqb_eq in H2. congruence.
Qed.

(* what [agree] compares *)
Definition obs_eq (nodes : list node) (a b : hstate) : Prop :=
  h_trace a = h_trace b /\ h_clock a = h_clock b /\
  map (content_of a) nodes = map (content_of b) nodes /\ map (h_blog a) nodes = map (h_blog b) nodes.

Lemma agree_obs nodes a b : agree nodes a b = true -> obs_eq nodes a b.
Proof.
  unfold agree. intros H. apply andb_split in H. destruct H as [H H4]. apply andb_split in H. destruct H as [H H3].
  apply andb_split in H. destruct H as [H1 H2]. split; [|split; [|split]].
  - apply (list_eqb_eq Nat.eqb (fun x z Hx => proj1 (Nat.eqb_eq x z) Hx) _ _ H1).
  - apply Z.eqb_eq. exact H2.
  - apply (list_eqb_eq optN_eqb optN_eqb_eq _ _ H3).
  - apply (list_eqb_eq blog_eqb blog_eqb_eq _ _ H4).
Qed.

Lemma check_sound nodes sa sb A : forall n a b, check nodes sa sb A n a b = true ->
  forall h, length h <= n -> (forall x, In x h -> In x A) ->
  obs_eq nodes (fold_left sa h a) (fold_left sb h b).
Proof.
  induction n as [|n IH]; intros a b H h Hl HA; cbn [check] in H; apply andb_split in H; destruct H as [H1 H2].
  - destruct h as [|x h]; [|cbn [length] in Hl; lia]. apply agree_obs. exact H1.
  - destruct h as [|x h]; [apply agree_obs; exact H1|]. cbn [fold_left].
    rewrite forallb_forall in H2. apply (IH _ _ (H2 x (HA x (or_introl eq_refl)))).
    + cbn [length] in Hl. lia.
    + intros z Hz. apply HA. right. exact Hz.
Qed.

(* EVERY history of at most 5 / 7 / 6 steps over the alphabets of HistDyndepFaithful.v: after every step [ybuild_ff]
   and [ybuild] (the invocation Properties_C11hist.v is about) have the same trace, clock, contents and log *)
Theorem C11_ff_bounded_proof :
  (forall h, length h <= 5 -> (forall x, In x h -> In x alpha_ExY) ->
     obs_eq ExY.nodes (yrun_hist_ff ExY.cmd ExY.g ExY.y (init_hstate ExY.g) h)
                      (yrun_hist ExY.cmd ExY.g ExY.y (init_hstate ExY.g) h)) /\
  (forall h, length h <= 7 -> (forall x, In x h -> In x alpha_ExLate) ->
     obs_eq [0; 1; 2; 3] (yrun_hist_ff ExLate.cmd ExLate.g ExLate.y (init_hstate ExLate.g) h)
                         (yrun_hist ExLate.cmd ExLate.g ExLate.y (init_hstate ExLate.g) h)) /\
  (forall h, length h <= 6 -> (forall x, In x h -> In x alpha_ExReplay) ->
     obs_eq [0; 1; 2; 3; 4; 5] (yrun_hist_ff ExReplay.cmd ExReplay.g ExReplay.y (init_hstate ExReplay.g) h)
                               (yrun_hist ExReplay.cmd ExReplay.g ExReplay.y (init_hstate ExReplay.g) h)).
Proof.
  split; [|split]; intros h Hl HA.
  - apply (check_sound ExY.nodes _ _ alpha_ExY 5 _ _); [vm_compute; reflexivity|exact Hl|exact HA].
  - apply (check_sound [0; 1; 2; 3] _ _ alpha_ExLate 7 _ _); [vm_compute; reflexivity|exact Hl|exact HA].
  - apply (check_sound [0; 1; 2; 3; 4; 5] _ _ alpha_ExReplay 6 _ _); [vm_compute; reflexivity|exact Hl|exact HA].
Qed.

(* ================================================================== the theorems, premises spelled out *)
Theorem C11_ff_eq_f_noload_proof :
  forall (cmd : edge -> N -> snapshot -> node -> content) (g : graph) (y : dyninfo) (st : hstate) (T : list node),
    no_pending y (scan_loads g y st) = true ->
    yres_of (ybuild_ff cmd g y st T) = ybuild_f cmd g y st T.
Proof. exact ff_eq_f_nopending. Qed.

Theorem C11_ff_allready_proof :
  forall (cmd : edge -> N -> snapshot -> node -> content) (g : graph) (y : dyninfo),
    wf_spec g -> wf_graph g -> wf_y g y -> frag_ABY g y = true ->
    frag_AB (inline_y g y) = true -> topo_ordered (inline_y g y) = true ->
    dd_ins_ordered g y = true -> no_inputless_phony (inline_y g y) = true -> no_late_restat g y = true ->
  forall (st : hstate) (T : list node),
    Good cmd (inline_y g y) st -> srcs_present g y st = true -> targets_produced g T = true ->
    scan_loads g y st = y_dds y ->
    exists st' : hstate,
      ybuild_ff cmd g y st T = FDone st' /\ ybuild_f cmd g y st T = YDone st' /\
      ybuild cmd g y st T = YDone st' /\ build cmd (inline_y g y) st T = Some st'.
Proof.
  intros cmd g y Hwf Hwg Hy Hfr Hfi Hti Hord Hnip Hnl st T.
  apply (ybuild_ff_allready g y Hwf Hwg Hy Hfr Hfi Hti Hord Hnip Hnl cmd st T).
Qed.

Theorem C11_equiv_ff_proof :
  forall (cmd : edge -> N -> snapshot -> node -> content) (g : graph) (y : dyninfo),
    wf_spec g -> wf_graph g -> wf_y g y -> frag_ABY g y = true ->
    frag_AB (inline_y g y) = true -> topo_ordered (inline_y g y) = true ->
    dd_ins_ordered g y = true -> no_inputless_phony (inline_y g y) = true -> all_dd_sources g y = true ->
  forall h : list hstep,
    hist_ok (inline_y g y) h = true ->
    hist_present_y cmd g y (init_hstate (inline_y g y)) h = true ->
    let sf := yrun_hist_ff cmd g y (init_hstate (inline_y g y)) h in
    sf = run_hist cmd (inline_y g y) (init_hstate (inline_y g y)) h /\
    sf = yrun_hist cmd g y (init_hstate (inline_y g y)) h /\
    sf = yrun_hist_f cmd g y (init_hstate (inline_y g y)) h /\
    forall T : list node, srcs_present g y sf = true -> targets_produced g T = true ->
      exists st' : hstate,
        ybuild_ff cmd g y sf T = FDone st' /\ build cmd (inline_y g y) sf T = Some st'.
Proof.
  intros cmd g y Hwf Hwg Hy Hfr Hfi Hti Hord Hnip Hall h Hok Hp sf.
  pose proof (all_src_no_late g y Hfr Hall) as Hnl.
  destruct (hist_equiv_ff g y Hwf Hwg Hy Hfr Hfi Hti Hord Hnip Hnl cmd Hall h _ (good_init cmd (inline_y g y)) Hok Hp)
    as [E1 E2].
  split; [exact E1|]. split; [exact E2|]. split; [apply (hist_ff_eq_f_sources cmd g y Hall)|].
  intros T Hs HT.
  assert (HG : Good cmd (inline_y g y) sf).
  { unfold sf. rewrite E1.
    apply (good_hist cmd (inline_y g y) (gl_wf_spec g y Hwf Hy Hfr _) Hti h _ (good_init cmd (inline_y g y)) Hok). }
  destruct (ybuild_ff_sources g y Hwf Hwg Hy Hfr Hfi Hti Hord Hnip Hnl cmd Hall sf T HG Hs HT) as [st' [A [_ [_ B]]]].
  exists st'. split; assumption.
Qed.

Theorem C11_C01_ff_proof :
  forall (cmd : edge -> N -> snapshot -> node -> content) (g : graph) (y : dyninfo),
    wf_spec g -> wf_graph g -> wf_y g y -> frag_ABY g y = true ->
    frag_AB (inline_y g y) = true -> topo_ordered (inline_y g y) = true ->
    dd_ins_ordered g y = true -> no_inputless_phony (inline_y g y) = true -> all_dd_sources g y = true ->
    (forall (e : edge) (h h' : N) (S : snapshot) (o : node),
       ei_generator (g_edge (inline_y g y) e) = true -> cmd e h S o = cmd e h' S o) ->
  forall (h : list hstep) (T : list node),
    hist_ok (inline_y g y) h = true ->
    hist_present_y cmd g y (init_hstate (inline_y g y)) h = true ->
    let s := yrun_hist_ff cmd g y (init_hstate (inline_y g y)) h in
    srcs_present g y s = true -> targets_produced g T = true ->
    exists st' : hstate,
      ybuild_ff cmd g y s T = FDone st' /\
      forall n : node, reach (inline_y g y) T n -> content_of st' n = clean_of cmd (inline_y g y) st' n.
Proof.
  intros cmd g y Hwf Hwg Hy Hfr Hfi Hti Hord Hnip Hall Hgen h T.
  apply (ff_C01 g y Hwf Hwg Hy Hfr Hfi Hti Hord Hnip (all_src_no_late g y Hfr Hall) cmd Hall Hgen h T).
Qed.

Theorem C11_C02_ff_proof :
  forall (cmd : edge -> N -> snapshot -> node -> content) (g : graph) (y : dyninfo),
    wf_spec g -> wf_graph g -> wf_y g y -> frag_ABY g y = true ->
    frag_AB (inline_y g y) = true -> topo_ordered (inline_y g y) = true ->
    dd_ins_ordered g y = true -> no_inputless_phony (inline_y g y) = true -> all_dd_sources g y = true ->
  forall (h : list hstep) (T : list node) (st' : hstate),
    hist_ok (inline_y g y) h = true ->
    hist_present_y cmd g y (init_hstate (inline_y g y)) h = true ->
    let s := yrun_hist_ff cmd g y (init_hstate (inline_y g y)) h in
    srcs_present g y s = true -> targets_produced g T = true ->
    ybuild_ff cmd g y s T = FDone st' -> ybuild_ff cmd g y st' T = FDone st'.
Proof.
  intros cmd g y Hwf Hwg Hy Hfr Hfi Hti Hord Hnip Hall h T st'.
  apply (ff_C02 g y Hwf Hwg Hy Hfr Hfi Hti Hord Hnip (all_src_no_late g y Hfr Hall) cmd Hall h T st').
Qed.
